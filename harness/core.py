"""Shared machinery of ./check : regeneration, Coq build, extraction, model / implementation runners,
verdict + evidence writing.  Everything runs offline; scratch files live in mkdtemp() directories that are removed."""
import fcntl
import glob
import hashlib
import json
import os
import random
import re
import shutil
import subprocess
import sys
import tempfile
import time

VERIF = os.path.dirname(os.path.dirname(os.path.abspath(__file__)))
REPO = os.environ.get("VERIF_REPO", "/repo")
PY = "/venv/bin/python"
COQ = os.path.join(VERIF, "coq")
ML = os.path.join(VERIF, "ml")
NCPU = min(16, os.cpu_count() or 4)

FORBIDDEN = re.compile(r"\b(Admitted|admit|Axiom|Parameter|Parameters|Conjecture|Axioms|Hypothesis|Hypotheses)\b|Unset Guard|bypass_check|Admit Obligations|-type-in-type|-impredicative-set")


class Lock:
    def __enter__(self):
        self.f = open(os.path.join(VERIF, ".build.lock"), "w")
        fcntl.flock(self.f, fcntl.LOCK_EX)
        return self

    def __exit__(self, *a):
        fcntl.flock(self.f, fcntl.LOCK_UN)
        self.f.close()


def sh(cmd, timeout=600, cwd=None, env=None, input=None):
    """run a command; returns (rc, stdout+stderr)"""
    try:
        p = subprocess.run(cmd, shell=isinstance(cmd, str), cwd=cwd, env=env, input=input,
                           stdout=subprocess.PIPE, stderr=subprocess.STDOUT, text=True, timeout=timeout)
        return p.returncode, p.stdout
    except subprocess.TimeoutExpired as e:
        out = e.stdout or ""
        if isinstance(out, bytes):
            out = out.decode("utf-8", "replace")
        return 124, out + "\n<timeout after %ss>" % timeout


def impl_env():
    env = dict(os.environ)
    env["PYTHONPATH"] = REPO
    env["PYTHONHASHSEED"] = env.get("VERIF_HASHSEED", "0")
    env["VERIF_REPO"] = REPO
    env["PYTHONDONTWRITEBYTECODE"] = "1"
    return env


# ---------------------------------------------------------------- regeneration (translators)
GENERATORS = [
    # (name, script, outputs)
    ("upper", "gen/upper.py", ["coq/Gen/Upper.v"]),
    ("lex_table", "gen/lex_table.py", ["coq/Gen/LexTable.v", "coq/Gen/lextable.json"]),
    ("schema", "gen/schema.py", ["coq/Gen/Schema.v"]),
    ("static", "gen/static.py", ["coq/Gen/Static.v"]),
    ("flow", "gen/flow.py", ["coq/Gen/Flow.v"]),
    ("frame", "gen/frame.py", ["coq/Gen/Frame.v"]),
]


def regen(names=None):
    """run the translators against REPO's working tree. returns list of (name, ok, message)"""
    res = []
    for name, script, outs in GENERATORS:
        if names is not None and name not in names:
            continue
        cmd = [PY, os.path.join(VERIF, script)] + [os.path.join(VERIF, o) for o in outs]
        rc, out = sh(cmd, timeout=300, env=impl_env(), cwd=VERIF)
        res.append((name, rc == 0, out.strip()[-3000:]))
    return res


# ---------------------------------------------------------------- Coq build
def coq_files():
    with open(os.path.join(COQ, "_CoqProject")) as f:
        return [l.strip() for l in f if l.strip().endswith(".v")]


def ensure_makefile():
    mk = os.path.join(COQ, "Makefile")
    cp = os.path.join(COQ, "_CoqProject")
    if not os.path.exists(mk) or os.path.getmtime(mk) < os.path.getmtime(cp):
        rc, out = sh("coq_makefile -f _CoqProject -o Makefile", cwd=COQ, timeout=60)
        if rc != 0:
            raise RuntimeError("coq_makefile failed: " + out)


def coq_make(targets, timeout=1500):
    """full .vo build of the given targets (paths relative to coq/, '.v' or '.vo'). returns (ok, log)"""
    ensure_makefile()
    tg = [t[:-2] + ".vo" if t.endswith(".v") else t for t in targets]
    rc, out = sh(["make", "-j%d" % NCPU, "-k"] + tg, cwd=COQ, timeout=timeout)
    return rc == 0, out


def parse_coq_errors(log):
    """extract (file, line, message) of the errors in a make log"""
    errs = []
    cur = None
    for line in log.splitlines():
        m = re.match(r'File "\./?([^"]+)", line (\d+), characters', line)
        if m:
            cur = [m.group(1), int(m.group(2)), ""]
            continue
        if cur is not None:
            if line.startswith("Error") or cur[2]:
                cur[2] += line + " "
                if len(cur[2]) > 600 or line.strip() == "":
                    errs.append(tuple(cur))
                    cur = None
            elif line.startswith("Warning"):
                cur = None
    if cur is not None and cur[2]:
        errs.append(tuple(cur))
    return errs


def enclosing_statement(vfile, line):
    """name of the Theorem/Lemma/... that contains `line` of coq/<vfile>"""
    try:
        with open(os.path.join(COQ, vfile), encoding="utf-8") as f:
            lines = f.readlines()
    except OSError:
        return None
    for i in range(min(line, len(lines)) - 1, -1, -1):
        m = re.match(r"\s*(Theorem|Lemma|Corollary|Example|Fact|Remark|Proposition|Definition|Fixpoint)\s+([A-Za-z0-9_']+)", lines[i])
        if m:
            return m.group(2)
    return None


def cone(vfile):
    """the .v files Props/<x>.v depends on (transitively), via coqdep"""
    ensure_makefile()
    files = coq_files()
    rc, out = sh(["coqdep", "-f", "_CoqProject"] + [], cwd=COQ, timeout=120)
    deps = {}
    for line in out.splitlines():
        if ":" not in line:
            continue
        lhs, rhs = line.split(":", 1)
        tg = [t for t in lhs.split() if t.endswith(".vo")]
        if not tg:
            continue
        src = tg[0][:-1]
        deps[src] = [d[:-1] for d in rhs.split() if d.endswith(".vo")]
    seen = set()
    todo = [vfile]
    while todo:
        f = todo.pop()
        if f in seen:
            continue
        seen.add(f)
        todo.extend(deps.get(f, []))
    return sorted(seen)


STMT = re.compile(r"^\s*(Theorem|Lemma|Corollary|Example|Fact|Remark|Proposition)\s+([A-Za-z0-9_']+)", re.M)


def count_obligations(files):
    n = 0
    names = []
    for f in files:
        try:
            txt = open(os.path.join(COQ, f), encoding="utf-8").read()
        except OSError:
            continue
        for m in STMT.finditer(txt):
            n += 1
            names.append(f + ":" + m.group(2))
    return n, names


def strip_comments(txt):
    out = []
    depth = 0
    i = 0
    while i < len(txt):
        if txt.startswith("(*", i):
            depth += 1
            i += 2
        elif txt.startswith("*)", i) and depth > 0:
            depth -= 1
            i += 2
        else:
            if depth == 0:
                out.append(txt[i])
            i += 1
    return "".join(out)


def forbidden_scan(files):
    """grep the cone for axioms / admits / switched-off checks (comments stripped)"""
    bad = []
    for f in files:
        try:
            txt = strip_comments(open(os.path.join(COQ, f), encoding="utf-8").read())
        except OSError:
            continue
        # section Variables/Hypotheses are allowed inside sections only: check crudely that every
        # Variable/Hypothesis/Context occurs between Section ... End
        for m in FORBIDDEN.finditer(txt):
            word = m.group(0)
            if word in ("Hypothesis", "Hypotheses"):
                pre = txt[:m.start()]
                if len(re.findall(r"^\s*Section\s", pre, re.M)) > len(re.findall(r"^\s*End\s", pre, re.M)):
                    continue
            bad.append((f, word))
        for m in re.finditer(r"^\s*(Variable|Variables|Context)\b", txt, re.M):
            pre = txt[:m.start()]
            if len(re.findall(r"^\s*Section\s", pre, re.M)) <= len(re.findall(r"^\s*End\s", pre, re.M)):
                bad.append((f, m.group(1) + " outside a section"))
    return bad


def assumptions_of(propfile):
    """re-run coqc on Props/<x>.v (dependencies are built) and collect the Print Assumptions output"""
    rc, out = sh(["coqc"] + all_q() + [propfile], cwd=COQ, timeout=900)
    blocks = []
    cur = None
    for line in out.splitlines():
        if line.startswith("Closed under the global context"):
            blocks.append("Closed under the global context")
            cur = None
        elif line.startswith("Axioms:"):
            cur = ["Axioms:"]
            blocks.append(cur)
        elif cur is not None:
            if line.strip() == "":
                cur = None
            else:
                cur.append(line.rstrip())
    res = []
    for b in blocks:
        res.append(b if isinstance(b, str) else " ".join(b))
    return rc == 0, res, out


def extra_q():
    qs = []
    with open(os.path.join(COQ, "_CoqProject")) as f:
        for l in f:
            l = l.strip()
            if l.startswith("-Q"):
                parts = l.split()
                if parts[1] not in ("Base", "Gen", "Lex", "Props", "Extract"):
                    qs += ["-Q", parts[1], parts[2]]
    return qs


def all_q():
    qs = []
    with open(os.path.join(COQ, "_CoqProject")) as f:
        for l in f:
            l = l.strip()
            if l.startswith("-Q"):
                parts = l.split()
                qs += ["-Q", os.path.join(COQ, parts[1]), parts[2]]
    return qs


# ---------------------------------------------------------------- extraction + modelrun
def _digest(paths):
    h = hashlib.sha256()
    for p in sorted(paths):
        try:
            h.update(p.encode())
            h.update(open(p, "rb").read())
        except OSError:
            h.update(b"<missing>")
    return h.hexdigest()


def build_modelrun():
    """(re)build ml/modelrun when the models it is extracted from, or main.ml, changed. returns (ok, log)"""
    deps = [os.path.join(COQ, f) for f in cone("Extract/Extraction.v")] + [os.path.join(ML, "main.ml")]
    dg = _digest(deps)
    stamp = os.path.join(ML, ".stamp")
    if os.path.exists(os.path.join(ML, "modelrun")) and os.path.exists(stamp) and open(stamp).read() == dg:
        return True, "up to date"
    vo = os.path.join(COQ, "Extract", "Extraction.vo")
    if os.path.exists(vo):
        os.remove(vo)   # force re-extraction (the .ml files are a side effect of compiling this file)
    ok, log = coq_make(["Extract/Extraction.v"])
    if not ok:
        return False, log
    for f in ("modelx.ml",):
        shutil.copy(os.path.join(COQ, f), os.path.join(ML, f))
    for f in glob.glob(os.path.join(COQ, "modelx.ml*")) + glob.glob(os.path.join(ML, "modelx.mli")):
        os.remove(f)
    rc, out2 = sh("ocamlfind ocamlopt -w -a modelx.ml main.ml -o modelrun", cwd=ML, timeout=600)
    if rc != 0:
        return False, log + out2
    open(stamp, "w").write(dg)
    return True, out2


def run_model(lines, timeout=900):
    """answers of the extracted model, one per request line"""
    return _run_batch([os.path.join(ML, "modelrun")], lines, timeout, env=None, big_stack=True)


def run_impl(lines, flags=7, timeout=900, extra_args=()):
    return _run_batch([PY, os.path.join(VERIF, "harness", "impl_runner.py"), "--flags", str(flags)] + list(extra_args),
                      lines, timeout, env=impl_env())


def _big_stack():
    # the extracted model is not tail-recursive everywhere (a 1500-item list is a 1500-deep OCaml recursion with large frames)
    import resource
    try:
        hard = resource.getrlimit(resource.RLIMIT_STACK)[1]
        resource.setrlimit(resource.RLIMIT_STACK, (hard, hard))
    except (ValueError, OSError):
        pass


def _run_batch(cmd, lines, timeout, env, big_stack=False):
    if not lines:
        return []
    nshards = min(NCPU, max(1, len(lines) // 400))
    shards = [lines[i::nshards] for i in range(nshards)]
    procs = []
    tmpd = tempfile.mkdtemp(prefix="verif_batch_")
    try:
        for i, sl in enumerate(shards):
            inp = os.path.join(tmpd, "in%d" % i)
            outp = os.path.join(tmpd, "out%d" % i)
            with open(inp, "w", encoding="utf-8") as f:
                f.write("\n".join(sl) + "\n")
            fi = open(inp, "rb")
            fo = open(outp, "wb")
            procs.append((subprocess.Popen(cmd, stdin=fi, stdout=fo, stderr=subprocess.PIPE, env=env, preexec_fn=_big_stack if big_stack else None), fi, fo, outp, sl))
        outs = [None] * len(lines)
        deadline = time.time() + timeout
        for i, (p, fi, fo, outp, sl) in enumerate(procs):
            try:
                _, err = p.communicate(timeout=max(1, deadline - time.time()))
            except subprocess.TimeoutExpired:
                p.kill()
                p.communicate()
                err = b"<timeout>"
            fi.close()
            fo.close()
            with open(outp, encoding="utf-8", errors="replace") as f:
                got = f.read().split("\n")
            if got and got[-1] == "":
                got.pop()
            for j in range(len(sl)):
                if j < len(got):
                    outs[i + j * nshards] = got[j]
                elif j == len(got):
                    tail = (err or b"").decode("utf-8", "replace").strip().splitlines()
                    outs[i + j * nshards] = "DIED " + (tail[-1] if tail else "rc=%s" % p.returncode)
                else:
                    outs[i + j * nshards] = "NOT-RUN"
        return outs
    finally:
        shutil.rmtree(tmpd, ignore_errors=True)


# ---------------------------------------------------------------- known findings
def known_findings(prop=None):
    path = os.path.join(VERIF, "known_findings.json")
    if not os.path.exists(path):
        return []
    data = json.load(open(path, encoding="utf-8"))
    return [k for k in data.get("findings", []) if prop is None or prop in k.get("properties", [k.get("property")])]


# ---------------------------------------------------------------- result of one check run
class Run:
    def __init__(self, prop, tier, seed):
        self.prop = prop
        self.tier = tier
        self.seed = seed
        self.rng = random.Random(seed * 1000003 + int(hashlib.sha256(prop.encode()).hexdigest()[:8], 16))
        self.t0 = time.time()
        self.violations = []        # (replay_path, note)
        self.known_lines = []
        self.cov = {"evaluations": 0, "distinct_nontrivial": 0, "samples": [], "obligations": 0, "discharged": 0,
                    "checker_cmd": "", "trusted_base": [], "streams": {}, "rule": ""}
        self.assumptions = []
        self.notes = []
        self.broken = []            # names of theorems / ties that no longer check

    def budget(self, quick, thorough):
        return quick if self.tier == "quick" else thorough

    def elapsed(self):
        return time.time() - self.t0

    def add_stream(self, name, evaluations, distinct_nontrivial, samples, extra=None):
        s = self.cov["streams"].setdefault(name, {"evaluations": 0, "distinct_nontrivial": 0})
        s["evaluations"] += evaluations
        s["distinct_nontrivial"] += distinct_nontrivial
        if extra:
            s.update(extra)
        self.cov["evaluations"] += evaluations
        self.cov["distinct_nontrivial"] += distinct_nontrivial
        for x in samples:
            if len(self.cov["samples"]) < 12:
                self.cov["samples"].append(x)

    def save_replay(self, obj):
        d = os.path.join(VERIF, "corpus", self.prop)
        os.makedirs(d, exist_ok=True)
        obj = dict(obj)
        obj["property"] = self.prop
        blob = json.dumps(obj, sort_keys=True, ensure_ascii=True, indent=1)
        name = hashlib.sha256(blob.encode()).hexdigest()[:16] + ".json"
        path = os.path.join(d, name)
        with open(path, "w", encoding="utf-8") as f:
            f.write(blob + "\n")
        return path

    def violation(self, replay_obj, no_input=False):
        path = self.save_replay(replay_obj)
        self.violations.append((path, no_input))
        print("VIOLATION property=%s replay=%s%s" % (self.prop, path, " no-failing-input-found" if no_input else ""), flush=True)

    def known(self, what):
        line = "KNOWN-FINDING: property=%s %s" % (self.prop, what)
        if line not in self.known_lines:
            self.known_lines.append(line)
            print(line, flush=True)

    def finish(self):
        ev = {
            "property_id": self.prop, "tier": self.tier, "seed": self.seed, "level": "proof",
            "coverage": self.cov, "assumptions": self.assumptions, "wall_s": round(self.elapsed(), 2),
            "violations": len(self.violations), "known_findings_reported": self.known_lines,
            "broken_obligations": self.broken, "notes": self.notes,
        }
        if not self.cov["samples"]:
            self.cov["samples"] = ["<no case explored>"]
        d = os.path.join(VERIF, "evidence")
        os.makedirs(d, exist_ok=True)
        tmp = os.path.join(d, ".%s.tmp.%d" % (self.prop, os.getpid()))
        with open(tmp, "w", encoding="utf-8") as f:
            json.dump(ev, f, indent=1, ensure_ascii=True)
        os.replace(tmp, os.path.join(d, self.prop + ".json"))
        return 1 if self.violations else 0


TRUSTED_BASE_COMMON = [
    "Coq 8.16.1 kernel incl. vm_compute (no native_compute)",
    "no axioms: every Props theorem prints 'Closed under the global context' (collected per run, see coverage.print_assumptions)",
    "translators gen/*.py (fail-closed; observe /repo's built tables by calling the real handle())",
    "extraction to OCaml with ExtrOcamlBasic only (bool/option/unit/list/prod/sumbool/sumor, andb/orb inlined); N/nat/positive stay Coq datatypes; ml/main.ml driver",
    "correspondence harness harness/*.py (differential run of extracted model vs /repo under /venv/bin/python, PYTHONPATH=/repo, PYTHONHASHSEED=0)",
]


def proof_stage(run, propfile, extra_targets=()):
    """steps 1-2 of the verdict logic: regenerate, build the cone of Props/<prop>.v, scan, collect assumptions.
    returns True when every obligation of the cone is discharged."""
    ok_all = True
    with Lock():
        for name, ok, msg in regen():
            if not ok:
                ok_all = False
                run.broken.append({"kind": "translator", "name": name, "message": msg[-800:]})
        files = cone(propfile)
        okb, log = coq_make([propfile] + list(extra_targets))
        nobl, names = count_obligations(files)
        run.cov["obligations"] = nobl
        if not okb:
            ok_all = False
            errs = parse_coq_errors(log)
            failed_files = set()
            for f, line, msg in errs:
                failed_files.add(f)
                run.broken.append({"kind": "proof", "file": f, "line": line,
                                   "statement": enclosing_statement(f, line), "message": msg[:400]})
            if not errs:
                run.broken.append({"kind": "build", "message": log[-1500:]})
            # obligations in files that did not compile are not discharged
            bad_files = set(failed_files)
            nd, _ = count_obligations([f for f in files if f not in bad_files and os.path.exists(os.path.join(COQ, f[:-2] + ".vo"))])
            run.cov["discharged"] = nd
        else:
            run.cov["discharged"] = nobl
            bad = forbidden_scan(files)
            if bad:
                ok_all = False
                run.broken.append({"kind": "forbidden", "items": bad})
            oka, assum, _ = assumptions_of(propfile)
            run.cov["print_assumptions"] = assum
            if not oka or not assum or any(a != "Closed under the global context" for a in assum):
                ok_all = False
                run.broken.append({"kind": "assumptions", "items": assum})
        okm, logm = build_modelrun()
        if not okm:
            run.broken.append({"kind": "extraction", "message": logm[-1500:]})
            ok_all = False
    run.cov["checker_cmd"] = "regenerate coq/Gen/*.v from /repo; make -j%d %s (coqc 8.16.1, full .vo build); Print Assumptions under every Props theorem" % (NCPU, propfile[:-2] + ".vo")
    run.cov["trusted_base"] = list(TRUSTED_BASE_COMMON)
    run.cov["cone_files"] = files
    return ok_all
