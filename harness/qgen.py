"""Structure-aware query generator: builds a SELECT together with what the analysers must report for it (tables in textual
order at all levels / per FROM / per JOIN; columns per clause of the top level with aliases and ordinals resolved).  It is written
against the property text, independently of the models."""


class Q:
    def __init__(self, rng, depth, force_with=False):
        self.r = rng
        self.depth = depth
        self.force_with = force_with
        self.tables_all = []       # (schema, table) in textual order, all levels
        self.tables_from = []      # tables reachable through the top-level FROM clause
        self.tables_join = []
        self.cols = {k: [] for k in ("select", "join", "where", "group_by", "having", "order_by")}
        self.items = []            # (alias or None, [cols])

    def pick(self, xs):
        return self.r.choice(xs)

    all = None

    def all_refs(self):
        """the union analysis: clause after clause within a branch, branch after branch"""
        if self.all is not None:
            return self.all
        out = []
        for c in ("select", "join", "where", "group_by", "having", "order_by"):
            out += self.cols[c]
        return out

    def col(self, quals):
        """a column reference and what it must be reported as"""
        name = self.pick(["a", "b", "c", "d", "k", "amount", "user_id"])
        if quals and self.r.random() < 0.5:
            q = self.pick(quals)
            if self.r.random() < 0.06:
                name = self.pick(["CURRENT_DATE", "CURRENT_TIMESTAMP", "CURRENT_TIME"])      # a real column of that name: qualified, hence not the variable
            return "%s.%s" % (q, name if self.r.random() < 0.8 else "`%s`" % name), [(q, name, None)]
        return (name if self.r.random() < 0.85 else "`%s`" % name), [(None, name, None)]

    def table_ref(self, sink):
        """a base table with optional schema / alias; sink lists collect (schema, table)"""
        t = self.pick(["t1", "t2", "orders", "users", "ev", "ev.v2"])
        s = self.pick([None, None, "db", "ods", "my-project.sales"])
        if "." in t and s is None:
            s = "dw"                                   # a dotted table part needs its own quotes and a schema part
        for lst in sink:
            lst.append((s, t))
        alias = self.pick([None, None, None, "x1", "y2", "b", "X"])
        if s is None:
            name = t if self.r.random() < 0.8 else "`%s`" % t
        elif "." in s or "." in t or "-" in s:
            name = "%s.%s" % ("`%s`" % s if ("." in s or "-" in s or self.r.random() < 0.3) else s, "`%s`" % t if ("." in t or self.r.random() < 0.3) else t)
        else:
            name = self.pick(["%s.%s", "`%s`.`%s`", "`%s.%s`", "%s.`%s`"]) % (s, t)
        if "." in t and alias is None:
            alias = "x1"                               # the visible name of a dotted table is given by an alias here
        text = name + (" AS " + alias if alias and self.r.random() < 0.5 else (" " + alias if alias else ""))
        return text, alias or t

    def sub(self, sink):
        """a nested query; its tables are reported by the all-levels analysis, its columns never at this level"""
        q = Q(self.r, self.depth - 1)
        text = q.build(top=False)
        for lst in sink:
            lst.extend(q.tables_all)
        return text

    def expr(self, quals, allow_sub=True):
        """an expression and the references it contributes to its clause"""
        k = self.r.random()
        if k < 0.35:
            return self.col(quals)
        if k < 0.5:
            a, ca = self.col(quals)
            b, cb = self.col(quals)
            return "%s %s %s" % (a, self.pick(["+", "-", "*", "/"]), b), ca + cb
        if k < 0.6:
            a, ca = self.col(quals)
            return "%s(%s, 1)" % (self.pick(["f", "coalesce", "nvl"]), a), ca
        if k < 0.68:
            f = self.pick(["count(1)", "COUNT(*)", "sum(1)"])
            return f, ([(None, "*", None)] if f == "COUNT(*)" else [(None, None, None)])
        if k < 0.76:
            a, ca = self.col(quals)
            return "%s(%s)" % (self.pick(["sum", "max", "MIN"]), a), ca
        if k < 0.82:
            return self.pick(["CURRENT_DATE", "CURRENT_TIMESTAMP", "1", "'x'"]), []
        if k < 0.86:
            # window functions: arguments, PARTITION BY and ORDER BY items are read by the clause; an integer in the window's ORDER BY is a constant
            a, ca = self.col(quals)
            b, cb = self.col(quals)
            j = self.r.random()
            if j < 0.4:
                return "ROW_NUMBER() OVER (PARTITION BY %s ORDER BY 1)" % a, ca
            if j < 0.7:
                return "sum(%s) OVER (ORDER BY %s DESC, 2)" % (a, b), ca + cb
            return "max(%s) OVER (PARTITION BY %s)" % (a, b), ca + cb
        if k < 0.92 and allow_sub and self.depth > 0:
            return "(" + self.sub([self.tables_all]) + ")", []
        a, ca = self.col(quals)
        return "CASE WHEN %s > 1 THEN %s ELSE 0 END" % (a, a), ca + ca

    def cond(self, quals):
        parts, cols = [], []
        for _ in range(self.pick([1, 1, 2])):
            k = self.r.random()
            if k < 0.55:
                a, ca = self.expr(quals, allow_sub=False)
                b, cb = self.expr(quals)
                parts.append("%s %s %s" % (a, self.pick(["=", ">", "<=", "<>"]), b))
                cols += ca + cb
            elif k < 0.75 and self.depth > 0:
                a, ca = self.col(quals)
                parts.append("%s %sIN (%s)" % (a, self.pick(["", "NOT "]), self.sub([self.tables_all])))
                cols += ca
            elif k < 0.85 and self.depth > 0:
                parts.append("EXISTS (%s)" % self.sub([self.tables_all]))
            else:
                a, ca = self.col(quals)
                parts.append("%s IS NOT NULL" % a)
                cols += ca
        return (" %s " % self.pick(["AND", "OR"])).join(parts), cols

    def build(self, top=True):
        r = self.r
        # count(*) is reported as the wildcard `*`, count(1) as one anonymous reference: handled below per item text
        with_text = ""
        if top and self.depth > 0 and (self.force_with or r.random() < 0.25):
            q = Q(r, self.depth - 1)
            with_text = "WITH w AS (%s) " % q.build(top=False)
            self.tables_all.extend(q.tables_all)
        # FROM first (names are needed for qualifiers) but it is written after the select list: remember positions
        from_tables_all, from_texts, quals = [], [], []
        sel_tables = []
        n_from = self.pick([1, 1, 2])
        for _ in range(n_from):
            if self.depth > 0 and r.random() < 0.2:
                al = self.pick(["d1", "d2"])
                from_texts.append("(" + self.sub([from_tables_all, self.tables_from]) + ") " + al)
                quals.append(al)
            else:
                t, q = self.table_ref([from_tables_all, self.tables_from])
                from_texts.append(t)
                quals.append(q)
        join_texts, join_tables_all, join_cols = [], [], []
        for _ in range(self.pick([0, 0, 1, 2])):
            if self.depth > 0 and r.random() < 0.2:
                al = self.pick(["j1", "j2"])
                jt = "(" + self.sub([join_tables_all, self.tables_join]) + ") " + al
                quals.append(al)
            else:
                jt, q = self.table_ref([join_tables_all, self.tables_join])
                quals.append(q)
            if not join_texts and " " not in from_texts[-1] and not from_texts[-1].startswith("(") and r.random() < 0.12:
                join_texts.append("NATURAL %s %s" % (self.pick(["JOIN", "LEFT JOIN"]), jt))      # no condition; the left table carries no alias
                continue
            c, cc = self.cond_simple(quals)
            if self.depth > 0 and r.random() < 0.15:
                a2, ca2 = self.col(quals)
                c += " AND %s IN (%s)" % (a2, self.sub([join_tables_all, self.tables_join]))     # read by the JOIN rule: reported with the JOIN tables
                cc = cc + ca2
            join_texts.append("%s %s ON %s" % (self.pick(["JOIN", "LEFT JOIN", "INNER JOIN", "LEFT OUTER JOIN"]), jt, c))
            join_cols += cc
        # select list
        item_texts = []
        twist = r.random() < 0.2        # one item is aliased like a base column that ANOTHER item reads: references to that other item resolve one step only
        for i in range(self.pick([2, 3]) if twist else self.pick([1, 2, 3])):
            e, ce = self.expr(quals)
            alias = self.pick([None, None, "al%d" % i])
            if twist and i == 0:
                e, ce, alias = "px9 + " + e, [(None, "px9", None)] + ce, "al0"
            elif twist and i == 1:
                alias = "px9"
            self.items.append((alias, ce))
            item_texts.append(e + (self.pick([" AS %s", " %s", " `%s`", " AS `%s`", " as %s"]) % alias if alias else ""))
            self.cols["select"] += ce
        if twist:
            # the library reads an unqualified name that equals a select alias as that alias in EVERY clause (documented on each analyser), one step deep:
            # item 0's own px9 is reported as what the item aliased px9 reads; a reference to al0 elsewhere is reported as item 0's raw references (px9 stays)
            i0 = self.cols["select"].index((None, "px9", None))
            self.cols["select"][i0:i0 + 1] = list(self.items[1][1])
        if r.random() < 0.15:
            q = self.pick(quals)
            item_texts.append(q + ".*")
            self.items.append((None, [(q, "*", None)]))
            self.cols["select"].append((q, "*", None))
        sel_tables = list(self.tables_all)          # tables of scalar sub-queries of the select list come first
        self.tables_all = sel_tables + from_tables_all + join_tables_all
        text = with_text + "SELECT " + ", ".join(item_texts) + " FROM " + ", ".join(from_texts)
        if join_texts:
            text += " " + " ".join(join_texts)
        self.cols["join"] = join_cols
        if r.random() < 0.6:
            c, cc = self.cond(quals)
            text += " WHERE " + c
            self.cols["where"] = cc
        if r.random() < 0.4:
            gs, gc = [], []
            for _ in range(self.pick([1, 2])):
                t, cc = self.ref_item(quals)
                gs.append(t)
                gc += cc
            text += " GROUP BY " + ", ".join(gs)
            self.cols["group_by"] = gc
            if r.random() < 0.5:
                c, cc = self.cond_simple(quals, with_alias=True)
                if self.depth > 0 and r.random() < 0.2:
                    a, ca = self.col(quals)
                    c += " AND %s IN (%s)" % (a, self.sub([self.tables_all]))
                    cc = cc + ca
                text += " HAVING " + c
                self.cols["having"] = cc
        if r.random() < 0.4:
            os_, oc = [], []
            for _ in range(self.pick([1, 2])):
                if self.depth > 0 and r.random() < 0.15:
                    t, cc = "(" + self.sub([self.tables_all]) + ")", []
                else:
                    t, cc = self.ref_item(quals)
                os_.append(t + self.pick(["", " DESC", " ASC"]))
                oc += cc
            al_ = [a for a, _ in self.items if a]
            if al_ and r.random() < 0.3:
                a_, q_ = self.pick(al_), self.pick(quals)
                os_.append("%s.%s" % (q_, a_))                   # qualified: a column of that table, whatever the select list calls its items
                oc.append((q_, a_, None))
            text += " ORDER BY " + ", ".join(os_)
            self.cols["order_by"] = oc
        if r.random() < 0.2:
            text += " LIMIT 10"
        return text

    def cond_simple(self, quals, with_alias=False):
        if with_alias and self.r.random() < 0.5:
            al = [a for a, _ in self.items if a]
            if al:
                a = self.pick(al)
                return "%s > 1" % a, list(dict(self.items)[a])
        a, ca = self.col(quals)
        b, cb = self.col(quals)
        return "%s = %s" % (a, b), ca + cb

    def ref_item(self, quals):
        """GROUP BY / ORDER BY item: a column, a select alias, or a select position"""
        k = self.r.random()
        al = [a for a, _ in self.items if a]
        if k < 0.3 and al:
            a = self.pick(al)
            return a, list(dict(self.items)[a])
        if k < 0.55:
            i = self.r.randrange(len(self.items))
            return str(i + 1), list(self.items[i][1])
        if k < 0.62:
            return self.pick(["TRUE", "false", "NULL", "'x'", "1.5"]), []          # a constant that is not a position: reads nothing
        return self.col(quals)


def gen(rng, depth=2):
    k = rng.random()
    if k < 0.2:
        # compound query: the analyses report branch after branch (no WITH here: see the known finding on WITH + UNION)
        q = Q(rng, depth)
        text = q.build(top=False)
        for _ in range(rng.choice([1, 1, 2])):
            if rng.random() < 0.2:
                import copy as _copy
                q2, t2 = _copy.deepcopy(q), text          # a branch repeated word for word is still a branch of its own
                if " UNION " in t2 or " EXCEPT " in t2 or " INTERSECT " in t2 or " MINUS " in t2:
                    q2 = Q(rng, max(0, depth - 1))
                    t2 = q2.build(top=False)
            else:
                q2 = Q(rng, max(0, depth - 1))
                t2 = q2.build(top=False)
            text += " " + rng.choice(["UNION", "UNION ALL", "EXCEPT", "INTERSECT", "MINUS"]) + " " + ("(" + t2 + ")" if rng.random() < 0.3 and " ORDER BY " not in t2 else t2)
            q.tables_all += q2.tables_all
            q.tables_from += q2.tables_from
            q.tables_join += q2.tables_join
            q.all = q.all_refs() + q2.all_refs()
            for c in q.cols:
                q.cols[c] = q.cols[c] + q2.cols[c]
        return text, q
    q = Q(rng, depth)
    text = q.build(top=True)
    return text, q


def fmt_tables(l):
    e = lambda x: "-" if x is None else ".".join(str(ord(c)) for c in x)
    return "OK T[" + ",".join("%s:%s" % (e(s), e(t)) for s, t in l) + "]"


def fmt_cols(l):
    e = lambda x: "-" if x is None else ".".join(str(ord(c)) for c in x)
    return "OK C[" + ",".join("%s:%s:%s" % (e(t), e(c), "-" if i is None else str(i)) for t, c, i in l) + "]"
