#!/venv/bin/python
"""Runs the *implementation* (/repo) on protocol requests, one per line, and prints canonical answers that are
byte-comparable with the answers of ml/modelrun.  Started as a subprocess with PYTHONPATH=<repo>.
  --flags N : value of the three LEXICAL_IGNORE_* flags (bit0 space, bit1 linebreak, bit2 comment), patched into
              metasequoia_sql.config *before* the lexer is imported (they are read at import time).
"""
import os
import sys

sys.path.insert(0, os.path.dirname(os.path.abspath(__file__)))

flags = 7
args = sys.argv[1:]
if "--flags" in args:
    flags = int(args[args.index("--flags") + 1])

if flags != 7:
    # see gen/lex_table.py: the config module must be patched before the package __init__ imports the lexer
    import importlib.util  # noqa: E402
    _repo = os.environ.get("VERIF_REPO", "/repo")
    _spec = importlib.util.spec_from_file_location("metasequoia_sql.config", os.path.join(_repo, "metasequoia_sql", "config.py"))
    _config = importlib.util.module_from_spec(_spec)
    _spec.loader.exec_module(_config)
    _config.LEXICAL_IGNORE_SPACE = bool(flags & 1)
    _config.LEXICAL_IGNORE_LINEBREAK = bool(flags & 2)
    _config.LEXICAL_IGNORE_COMMENT = bool(flags & 4)
    sys.modules["metasequoia_sql.config"] = _config

from metasequoia_sql import errors  # noqa: E402
from metasequoia_sql.lexical import FSMMachine, AMTSingle, AMTParenthesis  # noqa: E402
from metasequoia_sql.lexical.amt_node import AMTSlice  # noqa: E402


def err_name(e: BaseException) -> str:
    if isinstance(e, errors.LexicalParseError):
        return "LexErr"
    if isinstance(e, errors.NotSupportError):
        return "NotSupport"
    if isinstance(e, errors.SqlParseError):
        return "ParseErr"
    if isinstance(e, errors.AnalyzerError):
        return "AnalyzerErr"
    if isinstance(e, IndexError):
        return "Crash1"
    if isinstance(e, AttributeError):
        return "Crash2"
    if isinstance(e, KeyError):
        return "Crash4"
    if isinstance(e, ValueError):
        return "Crash3"
    if isinstance(e, TypeError):
        return "Crash5"
    if isinstance(e, AssertionError):
        return "Crash6"
    return "Crash7"


def cps(s: str) -> str:
    return ".".join(str(ord(c)) for c in s)


def show_tok(t, out):
    if type(t) is AMTSingle:
        out.append("L:%d:%s" % (int(t.marks), cps(t.source)))
        if t.children:
            out.append("!leaf-with-children")
    elif type(t) is AMTParenthesis or type(t) is AMTSlice:
        out.append("%s:%d:%s(" % ("P" if type(t) is AMTParenthesis else "S", int(t.marks), cps(t.source)))
        for c in t.children:
            show_tok(c, out)
        out.append(")")
    else:
        out.append("!unknown-token-class:" + type(t).__name__)


def show_tokens(ts):
    out = []
    for t in ts:
        show_tok(t, out)
    return " ".join(out)


_machines = {}


def machine(mb: bool):
    if mb not in _machines:
        if mb:
            from metasequoia_sql.plugins.mybaitis import FSMMachineMyBatis
            _machines[mb] = FSMMachineMyBatis
        else:
            _machines[mb] = FSMMachine
    return _machines[mb]


# ---- cursor protocol ----
def word_str(w):
    return "" if w == "-" else "".join(chr(int(x)) for x in w.split("."))


def build_toks(ws, i):
    out = []
    while i < len(ws):
        w = ws[i]
        if w in (")", "|"):
            return out, i
        if w in ("P(", "S("):
            ch, j = build_toks(ws, i + 1)
            if ws[j] != ")":
                raise ValueError("unbalanced")
            from metasequoia_sql.lexical.amt_node import AMTMark
            if w == "P(":
                out.append(AMTParenthesis(ch, AMTMark.PARENTHESIS))
            else:
                out.append(AMTSlice(ch, AMTMark.ARRAY_INDEX))
            i = j + 1
        else:
            _, m, s = w.split(":")
            out.append(AMTSingle(word_str(s), int(m)))
            i += 1
    return out, i


def pat_of(w):
    from metasequoia_sql.lexical.amt_node import AMTMark
    k, v = w.split(":")
    return word_str(v) if k == "s" else AMTMark(int(v))


def show_val(v):
    from metasequoia_sql.common import TokenScanner
    if v is None:
        return "U"
    if v is True:
        return "T"
    if v is False:
        return "F"
    if isinstance(v, int):          # has_mark / equals return the masked int
        return "T" if v else "F"
    return "?" + type(v).__name__


def run_cursor(words):
    from metasequoia_sql.common import TokenScanner
    from metasequoia_sql.lexical.amt_node import AMTMark
    toks, i = build_toks(words, 0)
    if words[i] != "|":
        raise ValueError("no ops")
    ops = []
    cur = []
    for w in words[i + 1:]:
        if w == ";":
            if cur:
                ops.append(cur)
            cur = []
        else:
            cur.append(w)
    if cur:
        ops.append(cur)
    sc = TokenScanner(toks)
    out = []

    def show_child(c):
        """a child cursor must start at its first token whatever happened to earlier child cursors; then one token of it is consumed"""
        rest = list(c.elements)[c.pos:]
        txt = ("sc[" if c.pos == 0 else "sc[!pos=%d " % c.pos) + show_tokens(rest) + "]"
        if not c.is_finish:
            c.pop()
        return txt
    for op in ops:
        k = op[0]
        try:
            if k == "go":
                r = "tok[" + show_tokens([sc.get_offset(int(op[1]))]) + "]"
            elif k == "gn":
                t = sc.get_offset_or_null(int(op[1]))
                r = "tok[none]" if t is None else "tok[" + show_tokens([t]) + "]"
            elif k == "g":
                t = sc.get_or_null()
                r = "tok[none]" if t is None else "tok[" + show_tokens([t]) + "]"
            elif k == "pop":
                r = "tok[" + show_tokens([sc.pop()]) + "]"
            elif k == "mv":
                r = show_val(sc.move(int(op[1])))
            elif k == "close":
                r = show_val(sc.close())
            elif k == "fin":
                r = show_val(sc.is_finish)
            elif k == "src":
                t = sc.get_as_source_or_null()
                r = "str[none]" if t is None else "str[" + cps(t) + "]"
            elif k == "psrc":
                r = "str[" + cps(sc.pop_as_source()) + "]"
            elif k == "ch":
                r = show_child(sc.get_as_children_scanner())
            elif k == "pch":
                r = show_child(sc.pop_as_children_scanner())
            elif k == "s":
                r = show_val(sc.search(*[pat_of(w) for w in op[1:]]))
            elif k == "S":
                r = show_val(sc.search_and_move(*[pat_of(w) for w in op[1:]]))
            elif k == "m":
                r = show_val(sc.match(*[pat_of(w) for w in op[1:]]))
            elif k == "sm":
                r = show_val(sc.search_one_type_mark(AMTMark(int(op[1]))))
            elif k == "ss":
                r = show_val(sc.search_one_type_str(word_str(op[1])))
            elif k == "su":
                r = show_val(sc.search_one_type_str_use_upper(word_str(op[1])))
            elif k == "su2":
                r = show_val(sc.search_two_type_str_use_upper(word_str(op[1]), word_str(op[2])))
            elif k == "su3":
                r = show_val(sc.search_three_type_str_use_upper(word_str(op[1]), word_str(op[2]), word_str(op[3])))
            elif k == "sset":
                r = show_val(sc.search_one_type_set({word_str(w) for w in op[1:]}))
            elif k == "ssetu":
                r = show_val(sc.search_one_type_set_use_upper({word_str(w) for w in op[1:]}))
            elif k == "Ss":
                r = show_val(sc.search_and_move_one_type_str(word_str(op[1])))
            elif k == "Su":
                r = show_val(sc.search_and_move_one_type_str_use_upper(word_str(op[1])))
            elif k == "Su2":
                r = show_val(sc.search_and_move_two_type_str_use_upper(word_str(op[1]), word_str(op[2])))
            elif k == "Su3":
                r = show_val(sc.search_and_move_three_type_str_use_upper(word_str(op[1]), word_str(op[2]), word_str(op[3])))
            elif k == "Sset":
                r = show_val(sc.search_and_move_one_type_set({word_str(w) for w in op[1:]}))
            elif k == "Ssetu":
                r = show_val(sc.search_and_move_one_type_set_use_upper({word_str(w) for w in op[1:]}))
            elif k == "split":
                r = "scs[" + "|".join(show_child(x)[3:-1] for x in sc.pop_as_children_scanner_list_split_by(word_str(op[1]))) + "]"
            else:
                r = "BAD-OP"
        except Exception as e:  # noqa
            r = "E:" + err_name(e)
        out.append("%d=%s" % (sc.pos, r))
    return " ; ".join(out)


_LINEAGE_REUSE = {}


def handle(line: str) -> str:
    words = line.split()
    if not words:
        return "BAD-REQUEST"
    cmd = words[0]
    if cmd == "STATE":
        # interpreter-wide settings a library call could leave changed (a parse is a function of its arguments: it must not)
        import sys as _s, decimal as _d, warnings as _w, gc as _g, locale as _l
        return "OK reclimit=%d cwd=%s path=%d prec=%d warn=%d gc=%s switch=%r locale=%s" % (
            _s.getrecursionlimit(), os.getcwd(), len(_s.path), _d.getcontext().prec,
            len(_w.filters), _g.isenabled(), _s.getswitchinterval(), _l.setlocale(_l.LC_ALL))
    if cmd == "LEX":
        mb = words[1] == "1"
        if int(words[2]) != flags:
            return "BAD-FLAGS"
        text = "".join(chr(int(w)) for w in words[3:])
        try:
            ts = machine(mb).parse(text)
        except RecursionError:
            return "ERR Recursion"
        except Exception as e:  # noqa
            return "ERR " + err_name(e)
        return ("OK " + show_tokens(ts)).strip()
    if cmd == "PARSE":
        try:
            from metasequoia_sql import SQLParser, SQLType
            import pydump
            mb, entry, dialect = words[1] == "1", words[2], words[3]
            text = "".join(chr(int(w)) for w in words[4:])
            if mb:
                from metasequoia_sql.plugins.mybaitis import SQLParserMyBatis as P
            else:
                P = SQLParser
            fn = getattr(P, "parse_" + entry)
            import signal

            def _alarm(signum, frame):
                raise TimeoutError("request timed out")
            import threading
            _main = threading.current_thread() is threading.main_thread()
            if _main:
                signal.signal(signal.SIGALRM, _alarm)
                signal.alarm(int(os.environ.get("VERIF_REQ_TIMEOUT", "30")))
            import inspect
            extra = {}
            for pn, pp in inspect.signature(fn).parameters.items():
                if pn in ("scanner_or_string", "sql_type") or pp.default is not inspect.Parameter.empty:
                    continue
                if pn == "with_clause":
                    from metasequoia_sql.core import node as _cn
                    extra[pn] = _cn.ASTWithClause.empty()
                else:
                    return "BAD-REQUEST unknown required parameter " + pn
            try:
                v = fn(text, sql_type=SQLType[dialect], **extra)
            except RecursionError:
                return "ERR Recursion"
            except TimeoutError:
                return "ERR Timeout"
            except Exception as e:  # noqa
                return "ERR " + err_name(e)
            finally:
                if _main:
                    signal.alarm(0)
            try:
                return "OK " + pydump.dump(v)
            except RecursionError:
                # the dumper (ours, not the library's) recurses over the tree: a flat chain of 1500 operands is a 1500-deep left-nested tree
                import sys as _s
                lim = _s.getrecursionlimit()
                try:
                    _s.setrecursionlimit(200000)
                    return "OK " + pydump.dump(v)
                finally:
                    _s.setrecursionlimit(lim)
        except Exception as e:  # noqa
            return "BAD-REQUEST " + repr(e)
    if cmd == "PRINT":
        try:
            from metasequoia_sql import SQLParser, SQLType
            mb, entry, pd, qd = words[1] == "1", words[2], words[3], words[4]
            text = "".join(chr(int(w)) for w in words[5:])
            if mb:
                from metasequoia_sql.plugins.mybaitis import SQLParserMyBatis as P
            else:
                P = SQLParser
            try:
                v = getattr(P, "parse_" + entry)(text, sql_type=SQLType[pd])
            except RecursionError:
                return "PARSEERR Recursion"
            except Exception as e:  # noqa
                return "PARSEERR " + err_name(e)
            nodes = v if isinstance(v, list) else [v]
            outs = []
            for n in nodes:
                try:
                    s = n.source(SQLType[qd])
                    outs.append(cps(s) if s else "-")
                except Exception as e:  # noqa
                    outs.append("ERR:" + err_name(e))
            return "OK " + "|".join(outs)
        except Exception as e:  # noqa
            return "BAD-REQUEST " + repr(e)
    if cmd == "HELPERS":
        try:
            from metasequoia_sql import SQLParser, SQLType
            from metasequoia_sql.common.static import HASHMAP_MYSQL_TO_HIVE
            from metasequoia_sql.core import node as cnode
            import pydump
            text = "".join(chr(int(w)) for w in words[2:])
            try:
                c = SQLParser.parse_create_table_statement(text, sql_type=SQLType.MYSQL)
                ops = []
                for w in ([] if words[1] == "-" else words[1].split(",")):
                    parts = w.split(":")
                    if parts[0] in ("ct0", "ct1"):
                        ops.append(("ct", parts[0] == "ct1"))
                    elif parts[0] == "stn":
                        ops.append(("stn", cnode.ASTTableNameExpression(schema_name=None if parts[1] == "-" else word_str(parts[1]), table_name=word_str(parts[2]))))
                    elif parts[0] in ("ac", "apc"):
                        ops.append((parts[0], SQLParser.parse_define_column_expression(word_str(parts[1]), sql_type=SQLType.MYSQL)))
                    else:
                        return "BAD-REQUEST op"
            except RecursionError:
                return "PARSEERR Recursion"
            except Exception as e:  # noqa
                return "PARSEERR " + err_name(e)
            try:
                for k, a in ops:
                    before = pydump.dump(c)
                    if k == "ct":
                        c2 = c.change_type(HASHMAP_MYSQL_TO_HIVE, remove_param=a)
                    elif k == "stn":
                        c2 = c.set_table_name(a)
                    elif k == "ac":
                        c2 = c.append_column(a)
                    else:
                        c2 = c.append_partition_by_column(a)
                    if pydump.dump(c) != before:
                        return "OK !receiver-mutated-by-" + k
                    if type(c2) is not type(c):
                        return "OK !class-changed-by-" + k
                    c = c2
            except Exception as e:  # noqa
                return "HELPERR " + err_name(e)
            outs = []
            for d in (SQLType.MYSQL, SQLType.HIVE):
                try:
                    s = c.source(d)
                    outs.append(cps(s) if s else "-")
                except Exception as e:  # noqa
                    outs.append("ERR:" + err_name(e))
            try:
                hash(c)
                h = "hashable"
            except TypeError:
                h = "unhashable"
            return "OK " + pydump.dump(c) + " | " + " | ".join(outs) + " | " + h
        except Exception as e:  # noqa
            return "BAD-REQUEST " + repr(e)
    if cmd == "PROJ18":
        # C18 oracle support: schema projections of a MySQL CREATE TABLE before / after helper edits and after the Hive round trip
        try:
            import json as _json
            from metasequoia_sql import SQLParser, SQLType
            from metasequoia_sql.common.static import HASHMAP_MYSQL_TO_HIVE
            from metasequoia_sql.core import node as cnode

            def proj(c):
                def col(x):
                    return [x.column_name, x.column_type.name, None if x.column_type.params is None else [p.source(SQLType.MYSQL) for p in x.column_type.params], x.comment]
                return {"schema": c.table_name.schema_name, "table": c.table_name.table_name, "columns": [col(x) for x in c.columns],
                        "partitioned_by": [col(x) for x in c.partitioned_by], "comment": c.comment}
            text = "".join(chr(int(w)) for w in words[2:])
            try:
                c = SQLParser.parse_create_table_statement(text, sql_type=SQLType.MYSQL)
            except Exception as e:  # noqa
                return "PARSEERR " + err_name(e)
            out = {"orig": proj(c)}
            try:
                for w in ([] if words[1] == "-" else words[1].split(",")):
                    parts = w.split(":")
                    if parts[0] in ("ct0", "ct1"):
                        c = c.change_type(HASHMAP_MYSQL_TO_HIVE, remove_param=parts[0] == "ct1")
                    elif parts[0] == "stn":
                        c = c.set_table_name(cnode.ASTTableNameExpression(schema_name=None if parts[1] == "-" else word_str(parts[1]), table_name=word_str(parts[2])))
                    elif parts[0] == "ac":
                        c = c.append_column(SQLParser.parse_define_column_expression(word_str(parts[1]), sql_type=SQLType.MYSQL))
                    else:
                        c = c.append_partition_by_column(SQLParser.parse_define_column_expression(word_str(parts[1]), sql_type=SQLType.MYSQL))
            except Exception as e:  # noqa
                return "HELPERR " + err_name(e)
            out["edited"] = proj(c)
            for d in (SQLType.HIVE, SQLType.MYSQL):
                try:
                    t = c.source(d)
                    out[d.name + "_text"] = t
                    try:
                        out[d.name + "_reparsed"] = proj(SQLParser.parse_create_table_statement(t, sql_type=d))
                        rest = SQLParser.parse_statements(t, sql_type=d)
                        out[d.name + "_statements"] = len(rest)
                    except Exception as e:  # noqa
                        out[d.name + "_reparsed"] = "ERR " + err_name(e)
                except Exception as e:  # noqa
                    out[d.name + "_text"] = "ERR " + err_name(e)
            return "OK " + _json.dumps(out, ensure_ascii=True, sort_keys=True)
        except Exception as e:  # noqa
            return "BAD-REQUEST " + repr(e)
    if cmd == "OBJ11":
        # C11 oracle on the real objects: every node at any depth is frozen, slotted, holds immutable values only, hashes,
        # equals an independently built copy (and hashes equal), and differs from nodes with another structure
        try:
            import dataclasses as _dc
            import enum as _enum
            import json as _json
            from metasequoia_sql import SQLParser, SQLType
            from metasequoia_sql.core import node as cnode
            import pydump
            dialect = words[1]
            text = "".join(chr(int(w)) for w in words[2:])
            try:
                a = SQLParser.parse_statements(text, sql_type=SQLType[dialect])
                b = SQLParser.parse_statements(text, sql_type=SQLType[dialect])
            except Exception as e:  # noqa
                return "PARSEERR " + err_name(e)
            classes = {}
            nodes = []
            problems = []

            def walk(v, path):
                if len(problems) > 3:
                    return
                if _dc.is_dataclass(v) and not isinstance(v, type):
                    nodes.append(v)
                    classes[type(v).__name__] = classes.get(type(v).__name__, 0) + 1
                    if not isinstance(v, cnode.ASTBase):
                        problems.append("%s: node is not an ASTBase" % path)
                    if hasattr(v, "__dict__"):
                        problems.append("%s: instance has a __dict__" % path)
                    for f in _dc.fields(v):
                        x = getattr(v, f.name)
                        for op in ("set", "del"):
                            try:
                                if op == "set":
                                    setattr(v, f.name, x)
                                else:
                                    delattr(v, f.name)
                                problems.append("%s.%s: %sattr did not raise" % (path, f.name, op))
                                if op == "del":
                                    object.__setattr__(v, f.name, x)
                            except (_dc.FrozenInstanceError, AttributeError, TypeError):
                                pass
                        walk(x, path + "." + f.name)
                    try:
                        setattr(v, "zz_new_attribute", 1)
                        problems.append("%s: a new attribute could be set" % path)
                    except (_dc.FrozenInstanceError, AttributeError, TypeError):
                        pass
                elif isinstance(v, tuple):
                    for i, x in enumerate(v):
                        walk(x, "%s[%d]" % (path, i))
                elif v is None or isinstance(v, (str, int, bool, _enum.Enum)):
                    pass
                else:
                    problems.append("%s: mutable or unknown value of type %s" % (path, type(v).__name__))
            for i, st in enumerate(a):
                walk(st, "stmt%d" % i)
            for n in nodes[:400]:
                try:
                    hash(n)
                except TypeError:
                    problems.append("unhashable node " + type(n).__name__)
                    break
            if len(a) != len(b):
                problems.append("two parses of the same text differ in length")
            for x, y in zip(a, b):
                if x is y:
                    continue
                if not (x == y) or (x != y):
                    problems.append("independently built equal trees are not ==")
                try:
                    if hash(x) != hash(y):
                        problems.append("equal trees hash differently")
                    if len({x, y}) != 1:
                        problems.append("equal trees are two set members")
                except TypeError:
                    problems.append("unhashable statement")
            # get_params_dict() is the public way to copy a node: rebuilding the node from it gives an equal node, whatever its class inherits
            for n in nodes[:200]:
                if hasattr(n, "get_params_dict"):
                    try:
                        pd_ = n.get_params_dict()
                        init_names = {f.name for f in _dc.fields(n) if f.init}
                        n3 = type(n)(**{k_: v_ for k_, v_ in pd_.items() if k_ in init_names})
                        if n3 != n or hash(n3) != hash(n):
                            problems.append("%s: rebuilding the node from get_params_dict() gives a different node" % type(n).__name__)
                        missing = init_names - set(pd_)
                        if missing:
                            problems.append("%s: get_params_dict() lacks the fields %s" % (type(n).__name__, sorted(missing)))
                    except Exception as e_:  # noqa
                        problems.append("%s: rebuilding the node from get_params_dict() raises %s" % (type(n).__name__, type(e_).__name__))
                if len(problems) > 3:
                    break
            # every field takes part in == : a copy that differs in exactly one scalar field (or has a shorter tuple) is a different value
            for n in nodes[:200]:
                for f in _dc.fields(n):
                    x = getattr(n, f.name)
                    if isinstance(x, bool):
                        y = not x
                    elif isinstance(x, str):
                        y = x + "_z"
                    elif isinstance(x, int):
                        y = x + 1
                    elif isinstance(x, tuple) and x:
                        y = x[:-1]
                    else:
                        continue
                    try:
                        n2 = _dc.replace(n, **{f.name: y})
                    except Exception:  # noqa
                        continue
                    if n2 == n or not (n2 != n):
                        problems.append("%s: copies that differ in field %s compare equal" % (type(n).__name__, f.name))
                    elif len({n, n2}) != 2:
                        problems.append("%s: copies that differ in field %s are one set member" % (type(n).__name__, f.name))
                if len(problems) > 3:
                    break
            # structural inequality: nodes compare equal iff their reflective dumps are equal
            sample = nodes[:60]
            dumps = [pydump.dump(n) for n in sample]
            for i in range(len(sample)):
                for j in range(i + 1, len(sample)):
                    if (sample[i] == sample[j]) != (dumps[i] == dumps[j]):
                        problems.append("== disagrees with structure for %s / %s" % (type(sample[i]).__name__, type(sample[j]).__name__))
                        break
                else:
                    continue
                break
            if problems:
                return "FAIL " + " ; ".join(problems[:4])
            return "OK " + _json.dumps({"nodes": len(nodes), "classes": classes}, sort_keys=True)
        except Exception as e:  # noqa
            return "BAD-REQUEST " + repr(e)
    if cmd == "SETWITH":
        try:
            from metasequoia_sql import SQLParser, SQLType
            from metasequoia_sql.core import node as cnode
            import pydump
            i = words.index("|")
            ta = "".join(chr(int(w)) for w in words[2:i])
            tb = "".join(chr(int(w)) for w in words[i + 1:])
            try:
                sa = SQLParser.parse_statements(ta, sql_type=SQLType[words[1]])
                sb = SQLParser.parse_statements(tb, sql_type=SQLType[words[1]])
            except Exception as e:  # noqa
                return "PARSEERR " + err_name(e)
            if len(sa) != 1 or len(sb) != 1 or not isinstance(sb[0], cnode.ASTSelectStatement) or not hasattr(sa[0], "with_clause"):
                return "PARSEERR ParseErr"
            before = pydump.dump(sb[0])
            try:
                r = sb[0].set_with_clauses(sa[0].with_clause)
            except Exception as e:  # noqa
                return "HELPERR " + err_name(e)
            if pydump.dump(sb[0]) != before:
                return "OK !receiver-mutated"
            if type(r) is not type(sb[0]):
                return "OK !class-changed"
            try:
                hash(r)
                h = "hashable"
            except TypeError:
                h = "unhashable"
            return "OK " + pydump.dump(r) + " | " + h
        except Exception as e:  # noqa
            return "BAD-REQUEST " + repr(e)
    if cmd == "PAIR11":
        # == must agree with structure (reflective dump) on the statements of two texts; equal statements must hash equal
        try:
            from metasequoia_sql import SQLParser, SQLType
            import pydump
            i = words.index("|")
            ta = "".join(chr(int(w)) for w in words[2:i])
            tb = "".join(chr(int(w)) for w in words[i + 1:])
            try:
                sa = SQLParser.parse_statements(ta, sql_type=SQLType[words[1]])
                sb = SQLParser.parse_statements(tb, sql_type=SQLType[words[1]])
            except Exception as e:  # noqa
                return "PARSEERR " + err_name(e)
            for x in sa:
                for y in sb:
                    same = pydump.dump(x) == pydump.dump(y)
                    if (x == y) != same or (x != y) == same:
                        return "FAIL == is %s but the structures are %s" % (x == y, "equal" if same else "different")
                    if x == y and hash(x) != hash(y):
                        return "FAIL equal statements hash differently"
            return "OK"
        except Exception as e:  # noqa
            return "BAD-REQUEST " + repr(e)
    if cmd == "COUNT":
        # C19 instrumentation from outside: FSMMachine.handle calls, TokenScanner method calls, element reads / copies, cursor direction
        try:
            import json as _json
            import metasequoia_sql.common.scanner as _sc
            from metasequoia_sql import SQLParser, SQLType
            from metasequoia_sql.common.basic import preproc_sql
            entry, dialect = words[1], words[2]
            text = "".join(chr(int(w)) for w in words[3:])
            st = {"handle": 0, "calls": 0, "reads": 0, "copied": 0, "iter": 0, "back": 0, "scanners": 0}

            class CountingList(list):
                def __getitem__(self, i):
                    if isinstance(i, slice):
                        r = list.__getitem__(self, i)
                        st["copied"] += len(r)
                        return r
                    st["reads"] += 1
                    return list.__getitem__(self, i)

                def __iter__(self):
                    st["iter"] += len(self)
                    return list.__iter__(self)
            TS = _sc.TokenScanner
            saved = {}
            if not getattr(TS, "_verif_wrapped", False):
                orig_init = TS.__init__

                def init(self, elements):
                    orig_init(self, CountingList(elements))
                    st["scanners"] += 1
                saved["__init__"] = orig_init
                TS.__init__ = init
                for name, fn in list(vars(TS).items()):
                    if name.startswith("_") or not callable(fn):
                        continue

                    def mk(f):
                        def w(self, *a, **k):
                            st["calls"] += 1
                            p0 = self._pos
                            try:
                                return f(self, *a, **k)
                            finally:
                                if self._pos < p0:
                                    st["back"] += 1
                        return w
                    saved[name] = fn
                    setattr(TS, name, mk(fn))
            M = machine(False)
            orig_handle = M.handle

            def handle_w(self, memory, ch):
                st["handle"] += 1
                return orig_handle(self, memory, ch)
            M.handle = handle_w
            import sys as _sys

            def prof(frame, event, arg):
                if event in ("call", "c_call") and "metasequoia_sql" in frame.f_code.co_filename:
                    st["pycalls"] += 1                      # Python-level calls and calls of builtins made by library code
            st["pycalls"] = 0
            try:
                _sys.setprofile(prof)
                try:
                    toks = M.parse(text)
                    n_tok = 0
                    stack = list(toks)
                    while stack:
                        t = stack.pop()
                        n_tok += 1
                        stack.extend(t.children)
                    st["tokens"] = n_tok
                    st["lex"] = "OK"
                except Exception as e:  # noqa
                    st["lex"] = "ERR " + err_name(e)
                    st["tokens"] = 0
                lex_handle = st["handle"]
                try:
                    getattr(SQLParser, "parse_" + entry)(text, sql_type=SQLType[dialect])
                    st["parse"] = "OK"
                except RecursionError:
                    st["parse"] = "ERR Recursion"
                except Exception as e:  # noqa
                    st["parse"] = "ERR " + err_name(e)
                _sys.setprofile(None)
                st["handle_total"] = st["handle"]
                st["handle"] = lex_handle
                st["chars"] = len(preproc_sql(text))
            finally:
                _sys.setprofile(None)
                M.handle = orig_handle
                for k, v in saved.items():
                    setattr(TS, k, v)
            return "OK " + _json.dumps(st, sort_keys=True)
        except Exception as e:  # noqa
            return "BAD-REQUEST " + repr(e)
    if cmd == "WALK":
        try:
            from metasequoia_sql import SQLParser, SQLType
            from metasequoia_sql import analyzer as an
            which, dialect = words[1], words[2]
            text = "".join(chr(int(w)) for w in words[3:])
            try:
                sts = SQLParser.parse_statements(text, sql_type=SQLType[dialect])
            except RecursionError:
                return "PARSEERR Recursion"
            except Exception as e:  # noqa
                return "PARSEERR " + err_name(e)
            if len(sts) != 1:
                return "PARSEERR ParseErr"
            q = sts[0]
            table = {"tables_all": an.AllUsedQuoteTables, "tables_from": an.AllFromClauseUsedQuoteColumn, "tables_join": an.AllJoinClauseUsedQuoteColumn,
                     "all": an.CurrentUsedQuoteColumn, "select": an.CurrentSelectClauseUsedQuoteColumn, "join": an.CurrentJoinClauseUsedQuoteColumn,
                     "where": an.CurrentWhereClauseUsedQuoteColumn, "group_by": an.CurrentGroupByClauseUsedQuoteColumn,
                     "having": an.CurrentHavingClauseUsedQuoteColumn, "order_by": an.CurrentOrderByClauseUsedQuoteColumn}
            if which not in table:
                return "BAD-REQUEST analyser"

            def so(x):
                return "-" if x is None else ("e" if x == "" else cps(x))
            try:
                r = table[which].handle(q)
            except Exception as e:  # noqa
                return "ERR " + err_name(e)
            if which.startswith("tables"):
                return "OK T[" + ",".join("%s:%s" % (so(t.schema_name), so(t.table_name)) for t in r) + "]"
            return "OK C[" + ",".join("%s:%s:%s" % (so(c.table_name), so(c.column_name), "-" if c.column_idx is None else str(c.column_idx)) for c in r) + "]"
        except Exception as e:  # noqa
            return "BAD-REQUEST " + repr(e)
    if cmd in ("LINEAGE", "LINEAGEO"):
        ordered = cmd == "LINEAGEO"            # C12: keep the order and multiplicity of the source lists as returned
        try:
            from metasequoia_sql import SQLParser, SQLType
            from metasequoia_sql.analyzer import CreateTableStatementGetter
            from metasequoia_sql.analyzer.data_linage.table_lineage_analyzer import TableLineageAnalyzer
            from metasequoia_sql.core import node as cnode
            import contextlib
            import io
            i = words.index("|")
            cat = {}
            for w in words[1:i]:
                if w == "-":
                    continue
                for e in w.split(","):
                    n, s = e.split("=")
                    cat[word_str(n)] = word_str(s)
            text = "".join(chr(int(w)) for w in words[i + 1:])

            class Getter(CreateTableStatementGetter):
                def __init__(self):
                    super().__init__(None)
                    self.asked = []

                def get_sql(self, full_table_name):
                    self.asked.append(full_table_name)
                    return cat[full_table_name]              # KeyError for a table the catalogue does not know
            try:
                sts = SQLParser.parse_statements(text)
            except Exception as e:  # noqa
                return "PARSEERR " + err_name(e)
            if len(sts) != 1:
                return "PARSEERR ParseErr"

            def so(x):
                return "-" if x is None else ("e" if x == "" else cps(x))

            def show_src(x):
                return "%s:%s:%s" % (so(x.schema_name), so(x.table_name), so(x.column_name))

            def show_srcs(l):
                if ordered:
                    return "[" + ",".join(show_src(x) for x in l) + "]"
                return "[" + ",".join(sorted(set(show_src(x) for x in l))) + "]"
            def analyse(an):
                out = io.StringIO()
                try:
                    with contextlib.redirect_stdout(out):
                        if isinstance(sts[0], cnode.ASTInsertSelectStatement):
                            r = an.get_insert_table_lineage(sts[0])
                            return "OK I " + " ".join("%s=%s" % (show_src(t), show_srcs(ss)) for t, ss in r.all_columns())
                        r = an.get_select_table_lineage(sts[0])
                        return "OK S " + " ".join("%d:%s=%s" % (c.column_idx, so(c.column_name), show_srcs(ss)) for c, ss in r.all_columns())
                except RecursionError:
                    return "ERR Recursion"
                except Exception as e:  # noqa
                    return "ERR " + err_name(e)
            g = Getter()
            body = analyse(TableLineageAnalyzer(g))
            # the same statement on an analyser that has already answered other statements over this catalogue in this process - accepted AND
            # rejected ones: the answer must be the same (only the provider log may shrink)
            key = tuple(sorted(cat.items()))
            if key not in _LINEAGE_REUSE:
                g2 = Getter()
                _LINEAGE_REUSE[key] = TableLineageAnalyzer(g2)
            body2 = analyse(_LINEAGE_REUSE[key])
            if body2 != body:
                return "ERR HistoryDependent " + body2[:160] + " <> " + body[:160]
            if not body.startswith("OK "):
                return body
            return body + " ; ASKED " + ",".join(so(k) for k in g.asked)
        except Exception as e:  # noqa
            return "BAD-REQUEST " + repr(e)
    if cmd == "CACHE":
        try:
            import shutil
            import tempfile
            from metasequoia_sql.analyzer import CreateTableStatementGetter
            i = words.index("|")
            known = set()
            for w in words[1:i]:
                if w != "-":
                    known |= {word_str(x) for x in w.split(",")}
            asked = []

            def tag(n):
                return "n" + "_".join(str(ord(c)) for c in n)

            class Getter(CreateTableStatementGetter):
                def get_sql(self, full_table_name):
                    asked.append(full_table_name)
                    if full_table_name not in known:
                        raise KeyError(full_table_name)
                    return "CREATE TABLE zz (%s INT)" % tag(full_table_name)
            d = tempfile.mkdtemp(prefix="verif_cache_")
            try:
                insts, out = [], []
                for w in words[i + 1:]:
                    parts = w.split(":")
                    if parts[0] == "new":
                        insts.append(Getter(d if parts[1] == "1" else None))
                        out.append("-")
                    elif parts[0] == "get":
                        k = int(parts[1])
                        if k >= len(insts):
                            out.append("E:Crash1")
                            continue
                        try:
                            ast = insts[k].get_statement(word_str(parts[2]))
                            out.append("S:" + ast.columns[0].column_name)
                        except FileNotFoundError:
                            out.append("E:Crash7")
                        except Exception as e:  # noqa
                            out.append("E:" + err_name(e))
                    elif parts[0] == "crash":
                        # a save cut short: the provider was asked, the file exists with a prefix of the text, the instance is lost
                        n = word_str(parts[2])
                        if n in known:
                            asked.append(n)
                            with open(os.path.join(d, n + ".sql"), "w", encoding="UTF-8") as f:
                                f.write(("CREATE TABLE zz (%s INT)" % tag(n))[:int(parts[3])])
                        out.append("-")
                    else:
                        return "BAD-REQUEST op"
                files = sorted(cps(f) for f in os.listdir(d))
                return (" ".join(out) + " ; ASKED " + ",".join("e" if k == "" else cps(k) for k in asked) + " ; FILES " + ",".join(files)).strip()
            finally:
                shutil.rmtree(d, ignore_errors=True)
        except Exception as e:  # noqa
            return "BAD-REQUEST " + repr(e)
    if cmd == "CURSOR":
        try:
            return run_cursor(words[1:])
        except Exception as e:  # noqa
            return "BAD-REQUEST " + str(e)
    return "BAD-REQUEST"


def main():
    out = sys.stdout
    if "--threads" in args:
        # C12: all requests are handled from N threads that start together; answers are printed in request order
        import threading
        n = int(args[args.index("--threads") + 1])
        lines = [l.rstrip("\n") for l in sys.stdin]
        answers = [None] * len(lines)
        barrier = threading.Barrier(n)

        def work(k):
            barrier.wait()
            for i in range(k, len(lines), n):
                try:
                    answers[i] = handle(lines[i])
                except BaseException as e:  # noqa
                    answers[i] = "THREAD-EXC " + repr(e)
        ts = [threading.Thread(target=work, args=(k,)) for k in range(n)]
        for t in ts:
            t.start()
        for t in ts:
            t.join()
        for a in answers:
            out.write((a if a is not None else "NOT-RUN") + "\n")
        out.flush()
        return
    for line in sys.stdin:
        out.write(handle(line.rstrip("\n")) + "\n")
    out.flush()


if __name__ == "__main__":
    main()
