#!/venv/bin/python
"""Runs the *implementation* (/repo) on protocol requests, one per line, and prints canonical answers that are
byte-comparable with the answers of ml/modelrun.  Started as a subprocess with PYTHONPATH=<repo>.
  --flags N : value of the three LEXICAL_IGNORE_* flags (bit0 space, bit1 linebreak, bit2 comment), patched into
              metasequoia_sql.config *before* the lexer is imported (they are read at import time).
"""
import os
import sys

flags = 7
args = sys.argv[1:]
if "--flags" in args:
    flags = int(args[args.index("--flags") + 1])

if flags != 7:
    # see gen/lex_table.py: the config module must be patched before the package __init__ imports the lexer
    import importlib.util  # noqa: E402
    _repo = os.environ.get("VERIF_REPO", "/repo")
    _spec = importlib.util.spec_from_file_location("metasequoia_sql.config", os.path.join(_repo, "metasequoia_sql", "config.py"))
    _config = importlib.util.module_from_spec(_spec)
    _spec.loader.exec_module(_config)
    _config.LEXICAL_IGNORE_SPACE = bool(flags & 1)
    _config.LEXICAL_IGNORE_LINEBREAK = bool(flags & 2)
    _config.LEXICAL_IGNORE_COMMENT = bool(flags & 4)
    sys.modules["metasequoia_sql.config"] = _config

from metasequoia_sql import errors  # noqa: E402
from metasequoia_sql.lexical import FSMMachine, AMTSingle, AMTParenthesis  # noqa: E402
from metasequoia_sql.lexical.amt_node import AMTSlice  # noqa: E402


def err_name(e: BaseException) -> str:
    if isinstance(e, errors.LexicalParseError):
        return "LexErr"
    if isinstance(e, errors.NotSupportError):
        return "NotSupport"
    if isinstance(e, errors.SqlParseError):
        return "ParseErr"
    if isinstance(e, errors.AnalyzerError):
        return "AnalyzerErr"
    if isinstance(e, IndexError):
        return "Crash1"
    if isinstance(e, AttributeError):
        return "Crash2"
    if isinstance(e, KeyError):
        return "Crash4"
    if isinstance(e, ValueError):
        return "Crash3"
    if isinstance(e, TypeError):
        return "Crash5"
    if isinstance(e, AssertionError):
        return "Crash6"
    return "Crash7"


def cps(s: str) -> str:
    return ".".join(str(ord(c)) for c in s)


def show_tok(t, out):
    if type(t) is AMTSingle:
        out.append("L:%d:%s" % (int(t.marks), cps(t.source)))
        if t.children:
            out.append("!leaf-with-children")
    elif type(t) is AMTParenthesis or type(t) is AMTSlice:
        out.append("%s:%d:%s(" % ("P" if type(t) is AMTParenthesis else "S", int(t.marks), cps(t.source)))
        for c in t.children:
            show_tok(c, out)
        out.append(")")
    else:
        out.append("!unknown-token-class:" + type(t).__name__)


def show_tokens(ts):
    out = []
    for t in ts:
        show_tok(t, out)
    return " ".join(out)


_machines = {}


def machine(mb: bool):
    if mb not in _machines:
        if mb:
            from metasequoia_sql.plugins.mybaitis import FSMMachineMyBatis
            _machines[mb] = FSMMachineMyBatis
        else:
            _machines[mb] = FSMMachine
    return _machines[mb]


def handle(line: str) -> str:
    words = line.split()
    if not words:
        return "BAD-REQUEST"
    cmd = words[0]
    if cmd == "LEX":
        mb = words[1] == "1"
        if int(words[2]) != flags:
            return "BAD-FLAGS"
        text = "".join(chr(int(w)) for w in words[3:])
        try:
            ts = machine(mb).parse(text)
        except RecursionError:
            return "ERR Recursion"
        except Exception as e:  # noqa
            return "ERR " + err_name(e)
        return ("OK " + show_tokens(ts)).strip()
    return "BAD-REQUEST"


def main():
    out = sys.stdout
    for line in sys.stdin:
        out.write(handle(line.rstrip("\n")) + "\n")
    out.flush()


if __name__ == "__main__":
    main()
