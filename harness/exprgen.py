"""Random / exhaustive generation of specification expressions (prefix words for the EMIT request)."""
from . import core

COLS = ["a", "b", "c", "x1", "col_2"]
LITS = ["1", "42", "'s'", "NULL", "3.5", "true"]
BINOPS = ["^", "*", "/", "%", "+", "-", "<<", ">>", "&", "|"]
CMPOPS = ["=", "!=", "<", "<=", ">", ">=", "<=>"]
UNOPS = ["-", "+", "~", "!"]
KWS = ["like", "rlike", "regexp", "is"]


def w(s):
    return ".".join(str(ord(c)) for c in s)


def atom(rng):
    k = rng.random()
    if k < 0.55:
        return ["col", w(rng.choice(COLS))]
    if k < 0.65:
        return ["tcol", w(rng.choice(["t", "u1"])), w(rng.choice(COLS))]
    return ["lit", w(rng.choice(LITS))]


def gen(rng, depth, hive=False, top=14):
    """random expression whose level is <= top"""
    if depth <= 0 or rng.random() < 0.2:
        return atom(rng)
    k = rng.random()
    sub = lambda: gen(rng, depth - 1, hive)
    if k < 0.42:
        return ["bin", rng.choice(BINOPS)] + sub() + sub()
    if k < 0.50:
        ops = [o for o in UNOPS if not (hive and o == "!")]
        return ["un", rng.choice(ops)] + sub()
    if k < 0.60:
        return ["cmp", rng.choice(CMPOPS)] + sub() + sub()
    if k < 0.66:
        kw = rng.choice(KWS)
        r = ["lit", w(rng.choice(["NULL", "TRUE"]))] if kw == "is" else sub()
        return ["kw", kw, rng.choice("01")] + sub() + r
    if k < 0.70:
        return ["btw", rng.choice("01")] + sub() + sub() + sub()
    if k < 0.75:
        n = rng.randint(1, 3)
        vs = []
        for _ in range(n):
            vs += sub()
        return ["in", rng.choice("01"), str(n)] + sub() + vs
    if k < 0.80:
        return ["not"] + sub()
    if k < 0.88:
        return ["and"] + sub() + sub()
    if k < 0.92:
        return ["xor"] + sub() + sub()
    if k < 0.97:
        return ["or"] + sub() + sub()
    n = rng.randint(0, 2)
    args = []
    for _ in range(n):
        args += sub()
    return ["fn", w(rng.choice(["f", "lower", "coalesce"])), str(n)] + args


def shapes(k):
    """all binary tree shapes with k internal nodes, as nested tuples"""
    if k == 0:
        return [None]
    out = []
    for i in range(k):
        for l in shapes(i):
            for r in shapes(k - 1 - i):
                out.append((l, r))
    return out


REPR_OPS = [("bin", "^"), ("bin", "*"), ("bin", "/"), ("bin", "%"), ("bin", "+"), ("bin", "-"), ("bin", "<<"), ("bin", "&"), ("bin", "|"),
            ("cmp", "="), ("cmp", "<"), ("and",), ("xor",), ("or",)]


def enumerate_trees(k, ops=REPR_OPS):
    """every tree with exactly k operators from `ops` (all shapes = all parenthesisations), atoms a, b, c, d in order"""
    import itertools
    out = []
    for sh in shapes(k):
        for combo in itertools.product(ops, repeat=k):
            it = iter(combo)
            names = iter("abcdefgh")

            def build(s):
                if s is None:
                    return ["col", w(next(names))]
                o = next(it)
                l = build(s[0])
                r = build(s[1])
                return list(o) + l + r
            out.append(build(sh))
    return out


def emit_request(words, hive, choices):
    return "EMIT %d %s | %s" % (1 if hive else 0, ",".join(map(str, choices)) if choices else "-", " ".join(words))


def emit_all(cases):
    """cases: list of (words, hive, choices) -> list of (text, expected_dump)"""
    outs = core.run_model([emit_request(*c) for c in cases])
    res = []
    for o in outs:
        if " | " not in o:
            res.append((None, o))
            continue
        t, d = o.split(" | ", 1)
        text = "" if t == "-" else "".join(chr(int(x)) for x in t.split("."))
        res.append((text, d))
    return res
