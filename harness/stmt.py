"""Shared helpers of the parser / printer level checks: case generation, model+implementation runs, verdict."""
import json
import re

from . import core, sqlgen

DIALECTS = ["DEFAULT", "MYSQL", "HIVE", "DB2", "ORACLE", "POSTGRE_SQL", "SQL_SERVER"]


def cps(s):
    return " ".join(str(ord(c)) for c in s)


def dec(x):
    if x == "-":
        return ""
    return "".join(chr(int(y)) for y in x.split("."))


def gen_cases(run, dialects, per_dialect, with_corpus=True):
    cases = []
    for d in dialects:
        for s in sqlgen.gen_statements(run.rng, per_dialect, d):
            cases.append((d, s))
    if with_corpus:
        for s in sqlgen.corpus():
            cases.append(("MYSQL", s))
    return cases


def parse_both(cases, entry="statements", mb=False):
    reqs = [sqlgen.parse_request(entry, d, s, mb) for d, s in cases]
    return reqs, core.run_model(reqs), core.run_impl(reqs)


def print_request(entry, pd, qd, text, mb=False):
    return "PRINT %d %s %s %s %s" % (1 if mb else 0, entry, pd, qd, cps(text))


def tie(run, name, reqs, mo, im, texts):
    dis = []
    for rq, a, b, t in zip(reqs, mo, im, texts):
        if a != b:
            dis.append({"kind": "input", "stream": name, "request": rq, "text": t, "model": a[:1500], "observed": b[:1500]})
    return dis


def split_dump_list(dump):
    """'OK [A{..},B{..}]' -> list of top-level element dumps"""
    if not dump.startswith("OK ["):
        return None
    body = dump[4:-1]
    out, depth, cur = [], 0, []
    for ch in body:
        if ch in "{([":
            depth += 1
        elif ch in "})]":
            depth -= 1
        if ch == "," and depth == 0:
            out.append("".join(cur))
            cur = []
        else:
            cur.append(ch)
    if cur:
        out.append("".join(cur))
    return out


# ---- known-finding regions, judged on the canonical dump of a tree ----
MYSQL_ONLY_COLUMN = re.compile(r"(is_unsigned=T|is_zerofill=T|character_set=s:|;collate=s:|is_allow_null=T|is_not_null=T|is_auto_increment=T)")
MYSQL_ONLY_COLUMN2 = re.compile(r"(generated_always_as=ASTGeneratedColumn|default=AST|on_update=AST)")


def dialect_omits(dump, qd):
    """K-DIALECT-OMIT: the printer of dialect qd silently leaves out parts of this tree"""
    if qd != "MYSQL":
        if "ASTDefineColumnExpression" in dump and (MYSQL_ONLY_COLUMN.search(dump) or MYSQL_ONLY_COLUMN2.search(dump)):
            return True
    if "ASTCreateTableStatement{" in dump:
        hive_only = re.search(r"partitioned_by=\(AST|row_format_serde=s:|row_format_delimited_fields_terminated_by=s:|stored_as_inputformat=s:|stored_as_textfile=T|outputformat=s:|location=s:|tblproperties=\(AST", dump)
        mysql_only = re.search(r"primary_key=AST|unique_key=\(AST|;key=\(AST|fulltext_key=\(AST|foreign_key=\(AST|engine=s:|auto_increment=i:|default_charset=s:|;collate=s:|row_format=s:|states_persistent=s:", dump)
        if qd == "MYSQL" and hive_only:
            return True
        if qd == "HIVE" and mysql_only:
            return True
    if "ASTAnalyzeTableStatement{" in dump and qd == "MYSQL" and re.search(r"partition=AST|for_columns=T|cache_metadata=T|noscan=T", dump):
        return True
    if qd == "HIVE" and re.search(r"ASTColumnTypeExpression\{name=s:[0-9.]*;params=\(", dump):
        return True
    if qd != "HIVE" and re.search(r"sort_by_clause=AST|distribute_by_clause=AST|cluster_by_clause=AST", dump):
        return True
    return False


PLAIN = re.compile(r"^[A-Za-z_][A-Za-z0-9_]*$")
RESERVED = {"SELECT", "FROM", "WHERE", "AND", "OR", "NOT", "AS", "ON", "JOIN", "GROUP", "ORDER", "BY", "LIMIT", "UNION", "IN", "IS", "LIKE", "BETWEEN",
            "CASE", "WHEN", "THEN", "ELSE", "END", "XOR", "DIV", "MOD", "WITH", "HAVING", "LEFT", "RIGHT", "INNER", "FULL", "CROSS", "OUTER", "USING",
            "LATERAL", "VIEW", "EXCEPT", "INTERSECT", "MINUS", "RLIKE", "REGEXP", "EXISTS", "DESC", "ASC", "NULLS", "OFFSET", "OVER", "SET", "VALUES",
            "INSERT", "UPDATE", "DELETE", "TRUE", "FALSE", "NULL", "DISTINCT", "SORT", "DISTRIBUTE", "CLUSTER", "ROWS", "PARTITION", "SEMI", "TABLE"}


def names_in(dump, fields):
    out = []
    for f in fields:
        for m in re.finditer(re.escape(f) + r"=s:([0-9.]*)", dump):
            out.append("".join(chr(int(x)) for x in m.group(1).split(".") if x))
    return out


def bare_name_region(dump):
    """K-BARE-NAME: identifiers the printers emit without quoting although they are not plain words"""
    bare = names_in(dump, ["ASTAlisaExpression{name", "view_name", "ASTWithTable{name", "ASTUpdateSetColumn{column_name", "function_name",
                           "ASTWildcardExpression{table_name", "from_column_name", "to_column_name", "ASTAlterDropColumnExpression{column_name",
                           "constraint_name", "master_table_name", "ASTFunctionNameExpression{schema_name"])
    for m in re.finditer(r"ASTMultiAlisaExpression\{names=\(([^)]*)\)", dump):
        for part in m.group(1).split(","):
            if part.startswith("s:"):
                bare.append("".join(chr(int(x)) for x in part[2:].split(".") if x))
    for n in bare:
        if not PLAIN.match(n) or n.upper() in RESERVED:
            return True
    return False


def conclude(run, proofs_ok, dis, fails, theorem, oracle_name):
    if fails:
        f = fails[0]
        run.violation(dict(f, oracle=oracle_name, broken=run.broken, other_failing_inputs=[x.get("text") for x in fails[1:6]]))
        return
    if proofs_ok and not dis:
        return
    if dis:
        run.broken.append({"kind": "correspondence", "count": len(dis), "first": dis[0]})
    run.violation({"kind": "obligation", "theorem": theorem, "broken": run.broken, "oracle": oracle_name,
                   "note": "proof / tie broken; the property oracle found no failing input on the implementation"}, no_input=True)


def replay_generic(path, check):
    obj = json.load(open(path, encoding="utf-8"))
    if obj.get("kind") != "input":
        print("replay: obligation-only replay file; re-run the check")
        return 1
    v = check(obj)
    print("text   :", repr(obj.get("text")))
    print("verdict:", v or "ok")
    return 1 if v else 0
