"""Structured random SQL generator (mostly valid statements of every kind the parser knows) + corpus loader +
malformed-input mutators.  Every random choice comes from the rng passed in, so a run replays exactly."""
import ast
import os
import re

from . import core

NAMES = ["a", "b", "c", "col1", "t1", "t2", "x", "y", "amount", "user_id", "`order`", "`a b`", "B", "X", "名字"]
TABLES = ["t", "t1", "t2", "orders", "db.users", "`s`.`u`", "`s.v`", "x", "`ods.order.detail`"]
FUNCS = ["f", "concat", "coalesce", "nvl", "lower", "db.udf", "substring"]
AGGS = ["count", "SUM", "min", "Max", "avg"]
LITS = ["1", "0", "42", "3.14", "'s'", "'it''s'", "\"d\"", "NULL", "true", "FALSE", "x'1F'", "b'01'", "''", "'a b'", "007"]
BINOPS = ["+", "-", "*", "/", "%", "DIV", "MOD", "mod", "<<", ">>", "&", "|", "^"]
CMPOPS = ["=", "!=", "<>", "<", "<=", ">", ">=", "<=>"]
CAST_TYPES = ["CHAR", "DECIMAL(10,2)", "SIGNED INT", "VARCHAR(20)", "DATE", "STRING", "BIGINT"]


class Gen:
    def __init__(self, rng, dialect="DEFAULT", depth=3):
        self.r = rng
        self.d = dialect
        self.maxdepth = depth

    def pick(self, xs):
        return self.r.choice(xs)

    def kw(self, s):
        m = self.r.random()
        if m < 0.6:
            return s
        if m < 0.85:
            return s.lower()
        return "".join(c.upper() if self.r.random() < 0.5 else c.lower() for c in s)

    def name(self):
        return self.pick(NAMES)

    def column(self):
        if self.r.random() < 0.3:
            return self.pick(["t1", "t2", "x", "`t`"]) + "." + self.name()
        return self.name()

    def atom(self, depth):
        k = self.r.random()
        if k < 0.3 or depth <= 0:
            return self.column() if self.r.random() < 0.55 else self.pick(LITS)
        if k < 0.42:
            return "(" + self.expr(depth - 1) + ")"
        if k < 0.55:
            args = ", ".join(self.expr(depth - 1) for _ in range(self.r.randint(0, 3)))
            return "%s(%s)" % (self.pick(FUNCS), args)
        if k < 0.63:
            f = self.pick(AGGS)
            if self.r.random() < 0.3:
                return "%s(*)" % f
            return "%s(%s%s)" % (f, self.kw("DISTINCT") + " " if self.r.random() < 0.3 else "", self.expr(depth - 1))
        if k < 0.69:
            return "%s(%s %s %s)" % (self.kw("CAST"), self.expr(depth - 1), self.kw("AS"), self.pick(CAST_TYPES))
        if k < 0.75:
            s = self.kw("CASE")
            if self.r.random() < 0.5:
                s += " " + self.expr(depth - 1)
            for _ in range(self.r.randint(1, 2)):
                s += " %s %s %s %s" % (self.kw("WHEN"), self.expr(depth - 1), self.kw("THEN"), self.expr(depth - 1))
            if self.r.random() < 0.5:
                s += " %s %s" % (self.kw("ELSE"), self.expr(depth - 1))
            return s + " " + self.kw("END")
        if k < 0.80:
            return "%s(%s, %s, %s)" % (self.kw("IF"), self.expr(depth - 1), self.expr(depth - 1), self.expr(depth - 1))
        if k < 0.84:
            return "(" + self.select(depth - 1, top=False) + ")"
        if k < 0.88:
            w = "%s() %s (" % (self.pick(["row_number", "rank", "sum"]), self.kw("OVER"))
            parts = []
            if self.r.random() < 0.6:
                parts.append(self.kw("PARTITION") + " " + self.kw("BY") + " " + self.column())
            if self.r.random() < 0.6:
                parts.append(self.kw("ORDER") + " " + self.kw("BY") + " " + self.column() + self.pick(["", " DESC", " asc"]))
            if self.r.random() < 0.3:
                parts.append("ROWS BETWEEN " + self.pick(["UNBOUNDED PRECEDING", "2 PRECEDING", "CURRENT ROW"]) + " AND " +
                             self.pick(["CURRENT ROW", "1 FOLLOWING", "UNBOUNDED FOLLOWING"]))
            return w + " ".join(parts) + ")"
        if k < 0.91:
            return "%s(%s %s %s)" % (self.kw("EXTRACT"), self.pick(["year", "month"]), self.kw("FROM"), self.column())
        if k < 0.94 and self.d == "HIVE":
            return self.column() + "[" + self.pick(["0", "1", "'k'"]) + "]"
        if k < 0.97:
            return self.pick(["*", "t1.*"])
        return self.pick(["CURRENT_DATE", "CURRENT_TIMESTAMP"])

    def unary(self, depth):
        if self.r.random() < 0.12:
            return self.pick(["-", "+", "~", "- ", "!" if self.d != "HIVE" else "-"]) + self.unary(depth)
        return self.atom(depth)

    def compute(self, depth):
        s = self.unary(depth)
        for _ in range(self.pick([0, 0, 0, 1, 1, 2, 3])):
            s += " " + self.pick(BINOPS) + " " + self.unary(depth)
        return s

    def predicate(self, depth):
        s = self.compute(depth)
        k = self.r.random()
        nt = self.kw("NOT") + " " if self.r.random() < 0.3 else ""
        if k < 0.45:
            return s
        if k < 0.55:
            return "%s %s%s %s %s %s" % (s, nt, self.kw("BETWEEN"), self.compute(depth), self.kw("AND"), self.compute(depth))
        if k < 0.65:
            return "%s %s %s%s" % (s, self.kw("IS"), nt, self.pick(["NULL", "null", "TRUE"]))
        if k < 0.78:
            if self.r.random() < 0.3 and depth > 0:
                return "%s %s%s (%s)" % (s, nt, self.kw("IN"), self.select(depth - 1, top=False))
            return "%s %s%s (%s)" % (s, nt, self.kw("IN"), ", ".join(self.compute(depth - 1) for _ in range(self.r.randint(1, 3))))
        if k < 0.9:
            return "%s %s%s %s" % (s, nt, self.kw(self.pick(["LIKE", "RLIKE", "REGEXP"])), self.pick(["'a%'", "'^x'", self.column()]))
        if depth > 0:
            return "%s (%s)" % (self.kw("EXISTS"), self.select(depth - 1, top=False))
        return s

    def comparison(self, depth):
        s = self.predicate(depth)
        for _ in range(self.pick([0, 0, 1, 1, 2])):
            s += " " + self.pick(CMPOPS) + " " + self.predicate(depth)
        return s

    def notlevel(self, depth):
        if self.r.random() < 0.15:
            return self.pick([self.kw("NOT") + " ", "! " if self.d == "HIVE" else self.kw("NOT") + " "]) + self.notlevel(depth)
        return self.comparison(depth)

    def expr(self, depth):
        s = self.notlevel(depth)
        for _ in range(self.pick([0, 0, 0, 1, 1, 2])):
            s += " " + self.pick([self.kw("AND"), self.kw("OR"), self.kw("XOR"), "&&", "||"]) + " " + self.notlevel(depth)
        return s

    def alias(self):
        k = self.r.random()
        if k < 0.5:
            return ""
        return (" " + self.kw("AS") if k < 0.8 else "") + " " + self.pick(["al", "`q`", "z1"])

    def table(self, depth):
        if depth > 0 and self.r.random() < 0.15:
            return "(" + self.select(depth - 1, top=False) + ")" + " " + self.pick(["AS d", "d"])
        return self.pick(TABLES) + self.alias()

    def order_items(self, depth):
        return ", ".join(self.compute(0) + self.pick(["", " ASC", " desc", " DESC NULLS FIRST", " NULLS LAST"])
                         for _ in range(self.r.randint(1, 2)))

    def single_select(self, depth):
        s = self.kw("SELECT") + " "
        if self.r.random() < 0.15:
            s += self.kw("DISTINCT") + " "
        s += ", ".join(self.expr(depth) + self.alias() for _ in range(self.r.randint(1, 3)))
        if self.r.random() < 0.85:
            s += " " + self.kw("FROM") + " " + ", ".join(self.table(depth) for _ in range(self.pick([1, 1, 1, 2])))
            if self.d == "HIVE" and self.r.random() < 0.15:
                s += " LATERAL VIEW %sexplode(%s) lv AS e1%s" % (self.pick(["", "OUTER "]), self.column(), self.pick(["", ", e2"]))
            for _ in range(self.pick([0, 0, 1, 2])):
                s += " " + self.pick(["JOIN", "INNER JOIN", "LEFT JOIN", "LEFT OUTER JOIN", "RIGHT JOIN", "FULL OUTER JOIN", "CROSS JOIN",
                                      "left join", "LEFT SEMI JOIN"]) + " " + self.table(depth)
                k = self.r.random()
                if k < 0.7:
                    s += " " + self.kw("ON") + " " + self.expr(max(0, depth - 1))
                elif k < 0.85:
                    s += " USING(" + self.name() + ")"
            if self.r.random() < 0.5:
                s += " " + self.kw("WHERE") + " " + self.expr(depth)
            if self.r.random() < 0.3:
                s += " " + self.kw("GROUP") + " " + self.kw("BY") + " "
                k = self.r.random()
                if k < 0.7:
                    s += ", ".join(self.compute(0) for _ in range(self.r.randint(1, 2)))
                    if self.r.random() < 0.15:
                        s += " " + self.pick(["WITH ROLLUP", "WITH CUBE"])
                    elif self.r.random() < 0.1:
                        s += " GROUPING SETS ((a, b), a, ())"
                else:
                    s += "GROUPING SETS ((a), (a, b))"
                if self.r.random() < 0.4:
                    s += " " + self.kw("HAVING") + " " + self.expr(max(0, depth - 1))
            if self.r.random() < 0.3:
                s += " " + self.kw("ORDER") + " " + self.kw("BY") + " " + self.order_items(depth)
            if self.d == "HIVE" and self.r.random() < 0.1:
                s += self.pick([" SORT BY a", " DISTRIBUTE BY a", " CLUSTER BY a, b"])
            if self.r.random() < 0.25:
                s += " " + self.kw("LIMIT") + " " + self.pick(["10", "5, 10", "10 OFFSET 5", "1"])
        return s

    def select(self, depth, top=True):
        s = ""
        if top and self.r.random() < 0.12:
            s = self.kw("WITH") + " " + ", ".join("%s %s (%s)" % (self.pick(["w1", "w2", "`w`"]), self.kw("AS"), self.single_select(max(0, depth - 1)))
                                                for _ in range(self.pick([1, 1, 2]))) + " "
        s += self.single_select(depth)
        for _ in range(self.pick([0, 0, 0, 0, 1, 2])):
            s += " " + self.pick(["UNION", "UNION ALL", "union all", "EXCEPT", "INTERSECT", "MINUS"]) + " " + self.single_select(max(0, depth - 1))
        return s

    def column_def(self):
        ty = self.pick(["INT", "INT(11)", "VARCHAR(50)", "DECIMAL(10, 2)", "BIGINT", "DATE", "TEXT", "TINYINT(1)", "DATETIME", "DOUBLE", "CHAR(4)"])
        s = self.pick(["id", "`name`", "c1", "amount", "`user id`"]) + " " + ty
        attrs = ["NOT NULL", "NULL", "DEFAULT 0", "DEFAULT NULL", "DEFAULT 'x'", "COMMENT 'c'", "AUTO_INCREMENT", "UNSIGNED", "ZEROFILL",
                 "CHARACTER SET utf8", "COLLATE utf8_bin", "ON UPDATE CURRENT_TIMESTAMP", "DEFAULT CURRENT_TIMESTAMP",
                 "GENERATED ALWAYS AS (a + 1) STORED"]
        for _ in range(self.pick([0, 1, 1, 2, 3])):
            s += " " + self.pick(attrs)
        return s

    def index_options(self):
        """any subset of the index options in any order (the parser accepts one order; the others must be rejected, not mangled)"""
        opts = ["USING BTREE", self.pick(["KEY_BLOCK_SIZE = 4", "KEY_BLOCK_SIZE=8"]), self.pick(["COMMENT 'pk'", "COMMENT 'it''s'"])]
        k = self.pick([0, 0, 1, 1, 2, 2, 3])
        chosen = self.r.sample(opts, k)
        if self.r.random() < 0.7:
            chosen.sort(key=lambda o: 0 if o.startswith("USING") else (1 if o.startswith("COMMENT") else 2))   # the order the printers emit
        return "".join(" " + o for o in chosen)

    def create_table(self):
        if self.r.random() < 0.15:
            return "CREATE TABLE %s AS %s" % (self.pick(TABLES), self.select(1))
        s = self.kw("CREATE") + " " + self.kw("TABLE") + " " + ("IF NOT EXISTS " if self.r.random() < 0.3 else "") + self.pick(TABLES) + " ("
        items = [self.column_def() for _ in range(self.r.randint(1, 4))]
        if self.r.random() < 0.4:
            items.append("PRIMARY KEY (id)" + self.index_options())
        if self.r.random() < 0.25:
            items.append("UNIQUE KEY uk (c1, `name`(10))" + self.index_options())
        if self.r.random() < 0.25:
            items.append("KEY idx_a (c1)" + self.index_options())
        if self.r.random() < 0.1:
            items.append("FULLTEXT KEY ft (`name`)" + self.index_options())
        if self.r.random() < 0.15:
            items.append("CONSTRAINT fk1 FOREIGN KEY (c1) REFERENCES other (id)" + self.pick(["", " ON DELETE CASCADE", " ON DELETE SET NULL ON UPDATE NO ACTION",
                                                                                                " ON UPDATE RESTRICT"]))
        s += ", ".join(items) + ")"
        opts = ["ENGINE=InnoDB", "ENGINE = MyISAM", "AUTO_INCREMENT=10", "DEFAULT CHARSET=utf8mb4", "COLLATE=utf8_bin", "COMMENT='tbl'", "COMMENT 'tbl'",
                "ROW_FORMAT=DYNAMIC", "STATS_PERSISTENT=1", "PARTITIONED BY (dt STRING COMMENT 'd')", "STORED AS TEXTFILE",
                "ROW FORMAT DELIMITED FIELDS TERMINATED BY ','", "LOCATION '/p'", "TBLPROPERTIES ('k'='v', 'a.b'='c')",
                "ROW FORMAT SERDE 'x.y'", "STORED AS INPUTFORMAT 'i' OUTPUTFORMAT 'o'"]
        for _ in range(self.pick([0, 1, 2, 3])):
            s += " " + self.pick(opts)
        return s

    def statement(self, depth=None):
        depth = self.maxdepth if depth is None else depth
        k = self.r.random()
        if k < 0.5:
            return self.select(depth)
        if k < 0.58:
            s = self.pick(["INSERT INTO", "insert into", "INSERT OVERWRITE TABLE", "INSERT IGNORE INTO", "INSERT INTO TABLE"]) + " " + self.pick(TABLES)
            if self.r.random() < 0.2:
                s += " PARTITION (dt='1', h)" if self.r.random() < 0.0 else " PARTITION (dt='1')"
            if self.r.random() < 0.5:
                s += " (" + ", ".join(self.name() for _ in range(self.r.randint(1, 3))) + ")"
            if self.r.random() < 0.5:
                s += " VALUES " + ", ".join("(" + ", ".join(self.compute(0) for _ in range(2)) + ")" for _ in range(self.r.randint(1, 3)))
            else:
                s += " " + self.select(max(0, depth - 1), top=False)
            return s
        if k < 0.64:
            s = "UPDATE %s SET %s" % (self.pick(TABLES), ", ".join("%s = %s" % (self.name(), self.expr(1)) for _ in range(self.r.randint(1, 2))))
            if self.r.random() < 0.6:
                s += " WHERE " + self.expr(1)
            if self.r.random() < 0.2:
                s += " ORDER BY a LIMIT 3"
            return s
        if k < 0.69:
            s = "DELETE FROM " + self.pick(TABLES)
            if self.r.random() < 0.7:
                s += " WHERE " + self.expr(1)
            if self.r.random() < 0.2:
                s += " LIMIT 5"
            return s
        if k < 0.79:
            return self.create_table()
        if k < 0.85:
            t = self.pick(TABLES)
            return "ALTER TABLE %s %s" % (t, ", ".join(self.pick([
                "ADD " + self.column_def(), "MODIFY " + self.column_def(), "CHANGE old_c " + self.column_def(), "DROP COLUMN c1",
                "RENAME COLUMN a TO b", "ADD PARTITION (dt='2024')", "ADD IF NOT EXISTS PARTITION (dt='1', h='2')", "DROP PARTITION (dt='1')",
                "DROP IF EXISTS PARTITION (dt='1')", "ADD PRIMARY KEY (id)", "ADD KEY k1 (c1)", "ADD UNIQUE KEY u1 (c1)"]) for _ in range(self.pick([1, 1, 2]))))
        return self.pick(["SET a = 1", "set hive.exec.dynamic.partition=true", "SET mapred.job-name = x-y.z", "USE db1", "use `d`",
                          "DROP TABLE t", "DROP TABLE IF EXISTS db.t", "TRUNCATE TABLE t", "MSCK REPAIR TABLE db.t", "SHOW DATABASES", "show tables",
                          "SHOW COLUMNS FROM t", "SHOW COLUMNS FROM t WHERE a = 1", "ANALYZE TABLE t", "ANALYZE TABLE t PARTITION (dt='1') COMPUTE STATISTICS",
                          "ANALYZE TABLE t COMPUTE STATISTICS FOR COLUMNS", "ANALYZE TABLE t COMPUTE STATISTICS NOSCAN"])


MAXLEN = 700


def gen_statements(rng, count, dialect="DEFAULT", depth=None, maxlen=MAXLEN):
    out = []
    tries = 0
    while len(out) < count and tries < count * 30:
        tries += 1
        g = Gen(rng, dialect, depth=rng.choice([0, 1, 1, 2, 2, 3]) if depth is None else depth)
        try:
            s = g.statement()
        except RecursionError:
            continue
        if len(s) <= maxlen:
            out.append(s)
    return out


def gen_expressions(rng, count, dialect="DEFAULT", depth=2, maxlen=300):
    out = []
    tries = 0
    while len(out) < count and tries < count * 30:
        tries += 1
        s = Gen(rng, dialect, depth).expr(rng.choice([0, 1, 1, 2]) if depth is None else depth)
        if len(s) <= maxlen:
            out.append(s)
    return out


# ---------------------------------------------------------------- corpus
_corpus = None


def corpus():
    """statements shipped with /repo (tutorial corpus, DDL corpus, strings of the unit tests)"""
    global _corpus
    if _corpus is not None:
        return _corpus
    out = []
    base = os.path.join(core.REPO, "scripts")
    for fn in ("demo_sql/sql_basic_tutorial.py", "demo_sql/with_demo.py"):
        p = os.path.join(base, fn)
        if os.path.exists(p):
            try:
                tree = ast.parse(open(p, encoding="utf-8").read())
                for node in ast.walk(tree):
                    if isinstance(node, ast.Constant) and isinstance(node.value, str) and len(node.value) > 8 and "\n" in node.value \
                            and re.search(r"(?i)\b(select|insert|update|delete|create|alter|drop)\b", node.value):
                        out.append(node.value.strip())
            except SyntaxError:
                pass
    p = os.path.join(base, "demo_sql/dolphinscheduler_mysql.sql")
    if os.path.exists(p):
        txt = open(p, encoding="utf-8").read()
        for m in re.finditer(r"(?is)(CREATE TABLE.*?;)\s*\n", txt):
            out.append(m.group(1))
    for fn in ("tests/test_core_parser.py", "tests/test_parse_statement.py", "tests/test_issues.py"):
        p = os.path.join(base, fn)
        if os.path.exists(p):
            try:
                tree = ast.parse(open(p, encoding="utf-8").read())
                for node in ast.walk(tree):
                    if isinstance(node, ast.Constant) and isinstance(node.value, str) and re.search(r"(?i)^\s*(select|insert|update|delete|create|alter|drop|with)\b", node.value):
                        out.append(node.value.strip())
            except SyntaxError:
                pass
    seen = set()
    res = []
    for s in out:
        if s not in seen and len(s) < 6000:
            seen.add(s)
            res.append(s)
    _corpus = res
    return res


# ---------------------------------------------------------------- malformed inputs
PROBES = ["\u00b2", "\u2460", "1e3", "0x", ".5", "5.", "(", ")", ",", ";", ".", "SELECT", "FROM", "AND", "NOT", "IN", "BETWEEN", "1", "'s'", "x", "*", "+", "-", "=", "[", "]", "AS", "JOIN", "CASE",
          "END", "LIMIT", "()", "(,)", "NULL"]


def split_words(sql):
    return re.findall(r"'(?:[^'\\]|\\.|'')*'|\"(?:[^\"\\]|\\.)*\"|`[^`]*`|\w+|[^\w\s]", sql)


def mutants(rng, sql, n):
    """n malformed variants: prefixes (char and token granularity), deletion, duplication, swap, replacement"""
    ws = split_words(sql)
    out = []
    for _ in range(n):
        k = rng.random()
        if not ws:
            break
        i = rng.randrange(len(ws))
        if k < 0.2:
            out.append(" ".join(ws[:i]))
        elif k < 0.3:
            out.append(sql[:rng.randrange(len(sql) + 1)])
        elif k < 0.5:
            out.append(" ".join(ws[:i] + ws[i + 1:]))
        elif k < 0.62:
            out.append(" ".join(ws[:i] + [ws[i]] + ws[i:]))
        elif k < 0.74 and len(ws) > 1:
            j = min(len(ws) - 1, i + 1)
            w2 = list(ws)
            w2[i], w2[j] = w2[j], w2[i]
            out.append(" ".join(w2))
        else:
            out.append(" ".join(ws[:i] + [rng.choice(PROBES)] + ws[i + 1:]))
    return out


def parse_request(entry, dialect, text, mb=False):
    return "PARSE %d %s %s %s" % (1 if mb else 0, entry, dialect, " ".join(str(ord(c)) for c in text))
