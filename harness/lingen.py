"""Lineage generator: a catalogue of base tables and a query (or INSERT ... SELECT) built together with the lineage the property
demands: output columns in order with their names and, for each, the set of (schema, table, column) base columns that flow into it;
or the analysis error that an ambiguous / unknown reference / arity mismatch must produce.  Written against the property text."""


def enc(s):
    return "-" if s is None else ("e" if s == "" else ".".join(str(ord(c)) for c in s))


VARLIKE = ["current_date", "Current_Time", "current_timestamp"]      # column names spelled like global variables: only used qualified


class Cat:
    def __init__(self, rng, ntables, overlap=False):
        self.tables = []          # (schema or None, name, [columns])
        pool = ["a", "b", "c", "d", "e", "f", "g", "h", "k", "m", "n", "p", "q", "r", "u", "v", "w", "x", "y", "z", "amount", "user_id", "dt"]
        rng.shuffle(pool)
        names = rng.sample(["t1", "t2", "orders", "users", "ev", "dim"], ntables)
        for i, n in enumerate(names):
            ncol = rng.randint(1, 4)
            cols = [pool.pop() for _ in range(ncol)]
            if rng.random() < 0.12:
                cols[-1] = rng.choice(VARLIKE)
            if overlap and i > 0 and rng.random() < 0.7:
                cols[0] = self.tables[0][2][0]          # a shared column name: unqualified use is ambiguous
            self.tables.append((rng.choice([None, None, "db", "ods"]), n, cols))
        if ntables >= 2 and rng.random() < 0.15:
            # the same table name in two schemas (different columns): they are different tables
            a, b = self.tables[0], self.tables[1]
            self.tables[0] = ("ods", a[1], a[2])
            self.tables[1] = ("dim", a[1], b[2])

    def key(self, t):
        return (t[0] + "." if t[0] else "") + t[1]

    def ddl(self, t):
        return "CREATE TABLE %s (%s)" % (self.key(t), ", ".join("%s INT" % c for c in t[2]))

    def request_part(self):
        return ",".join("%s=%s" % (enc(self.key(t)), enc(self.ddl(t))) for t in self.tables) or "-"


def src(t, c):
    return (t[0] if t[0] else "", t[1], c)


class Rel:
    """a relation visible in a FROM clause: name it is visible under, ordered output columns with their source sets, text"""
    def __init__(self, vis, cols, text, keys):
        self.vis, self.cols, self.text, self.keys = vis, cols, text, keys


def base_rel(rng, cat, t):
    alias = rng.choice([None, None, "x1", "y2", "z3", "X4", "Tmp"])
    if alias is None and sum(1 for u in cat.tables if u[1] == t[1]) > 1:
        alias = rng.choice(["x1", "y2", "z3", "X4"])
    text = cat.key(t) + ((" AS " if rng.random() < 0.5 else " ") + alias if alias else "")
    return Rel(alias or t[1], [(c, {src(t, c)}) for c in t[2]], text, [cat.key(t)])


def gen_select(rng, cat, depth, used_alias=None):
    """returns (text, [(name, sources)], keys asked in order of first use) for a well-scoped query"""
    used_alias = used_alias if used_alias is not None else set()
    rels = []
    tables = rng.sample(cat.tables, rng.choice([1, 1, 2]) if len(cat.tables) > 1 else 1)
    for t in tables:
        if depth > 0 and rng.random() < 0.3:
            itext, icols, ikeys = gen_select(rng, cat, depth - 1, used_alias)
            al = rng.choice(["d%d", "d%d", "D%d", "Sub%d"]) % (len(used_alias) + 1)
            used_alias.add(al)
            rels.append(Rel(al, icols, "(" + itext + ") " + al, ikeys))
        else:
            r = base_rel(rng, cat, t)
            if r.vis in used_alias or r.vis in [x.vis for x in rels]:
                continue
            used_alias.add(r.vis)
            rels.append(r)
    if not rels:
        r = base_rel(rng, cat, tables[0])
        rels.append(r)
    # column names visible more than once must be qualified
    count = {}
    for r in rels:
        for c, _ in r.cols:
            count[c] = count.get(c, 0) + 1
    items, out = [], []
    k = rng.random()
    if k < 0.15:
        items.append("*")
        for r in rels:
            out += [(c, set(s)) for c, s in r.cols]
    elif k < 0.3:
        r = rng.choice(rels)
        items.append(r.vis + ".*")
        out += [(c, set(s)) for c, s in r.cols]
    for i in range(rng.randint(0 if items else 1, 3)):
        kind = rng.random()
        def ref():
            r = rng.choice(rels)
            c, s = rng.choice(r.cols)
            if c in VARLIKE:
                return "%s.%s" % (r.vis, c if rng.random() < 0.5 else "`" + c + "`"), c, set(s)
            if count[c] > 1 or rng.random() < 0.4:
                return "%s.%s" % (r.vis, c), c, set(s)
            return c, c, set(s)
        if kind < 0.45:
            t, c, s = ref()
            if rng.random() < 0.4:
                al = "o%d" % i
                items.append("%s AS %s" % (t, al))
                out.append((al, s))
            else:
                items.append(t)
                out.append((c, s))
        elif kind < 0.85:
            t1, _, s1 = ref()
            t2, _, s2 = ref()
            al = "o%d" % i
            items.append("%s(%s, %s %s 1) AS %s" % (rng.choice(["f", "coalesce", "concat"]), t1, t2, rng.choice(["+", "*"]), al))
            out.append((al, s1 | s2))
        else:
            t1, _, s1 = ref()
            al = "o%d" % i
            items.append("%s(%s) AS %s" % (rng.choice(["sum", "max"]), t1, al))
            out.append((al, s1))
    # duplicate output names make the name-keyed parts of the lineage object ambiguous: regenerate those away
    seen = set()
    uniq_items, uniq_out = [], []
    for it, o in zip_items(items, out, rels):
        if all(n not in seen for n, _ in o) and len({n for n, _ in o}) == len(o):
            for n, _ in o:
                seen.add(n)
            uniq_items.append(it)
            uniq_out += o
    if not uniq_items:
        r = rels[0]
        c, s = r.cols[0]
        uniq_items, uniq_out = ["%s.%s AS only1" % (r.vis, c)], [("only1", set(s))]
    text = "SELECT " + ", ".join(uniq_items) + " FROM " + rels[0].text
    for r in rels[1:]:
        if rng.random() < 0.5:
            text += ", " + r.text
        else:
            a = rels[0]
            text += " %s %s ON %s.%s = %s.%s" % (rng.choice(["JOIN", "LEFT JOIN", "INNER JOIN"]), r.text, a.vis, a.cols[0][0], r.vis, r.cols[0][0])
    if rng.random() < 0.3:
        r = rels[0]
        text += " WHERE %s.%s > 1" % (r.vis, r.cols[0][0])
    keys = []
    for r in rels:
        for kk in r.keys:
            if kk not in keys:
                keys.append(kk)
    return text, uniq_out, keys


def zip_items(items, out, rels):
    """pair every select item text with the output columns it produces"""
    res = []
    j = 0
    for it in items:
        if it == "*":
            n = sum(len(r.cols) for r in rels)
        elif it.endswith(".*"):
            n = len([r for r in rels if r.vis == it[:-2]][0].cols)
        else:
            n = 1
        res.append((it, out[j:j + n]))
        j += n
    return res


def fmt_sources(s):
    return "[" + ",".join(sorted(set("%s:%s:%s" % (enc(a), enc(b), enc(c)) for a, b, c in s))) + "]"


def expected_select(out):
    return "OK S " + " ".join("%d:%s=%s" % (i + 1, enc(n), fmt_sources(s)) for i, (n, s) in enumerate(out))


def failed_scope_pair(rng, cat):
    """two statements over one catalogue: the first registers a WITH table / derived-table alias named like a base table and then fails; the second
    reads that base table.  On one analyser, one after the other, the second must be answered as if the first had never been seen."""
    ts = [t for t in cat.tables if t[0] is None and sum(1 for u in cat.tables if u[1] == t[1]) == 1]
    if not ts:
        return []
    t = rng.choice(ts)
    c = t[2][0]
    k = rng.random()
    if k < 0.4:
        s1 = "WITH %s AS (SELECT 1 AS zz9) SELECT nosuch9.q FROM %s" % (t[1], t[1])
    elif k < 0.7:
        s1 = "SELECT nosuch9.q FROM (SELECT 1 AS zz9) %s" % t[1]
    else:
        s1 = "WITH %s AS (SELECT 1 AS zz9), w9 AS (SELECT nosuch9.q FROM %s) SELECT zz9 FROM %s" % (t[1], t[1], t[1])
    s2 = "SELECT %s AS o1 FROM %s" % (c, t[1])
    return [(cat, s1, "ERR AnalyzerErr", None), (cat, s2, expected_select([("o1", {src(t, c)})]), [cat.key(t)])]


def case(rng, cat=None):
    """one (catalogue, text, expected body, expected asked keys or None) tuple; with `cat` given, another statement over that catalogue"""
    kind = rng.random()
    if cat is None:
        cat = Cat(rng, rng.randint(1, 4), overlap=(0.80 <= kind < 0.86))
    elif 0.80 <= kind < 0.86:
        kind = 0.1
    text, out, keys = gen_select(rng, cat, rng.choice([0, 1, 1, 2]))
    expected = expected_select(out)
    if kind < 0.43:
        pass
    elif kind < 0.49:                                   # LATERAL VIEW: the exploded columns carry the sources of the function's arguments (referenced unqualified)
        a = cat.tables[0]
        ca, da = a[2][0], a[2][-1]
        j = rng.random()
        if ca in VARLIKE or da in VARLIKE or any(c in ("v", "k2", "v2") for t in cat.tables for c in t[2]):
            pass                                        # a base column spelled like the view's column would make the reference ambiguous
        elif j < 0.4 or len(cat.tables) < 2 or cat.tables[1][1] == a[1]:
            text = "SELECT v AS o1, %s AS o2, f(v, %s) AS o3 FROM %s LATERAL VIEW %sexplode(%s) tt AS v" % (da, da, cat.key(a), rng.choice(["", "OUTER "]), ca)
            return cat, text, expected_select([("o1", {src(a, ca)}), ("o2", {src(a, da)}), ("o3", {src(a, ca), src(a, da)})]), [cat.key(a)]
        elif j < 0.7:
            text = "SELECT k2 AS o1, v2 AS o2 FROM %s LATERAL VIEW explode(g(%s, %s)) tt AS k2, v2" % (cat.key(a), ca, da)
            return cat, text, expected_select([("o1", {src(a, ca), src(a, da)}), ("o2", {src(a, ca), src(a, da)})]), [cat.key(a)]
        else:
            b = cat.tables[1]
            cb, db_ = b[2][0], b[2][-1]
            if cb not in VARLIKE and db_ not in VARLIKE and not ({ca, da} & set(b[2])) and not ({cb, db_} & set(a[2])):
                text = ("SELECT %s AS o1, v AS o2 FROM %s LATERAL VIEW explode(%s) tt AS v UNION ALL SELECT %s, v FROM %s LATERAL VIEW explode(%s) uu AS v"
                        % (da, cat.key(a), ca, db_, cat.key(b), cb))
                return cat, text, expected_select([("o1", {src(a, da), src(b, db_)}), ("o2", {src(a, ca), src(b, cb)})]), [cat.key(a), cat.key(b)]
    elif kind < 0.55:                                   # self-join: one table under two aliases
        t = cat.tables[0]
        c = t[2][0]
        d = t[2][-1]
        j = rng.random()
        if j < 0.35:                                    # an unqualified column is visible twice: ambiguous, whatever expression it stands in
            item = rng.choice([c, "%s + 1 AS o" % c, "f(%s) AS o" % c, "max(%s) AS o" % c])
            return cat, "SELECT %s FROM %s x1 %s %s y2 ON x1.%s = y2.%s" % (item, cat.key(t), rng.choice(["JOIN", "LEFT JOIN"]), cat.key(t), c, c), "ERR AnalyzerErr", None
        if j < 0.5:
            return cat, "SELECT %s FROM %s x1, %s y2" % (c, cat.key(t), cat.key(t)), "ERR AnalyzerErr", None
        text = "SELECT x1.%s AS o1, y2.%s AS o2, f(x1.%s, y2.%s) AS o3 FROM %s x1 JOIN %s y2 ON x1.%s = y2.%s" % (c, d, d, c, cat.key(t), cat.key(t), c, c)
        return cat, text, expected_select([("o1", {src(t, c)}), ("o2", {src(t, d)}), ("o3", {src(t, c), src(t, d)})]), [cat.key(t)]
    elif kind < 0.65:                                   # WITH table
        inner, iout, ikeys = gen_select(rng, cat, 0)
        wn = "w"
        j = rng.random()
        if j < 0.3:
            wn = cat.tables[-1][1]                     # the name of a base table: the WITH table shadows it in this statement, and only here
        sel = ", ".join(wn + "." + n if rng.random() < 0.5 else n for n, _ in iout)
        if 0.3 <= j < 0.42:
            # a derived table whose alias is also the name of a WITH table of the statement: the FROM item is what the name means in this SELECT
            inner2, iout2, ikeys2 = gen_select(rng, cat, 0)
            sel2 = ", ".join("w." + n if rng.random() < 0.6 else n for n, _ in iout2)
            return cat, "WITH w AS (%s) SELECT %s FROM (%s) w" % (inner, sel2, inner2), expected_select(iout2), None
        if 0.42 <= j < 0.55:
            # a derived table that reads a WITH table of the enclosing statement: the WITH scope reaches into the sub-query, the provider is not asked for it
            names = [n for n, _ in iout]
            return (cat, "WITH w AS (%s) SELECT %s FROM (SELECT %s FROM w) dd" % (inner, ", ".join("dd." + n for n in names), ", ".join(names)),
                    expected_select(iout), ikeys)
        if j > 0.75:                                    # the WITH clause sits inside a derived table, not at the top
            text = "SELECT %s FROM (WITH %s AS (%s) SELECT %s FROM %s) dd" % (", ".join("dd." + n for n, _ in iout), wn, inner, sel, wn)
        else:
            text = "WITH %s AS (%s) SELECT %s FROM %s" % (wn, inner, sel, wn)
        expected, keys = expected_select(iout), ikeys
    elif kind < 0.72:                                   # UNION over disjoint tables, qualified references
        if len(cat.tables) >= 2:
            a, b = cat.tables[0], cat.tables[1]
            n = min(len(a[2]), len(b[2]))
            va, vb = a[1], b[1]
            ta, tb = cat.key(a), cat.key(b)
            if va == vb:                                # same name in two schemas: distinct aliases (one visible name in two branches is K-UNION-SCOPE)
                va, vb = "x1", "y2"
                ta, tb = ta + " x1", tb + " y2"
            text = "SELECT %s FROM %s UNION ALL SELECT %s FROM %s" % (", ".join("%s.%s AS u%d" % (va, c, i) for i, c in enumerate(a[2][:n])), ta,
                                                                      ", ".join("%s.%s" % (vb, c) for c in b[2][:n]), tb)
            expected = expected_select([("u%d" % i, {src(a, a[2][i]), src(b, b[2][i])}) for i in range(n)])
            keys = [cat.key(a), cat.key(b)]
    elif kind < 0.80:                                   # INSERT with and without a column list, arity (mis)match
        tgt = cat.tables[-1]
        if len(cat.tables) >= 2 and rng.random() < 0.3:
            # the SELECT outputs the same name twice: the pairing with the target columns is by POSITION
            a, b = cat.tables[0], cat.tables[1]
            ca, cb = a[2][0], b[2][0]
            sel = "SELECT x1.%s AS same, y2.%s AS same FROM %s x1 JOIN %s y2 ON x1.%s = y2.%s" % (ca, cb, cat.key(a), cat.key(b), ca, cb)
            if rng.random() < 0.5:
                stext = "INSERT INTO %s (n1, n2) %s" % (cat.key(tgt), sel)
                exp = "OK I %s:%s:%s=%s %s:%s:%s=%s" % (enc(tgt[0]), enc(tgt[1]), enc("n1"), fmt_sources({src(a, ca)}), enc(tgt[0]), enc(tgt[1]), enc("n2"), fmt_sources({src(b, cb)}))
                return cat, stext, exp, [cat.key(a), cat.key(b)]
            if len(tgt[2]) == 2:
                stext = "INSERT INTO %s %s" % (cat.key(tgt), sel)
                exp = "OK I " + " ".join("%s:%s:%s=%s" % (enc(tgt[0]), enc(tgt[1]), enc(nm), fmt_sources({sx})) for nm, sx in zip(tgt[2], [src(a, ca), src(b, cb)]))
                return cat, stext, exp, [cat.key(tgt)] + [k for k in [cat.key(a), cat.key(b)] if k != cat.key(tgt)]
        ncols = len(out)
        if rng.random() < 0.5:
            names = ["c%d" % i for i in range(ncols if rng.random() < 0.7 else ncols + 1)]
            stext = "INSERT INTO %s (%s) %s" % (cat.key(tgt), ", ".join(names), text)
            if len(names) != ncols:
                return cat, stext, "ERR AnalyzerErr", None
            expected = "OK I " + " ".join("%s:%s:%s=%s" % (enc(tgt[0]), enc(tgt[1]), enc(nm), fmt_sources(s)) for nm, (_, s) in zip(names, out))
            return cat, stext, expected, keys
        stext = "INSERT INTO %s %s" % (cat.key(tgt), text)
        if len(tgt[2]) != ncols:
            return cat, stext, "ERR AnalyzerErr", None
        expected = "OK I " + " ".join("%s:%s:%s=%s" % (enc(tgt[0]), enc(tgt[1]), enc(nm), fmt_sources(s)) for nm, (_, s) in zip(tgt[2], out))
        return cat, stext, expected, [cat.key(tgt)] + [k for k in keys if k != cat.key(tgt)]
    elif kind < 0.86:                                   # ambiguous unqualified reference
        if len(cat.tables) >= 2 and cat.tables[1][2][0] == cat.tables[0][2][0]:
            a, b = cat.tables[0], cat.tables[1]
            if a[1] == b[1]:                            # same bare name without aliases is K-SAME-TABLE-NAME: alias them
                return cat, "SELECT %s FROM %s x1, %s y2" % (a[2][0], cat.key(a), cat.key(b)), "ERR AnalyzerErr", None
            return cat, "SELECT %s FROM %s, %s" % (a[2][0], cat.key(a), cat.key(b)), "ERR AnalyzerErr", None
    elif kind < 0.93:                                   # unknown column / unknown qualifier
        a = cat.tables[0]
        j = rng.random()
        if j < 0.3:
            return cat, "SELECT %s.zz_unknown FROM %s" % (a[1], cat.key(a)), "ERR AnalyzerErr", None
        if j < 0.6:
            return cat, "SELECT zz_unknown FROM %s" % cat.key(a), "ERR AnalyzerErr", None
        return cat, "SELECT nosuch.%s FROM %s" % (a[2][0], cat.key(a)), "ERR AnalyzerErr", None
    else:                                               # argument-less aggregate: every upstream table, column None
        a = cat.tables[0]
        return cat, "SELECT count(1) AS n FROM %s" % cat.key(a), "OK S 1:%s=[%s:%s:-]" % (enc("n"), enc(a[0] or ""), enc(a[1])), [cat.key(a)]
    return cat, text, expected, keys
