"""Lexer side of the harness: input generators, LEX correspondence (extracted model vs /repo), and the
executable property oracles that judge the *implementation's* answers (C04 partition oracle here)."""
import json
import os

from . import core

SPACE_BIT, LINE_BIT, COMMENT_BIT = 1, 2, 4


def load_info():
    return json.load(open(os.path.join(core.COQ, "Gen", "lextable.json"), encoding="utf-8"))


def preproc(text: str) -> str:
    # independent re-statement of common/basic.py:preproc_sql (checked against the real one in every LEX answer,
    # because the oracles below compare slices of preproc(text) with the real token texts)
    return text.replace("\r\n", "\n").replace("\t", " ").replace("　", " ")


# ------------------------------------------------------------------ generators
def class_reprs(info):
    reps = []
    for c in info["classes"]:
        reps.append(c["members"][0] if c["members"] else 0xE9)
    return reps


EXTRA_CHARS = [0x09, 0x0D, 0x3000, 0xA0, 0x200B, 0xFEFF, 0xFF0C, 0xFF08, 0x2028, 0x4E2D, 0x17F, 0x131, 0x1F600, ord("$"), ord("@"), ord("?"), ord(":"), ord("_"),
               ord("e"), ord("E"), ord("9"), ord("f"), ord("F"), ord("z"), ord("Z"), ord("s"), ord("T"), ord("n")]

FRAGMENTS = ["select", "SELECT", "from", "a", "b", "x", "B", "X", "t1", "_c", "null", "NULL", "True", "fAlse", "ſelect",
             "0", "1", "12", "007", "1.5", "1.", "0.5", "0x1F", "0b01", "x'1F'", "X\"aB\"", "b'01'", "B\"10\"", "x''",
             "'s'", "''", "'a''b'", "'a\\'b'", "\"d\"", "\"a\"\"b\"", "\"a\\\"b\"", "`n`", "`a b`", "`a.b`", "``",
             "<=>", "<=", ">=", "<>", "!=", "<<", ">>", "&&", "||", "<", ">", "!", "&", "|", "-", "/", "~", "*", "^",
             ",", ";", "=", "+", ".", "%", "(", ")", "[", "]", "((", "))", "()", "[]",
             "# c\n", "-- c\n", "/* c */", "/**/", "/* * */", "/* a*b */", "#", "--", "/*", "*/", "#{p}", "#{", "}", "{",
             " ", "  ", "\n", "\t", "\r\n", "　", "\\", "'", "\"", "`", "中文", "e3", "E", "\xe9",
             "'a\u00a0b'", "`x\u200by`", "-- \ufeff c\n", "\u00a0", "'\uff0c\uff08\uff09'"]


def gen_exhaustive(info, maxlen):
    reps = class_reprs(info)
    out = [[]]
    frontier = [[]]
    for _ in range(maxlen):
        nxt = []
        for p in frontier:
            for c in reps:
                nxt.append(p + [c])
        out.extend(nxt)
        frontier = nxt
    return out


def gen_random(info, rng, count, maxlen=60):
    reps = class_reprs(info) + EXTRA_CHARS
    out = []
    for i in range(count):
        mode = rng.random()
        s = []
        target = rng.randint(1, maxlen)
        if mode < 0.25:
            while len(s) < target:
                s.append(rng.choice(reps))
        elif mode < 0.85:
            while len(s) < target:
                s.extend(ord(ch) for ch in rng.choice(FRAGMENTS))
                r = rng.random()
                if r < 0.5:
                    s.append(32)
                elif r < 0.55:
                    s.append(10)
        else:
            # mostly well-formed token sequence with balanced brackets
            depth = 0
            while len(s) < target:
                f = rng.choice(FRAGMENTS)
                if f in (")", "]", "))"):
                    if depth == 0:
                        continue
                    depth -= 1
                    f = f[0]
                elif f in ("(", "[", "(("):
                    depth += 1
                    f = f[0]
                elif f in ("'", "\"", "`", "/*", "#{", "\\"):
                    continue
                s.extend(ord(ch) for ch in f)
                s.append(32)
            s.extend([41] * depth)
        out.append(s[:maxlen + 8])
    return out


def gen_brackets(rng, count, maxlen=6):
    """bracket discipline: every string over ( ) [ ] up to `maxlen` characters (balanced, unbalanced and CROSSED closers such as
    ([)] alike), then `count` longer ones: a balanced two-kind bracket word with fillers, in half of which two closers of
    different kinds are swapped or one closer changes its kind (counts per kind stay plausible, the nesting does not)."""
    out = [[]]
    frontier = [[]]
    for _ in range(maxlen):
        frontier = [p + [c] for p in frontier for c in (40, 41, 91, 93)]
        out.extend(frontier)
    fill = [[97], [32], [97, 44, 98], [49], [39, 41, 39], [96, 93, 96], []]
    for _ in range(count):
        s, stack, closers = [], [], []
        for _ in range(rng.randint(2, 12)):
            r = rng.random()
            if r < 0.45 or not stack:
                k = rng.choice((40, 91))
                stack.append(41 if k == 40 else 93)
                s.append(k)
            else:
                closers.append(len(s))
                s.append(stack.pop())
            if rng.random() < 0.4:
                s.extend(rng.choice(fill))
        while stack:
            closers.append(len(s))
            s.append(stack.pop())
        m = rng.random()
        if m < 0.35 and len(closers) >= 2:
            i, j = rng.sample(closers, 2)
            s[i], s[j] = s[j], s[i]
        elif m < 0.5 and closers:
            i = rng.choice(closers)
            s[i] = 41 if s[i] == 93 else 93
        out.append(s)
    return out


def lex_request(cps, mb, flags):
    return "LEX %d %d %s" % (1 if mb else 0, flags, " ".join(map(str, cps)))


def show(cps):
    return "".join(chr(c) for c in cps)


# ------------------------------------------------------------------ answer parsing
def parse_answer(ans):
    """'OK L:2:97 P:4:..( ... )' -> ('OK', tree) ; 'ERR x' -> ('ERR', x). tree = list of ('L', marks, text) | (kind, marks, source, children)"""
    if ans.startswith("ERR"):
        return "ERR", ans[3:].strip()
    if not ans.startswith("OK"):
        return "BAD", ans
    words = ans.split()[1:]
    stack = [[]]
    heads = []
    for w in words:
        if w == ")":
            ch = stack.pop()
            k, m, src = heads.pop()
            stack[-1].append((k, m, src, ch))
        elif w.endswith("("):
            k, m, src = w[:-1].split(":")
            heads.append((k, int(m), "".join(chr(int(x)) for x in src.split(".") if x)))
            stack.append([])
        elif w.startswith("L:"):
            _, m, src = w.split(":")
            stack[-1].append(("L", int(m), "".join(chr(int(x)) for x in src.split(".") if x)))
        else:
            return "BAD", ans
    if len(stack) != 1:
        return "BAD", ans
    return "OK", stack[0]


# ------------------------------------------------------------------ C04 oracle (judges implementation answers)
def skip_gap(t, pos, flags):
    """greedy skip of the material the lexer is configured to drop"""
    n = len(t)
    while pos < n:
        c = t[pos]
        if c == " " and flags & SPACE_BIT:
            pos += 1
        elif c == "\n" and flags & LINE_BIT:
            pos += 1
        elif flags & COMMENT_BIT and (c == "#" or t.startswith("--", pos)):
            while pos < n and t[pos] != "\n":
                pos += 1
        elif flags & COMMENT_BIT and t.startswith("/*", pos):
            e = t.find("*/", pos + 2)
            if e < 0:
                return pos
            pos = e + 2
        else:
            break
    return pos


OPEN = {"P": "(", "S": "["}
CLOSE = {"P": ")", "S": "]"}


def c04_oracle(text, flags, tree):
    """None if the token tree is a faithful partition of preproc(text); otherwise a short description.
    Descriptions starting with 'KF:' are explained by a recorded known finding."""
    t = preproc(text)

    def walk(tokens, pos):
        for tk in tokens:
            pos = skip_gap(t, pos, flags)
            if tk[0] == "L":
                if not t.startswith(tk[2], pos) or tk[2] == "":
                    return None, "leaf %r is not the next slice of the input at %d" % (tk[2], pos)
                pos += len(tk[2])
            else:
                kind, marks, src, children = tk
                if pos >= len(t) or t[pos] not in "([":
                    return None, "group without an opening bracket at %d" % pos
                opened = t[pos]
                pos, err = walk(children, pos + 1)
                if err:
                    return None, err
                pos = skip_gap(t, pos, flags)
                if pos >= len(t) or t[pos] not in ")]":
                    return None, "group without a closing bracket at %d" % pos
                closed = t[pos]
                if opened != OPEN[kind] or closed != CLOSE[kind]:
                    return None, "group %s opened by %r closed by %r" % (kind, opened, closed)
                pos += 1
        return pos, None

    pos, err = walk(tree, 0)
    if err:
        return err
    pos = skip_gap(t, pos, flags)
    if pos != len(t):
        return "input not covered after position %d" % pos
    if flags == 0:
        def src_of(tk):
            return tk[2]
        joined = "".join(src_of(tk) for tk in tree)
        if joined != t:
            return "retention on, but concatenated token texts differ from the input"

    def rendered(tk):
        if tk[0] == "L":
            return tk[2]
        return OPEN[tk[0]] + "".join(rendered(c) for c in tk[3]) + CLOSE[tk[0]]

    def check_src(tokens):
        for tk in tokens:
            if tk[0] != "L":
                if tk[2] != rendered(tk):
                    return "group source is not open bracket + children + close bracket"
                e = check_src(tk[3])
                if e:
                    return e
        return None
    return check_src(tree)


# ------------------------------------------------------------------ correspondence
def correspond(run, name, inputs, mb, flags, oracle=None, nontrivial=None):
    """run model and implementation on the same inputs; returns (disagreements, oracle_failures)
    each a list of dicts ready to become replay files"""
    reqs = [lex_request(s, mb, flags) for s in inputs]
    m = core.run_model(reqs)
    i = core.run_impl(reqs, flags=flags)
    dis = []
    ofail = []
    seen = set()
    nt = 0
    for s, rq, a, b in zip(inputs, reqs, m, i):
        key = tuple(s)
        if key not in seen:
            seen.add(key)
            if nontrivial is None:
                st, tr = parse_answer(b)
                if st == "OK" and sum(1 for _ in tr) >= 2:
                    nt += 1
            elif nontrivial(s, b):
                nt += 1
        if a != b:
            dis.append({"kind": "input", "stream": name, "request": rq, "text": show(s), "mybatis": mb, "flags": flags,
                        "model": a, "observed": b})
        if oracle is not None:
            st, tr = parse_answer(b)
            if st == "OK":
                v = oracle(show(s), flags, tr)
                if v:
                    ofail.append({"kind": "input", "stream": name, "request": rq, "text": show(s), "mybatis": mb,
                                  "flags": flags, "observed": b, "oracle_verdict": v})
            elif st == "BAD":
                ofail.append({"kind": "input", "stream": name, "request": rq, "text": show(s), "mybatis": mb,
                              "flags": flags, "observed": b, "oracle_verdict": "implementation runner died / bad answer"})
    samples = []
    for s, b in list(zip(inputs, i))[:: max(1, len(inputs) // 3)][:3]:
        samples.append({"stream": name, "flags": flags, "mybatis": mb, "input": show(s), "implementation": b[:160]})
    run.add_stream(name, len(inputs), nt, samples)
    return dis, ofail


def shrink_text(cps, still_fails, budget=200):
    """greedy delta-debugging on the code point list"""
    cur = list(cps)
    n = 0
    changed = True
    while changed and n < budget:
        changed = False
        k = max(1, len(cur) // 2)
        while k >= 1 and n < budget:
            i = 0
            while i < len(cur) and n < budget:
                cand = cur[:i] + cur[i + k:]
                n += 1
                if cand != cur and still_fails(cand):
                    cur = cand
                    changed = True
                else:
                    i += k
            k //= 2
    return cur


# ------------------------------------------------------------------ corpus, verdict, replay
def load_corpus(prop):
    """inputs of saved replay files (minimised disagreements / violations) and hand-kept seeds; run first"""
    out = []
    d = os.path.join(core.VERIF, "corpus", prop)
    if os.path.isdir(d):
        for fn in sorted(os.listdir(d)):
            if fn.endswith(".json"):
                try:
                    o = json.load(open(os.path.join(d, fn), encoding="utf-8"))
                    if "text" in o:
                        out.append([ord(c) for c in o["text"]])
                except Exception:
                    pass
    seeds = os.path.join(core.VERIF, "corpus", "lex_seeds.txt")
    if os.path.exists(seeds):
        for line in open(seeds, encoding="utf-8"):
            line = line.rstrip("\n")
            if line:
                out.append([ord(c) for c in json.loads(line)])
    return out


def oracle_on_impl(text_cps, mb, flags, oracle):
    rq = lex_request(text_cps, mb, flags)
    b = core.run_impl([rq], flags=flags)[0]
    st, tr = parse_answer(b)
    if st != "OK":
        return None, b
    return oracle(show(text_cps), flags, tr), b


def decide(run, proofs_ok, disagreements, oracle_failures, oracle, oracle_name, theorem, search, kf_filter=None):
    """steps 4-5 of the verdict logic (DESIGN 2.4) for a lexer property"""
    kfs = core.known_findings(run.prop)
    # replay the recorded known findings
    for kf in kfs:
        if kf.get("status") != "open":
            continue
        w = kf["witness"]
        v, b = oracle_on_impl([ord(c) for c in w["text"]], w.get("mybatis", False), w.get("flags", 7), oracle)
        if v:
            run.known("%s: %s (witness %r)" % (kf["id"], kf["description"], w["text"]))
    new = []
    for of in oracle_failures:
        tag = kf_filter(of) if kf_filter else None
        if tag and any(k["id"] == tag and k.get("status") == "open" for k in kfs):
            run.known("%s: %s" % (tag, [k for k in kfs if k["id"] == tag][0]["description"]))
            continue
        new.append(of)
    if new:
        # shrink the first failing input and report it
        of = new[0]
        cps = [ord(c) for c in of["text"]]

        def still(c):
            if kf_filter:
                pass
            v, _ = oracle_on_impl(c, of["mybatis"], of["flags"], oracle)
            return bool(v)
        small = shrink_text(cps, still, budget=60)
        v, b = oracle_on_impl(small, of["mybatis"], of["flags"], oracle)
        rep = dict(of)
        rep.update({"text": show(small), "request": lex_request(small, of["mybatis"], of["flags"]), "observed": b,
                    "oracle_verdict": v, "oracle": oracle_name, "shrunk_from": of["text"],
                    "broken": run.broken, "other_failing_inputs": [x["text"] for x in new[1:6]]})
        run.violation(rep)
        return
    if proofs_ok and not disagreements:
        return
    # proof or tie broken, but no failing input yet: search
    if disagreements:
        run.broken.append({"kind": "correspondence", "stream": disagreements[0]["stream"], "count": len(disagreements),
                           "first": {k: disagreements[0][k] for k in ("text", "flags", "mybatis", "model", "observed")}})
    found = search(run.budget(6000, 60000))
    found = [f for f in found if not (kf_filter and kf_filter(f) and any(k["id"] == kf_filter(f) and k.get("status") == "open" for k in kfs))]
    if found:
        of = found[0]
        cps = [ord(c) for c in of["text"]]
        small = shrink_text(cps, lambda c: bool(oracle_on_impl(c, of["mybatis"], of["flags"], oracle)[0]), budget=60)
        v, b = oracle_on_impl(small, of["mybatis"], of["flags"], oracle)
        rep = dict(of)
        rep.update({"text": show(small), "request": lex_request(small, of["mybatis"], of["flags"]), "observed": b,
                    "oracle_verdict": v, "oracle": oracle_name, "shrunk_from": of["text"], "broken": run.broken})
        run.violation(rep)
    else:
        run.violation({"kind": "obligation", "theorem": theorem, "broken": run.broken, "oracle": oracle_name,
                       "note": "the proof / the model-implementation tie no longer checks; the search found no input on which the "
                               "property oracle fails"}, no_input=True)


def replay_lex(obj, oracle):
    if obj.get("kind") != "input":
        print("replay: obligation-only replay file; re-run the check to re-examine", obj.get("theorem"))
        return 1
    cps = [ord(c) for c in obj["text"]]
    v, b = oracle_on_impl(cps, obj.get("mybatis", False), obj.get("flags", 7), oracle)
    print("input   :", repr(obj["text"]))
    print("observed:", b)
    print("oracle  :", v or "ok")
    return 1 if v else 0


# ------------------------------------------------------------------ well-formed token sequences (C05 acceptance clause)
WF_TOKENS = ["select", "FROM", "a", "b", "x", "B", "X", "t1", "_c", "c_1", "null", "NULL", "True", "fAlse", "9a", "b2", "x9",
             "0", "1", "12", "007", "1.5", "1.", "0.5", "10.25", "x'1F'", "X\"aB\"", "b'01'", "B\"10\"", "x''", "b\"\"",
             "'s'", "''", "'a''b'", "'a\\'b'", "'a\\\\'", "\"d\"", "\"a\"\"b\"", "\"a\\\"b\"", "`n`", "`a b`", "`a.b`", "``", "'/* -- #'",
             "<=>", "<=", ">=", "<>", "!=", "<<", ">>", "&&", "||", "<", ">", "!", "&", "|", "-", "/", "~", "*", "^",
             ",", ";", "=", "+", ".", "%", "中文", "é", "$v", "@u", "?", ":p", "{", "}", "\\"]
WF_SEPS = ["", "", " ", " ", "  ", "\n", "\t", "\r\n", " /* c */ ", "/**/", "/***/", " -- c\n", " # c\n", "　"]


def gen_wellformed(rng, count, maxtok=14):
    out = []
    for _ in range(count):
        n = rng.randint(1, maxtok)
        s = ""
        depth = []
        for i in range(n):
            r = rng.random()
            if r < 0.08:
                k = rng.choice("([")
                depth.append(k)
                s += k
            elif r < 0.16 and depth:
                k = depth.pop()
                s += ")" if k == "(" else "]"
            else:
                s += rng.choice(WF_TOKENS)
            s += rng.choice(WF_SEPS)
        while depth:
            k = depth.pop()
            s += ")" if k == "(" else "]"
        out.append([ord(c) for c in s])
    return out
