"""C07 -- malformed input fails closed with the library's parse error; parsing terminates.
proof : Props/C07.v (lexer: only LexErr, all strings, all 16 configurations; whole parser model: never an unrelated
        exception, all token lists / functions / dialects / fuels)
tie   : PARSE correspondence on malformed inputs (the outcome KIND must agree: tree, LexErr, ParseErr; OutOfFuel of the
        model or Timeout / Recursion of the implementation are disagreements)
oracle: every public parse_* entry point (enumerated from SQLParser at run time) x dialects x malformed inputs: the outcome is
        a tree or an error of the library's parse-error family; no unrelated exception, no time-out; a valid parse after
        any number of failures equals the same parse in a fresh process."""
import json

from .. import core, sqlgen, stmt

PROP = "C07"
GOOD = ("OK ", "ERR LexErr", "ERR ParseErr", "ERR NotSupport")
MODELLED = ["statements", "logical_or_level_expression", "logical_xor_level_expression", "logical_and_level_expression", "logical_not_level_expression",
            "operator_condition_level_expression", "keyword_condition_level_expression", "compute_expression", "unary_level_expression",
            "element_level_expression", "function_expression", "window_expression", "case_expression", "select_statement", "single_select_statement",
            "from_table", "create_table_statement", "define_column_expression", "alter_expression", "column_name_expression", "table_name_expression",
            "limit_clause", "alias_expression", "join_type", "insert_type", "window_row", "config_string_expression"]
SOUP = ["(", ")", ",", ";", ".", "SELECT", "FROM", "WHERE", "AND", "OR", "NOT", "IN", "BETWEEN", "IS", "NULL", "1", "'s'", "x", "*", "+", "-", "=", "[", "]", "AS",
        "JOIN", "ON", "CASE", "WHEN", "THEN", "END", "LIMIT", "()", "(,)", "GROUP", "BY", "ORDER", "UNION", "WITH", "INSERT", "INTO", "VALUES", "UPDATE", "SET",
        "CREATE", "TABLE", "PARTITION", "OVER", "ROWS", "CAST", "IF", "EXISTS", "LIKE", "DESC", "0x1", "1.5", "`q`", "!", "==", "<=>", "||", "#{p}", "/*c*/", "-- c\n"]


def entries():
    rc, out = core.sh([core.PY, "-c", "from metasequoia_sql import SQLParser;print(' '.join(n[6:] for n in dir(SQLParser) if n.startswith('parse_')))"],
                      env=core.impl_env())
    return out.strip().splitlines()[-1].split()


def nest_depth(s):
    d = m = 0
    for c in s:
        if c in "([":
            d += 1
            m = max(m, d)
        elif c in ")]":
            d -= 1
    return m


def judge(a):
    if a.startswith(GOOD):
        return None
    return "outcome %r is neither a tree nor an error of the library's parse-error family" % a[:120]


def run(run):
    proofs_ok = core.proof_stage(run, "Props/C07.v")
    tier_q = run.tier == "quick"
    ents = entries()
    dialects = stmt.DIALECTS[:3] if tier_q else stmt.DIALECTS
    dis, fails = [], []
    # 1. mutants of valid statements through parse_statements and the statement-level entries (model + implementation)
    reqs, texts = [], []
    for d in dialects:
        for s in sqlgen.gen_statements(run.rng, 120 if tier_q else 1500, d, maxlen=300):
            for m in sqlgen.mutants(run.rng, s, 6 if tier_q else 10):
                if nest_depth(m) <= 30:
                    reqs.append(sqlgen.parse_request("statements", d, m))
                    texts.append(m)
    # 1b. every slot of the grammar that wants an integer, fed with things that are not (quite) integers
    SLOTS = ["SELECT a FROM t LIMIT {}", "SELECT a FROM t LIMIT 1, {}", "SELECT a FROM t LIMIT {}, 1", "SELECT a FROM t LIMIT 1 OFFSET {}", "DELETE FROM t LIMIT {}",
             "SELECT CAST(a AS DECIMAL({}, 2)) FROM t", "SELECT CAST(a AS CHAR({})) FROM t", "SELECT sum(a) OVER (ORDER BY b ROWS BETWEEN {} PRECEDING AND CURRENT ROW) FROM t",
             "SELECT sum(a) OVER (ROWS BETWEEN UNBOUNDED PRECEDING AND {} FOLLOWING) FROM t", "CREATE TABLE t (a INT, KEY k (a({})))", "CREATE TABLE t (a INT) AUTO_INCREMENT={}",
             "CREATE TABLE t (a INT, PRIMARY KEY (a) KEY_BLOCK_SIZE={})", "SELECT a FROM t ORDER BY {}", "SELECT a FROM t GROUP BY {}", "UPDATE t SET a = 1 LIMIT {}"]
    FILLERS = ["\u00b2", "\u2460", "\u00bd", "1.5", "x", "'1'", "-", "+1", "-1", "0x1", "1e2", "", "NULL", "1 1", "(1)", "1)", "00", "9" * 30]
    for tpl in SLOTS:
        for fill in FILLERS:
            m = tpl.format(fill)
            for d in dialects[:2]:
                reqs.append(sqlgen.parse_request("statements", d, m))
                texts.append(m)
    # 2. token soups for every entry point
    soup_reqs, soup_texts = [], []
    for e in ents:
        for _ in range(12 if tier_q else 150):
            n = run.rng.choice([0, 1, 1, 2, 2, 3, 4, 5, 7, 9])
            t = " ".join(run.rng.choice(SOUP) for _ in range(n))
            d = run.rng.choice(dialects)
            soup_reqs.append(sqlgen.parse_request(e, d, t))
            soup_texts.append(t)
        # prefixes of something the entry point accepts are produced by feeding it statement / expression fragments
        for s in sqlgen.gen_expressions(run.rng, 3 if tier_q else 25, "DEFAULT", depth=1):
            ws = sqlgen.split_words(s)
            k = run.rng.randrange(len(ws) + 1)
            soup_reqs.append(sqlgen.parse_request(e, run.rng.choice(dialects), " ".join(ws[:k])))
            soup_texts.append(" ".join(ws[:k]))
    modelled = [i for i, r in enumerate(soup_reqs) if r.split()[2] in MODELLED]
    all_reqs = reqs + soup_reqs
    im = core.run_impl(all_reqs)
    mo = core.run_model(reqs + [soup_reqs[i] for i in modelled])
    dis += stmt.tie(run, "malformed statements", reqs, mo[:len(reqs)], im[:len(reqs)], texts)
    dis += stmt.tie(run, "soups (modelled entry points)", [soup_reqs[i] for i in modelled], mo[len(reqs):], [im[len(reqs) + i] for i in modelled],
                    [soup_texts[i] for i in modelled])
    kinds = {}
    for rq, a, t in zip(all_reqs, im, texts + soup_texts):
        k = a.split(" ")[0] + (" " + a.split(" ")[1] if a.startswith("ERR") else "")
        kinds[k] = kinds.get(k, 0) + 1
        v = judge(a)
        if v:
            fails.append({"kind": "input", "stream": "malformed", "text": t, "request": rq, "entry": rq.split()[2], "dialect": rq.split()[3], "oracle_verdict": v})
    run.add_stream("malformed statements", len(reqs), len(set(texts)), [{"text": t[:120]} for t in texts[:: max(1, len(texts) // 3)][:3]])
    run.add_stream("entry points x soups", len(soup_reqs), len(set(soup_texts)), [{"entry": soup_reqs[0].split()[2], "text": soup_texts[0]}],
                   extra={"entry_points": len(ents), "modelled_entry_points": len([e for e in ents if e in MODELLED]), "outcome_kinds": kinds})
    # 3. no trace: valid parses interleaved with failures (same processes) vs the same valid parses alone (fresh processes)
    valid = []
    for d in dialects[:2]:
        for s in sqlgen.gen_statements(run.rng, 60 if tier_q else 600, d, maxlen=200):
            valid.append(sqlgen.parse_request("statements", d, s))
    mixed = []
    for v in valid:
        for _ in range(run.rng.choice([1, 2, 3])):
            mixed.append(run.rng.choice(all_reqs))
        mixed.append(v)
    a_mixed = core.run_impl(mixed)
    a_alone = core.run_impl(list(reversed(valid)))
    alone = dict(zip(reversed(valid), a_alone))
    nt = 0
    for rq, a in zip(mixed, a_mixed):
        if rq in alone and rq.startswith("PARSE 0 statements") and rq in set(valid):
            nt += 1
            if alone[rq] != a:
                fails.append({"kind": "input", "stream": "no-trace", "text": stmt.dec(".".join(rq.split()[4:])), "request": rq,
                              "oracle_verdict": "the result after earlier failed parses differs from the result in a fresh process"})
    run.add_stream("no trace", len(mixed) + len(valid), nt, [])
    # long history in ONE process: hundreds of rejected inputs that fail deep inside brackets / sub-queries, then valid statements
    deep_bad = ["SELECT a FROM t WHERE ((b +) > 1)", "SELECT f(g(h(1,)))", "SELECT a FROM (SELECT b FROM (SELECT c FROM", "SELECT (((a))) FROM t WHERE (x IN (1, (2 +",
                "INSERT INTO t VALUES ((1), (2,), ((3)", "SELECT CASE WHEN (a = (b)) THEN ((1) END", "SELECT a FROM t WHERE EXISTS (SELECT 1 FROM u WHERE (a = ) )",
                "CREATE TABLE t (a INT(11, DEFAULT (1 +)", "SELECT a[(1 + ] FROM t", "WITH w AS (SELECT (a FROM t) SELECT 1", "SELECT 'x", "SELECT (a))"]
    deep_ok = ["SELECT ((a + (b * (c - (d))))) FROM (SELECT a, b, c, d FROM (SELECT * FROM t) x) y WHERE (a IN (SELECT (b) FROM u WHERE ((c) = (1))))",
               "SELECT f(g(h(i(1, (2))))) FROM t", "INSERT INTO t VALUES ((1), ((2))), (3, (4))", "SELECT CASE WHEN ((a)) THEN ((b)) ELSE (((c))) END FROM t"]
    seq = []
    for _ in range(3):
        for _ in range(100):
            seq.append(sqlgen.parse_request("statements", run.rng.choice(dialects), run.rng.choice(deep_bad)))
        for s_ in deep_ok:
            seq.append(sqlgen.parse_request("statements", "DEFAULT", s_))
    a_seq = core.run_impl(seq)                      # fewer than 400 requests: one process, in this order
    fresh = dict(zip([sqlgen.parse_request("statements", "DEFAULT", s_) for s_ in deep_ok],
                     [core.run_impl([sqlgen.parse_request("statements", "DEFAULT", s_)])[0] for s_ in deep_ok]))
    for rq, a in zip(seq, a_seq):
        if rq in fresh and a != fresh[rq]:
            fails.append({"kind": "history", "stream": "no-trace (long history)", "text": stmt.dec(".".join(rq.split()[4:])), "request": rq,
                          "history": "after %d rejected inputs in the same process" % seq.index(rq),
                          "oracle_verdict": "a valid statement is answered differently after many rejected inputs: %s (fresh process: %s)" % (a[:80], fresh[rq][:80])})
            break
    run.add_stream("no trace, long history in one process", len(seq), len(deep_bad) + len(deep_ok), [])
    # 4. long FLAT inputs (no nesting at all): machine-written filters, lists and scripts of 1500 items end in a tree, never in a RecursionError
    from . import c19 as _c19
    FLAT = ["select items", "operator chain", "mixed precedence chain", "AND chain", "OR of NOTs", "insert rows", "statements", "joins", "case arms", "IN list",
            "function arguments", "union branches", "with tables", "columns of create table"]
    extra_flat = {"XOR chain": lambda n: "SELECT 1 FROM t WHERE " + " XOR ".join("a%d" % i for i in range(n)),
                  "&& and || chain": lambda n: "SELECT 1 FROM t WHERE " + " ".join("a%d %s" % (i, ["&&", "||"][i % 2]) for i in range(n)) + " z",
                  "comparison chain": lambda n: "SELECT 1 FROM t WHERE " + " = ".join("a%d" % i for i in range(n)),
                  "keyword predicate chain": lambda n: "SELECT 1 FROM t WHERE a " + " ".join("IS NOT NULL" for _ in range(min(n, 150))),   # longer: K-RECURSION
                  "NOT chain": lambda n: "SELECT 1 FROM t WHERE " + "NOT " * min(n, 400) + "a",
                  "unary chain": lambda n: "SELECT " + "- " * min(n, 400) + "a FROM t",
                  "array indices": lambda n: "SELECT a" + "[1]" * min(n, 400) + " FROM t",
                  "lateral views": lambda n: "SELECT a FROM t " + " ".join("LATERAL VIEW explode(x%d) v%d AS c%d" % (i, i, i) for i in range(n)),
                  "table options": lambda n: "CREATE TABLE t (a INT) " + " ".join("COMMENT='c%d'" % i for i in range(n)),
                  "column attributes": lambda n: "CREATE TABLE t (a INT " + "NOT NULL " * n + ")",
                  "alter expressions": lambda n: "ALTER TABLE t " + ", ".join("ADD c%d INT" % i for i in range(n)),
                  "update columns": lambda n: "UPDATE t SET " + ", ".join("c%d = %d" % (i, i) for i in range(n)),
                  "group by / order by items": lambda n: "SELECT 1 FROM t GROUP BY " + ", ".join("c%d" % i for i in range(n)) + " ORDER BY " + ", ".join("c%d DESC" % i for i in range(n))}
    fl = [(k, _c19.FAMILIES[k]) for k in FLAT] + list(extra_flat.items())
    N_FLAT = 1500
    freqs = [sqlgen.parse_request("statements", "HIVE" if k == "lateral views" else "MYSQL", f(N_FLAT)) for k, f in fl]
    fim = core.run_impl(freqs, timeout=1800)
    fmo = core.run_model(freqs)
    for (k, f), rq, a, m in zip(fl, freqs, fim, fmo):
        v = judge(a)
        if v:
            fails.append({"kind": "input", "stream": "long flat inputs", "text": f(N_FLAT)[:300] + " ...", "request": rq, "entry": "statements", "dialect": rq.split()[3], "family": k,
                          "oracle_verdict": "a flat %r input of %d items: %s" % (k, N_FLAT, v)})
        elif a.split(" ")[0:2] != m.split(" ")[0:2] or (a.startswith("OK") and a != m):
            dis.append({"kind": "input", "stream": "long flat inputs", "request": rq, "text": f(N_FLAT)[:300], "model": m[:300], "observed": a[:300]})
    run.add_stream("long flat inputs", len(freqs), len(freqs), [{"family": k, "items": N_FLAT} for k, _ in fl[:3]])
    run.cov["rule"] = ("malformed stream: prefixes (character and token granularity), deletion, duplication, adjacent swap, replacement by probe tokens of generated "
                       "statements (nesting depth <= 30) through parse_statements; random token soups and expression prefixes through EVERY public parse_* entry "
                       "point; every outcome must be a tree or LexicalParseError / SqlParseError / NotSupportError; 30 s alarm per request; valid parses "
                       "interleaved with failures equal the same parses in fresh processes")
    # known finding: deep nesting exhausts the interpreter's recursion limit
    for k in core.known_findings(PROP):
        if k["id"] == "K-RECURSION" and k.get("status") == "open":
            w = k["witness"]
            a = core.run_impl([sqlgen.parse_request("statements", w["dialect"], w["text"])])[0]
            a2 = core.run_impl([sqlgen.parse_request("statements", "MYSQL", "SELECT 1 FROM t WHERE a " + " ".join("IS NOT NULL" for _ in range(1500)))])[0]
            if a == "ERR Recursion" or a2 == "ERR Recursion":
                run.known("K-RECURSION: %s (witness: %d nested brackets -> %s; 1500 chained keyword predicates -> %s)" % (k["description"], nest_depth(w["text"]), a[4:], a2[:14].replace("ERR ", "")))
    stmt.conclude(run, proofs_ok, dis, fails, "Props/C07.v", "outcome-kind oracle on the implementation (every parse_* entry point)")


def replay(path):
    def chk(obj):
        if obj.get("stream", "").startswith("no-trace"):
            print("replay: history replay -- re-run ./check C07 (the failing history is regenerated from the seed)")
            return "history replay not supported stand-alone"
        a = core.run_impl([obj["request"]])[0]
        return judge(a)
    return stmt.replay_generic(path, chk)
