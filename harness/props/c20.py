"""C20 -- the extension surface behaves as documented for plug-ins.
proof : Props/C20.v (cursor laws for all token lists / positions / histories; plug-in lexer conservative + placeholder)
tie   : CURSOR correspondence (extracted TokenScanner model vs the real class, exhaustive small histories + random);
        regenerated plug-in tables + LEX correspondence for FSMMachineMyBatis
oracles on the implementation itself: cursor laws on the real traces; plug-in vs base lexer on inputs without '#{';
        plug-in vs the extracted MyBatis specification lexer elsewhere."""
import itertools
import json

from .. import core, lexh
from . import c05

PROP = "C20"
FAMILY = c05.FAMILY

# ------------------------------------------------------------------ cursor
def w(s):
    return ".".join(str(ord(c)) for c in s) if s else "-"


TOKS = ["L:2:" + w("a"), "L:0:" + w("select"), "L:72:" + w("1"), "P( L:2:" + w("b") + " L:0:" + w(",") + " L:2:" + w("c") + " )",
        "S( L:72:" + w("1") + " )", "L:0:" + w(","), "L:2:" + w("As"), "L:0:" + w("ſELECT"), "P( )", "L:10:" + w("'x'")]
TOK_LEN = {t: 1 for t in TOKS}
OPS = ["go 0", "go 1", "go 2", "gn 0", "gn 1", "gn 3", "g", "pop", "mv 1", "mv 2", "close", "fin", "src", "psrc", "ch", "pch",
       "s s:" + w("A"), "s s:" + w("a") + " s:" + w(","), "s m:2", "s m:4 m:512", "s", "S s:" + w("SELECT"), "S s:" + w("a") + " m:8",
       "S m:4", "S", "m s:" + w("a"), "m s:" + w("select") + " s:" + w("a"), "m m:2 m:2", "m", "sm 2", "sm 4", "sm 8",
       "ss " + w("a"), "ss " + w("(b,c)"), "su " + w("SELECT"), "su " + w("AS"), "su2 " + w("A") + " " + w("SELECT"),
       "su2 " + w("SELECT") + " " + w("A"), "su3 " + w("A") + " " + w(",") + " " + w("A"), "sset " + w("a") + " " + w("1"),
       "ssetu " + w("SELECT") + " " + w("A"), "Ss " + w("a"), "Ss " + w(","), "Su " + w("SELECT"), "Su " + w("A"),
       "Su2 " + w("A") + " " + w(","), "Su3 " + w("A") + " " + w(",") + " " + w("1"), "Sset " + w(",") + " " + w("a"),
       "Ssetu " + w("AS") + " " + w("SELECT"), "split " + w(","), "split " + w("B")]
PEEK = {"go", "gn", "g", "close", "fin", "src", "ch", "s", "sm", "ss", "su", "su2", "su3", "sset", "ssetu"}
SM_LEN = {"Ss": 1, "Su": 1, "Sset": 1, "Ssetu": 1, "Su2": 2, "Su3": 3}


def cursor_request(toks, ops):
    return "CURSOR " + " ".join(toks) + " | " + " ; ".join(ops)


def cursor_oracle(ntoks, ops, answer):
    """the C20 laws, judged on a trace of the real TokenScanner; None = ok"""
    if answer.startswith("BAD") or answer.startswith("DIED"):
        return "runner: " + answer[:80]
    steps = answer.split(" ; ") if answer else []
    if len(steps) != len(ops):
        return "trace length differs from history length"
    pos = 0
    for op, st in zip(ops, steps):
        p, out = st.split("=", 1)
        p = int(p)
        k = op.split()[0]
        nargs = len(op.split()) - 1
        if out.startswith("E:") and out != "E:ParseErr":
            return "%s raised %s (not the library's parse error)" % (op, out)
        if p < pos:
            return "position decreased at %s" % op
        if k in PEEK and p != pos:
            return "peek %s moved the cursor %d -> %d" % (op, pos, p)
        if out.startswith("E:") and p != pos:
            return "failed call %s moved the cursor %d -> %d" % (op, pos, p)
        if k == "S" or k in SM_LEN:
            n = nargs if k == "S" else SM_LEN[k]
            if out == "T" and p != pos + n:
                return "%s answered true but moved %d (expected %d)" % (op, p - pos, n)
            if out == "F" and p != pos:
                return "%s answered false but moved" % op
            if out == "T" and p > ntoks:
                return "%s matched past the end" % op
        if k == "m":
            if out == "U" and p != pos + nargs:
                return "match moved %d on success (expected %d)" % (p - pos, nargs)
        if k == "close":
            if (out == "E:ParseErr") != (pos < ntoks):
                return "close %s with %d of %d tokens consumed" % ("raised" if out.startswith("E") else "did not raise", pos, ntoks)
        if k in ("pop", "psrc", "pch", "split") and not out.startswith("E:") and p != pos + 1:
            return "%s moved %d" % (op, p - pos)
        pos = p
    return None


def cursor_part(run):
    tier_q = run.tier == "quick"
    cases = []
    lists = [[]] + [[t] for t in TOKS] + [[a, b] for a in TOKS[:6] for b in TOKS[:6]]
    if not tier_q:
        lists += [[a, b, c] for a in TOKS[:6] for b in TOKS[:6] for c in TOKS[:6]]
    seqs = [[o] for o in OPS] + [[a, b] for a in OPS for b in OPS]
    if tier_q:
        for tl in lists:
            for sq in seqs[:: 3 if len(tl) == 2 else 1]:
                cases.append((tl, sq))
    else:
        for tl in lists:
            step = 1 if len(tl) <= 1 else (5 if len(tl) == 2 else 40)
            for sq in seqs[::step]:
                cases.append((tl, sq))
    # directed: every multi-token search / match exactly at the END of the list (and one token short of it, and one token before the end)
    a_, sel_, one_, com_, as_ = TOKS[0], TOKS[1], TOKS[2], TOKS[5], TOKS[6]
    END_CASES = [("su3 " + w("A") + " " + w(",") + " " + w("A"), [a_, com_, a_]), ("Su3 " + w("A") + " " + w(",") + " " + w("1"), [a_, com_, one_]),
                 ("su3 " + w("SELECT") + " " + w("A") + " " + w("AS"), [sel_, a_, as_]), ("Su3 " + w("SELECT") + " " + w("A") + " " + w("AS"), [sel_, a_, as_]),
                 ("su2 " + w("A") + " " + w("SELECT"), [a_, sel_]), ("su2 " + w("SELECT") + " " + w("A"), [sel_, a_]), ("Su2 " + w("A") + " " + w(","), [a_, com_]),
                 ("s s:" + w("a") + " s:" + w(","), [a_, com_]), ("S s:" + w("a") + " m:8", [a_, one_]), ("m s:" + w("select") + " s:" + w("a"), [sel_, a_]),
                 ("m m:2 m:2", [a_, as_]), ("s m:2 s:" + w(",") + " m:2", [a_, com_, as_]), ("S m:2 s:" + w(",") + " m:8", [a_, com_, one_]),
                 ("su " + w("AS"), [as_]), ("Su " + w("A"), [a_]), ("Ss " + w(","), [com_]), ("ss " + w("a"), [a_]), ("sm 2", [a_]), ("Sset " + w(",") + " " + w("a"), [com_]),
                 ("Ssetu " + w("AS") + " " + w("SELECT"), [sel_])]
    for op, mt in END_CASES:
        for pre in ([], [one_], [one_, com_]):
            for tl in (pre + mt, pre + mt[:-1], pre + mt + [one_], pre + mt[1:]):
                mv = ["mv %d" % len(pre)] if pre else []
                cases.append((tl, mv + [op]))
                cases.append((tl, mv + [op, op, "fin"]))
    nrand = 6000 if tier_q else 60000
    for _ in range(nrand):
        tl = [run.rng.choice(TOKS) for _ in range(run.rng.randint(0, 6))]
        sq = [run.rng.choice(OPS) for _ in range(run.rng.randint(3, 9))]
        cases.append((tl, sq))
    reqs = [cursor_request(tl, sq) for tl, sq in cases]
    mo = core.run_model(reqs)
    im = core.run_impl(reqs)
    dis, ofail = [], []
    nontriv = set()
    for (tl, sq), rq, a, b in zip(cases, reqs, mo, im):
        if a != b:
            dis.append({"kind": "history", "stream": "CURSOR", "request": rq, "model": a, "observed": b})
        v = cursor_oracle(len(tl), sq, b)
        if v:
            ofail.append({"kind": "history", "stream": "CURSOR", "request": rq, "observed": b, "oracle_verdict": v})
        if len(tl) >= 1 and any(x.split("=")[0] != "0" for x in b.split(" ; ")):
            nontriv.add(rq)
    run.add_stream("CURSOR histories", len(cases), len(nontriv),
                   [{"request": reqs[i], "implementation": im[i]} for i in (0, len(reqs) // 2, len(reqs) - 1)],
                   extra={"token_lists": len(lists), "op_alphabet": len(OPS), "exhaustive_history_length": 2, "random_history_length": "3..9"})
    return dis, ofail


def shrink_history(rq, fails):
    words = rq.split(" | ")
    toks, ops = words[0], words[1].split(" ; ")
    changed = True
    while changed and len(ops) > 1:
        changed = False
        for i in range(len(ops)):
            cand = ops[:i] + ops[i + 1:]
            r = toks + " | " + " ; ".join(cand)
            if fails(r):
                ops = cand
                changed = True
                break
    return toks + " | " + " ; ".join(ops)


# ------------------------------------------------------------------ plug-in lexer
PH_FRAGS = ["#{p}", "#{a.b}", "#{ x }", "#{}", "#{p}#{q}", "a#{p}", "#{p}a", "1#{p}", "'#{p}'", "\"#{p}\"", "`#{p}`", "-- #{p}\n",
            "/* #{p} */", "#{p},", "(#{p})", "[#{p}]", "=#{p}", "#{p}=", "#{'x'}", "#{/*}", "#{\n}", "# {p}", "#\n{p}", "#", "#x", "# c\n"]


def lexer_part(run, info):
    tier_q = run.tier == "quick"
    flags_list = [7] if tier_q else [7, 0, 3]
    kfs = {k["id"]: k for k in core.known_findings(PROP)}
    all_dis, fails = [], []
    for flags in flags_list:
        ins = lexh.load_corpus(PROP) + lexh.gen_exhaustive(info, 2)
        ins += lexh.gen_random(info, run.rng, 2000 if tier_q else 15000)
        ins += lexh.gen_wellformed(run.rng, 1000 if tier_q else 10000)
        # placeholders adjacent to every token class
        for _ in range(1500 if tier_q else 15000):
            parts = []
            for _ in range(run.rng.randint(1, 6)):
                parts.append(run.rng.choice(PH_FRAGS) if run.rng.random() < 0.5 else run.rng.choice(lexh.WF_TOKENS))
                parts.append(run.rng.choice(lexh.WF_SEPS))
            ins.append([ord(c) for c in "".join(parts)])
        n = len(ins)
        lreq_mb = [lexh.lex_request(s, True, flags) for s in ins]
        lreq_b = [lexh.lex_request(s, False, flags) for s in ins]
        mo = core.run_model(lreq_mb + [c05.spec_request(s, True, flags) for s in ins]
                            + ["CLASSIFYMB %d %s" % (flags, " ".join(map(str, s))) for s in ins]
                            + ["HASPH " + " ".join(map(str, s)) for s in ins])
        m_lex, m_spec, m_cls, m_ph = mo[:n], mo[n:2 * n], mo[2 * n:3 * n], mo[3 * n:]
        im = core.run_impl(lreq_mb + lreq_b, flags=flags)
        i_mb, i_b = im[:n], im[n:]
        nontriv = 0
        counts = {"no_placeholder_open": 0, "with_placeholder_open": 0, "in_known_region": 0}
        for s, a, b, bb, sp, cl, ph in zip(ins, m_lex, i_mb, i_b, m_spec, m_cls, m_ph):
            txt = lexh.show(s)
            if a != b:
                all_dis.append({"kind": "input", "stream": "LEX mybatis", "text": txt, "flags": flags, "mybatis": True,
                                "request": lexh.lex_request(s, True, flags), "model": a, "observed": b})
            st, tr = lexh.parse_answer(b)
            if st == "OK" and len(tr) >= 2:
                nontriv += 1
            if ph == "0":
                counts["no_placeholder_open"] += 1
                if b != bb:
                    fails.append({"kind": "input", "stream": "plugin-vs-base", "text": txt, "flags": flags, "mybatis": True,
                                  "request": lexh.lex_request(s, True, flags), "observed": b, "expected": bb,
                                  "oracle_verdict": "input without '#{' but the plug-in lexer differs from the base lexer"})
            else:
                counts["with_placeholder_open"] += 1
            fam = FAMILY.get(int(cl)) if cl.isdigit() else None
            if fam and kfs.get(fam, {}).get("status") == "open":
                counts["in_known_region"] += 1
            elif b != sp:
                fails.append({"kind": "input", "stream": "plugin-vs-spec", "text": txt, "flags": flags, "mybatis": True,
                              "request": lexh.lex_request(s, True, flags), "observed": b, "expected": sp, "region": cl,
                              "oracle_verdict": "plug-in lexer differs from the MyBatis specification lexer"})
        # the same short texts, base lexer first and plug-in lexer directly afterwards in ONE process: the answers must not depend on the history
        idx = [i for i, ph in enumerate(m_ph) if ph != "0" and len(ins[i]) <= 64][:180]
        pair_reqs = []
        for i in idx:
            pair_reqs += [lreq_b[i], lreq_mb[i]]
        pim = core.run_impl(pair_reqs, flags=flags) if pair_reqs else []
        for k, i in enumerate(idx):
            if pim[2 * k + 1] != i_mb[i] or pim[2 * k] != i_b[i]:
                fails.append({"kind": "input", "stream": "base-then-plugin in one process", "text": lexh.show(ins[i]), "flags": flags, "mybatis": True,
                              "request": lreq_mb[i], "observed": pim[2 * k + 1], "expected": i_mb[i],
                              "oracle_verdict": "lexing the text with the base lexer first changes what the plug-in lexer (or the base lexer) answers in the same process"})
        run.add_stream("LEX plug-in flags=%d" % flags, n, nontriv,
                       [{"input": lexh.show(ins[i]), "plugin": i_mb[i][:120], "base": i_b[i][:120]} for i in (n - 1, n - 7, n // 2)],
                       extra=counts)
    return all_dis, fails


def run(run):
    proofs_ok = core.proof_stage(run, "Props/C20.v")
    info = lexh.load_info()
    cdis, cfail = cursor_part(run)
    ldis, lfail = lexer_part(run, info)
    run.cov["rule"] = ("cursor: every history of length <= 2 over a 51-call alphabet on every token list of length <= 1 (every third history for "
                       "length-2 lists in the quick tier), plus random histories of length 3..9 on lists of length <= 6; lexer: C04/C05 input "
                       "spaces plus placeholder fragments adjacent to every token class. distinct_nontrivial: cursor histories that move the "
                       "cursor on a non-empty list; lexer inputs with >= 2 tokens.")
    kfs = {k["id"]: k for k in core.known_findings(PROP)}
    for k in kfs.values():
        if k.get("status") == "open":
            wt = k["witness"]
            cps = [ord(c) for c in wt["text"]]
            b = core.run_impl([lexh.lex_request(cps, True, 7)])[0]
            sp = core.run_model([c05.spec_request(cps, True, 7)])[0]
            if b != sp:
                run.known("%s: %s (plug-in lexer on %r: %s, MyBatis specification %s)" % (k["id"], k["description"], wt["text"], b[:60], sp[:60]))
    if cfail:
        f = cfail[0]
        small = shrink_history(f["request"][len("CURSOR "):],
                               lambda r: bool(cursor_oracle(_ntoks(r), r.split(" | ")[1].split(" ; "), core.run_impl(["CURSOR " + r])[0])))
        b = core.run_impl(["CURSOR " + small])[0]
        run.violation({"kind": "history", "request": "CURSOR " + small, "observed": b,
                       "oracle_verdict": cursor_oracle(_ntoks(small), small.split(" | ")[1].split(" ; "), b),
                       "oracle": "c20.cursor_oracle (cursor laws on the real TokenScanner trace)", "shrunk_from": f["request"], "broken": run.broken})
        return
    if lfail:
        f = lfail[0]
        run.violation(dict(f, oracle="base lexer / extracted MyBatis specification lexer", broken=run.broken,
                           other_failing_inputs=[x["text"] for x in lfail[1:6]]))
        return
    if proofs_ok and not cdis and not ldis:
        return
    for d in (cdis[:1] + ldis[:1]):
        run.broken.append({"kind": "correspondence", "first": d})
    run.violation({"kind": "obligation", "theorem": "Props/C20.v", "broken": run.broken,
                   "note": "proof / tie broken; the cursor-law oracle and both lexer oracles found no failing input"}, no_input=True)


def _ntoks(r):
    toks = r.split(" | ")[0].split()
    depth = 0
    n = 0
    for t in toks:
        if t.endswith("("):
            if depth == 0:
                n += 1
            depth += 1
        elif t == ")":
            depth -= 1
        elif depth == 0:
            n += 1
    return n


def replay(path):
    obj = json.load(open(path, encoding="utf-8"))
    if obj.get("kind") == "history":
        r = obj["request"][len("CURSOR "):]
        b = core.run_impl([obj["request"]])[0]
        v = cursor_oracle(_ntoks(r), r.split(" | ")[1].split(" ; "), b)
        print("history :", obj["request"])
        print("observed:", b)
        print("oracle  :", v or "ok")
        return 1 if v else 0
    if obj.get("kind") == "input":
        cps = [ord(c) for c in obj["text"]]
        fl = obj.get("flags", 7)
        b = core.run_impl([lexh.lex_request(cps, True, fl)], flags=fl)[0]
        bb = core.run_impl([lexh.lex_request(cps, False, fl)], flags=fl)[0]
        sp, ph, cl = core.run_model([c05.spec_request(cps, True, fl), "HASPH " + " ".join(map(str, cps)),
                                     "CLASSIFYMB %d %s" % (fl, " ".join(map(str, cps)))])
        print("input:", repr(obj["text"]), "\nplug-in:", b, "\nbase   :", bb, "\nspec   :", sp, "\nregion :", cl)
        bad = (ph == "0" and b != bb) or (cl == "0" and b != sp)
        return 1 if bad else 0
    print("replay: obligation-only replay file; re-run the check")
    return 1
