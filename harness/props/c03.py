"""C03 -- every clause and element of a statement lands in the right slot of the tree.
proof : Props/C03.v (LIMIT spellings for all integers, join / set-operator enums recognised as themselves, clause words never taken as
        implicit aliases, one statement with every clause through the models)
tie   : PARSE correspondence (extracted parser model vs SQLParser) on the same statements
oracle: trees known by construction (harness/stgen.py): SELECT (items, aliases, DISTINCT, FROM tables / aliases, every join type with ON /
        USING, WHERE, GROUP BY with ROLLUP / CUBE / GROUPING SETS, HAVING, ORDER BY direction / NULLS, LIMIT in three spellings, set
        operators), INSERT (kind, target, partition, columns, rows / select), UPDATE, DELETE, CREATE TABLE (columns with attributes, keys,
        foreign keys, table options), ALTER TABLE -- the implementation's tree must equal the expected tree field by field."""
import json

from .. import core, sqlgen, stmt, stgen

PROP = "C03"


def judge(exp, a):
    if not a.startswith("OK ["):
        return "the statement is not accepted: " + a[:80]
    try:
        got = stgen.parse_dump(a[3:])
    except (IndexError, ValueError) as e:
        return "unreadable dump: %r" % e
    if len(got) != 1:
        return "expected one statement, got %d" % len(got)
    return stgen.diff(exp, got[0])


def run(run):
    proofs_ok = core.proof_stage(run, "Props/C03.v")
    tier_q = run.tier == "quick"
    g = stgen.G(run.rng)
    n_st = 700 if tier_q else 40000
    cases = [g.statement() for _ in range(n_st)] + [g.paren_case() for _ in range(n_st // 8)]
    dialects = ["MYSQL", "DEFAULT", "HIVE"]
    reqs = [sqlgen.parse_request("statements", dialects[i % 3], t) for i, (t, _) in enumerate(cases)]
    im = core.run_impl(reqs)
    mo = core.run_model(reqs)
    dis = stmt.tie(run, "PARSE", reqs, mo, im, [t for t, _ in cases])
    fails = []
    kinds = {}
    for (t, exp), a, rq in zip(cases, im, reqs):
        kinds[exp["_"]] = kinds.get(exp["_"], 0) + 1
        d = judge(exp, a)
        if d:
            fails.append({"kind": "input", "stream": "statements with known trees", "text": t, "dialect": rq.split()[3], "request": rq, "expected_tree": json.dumps(exp)[:3000],
                          "oracle_verdict": "slot mismatch at " + d})
    run.add_stream("statements with known trees", len(reqs), len(set(t for t, _ in cases)), [{"text": t[:200]} for t, _ in cases[:: max(1, len(cases) // 3)][:3]],
                   extra={"statement_kinds": kinds})
    run.cov["rule"] = ("statements generated together with the tree the grammar prescribes (harness/stgen.py) x {MYSQL, DEFAULT, HIVE}: field-by-field comparison with the "
                       "implementation's tree (no field may be unspecified, missing, swapped or defaulted); the extracted parser model parses the same texts")
    stmt.conclude(run, proofs_ok, dis, fails, "Props/C03.v", "trees known by construction (harness/stgen.py) against SQLParser")


def replay(path):
    def chk(obj):
        a = core.run_impl([obj["request"]])[0]
        d = judge(json.loads(obj["expected_tree"]), a) if not obj["expected_tree"].endswith("...") and len(obj["expected_tree"]) < 3000 else None
        return ("slot mismatch at " + d) if d else None
    return stmt.replay_generic(path, chk)
