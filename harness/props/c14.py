"""C14 -- table-usage analysis reports exactly the tables a query reads.
proof : Props/C14.v (for every tree the all-levels walk = pre-order list of table-name nodes, once per occurrence; regenerated field
        order = textual order; FROM / JOIN variants per branch)
tie   : WALK correspondence (extracted parser + analyser models vs the implementation's analysers)
oracle: structure-aware generator (harness/qgen.py): queries built together with the tables they name, in textual order, at all levels /
        through FROM / through JOIN; the implementation's three analyses must return exactly those lists."""
import json

from .. import core, sqlgen, stmt, qgen

PROP = "C14"
WHICH = ["tables_all", "tables_from", "tables_join"]


def run_walk(run, name, texts, whichs, dialect="DEFAULT"):
    reqs = ["WALK %s %s %s" % (w, dialect, stmt.cps(t)) for t in texts for w in whichs]
    return reqs, core.run_model(reqs), core.run_impl(reqs)


def run(run):
    proofs_ok = core.proof_stage(run, "Props/C14.v")
    tier_q = run.tier == "quick"
    dis, fails = [], []
    gens = [qgen.gen(run.rng, run.rng.choice([0, 1, 1, 2, 2, 3])) for _ in range(400 if tier_q else 6000)]
    # many different WITH queries one after the other in one process: every statement's result is its own
    for _ in range(160 if tier_q else 2000):
        qw = qgen.Q(run.rng, run.rng.choice([1, 1, 2]), force_with=True)
        gens.append((qw.build(top=True), qw))
    texts = [g[0] for g in gens]
    reqs, mo, im = run_walk(run, "generated", texts, WHICH)
    dis += stmt.tie(run, "WALK generated", reqs, mo, im, [t for t in texts for _ in WHICH])
    nontriv = 0
    for i, (text, q) in enumerate(gens):
        exp = {"tables_all": qgen.fmt_tables(q.tables_all), "tables_from": qgen.fmt_tables(q.tables_from), "tables_join": qgen.fmt_tables(q.tables_join)}
        for j, w in enumerate(WHICH):
            a = im[i * 3 + j]
            if a != exp[w]:
                fails.append({"kind": "input", "stream": "generated queries", "text": text, "analysis": w, "request": reqs[i * 3 + j], "expected": exp[w], "observed": a[:600],
                              "oracle_verdict": "%s reports %s, the query names %s" % (w, a[:300], exp[w][:300])})
        if len(q.tables_all) > 1:
            nontriv += 1
    run.add_stream("generated queries with known tables", len(reqs), nontriv, [{"text": t[:200]} for t in texts[:: max(1, len(texts) // 3)][:3]])
    # tie only: the generic statement generator and the shipped corpus (UNION, WITH, LATERAL VIEW, every expression form)
    extra = [s for d, s in stmt.gen_cases(run, ["DEFAULT", "HIVE"], 150 if tier_q else 2500) if s.lstrip().upper().startswith(("SELECT", "WITH"))]
    reqs2, mo2, im2 = run_walk(run, "generic", extra, WHICH)
    dis += stmt.tie(run, "WALK generic", reqs2, mo2, im2, [t for t in extra for _ in WHICH])
    run.add_stream("generic statements (tie)", len(reqs2), len(set(extra)), [])
    run.cov["rule"] = ("queries generated with their table lists (FROM lists, join chains, derived tables, scalar / IN / EXISTS sub-queries, WITH, depth <= 3, schema-qualified "
                       "and bare names, aliases): AllUsedQuoteTables, AllFromClauseUsedQuoteColumn, AllJoinClauseUsedQuoteColumn must return exactly the expected lists; "
                       "models run on the same requests plus the generic statement stream and the tutorial corpus")
    stmt.conclude(run, proofs_ok, dis, fails, "Props/C14.v", "table lists known by construction (harness/qgen.py) against the implementation's analysers")


def replay(path):
    def chk(obj):
        a = core.run_impl([obj["request"]])[0]
        return None if a == obj["expected"] else "analysis reports %s, expected %s" % (a[:200], obj["expected"][:200])
    return stmt.replay_generic(path, chk)
