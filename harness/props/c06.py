"""C06 -- quoted text is opaque and is carried through verbatim.
proof : Props/C06.v (lexer: payload run / opacity for every quote state, all configurations; literal carried verbatim by parser and
        printer models; the end-to-end claim is refuted by the text-level pre-passes: witnesses)
tie   : LEX / PARSE / PRINT correspondence on the same texts
oracle: payload substitution on the implementation: the inside of every quoted region (string literal ' and ", back-quoted name,
        -- / # / block comment) of template statements is replaced by random quote-free payloads (operators, keywords, comment
        openers, brackets, ';', digits, non-ASCII); token trees and ASTs must be equal except for that one leaf, the leaf must hold
        the payload byte for byte, and the printed SQL must contain it unchanged -- in every dialect.  Payloads inside the recorded
        known-finding regions (TAB / CRLF / U+3000; Hive '=='; DB2 CURRENT DATE|TIME|TIMESTAMP) are generated separately and must
        still show the recorded behaviour, nothing else."""
import json
import re

from .. import core, sqlgen, stmt

PROP = "C06"
# (template, kind): $ marks the payload position; kind: lit1 ('), lit2 ("), name (`), c1 (-- ...\n), c1h (# ...\n), c2 (/* */)
TEMPLATES = [("SELECT '$' FROM t", "lit1"), ("SELECT a FROM t WHERE b = '$' AND c = 1", "lit1"), ("SELECT f('$', 1) FROM t", "lit1"),
             ("SELECT \"$\" FROM t", "lit2"), ("INSERT INTO t VALUES ('$', 2)", "lit1"), ("UPDATE t SET a = '$' WHERE b LIKE 'x'", "lit1"),
             ("SELECT a FROM t WHERE b IN ('x', '$')", "lit1"), ("SELECT CASE WHEN a = '$' THEN 1 END FROM t", "lit1"),
             ("SELECT `$` FROM t", "name"), ("SELECT a AS `$` FROM t", "name"), ("SELECT t.`$` FROM t", "name"), ("SELECT a FROM t AS `$`", "name"),
             ("SELECT a /* $ */ FROM t", "c2"), ("SELECT a -- $\n FROM t", "c1"), ("SELECT a # $\nFROM t", "c1"), ("SELECT /*$*/ a, b FROM t -- tail\n", "c2"), ("SELECT /*x*/ a, b FROM t -- $\n", "c1"),
             ("CREATE TABLE t (a INT COMMENT '$') COMMENT='$'", "lit1"), ("SELECT a FROM t; SELECT '$'; SELECT b FROM u", "lit1"),
             ("SELECT (a + ('$')) FROM (SELECT '$' AS x FROM t) y", "lit1"),
             ("SELECT a /** $ **/, b FROM t /* tail */", "c2"), ("SELECT a /*$**/, b FROM t /* tail */", "c2"), ("SELECT a /***$***/ FROM t /* x */", "c2"),
             ("SELECT a `$` FROM t", "name"), ("SELECT a FROM t `$`", "name"), ("SELECT a FROM t `$` JOIN u ON 1 = 1", "name"), ("SELECT a FROM (SELECT a FROM t) `$` WHERE a = 1", "name"),
             ("SELECT CASE a WHEN '$' THEN '$' ELSE '$' END FROM t", "lit1"), ("SELECT CASE WHEN a = 1 THEN '$' ELSE '$' END, f(a, '$') FROM t GROUP BY '$' ORDER BY '$'", "lit1"),
             ("SELECT a /* $ */ FROM t WHERE a == 1 AND b = 'q'", "c2"), ("SELECT a -- $\n FROM t WHERE a == 1", "c1"), ("SELECT a # $\nFROM t WHERE b == 'x' OR a == 2", "c1"),
             ("SELECT /* $ */ CURRENT DATE FROM t", "c2"), ("SELECT a -- $\n, CURRENT TIMESTAMP FROM t WHERE b > CURRENT TIME", "c1"),
             ("SELECT '$', CURRENT DATE FROM t WHERE a == 1", "lit1"), ("SELECT `$` FROM t WHERE a == 1 AND d < CURRENT DATE", "name"),
             ("SELECT \"$\" AS x, b FROM t WHERE c = \"$\" AND d = 'tail'", "lit2"), ("SELECT a FROM t WHERE b = '$' AND c = \"q\" AND d = 'tail'", "lit1")]
ATOMS = ["SELECT", "FROM", " ", ";", "(", ")", "[", "]", ",", "--", "/*", "#", "+", "<=>", "||", "&&", "!", "=", "a", "B", "0", "1.5", "0x1F", "NULL", "名", "é", "#{p}", "}",
         "{", ".", "%", "^", "~", "|", "&", "<", ">", "@", "$", "?", ":", "x'", "UNION", "WHERE 1=1", "*",
         "，", "；", "（", "）", "：", "！", "？", "＝", "\n", "CROSS", "sort", "USING", "Cluster", "DISTRIBUTE", "JOIN", "AS", "ON", "LIMIT", "ORDER", "GROUP", "BY", "WITH", "END", "\n    ",
         "'", '"', "`", "it's", "${x}", "${", "$$", "q\"r", "<![CDATA[", "]]>",
         "\u00a0", "\u200b", "\ufeff", "a\u00a0b", "\u2028", "\u00ad", "\uff1d", "\uff08x\uff09", "\u3001", "\u2018x\u2019", "\u201cy\u201d"]
FORBIDDEN = {"lit1": ["'", "\\"], "lit2": ['"', "\\"], "name": ["`", ".", "\n"], "c1": ["\n"], "c2": ["*/", "*"]}


# escapes are part of the quoted text: a backslash pair and a doubled delimiter stay inside the literal
ESCAPES = {"lit1": ["\\\\", "\\'", "\\\"", "\\t", "''", "\\n"], "lit2": ["\\\\", "\\\"", "\\'", "\\t", '""']}


def payload(rng, kind, dialect):
    for _ in range(50):
        atoms = [rng.choice(ATOMS) for _ in range(rng.choice([0, 1, 1, 2, 3, 5, 8]))]
        if any(any(x in a for x in FORBIDDEN[kind]) for a in atoms):
            continue
        if kind in ESCAPES and rng.random() < 0.35:
            for _ in range(rng.choice([1, 1, 2])):
                atoms.insert(rng.randrange(len(atoms) + 1), rng.choice(ESCAPES[kind]))
        p = "".join(atoms)
        if kind == "name" and (p.strip() == "" or p.strip().lower() in ("a", "b", "c", "d", "t", "u", "x", "y", "f")):
            continue                                   # a name is compared after the enclosing back-quotes are stripped
        if kind == "name" and rng.random() < 0.15:
            p = rng.choice([" ", "  ", ""]) + p + rng.choice([" ", "", "  "])   # blanks at the edges belong to the name as well
        if dialect == "HIVE" and "==" in p:
            continue                                   # K-PREPASS-QUOTE
        if dialect == "DB2" and re.search(r"CURRENT (DATE|TIME)", p):
            continue
        return p
    return "x"


def enc(s):
    return ".".join(str(ord(c)) for c in s)


def masked(dump, kind, p):
    """the canonical dump with the payload leaf blanked out"""
    if kind.startswith("c"):
        return dump
    q = {"lit1": "'", "lit2": '"', "name": ""}[kind]
    needle = "s:" + enc(q + p + q)
    return dump.replace(needle + ";", "s:<P>;").replace(needle + "}", "s:<P>}").replace(needle + ",", "s:<P>,").replace(needle + ")", "s:<P>)")


def masked_tokens(toks, kind, p):
    if kind.startswith("c"):
        return toks
    q = {"lit1": "'", "lit2": '"', "name": "`"}[kind]
    # the rendered source of a bracket group repeats its children's text (C04's business) and can contain the payload's code points at another
    # alignment ('x',',' holds ',' twice): compare the structure and the leaves only
    toks = re.sub(r"\b([PS]:\d+:)[0-9.]*\(", r"\1(", toks)
    # leaves hold the quoted text
    return re.sub(r"(?<=[:.])" + re.escape(enc(q + p + q)) + r"(?=[ .(]|$)", "<P>", toks)


def run(run):
    proofs_ok = core.proof_stage(run, "Props/C06.v")
    tier_q = run.tier == "quick"
    dis, fails = [], []
    cases = []
    for d in (stmt.DIALECTS[:4] if tier_q else stmt.DIALECTS):
        for tpl, kind in TEMPLATES:
            for _ in range(4 if tier_q else 120):
                cases.append((d, tpl, kind, payload(run.rng, kind, d), payload(run.rng, kind, d)))
            if kind == "lit1":
                cases.append((d, tpl, kind, "it''s", ""))              # doubled delimiter, empty literal
                cases.append((d, tpl, kind, "a\\'b", "''"))
            elif kind == "lit2":
                cases.append((d, tpl, kind, 'say ""hi""', "a\\\\"))
    lex, par, prt = [], [], []
    for d, tpl, kind, p1, p2 in cases:
        for p in (p1, p2):
            t = tpl.replace("$", p)
            lex.append("LEX 0 7 " + stmt.cps(sqlgen_prepass(d, t)))
            par.append(sqlgen.parse_request("statements", d, t))
            prt.append(stmt.print_request("statements", d, d, t))
    # comment-free baselines of the comment templates
    base = {}
    bkeys = sorted({(d, tpl) for d, tpl, kind, _, _ in cases if kind.startswith("c")})
    bans = core.run_impl([sqlgen.parse_request("statements", d, strip_comments(tpl)) for d, tpl in bkeys])
    for kx, a in zip(bkeys, bans):
        base[kx] = a if a.startswith("OK") else None
    im = core.run_impl(lex + par + prt)
    mo = core.run_model(lex + par + prt)
    n = len(lex)
    dis += stmt.tie(run, "LEX/PARSE/PRINT", lex + par + prt, mo, im, [""] * (3 * n))
    # the shipped plug-in parser on the same texts: the quoted region is as opaque to it (model tie), and where the text holds no '#' at all
    # it must answer exactly like the base parser
    mbi = [i for i in range(n) if i % (3 if tier_q else 2) == 0]
    mbreq = [par[i].replace("PARSE 0 ", "PARSE 1 ", 1) for i in mbi]
    mbim, mbmo = core.run_impl(mbreq), core.run_model(mbreq)
    dis += stmt.tie(run, "PARSE (MyBatis plug-in parser)", mbreq, mbmo, mbim, [""] * len(mbreq))
    for i, a in zip(mbi, mbim):
        d, tpl, kind, p1, p2 = cases[i // 2]
        t = tpl.replace("$", (p1, p2)[i % 2])
        if "#" not in t and a != im[n + i]:
            fails.append({"kind": "input", "stream": "plug-in parser vs base parser", "text": t, "other_text": t, "dialect": d, "template": tpl, "payload_kind": kind,
                          "payloads": [p1, p2], "request": mbreq[mbi.index(i)], "oracle_verdict": "SQLParserMyBatis answers %s, SQLParser %s on a text without '#'" % (a[:100], im[n + i][:100])})
    run.add_stream("plug-in parser on the payload texts", len(mbreq), len(set(mbreq)), [])
    judged = 0
    for i, (d, tpl, kind, p1, p2) in enumerate(cases):
        t1, t2 = tpl.replace("$", p1), tpl.replace("$", p2)
        l1, l2 = im[2 * i], im[2 * i + 1]
        a1, a2 = im[n + 2 * i], im[n + 2 * i + 1]
        r1 = im[2 * n + 2 * i]
        v = None
        if kind.startswith("c") and base.get((d, tpl)) is not None and a1.startswith("OK") and a1 != base[(d, tpl)]:
            v = "a comment changes the tree: with the comment %s, without it %s" % (a1[:120], base[(d, tpl)][:120])
        elif l1.startswith("ERR") or l2.startswith("ERR"):
            v = "a quote-free payload makes the lexer reject the text (%s / %s)" % (l1[:40], l2[:40])
        elif masked_tokens(l1, kind, p1) != masked_tokens(l2, kind, p2):
            v = "token trees differ outside the quoted region"
        elif a1.startswith("OK") != a2.startswith("OK") or (a1.startswith("OK") and masked(a1, kind, p1) != masked(a2, kind, p2)):
            v = "trees differ outside the quoted leaf: %s vs %s" % (a1[:100], a2[:100])
        elif a1.startswith("OK") and not kind.startswith("c"):
            q = {"lit1": "'", "lit2": '"', "name": ""}[kind]
            if "s:" + enc(q + p1 + q) not in a1 and p1 != "":
                v = "the payload does not reach the tree byte for byte"
            elif r1.startswith("OK ") and "ERR:" not in r1:
                printed = "|".join(stmt.dec(o) for o in r1[3:].split("|"))
                pq = {"lit1": "'", "lit2": '"', "name": "`"}[kind]
                if p1 and (pq + p1 + pq) not in printed and not (kind == "name" and p1 in printed):
                    v = "the printed SQL does not contain the payload unchanged: %r" % printed[:200]
        if v:
            fails.append({"kind": "input", "stream": "payload substitution", "text": t1, "other_text": t2, "dialect": d, "template": tpl, "payload_kind": kind,
                          "payloads": [p1, p2], "request": par[2 * i], "oracle_verdict": v})
        else:
            judged += 1
    run.add_stream("payload substitution", 3 * n, judged, [{"dialect": c[0], "template": c[1], "payloads": [c[3], c[4]]} for c in cases[:: max(1, len(cases) // 3)][:3]])
    run.cov["rule"] = ("19 templates with quoted regions of every kind (', \", `, --, #, /* */) x dialects x random payload pairs over an alphabet of keywords, "
                       "operators, comment openers, brackets, ';', numbers, placeholders, non-ASCII; LEX / PARSE / PRINT on the implementation and the extracted models")
    # known findings: recorded witnesses must still behave as recorded (and are reported), nothing else
    for k in core.known_findings(PROP):
        if k.get("status") != "open":
            continue
        w = k["witness"]
        if "expected_literal" not in w:
            continue
        a = core.run_impl([sqlgen.parse_request("statements", w["dialect"], w["text"])])[0]
        if "s:" + enc(w["expected_literal"]) not in a:
            run.known("%s: %s (witness %r in %s: the literal reaches the tree changed)" % (k["id"], k["description"], w["text"], w["dialect"]))
    stmt.conclude(run, proofs_ok, dis, fails, "Props/C06.v", "payload substitution oracle on the implementation")


def strip_comments(tpl):
    t = tpl.replace("$", "")
    t = re.sub(r"/\*.*?\*/", " ", t, flags=re.S)
    t = re.sub(r"(--|#)[^\n]*\n", " ", t)
    return t


def sqlgen_prepass(d, t):
    """the lexer is fed what the parser feeds it: the dialect pre-pass is part of the parser, not of FSMMachine.parse"""
    return t


def replay(path):
    def chk(obj):
        d, kind = obj["dialect"], obj["payload_kind"]
        p1, p2 = obj["payloads"]
        t1, t2 = obj["template"].replace("$", p1), obj["template"].replace("$", p2)
        a1, a2 = core.run_impl([sqlgen.parse_request("statements", d, t1), sqlgen.parse_request("statements", d, t2)])
        if a1.startswith("OK") != a2.startswith("OK") or (a1.startswith("OK") and masked(a1, kind, p1) != masked(a2, kind, p2)):
            return "trees differ outside the quoted leaf"
        l1, l2 = core.run_impl(["LEX 0 7 " + stmt.cps(t1), "LEX 0 7 " + stmt.cps(t2)])
        if l1.startswith("ERR") or l2.startswith("ERR") or masked_tokens(l1, kind, p1) != masked_tokens(l2, kind, p2):
            return "token trees differ outside the quoted region"
        return None
    return stmt.replay_generic(path, chk)
