"""C11 -- trees are immutable, hashable values with structural equality.
proof : Props/C11.v (schema flags frozen / eq / slots for every dataclass, immutable defaults, Python == / hash model is
        structural, helper histories keep class and hashability)
tie   : PARSE + HELPERS correspondence (the dumps keep the container kind: a list shows up as [...] and never matches a tuple)
oracle: on the real objects (OBJ11): setattr / delattr / new attribute rejected on every node at every depth, only
        immutable field values, hash works, independently built copies are == and hash equal, == agrees with structure;
        helper calls leave the receiver untouched, keep the class and the result hashable."""
import json
import re

from .. import core, sqlgen, stmt
from . import c18

PROP = "C11"


def run(run):
    proofs_ok = core.proof_stage(run, "Props/C11.v")
    tier_q = run.tier == "quick"
    dialects = stmt.DIALECTS[:3] if tier_q else stmt.DIALECTS
    cases = stmt.gen_cases(run, dialects, 250 if tier_q else 3000)
    reqs_o = ["OBJ11 %s %s" % (d, stmt.cps(s)) for d, s in cases]
    reqs_p = [sqlgen.parse_request("statements", d, s) for d, s in cases]
    im = core.run_impl(reqs_o + reqs_p)
    mo = core.run_model(reqs_p)
    n = len(cases)
    dis = stmt.tie(run, "PARSE", reqs_p, mo, im[n:], [s for _, s in cases])
    fails = []
    classes = {}
    nodes = 0
    judged = set()
    for (d, s), a, dump, rq in zip(cases, im[:n], im[n:], reqs_o):
        if a.startswith("PARSEERR"):
            continue
        if not a.startswith("OK "):
            fails.append({"kind": "input", "stream": "objects", "text": s, "dialect": d, "request": rq, "oracle_verdict": a[:500]})
            continue
        info = json.loads(a[3:])
        nodes += info["nodes"]
        judged.add(s)
        for k, v in info["classes"].items():
            classes[k] = classes.get(k, 0) + v
        # container kinds: inside the statements of a successful parse there is no list
        body = dump[4:-1] if dump.startswith("OK [") else ""
        if "[" in body:
            fails.append({"kind": "input", "stream": "objects", "text": s, "dialect": d, "request": rq,
                          "oracle_verdict": "a parsed tree holds a list (mutable, unhashable) at " + body[max(0, body.index("[") - 80): body.index("[") + 40]})
    run.add_stream("objects", 2 * n, len(judged), [{"dialect": d, "text": s[:160]} for d, s in cases[:: max(1, n // 3)][:3]],
                   extra={"nodes_probed": nodes, "node_classes_seen": len(classes)})
    all_classes = schema_classes()
    missing = sorted(c for c in all_classes if c not in classes)
    run.cov["streams"]["objects"]["concrete_node_classes_never_produced"] = missing[:40]
    # helpers on real objects + model
    mysql_types, hashmap = c18.tables()
    hcases = []
    for _ in range(120 if tier_q else 2500):
        hcases.append((c18.gen_ddl(run.rng, mysql_types), c18.gen_ops(run.rng)))
    reqs_h = ["HELPERS %s %s" % (",".join(ops) or "-", stmt.cps(t)) for t, ops in hcases]
    mo_h = core.run_model(reqs_h)
    im_h = core.run_impl(reqs_h)
    dis += stmt.tie(run, "HELPERS", reqs_h, mo_h, im_h, [t for t, _ in hcases])
    okh = 0
    for (t, ops), a, rq in zip(hcases, im_h, reqs_h):
        v = None
        if a.startswith("OK !"):
            v = "helper misbehaves: " + a[4:]
        elif a.startswith("OK ") and not a.endswith("| hashable"):
            v = "result of the helper history is not hashable"
        elif a.startswith("HELPERR") and all(c.split()[1].split("(")[0].upper() in mysql_types for c in []):
            v = None
        elif a.startswith("OK "):
            okh += 1
            if "[" in a.split(" | ")[0]:
                v = "helper result holds a list"
        if v:
            fails.append({"kind": "input", "stream": "helpers", "text": t, "ops": ops, "request": rq, "oracle_verdict": v})
    run.add_stream("helpers", len(hcases), okh, [{"ddl": t[:160], "helpers": ops} for t, ops in hcases[:2]])
    run.cov["rule"] = ("generated statements of every kind x dialects: every node of every returned tree is probed on the real objects (setattr, delattr, new "
                       "attribute, field value types, hash, == / hash against an independently parsed copy, == vs structure on node pairs); helper histories on "
                       "generated MySQL tables: receiver unchanged (dump before / after), class kept, result hashable; models run on the same requests")
    stmt.conclude(run, proofs_ok, dis, fails, "Props/C11.v", "object probes on the implementation (OBJ11 / HELPERS)")


def schema_classes():
    txt = open(core.COQ + "/Gen/Schema.v", encoding="utf-8").read()
    out = []
    for m in re.finditer(r'mkc "(\w+)" \[[^\]]*\]\s*\[[^\]]*(?:\][^\]]*)*?\]\s*(true|false) (true|false) (true|false) (true|false)', txt):
        if m.group(5) == "false" and m.group(1).startswith("AST"):
            out.append(m.group(1))
    return out


def replay(path):
    def chk(obj):
        a = core.run_impl([obj["request"]])[0]
        if obj.get("stream") == "helpers":
            return None if (a.startswith("OK ") and a.endswith("| hashable") and not a.startswith("OK !")) or a.startswith("PARSEERR") else a[:300]
        return None if a.startswith("OK ") or a.startswith("PARSEERR") else a[:300]
    return stmt.replay_generic(path, chk)
