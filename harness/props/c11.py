"""C11 -- trees are immutable, hashable values with structural equality.
proof : Props/C11.v (schema flags frozen / eq / slots for every dataclass, immutable defaults, Python == / hash model is
        structural, helper histories keep class and hashability)
tie   : PARSE + HELPERS correspondence (the dumps keep the container kind: a list shows up as [...] and never matches a tuple)
oracle: on the real objects (OBJ11): setattr / delattr / new attribute rejected on every node at every depth, only
        immutable field values, hash works, independently built copies are == and hash equal, == agrees with structure;
        helper calls leave the receiver untouched, keep the class and the result hashable."""
import json
import re

from .. import core, sqlgen, stmt
from . import c18

PROP = "C11"


def run(run):
    proofs_ok = core.proof_stage(run, "Props/C11.v")
    tier_q = run.tier == "quick"
    dialects = stmt.DIALECTS[:3] if tier_q else stmt.DIALECTS
    cases = stmt.gen_cases(run, dialects, 250 if tier_q else 3000)
    reqs_o = ["OBJ11 %s %s" % (d, stmt.cps(s)) for d, s in cases]
    reqs_p = [sqlgen.parse_request("statements", d, s) for d, s in cases]
    im = core.run_impl(reqs_o + reqs_p)
    mo = core.run_model(reqs_p)
    n = len(cases)
    dis = stmt.tie(run, "PARSE", reqs_p, mo, im[n:], [s for _, s in cases])
    fails = []
    classes = {}
    nodes = 0
    judged = set()
    for (d, s), a, dump, rq in zip(cases, im[:n], im[n:], reqs_o):
        if a.startswith("PARSEERR"):
            continue
        if not a.startswith("OK "):
            fails.append({"kind": "input", "stream": "objects", "text": s, "dialect": d, "request": rq, "oracle_verdict": a[:500]})
            continue
        info = json.loads(a[3:])
        nodes += info["nodes"]
        judged.add(s)
        for k, v in info["classes"].items():
            classes[k] = classes.get(k, 0) + v
        # container kinds: inside the statements of a successful parse there is no list
        body = dump[4:-1] if dump.startswith("OK [") else ""
        if "[" in body:
            fails.append({"kind": "input", "stream": "objects", "text": s, "dialect": d, "request": rq,
                          "oracle_verdict": "a parsed tree holds a list (mutable, unhashable) at " + body[max(0, body.index("[") - 80): body.index("[") + 40]})
    run.add_stream("objects", 2 * n, len(judged), [{"dialect": d, "text": s[:160]} for d, s in cases[:: max(1, n // 3)][:3]],
                   extra={"nodes_probed": nodes, "node_classes_seen": len(classes)})
    all_classes = schema_classes()
    missing = sorted(c for c in all_classes if c not in classes)
    run.cov["streams"]["objects"]["concrete_node_classes_never_produced"] = missing[:40]
    # near-identical pairs: one word changed in letter case / one name or literal replaced
    pairs = []
    for d, s_ in cases[: (150 if tier_q else 3000)]:
        ws = sqlgen.split_words(s_)
        idx = [i for i, w_ in enumerate(ws) if w_[:1].isalpha() or w_[:1].isdigit()]
        if not idx:
            continue
        i = run.rng.choice(idx)
        k = run.rng.random()
        w2 = ws[i].swapcase() if k < 0.6 else (ws[i] + "x" if ws[i][:1].isalpha() else ws[i] + "0")
        pairs.append((d, s_, " ".join(ws[:i] + [w2] + ws[i + 1:])))
    reqs_q = ["PAIR11 %s %s | %s" % (d, stmt.cps(" ".join(sqlgen.split_words(a))), stmt.cps(b)) for d, a, b in pairs]
    im_q = core.run_impl(reqs_q)
    npair = 0
    for (d, a, b), r_, rq in zip(pairs, im_q, reqs_q):
        if r_ == "OK":
            npair += 1
        elif r_.startswith("FAIL"):
            fails.append({"kind": "input", "stream": "objects", "text": a + "  ~  " + b, "dialect": d, "request": rq, "oracle_verdict": r_[5:]})
    run.add_stream("near-identical pairs", len(pairs), npair, [{"a": pairs[0][1][:100], "b": pairs[0][2][:100]}] if pairs else [])
    # helpers on real objects + model
    mysql_types, hashmap = c18.tables()
    hcases = []
    for _ in range(60 if tier_q else 1200):
        ddl = c18.gen_ddl(run.rng, mysql_types)
        for _ in range(run.rng.choice([2, 3])):      # several histories on structurally equal receivers, one after the other in one process
            hcases.append((ddl, c18.gen_ops(run.rng)))
    reqs_h = ["HELPERS %s %s" % (",".join(ops) or "-", stmt.cps(t)) for t, ops in hcases]
    mo_h = core.run_model(reqs_h)
    im_h = core.run_impl(reqs_h)
    dis += stmt.tie(run, "HELPERS", reqs_h, mo_h, im_h, [t for t, _ in hcases])
    okh = 0
    for (t, ops), a, rq in zip(hcases, im_h, reqs_h):
        v = None
        if a.startswith("OK !"):
            v = "helper misbehaves: " + a[4:]
        elif a.startswith("OK ") and not a.endswith("| hashable"):
            v = "result of the helper history is not hashable"
        elif a.startswith("HELPERR") and all(c.split()[1].split("(")[0].upper() in mysql_types for c in []):
            v = None
        elif a.startswith("OK "):
            okh += 1
            if "[" in a.split(" | ")[0]:
                v = "helper result holds a list"
        if v:
            fails.append({"kind": "input", "stream": "helpers", "text": t, "ops": ops, "request": rq, "oracle_verdict": v})
    # set_with_clauses on single and compound SELECTs
    withs = ["WITH w AS (SELECT a FROM t) SELECT 1", "WITH w1 AS (SELECT 1), w2 AS (SELECT b FROM w1 UNION SELECT c FROM u) SELECT 2", "SELECT 3",
             "WITH w AS (SELECT 1) INSERT INTO t SELECT * FROM w"]
    sels = [s for d, s in cases if s.upper().lstrip().startswith(("SELECT", "WITH"))][: (60 if tier_q else 1200)]
    sels += ["SELECT a FROM t UNION ALL SELECT b FROM u", "SELECT a FROM t EXCEPT SELECT b FROM u INTERSECT SELECT c FROM v",
             "WITH x AS (SELECT 1) SELECT a FROM x UNION SELECT b FROM u MINUS SELECT 3"]
    reqs_w = ["SETWITH DEFAULT %s | %s" % (stmt.cps(run.rng.choice(withs)), stmt.cps(s)) for s in sels]
    mo_w = core.run_model(reqs_w)
    im_w = core.run_impl(reqs_w)
    dis += stmt.tie(run, "SETWITH", reqs_w, mo_w, im_w, sels)
    for s_, a, rq in zip(sels, im_w, reqs_w):
        v = None
        if a.startswith("OK !"):
            v = "set_with_clauses misbehaves: " + a[4:]
        elif a.startswith("OK ") and not a.endswith("| hashable"):
            v = "result of set_with_clauses is not hashable"
        elif a.startswith("OK ") and "[" in a:
            v = "result of set_with_clauses holds a list"
        elif a.startswith("HELPERR"):
            v = "set_with_clauses raised " + a
        if v:
            fails.append({"kind": "input", "stream": "helpers", "text": s_, "request": rq, "oracle_verdict": v})
    run.add_stream("set_with_clauses", len(sels), len(set(sels)), [])
    run.add_stream("helpers", len(hcases), okh, [{"ddl": t[:160], "helpers": ops} for t, ops in hcases[:2]])
    run.cov["rule"] = ("generated statements of every kind x dialects: every node of every returned tree is probed on the real objects (setattr, delattr, new "
                       "attribute, field value types, hash, == / hash against an independently parsed copy, == vs structure on node pairs); helper histories on "
                       "generated MySQL tables: receiver unchanged (dump before / after), class kept, result hashable; models run on the same requests")
    stmt.conclude(run, proofs_ok, dis, fails, "Props/C11.v", "object probes on the implementation (OBJ11 / HELPERS)")


def schema_classes():
    txt = open(core.COQ + "/Gen/Schema.v", encoding="utf-8").read()
    out = []
    for m in re.finditer(r'mkc "(\w+)" \[[^\]]*\]\s*\[[^\]]*(?:\][^\]]*)*?\]\s*(true|false) (true|false) (true|false) (true|false)', txt):
        if m.group(5) == "false" and m.group(1).startswith("AST"):
            out.append(m.group(1))
    return out


def replay(path):
    def chk(obj):
        a = core.run_impl([obj["request"]])[0]
        if obj.get("stream") == "helpers":
            return None if (a.startswith("OK ") and a.endswith("| hashable") and not a.startswith("OK !")) or a.startswith("PARSEERR") else a[:300]
        return None if a.startswith("OK ") or a.startswith("PARSEERR") else a[:300]
    return stmt.replay_generic(path, chk)
