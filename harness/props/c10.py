"""C10 -- a script parses to the concatenation of its statements.
proof : Props/C10.v (statement loop of parse_statements = concatenation for any number of statements that stop at a separator)
tie   : PARSE correspondence of the extracted parser model on the same scripts
oracle: on the implementation, parse_statements(s1 ; ... ; sn) must equal [parse(s1)] ++ ... ++ [parse(sn)] (canonical dumps),
        for every layout of the separators, with and without a final separator, including ';' inside strings, names,
        comments and brackets."""
import json
import re

from .. import core, sqlgen, stmt

PROP = "C10"
SEPS = [";", " ; ", ";\n", " ;\n\n", "; -- c ; c\n", ";/* ; */", "\n;\t", " ;  ", "; /** doc ; **/ ", ";/***/", " /* x **/;\n", ";# c;\n", "/**/;/* a */ /* ; b */"]
FINALS = ["", ";", " ; \n", ";\n-- end;\n", "\n"]
QUOTED = ["SELECT ';' FROM t", "SELECT `a;b` FROM t", "SELECT a /* ; */ FROM t", "SELECT a -- ;\n FROM t", "SELECT f(';', 1) FROM t # ;\n",
          "SELECT (';') , \";\" FROM `t;1`", "INSERT INTO t VALUES (';', ';;')", "UPDATE t SET a = ';' WHERE b = \"x;y\"",
          "DELETE FROM t WHERE a IN (';', ');')", "SET a = ';'", "SELECT 'it''s;' FROM t", "SELECT '\\';' FROM t",
          "SELECT \"a\\\"; SELECT \\\"b\" FROM t", "SELECT \"x\"\";\" FROM t", "SELECT 'a\\\\' AS `;`, ';' FROM t"]


CONTEXT = ["WITH w AS (SELECT a FROM t) SELECT * FROM w", "WITH w1 AS (SELECT 1), w2 AS (SELECT b FROM w1) SELECT * FROM w2 JOIN w1 ON w1.a = w2.b",
           "WITH w AS (SELECT 1) INSERT INTO t SELECT * FROM w", "WITH w AS (SELECT 1) UPDATE t SET a = 1", "SELECT a FROM (SELECT a FROM t) x /* c */",
           "SELECT DISTINCT a FROM t LIMIT 5", "INSERT INTO t PARTITION (dt='1') (a, b) VALUES (1, 2)", "SELECT a FROM t WHERE b IN (SELECT c FROM u) ORDER BY a DESC"]
PLAIN = ["SELECT 2", "SELECT b FROM u", "INSERT INTO t2 SELECT a FROM u", "INSERT INTO t2 VALUES (3)", "UPDATE t2 SET b = 2", "SELECT a FROM t UNION SELECT b FROM u",
         "DELETE FROM t2", "SHOW TABLES"]


def kind_of(dump):
    m = re.match(r"OK \[(AST\w+)\{", dump)
    return m.group(1) if m else None


def standalone(cases):
    """(dialect, text) -> dump of the single statement (implementation), or None"""
    reqs = [sqlgen.parse_request("statements", d, s) for d, s in cases]
    im = core.run_impl(reqs)
    out = []
    for (d, s), b in zip(cases, im):
        els = stmt.split_dump_list(b)
        out.append(els[0] if els is not None and len(els) == 1 else None)
    return out


def check_scripts(run, name, scripts):
    """scripts: (dialect, [texts], [dumps], seps, final).  returns (dis, fails)"""
    texts = []
    for d, ss, dumps, seps, fin in scripts:
        t = ss[0]
        for sp, s in zip(seps, ss[1:]):
            t += sp + s
        texts.append(t + fin)
    reqs = [sqlgen.parse_request("statements", sc[0], t) for sc, t in zip(scripts, texts)]
    mo = core.run_model(reqs)
    im = core.run_impl(reqs)
    dis = stmt.tie(run, name, reqs, mo, im, texts)
    fails = []
    for (d, ss, dumps, seps, fin), t, rq, b in zip(scripts, texts, reqs, im):
        exp = "OK [" + ",".join(dumps) + "]"
        if b != exp:
            fails.append({"kind": "input", "stream": name, "text": t, "dialect": d, "parts": ss, "request": rq, "expected": exp[:3000], "observed": b[:3000],
                          "oracle_verdict": "the script does not parse to the concatenation of the stand-alone parses of its %d statements" % len(ss)})
    run.add_stream(name, len(scripts), len(set(texts)), [{"dialect": sc[0], "script": t[:200]} for sc, t in list(zip(scripts, texts))[:: max(1, len(texts) // 3)][:3]])
    return dis, fails


def build(run):
    tier_q = run.tier == "quick"
    dialects = stmt.DIALECTS[:3] if tier_q else stmt.DIALECTS
    pool = {}
    kinds = {}
    for d in dialects:
        cand = [(d, s) for s in sqlgen.gen_statements(run.rng, 260 if tier_q else 1500, d, maxlen=260)] + [(d, s) for s in QUOTED]
        dumps = standalone(cand)
        ok = [(s, dm) for (_, s), dm in zip(cand, dumps) if dm is not None]
        pool[d] = ok
        for s, dm in ok:
            k = re.match(r"(AST\w+)\{", dm).group(1)
            kinds.setdefault((d, k), []).append((s, dm))
    pre_fails = []
    for d in dialects:
        have = {s for s, _ in pool[d]}
        for s in QUOTED:
            if s not in have:
                pre_fails.append({"kind": "input", "stream": "quoted separators", "text": s, "dialect": d, "request": sqlgen.parse_request("statements", d, s),
                                  "oracle_verdict": "a text whose only ';' are inside quotes, names or comments does not parse to exactly one statement"})
    scripts = []
    # all ordered pairs of statement kinds
    for d in dialects:
        ks = sorted(k for (dd, k) in kinds if dd == d)
        for k1 in ks:
            for k2 in ks:
                a = run.rng.choice(kinds[(d, k1)])
                b = run.rng.choice(kinds[(d, k2)])
                scripts.append((d, [a[0], b[0]], [a[1], b[1]], [run.rng.choice(SEPS)], run.rng.choice(FINALS)))
    # quoted separators with every layout
    for d in dialects[:2]:
        q = [(s, dm) for s, dm in pool[d] if s in QUOTED]
        for i, a in enumerate(q):
            b = q[(i + 1) % len(q)]
            for sp in SEPS:
                scripts.append((d, [a[0], b[0]], [a[1], b[1]], [sp], run.rng.choice(FINALS)))
    # statements that carry their own context (WITH clause, brackets, comments) followed by statements that must not inherit it
    for d in dialects:
        ctx = [(s, dm) for s, dm in zip(CONTEXT, standalone([(d, s) for s in CONTEXT])) if dm is not None]
        plain = [(s, dm) for s, dm in zip(PLAIN, standalone([(d, s) for s in PLAIN])) if dm is not None]
        for a in ctx:
            for b in plain:
                scripts.append((d, [a[0], b[0]], [a[1], b[1]], [run.rng.choice(SEPS)], run.rng.choice(FINALS)))
                scripts.append((d, [b[0], a[0], b[0]], [b[1], a[1], b[1]], [run.rng.choice(SEPS), run.rng.choice(SEPS)], run.rng.choice(FINALS)))
    # random scripts of 1..6 statements
    for _ in range(400 if tier_q else 6000):
        d = run.rng.choice(dialects)
        n = run.rng.choice([1, 2, 2, 3, 3, 4, 5, 6])
        items = [run.rng.choice(pool[d]) for _ in range(n)]
        scripts.append((d, [x[0] for x in items], [x[1] for x in items], [run.rng.choice(SEPS) for _ in range(n - 1)], run.rng.choice(FINALS)))
    nk = {d: len([1 for (dd, k) in kinds if dd == d]) for d in dialects}
    return scripts, nk, pre_fails


def run(run):
    proofs_ok = core.proof_stage(run, "Props/C10.v")
    scripts, nk, pre_fails = build(run)
    dis, fails = check_scripts(run, "scripts", scripts)
    fails = pre_fails + fails
    run.cov["streams"]["scripts"]["statement_kinds_per_dialect"] = nk
    run.cov["rule"] = ("statements that parse on their own (generator of harness/sqlgen.py + statements with ';' inside strings, names, comments, brackets) are "
                       "joined with every separator layout, with / without final separator: all ordered pairs of statement kinds, then random scripts of 1-6 "
                       "statements; implementation result must equal the concatenation of stand-alone parses; the extracted model is run on the same scripts (tie)")
    stmt.conclude(run, proofs_ok, dis, fails, "Props/C10.v", "script = concatenation of stand-alone parses (on the implementation)")


def replay(path):
    def chk(obj):
        d = obj["dialect"]
        dumps = standalone([(d, s) for s in obj["parts"]])
        if any(x is None for x in dumps):
            return None
        b = core.run_impl([sqlgen.parse_request("statements", d, obj["text"])])[0]
        return None if b == "OK [" + ",".join(dumps) + "]" else "script is not the concatenation of its stand-alone parses: " + b[:300]
    return stmt.replay_generic(path, chk)
