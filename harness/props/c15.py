"""C15 -- per-clause column usage is exact, level-local and resolves aliases and ordinals.
proof : Props/C15.v (walk stops at sub-queries, wildcard, alias / ordinal resolution of _format_quote_columns, textual field order,
        one query through every clause analyser on the models)
tie   : WALK correspondence (extracted models vs the implementation's seven analysers)
oracle: structure-aware generator (harness/qgen.py): queries built together with the references each clause of the top level makes
        (qualifier, alias and ordinal references already replaced by the referenced item's columns, COUNT(1) anonymous, CURRENT_DATE not a
        column, nested queries invisible); the implementation's per-clause analyses must return exactly those lists and their union."""
import json

from .. import core, sqlgen, stmt, qgen

PROP = "C15"
CLAUSES = ["select", "join", "where", "group_by", "having", "order_by"]


def run(run):
    proofs_ok = core.proof_stage(run, "Props/C15.v")
    tier_q = run.tier == "quick"
    dis, fails = [], []
    gens = [qgen.gen(run.rng, run.rng.choice([0, 1, 1, 2, 2])) for _ in range(300 if tier_q else 5000)]
    whichs = CLAUSES + ["all"]
    reqs = ["WALK %s DEFAULT %s" % (w, stmt.cps(t)) for t, _ in gens for w in whichs]
    mo = core.run_model(reqs)
    im = core.run_impl(reqs)
    dis += stmt.tie(run, "WALK generated", reqs, mo, im, [t for t, _ in gens for _ in whichs])
    nontriv = 0
    known_with = 0
    for i, (text, q) in enumerate(gens):
        union = []
        for j, w in enumerate(CLAUSES):
            exp = qgen.fmt_cols(q.cols[w])
            union += q.cols[w]
            a = im[i * len(whichs) + j]
            if a != exp:
                fails.append({"kind": "input", "stream": "generated queries", "text": text, "analysis": w, "request": reqs[i * len(whichs) + j], "expected": exp,
                              "observed": a[:600], "oracle_verdict": "the %s analysis reports %s, the clause reads %s" % (w, a[:300], exp[:300])})
        a = im[i * len(whichs) + len(CLAUSES)]
        exp = qgen.fmt_cols(q.all_refs())
        if a != exp:
            if False:
                known_with += 1
            else:
                fails.append({"kind": "input", "stream": "generated queries", "text": text, "analysis": "all", "request": reqs[i * len(whichs) + len(CLAUSES)],
                              "expected": exp, "observed": a[:600], "oracle_verdict": "the union analysis reports %s, the clauses together read %s" % (a[:300], exp[:300])})
        if sum(len(v) for v in q.cols.values()) > 2:
            nontriv += 1
    run.add_stream("generated queries with known references", len(reqs), nontriv, [{"text": t[:200]} for t, _ in gens[:: max(1, len(gens) // 3)][:3]],
                   extra={"in_known_region_K-WITH-LEAK": known_with})
    extra = [s for d, s in stmt.gen_cases(run, ["DEFAULT", "MYSQL"], 120 if tier_q else 2000) if s.lstrip().upper().startswith(("SELECT", "WITH"))]
    reqs2 = ["WALK %s DEFAULT %s" % (w, stmt.cps(t)) for t in extra for w in whichs]
    mo2 = core.run_model(reqs2)
    im2 = core.run_impl(reqs2)
    dis += stmt.tie(run, "WALK generic", reqs2, mo2, im2, [t for t in extra for _ in whichs])
    run.add_stream("generic statements (tie)", len(reqs2), len(set(extra)), [])
    for k in core.known_findings(PROP):
        if k["id"] == "K-WITH-LEAK" and k.get("status") == "open":
            w = k["witness"]
            a = core.run_impl(["WALK all DEFAULT " + stmt.cps(w["text"])])[0]
            if a != w["expected"]:
                run.known("K-WITH-LEAK: %s (witness %r: reported %s)" % (k["description"], w["text"], a))
        elif known_with and k["id"] == "K-WITH-LEAK":
            fails.append({"kind": "input", "text": "(region K-WITH-LEAK hit although the finding is not open)", "oracle_verdict": "unrecorded region"})
    run.cov["rule"] = ("queries generated with the references of every clause (qualified / bare columns, expressions, functions, COUNT(1), CURRENT_DATE, wildcards, scalar / IN / "
                       "EXISTS sub-queries in every clause, aliases and positions in GROUP BY / HAVING / ORDER BY): the six per-clause analysers and their union must return "
                       "exactly the expected lists; models run on the same requests and on the generic statement stream")
    stmt.conclude(run, proofs_ok, dis, fails, "Props/C15.v", "references known by construction (harness/qgen.py) against the implementation's analysers")


def replay(path):
    def chk(obj):
        a = core.run_impl([obj["request"]])[0]
        return None if a == obj["expected"] else "analysis reports %s, expected %s" % (a[:200], obj["expected"][:200])
    return stmt.replay_generic(path, chk)
