"""C08 -- no part of an accepted statement is silently ignored.
proof : Props/C08.v (close reports leftovers; every segment read through each_closed is fully consumed, for any item parser; an accepted
        statement loop ends with an empty remainder; literals are printed verbatim; stray tokens rejected on the model in computed examples)
tie   : PARSE / PRINT correspondence on the same texts
oracle: on the implementation: (a) unique renaming -- every identifier and literal of a generated statement is replaced by a unique marker;
        when the text parses, every marker must occur in the tree and exactly once in the text printed in the dialect it was written in;
        (b) stray tokens -- a fresh name, string or number inserted at every token boundary (a sample of them per statement) must give an
        error or a tree that contains it, never the unchanged result."""
import json
import re

from .. import core, sqlgen, stmt, stgen

PROP = "C08"
WORDS = {"SELECT", "FROM", "WHERE", "AND", "OR", "NOT", "AS", "ON", "JOIN", "GROUP", "ORDER", "BY", "LIMIT", "OFFSET", "UNION", "ALL", "IN", "IS", "LIKE", "BETWEEN",
         "CASE", "WHEN", "THEN", "ELSE", "END", "WITH", "HAVING", "LEFT", "RIGHT", "INNER", "FULL", "CROSS", "OUTER", "SEMI", "USING", "EXCEPT", "INTERSECT", "MINUS",
         "DESC", "ASC", "NULLS", "FIRST", "LAST", "SET", "VALUES", "INSERT", "INTO", "OVERWRITE", "IGNORE", "TABLE", "UPDATE", "DELETE", "TRUE", "FALSE", "NULL",
         "DISTINCT", "PARTITION", "ROLLUP", "CUBE", "GROUPING", "SETS", "CREATE", "IF", "EXISTS", "PRIMARY", "KEY", "UNIQUE", "CONSTRAINT", "FOREIGN", "REFERENCES",
         "CASCADE", "ACTION", "NO", "RESTRICT", "DEFAULT", "COMMENT", "AUTO_INCREMENT", "UNSIGNED", "ZEROFILL", "CHARACTER", "COLLATE", "ENGINE", "CHARSET",
         "ROW_FORMAT", "STATS_PERSISTENT", "STORED", "TEXTFILE", "LOCATION", "ROW", "FORMAT", "SERDE", "DELIMITED", "FIELDS", "TERMINATED", "ALTER", "ADD", "MODIFY",
         "CHANGE", "RENAME", "COLUMN", "TO", "DROP", "BTREE", "KEY_BLOCK_SIZE", "CURRENT_TIMESTAMP", "INT", "VARCHAR", "DECIMAL", "BIGINT", "DATETIME", "TEXT",
         "SUM", "COUNT", "MAX", "MIN", "INNODB", "DYNAMIC", "UTF8", "UTF8MB4", "UTF8_BIN",
         "CAST", "EXTRACT", "OVER", "ROWS", "PRECEDING", "FOLLOWING", "UNBOUNDED", "CURRENT", "LATERAL", "VIEW", "SORT", "DISTRIBUTE", "CLUSTER", "XOR", "RLIKE", "REGEXP",
         "SIGNED", "CHAR", "DATE", "STRING", "TRUNCATE", "USE", "ANALYZE", "COMPUTE", "STATISTICS", "FOR", "COLUMNS", "CACHE", "METADATA", "NOSCAN", "MSCK", "REPAIR", "SHOW",
         "DATABASES", "TABLES"}


COMMENT_SEPS = ["/*c*/", "/**c**/", "/***/", "/*c**/", "/****/", "--c\n", "/*;*/"]


TOK = re.compile(r"'(?:[^'\\]|\\.|'')*'|\"(?:[^\"\\]|\\.)*\"|`[^`]*`|\d+\.\d+|\w+|<=>|<=|>=|<>|!=|<<|>>|&&|\|\||==|[^\w\s]", re.S)


# (text with an extra clause / keyword / value, the same text without it): constructs of neighbouring SQL dialects that this grammar does not have, and
# optional parts it does have.  Wherever the longer text is accepted, the extra part must be visible in the tree: the two trees may not be equal.
EXTRA_PAIRS = [
    ("ALTER TABLE t ADD c INT AFTER b", "ALTER TABLE t ADD c INT"), ("ALTER TABLE t ADD c INT FIRST", "ALTER TABLE t ADD c INT"),
    ("ALTER TABLE t MODIFY c BIGINT NOT NULL AFTER zq1", "ALTER TABLE t MODIFY c BIGINT NOT NULL"), ("CREATE TABLE t (a INT, b INT AFTER a)", "CREATE TABLE t (a INT, b INT)"),
    ("ALTER TABLE t ADD COLUMN c INT", "ALTER TABLE t ADD c INT"), ("CREATE TABLE t (a INT PRIMARY KEY)", "CREATE TABLE t (a INT)"),
    ("CREATE TABLE t (a INT NOT NULL VISIBLE)", "CREATE TABLE t (a INT NOT NULL)"), ("CREATE TABLE t (a INT, CHECK (a > 0))", "CREATE TABLE t (a INT)"),
    ("CREATE TEMPORARY TABLE t (a INT)", "CREATE TABLE t (a INT)"), ("CREATE EXTERNAL TABLE t (a INT)", "CREATE TABLE t (a INT)"),
    ("CREATE TABLE t (a INT) PARTITION BY HASH (a)", "CREATE TABLE t (a INT)"), ("CREATE TABLE t (a INT) CLUSTERED BY (a) INTO 4 BUCKETS", "CREATE TABLE t (a INT)"),
    ("SELECT a FROM t EXCEPT ALL SELECT b FROM u", "SELECT a FROM t EXCEPT SELECT b FROM u"), ("SELECT a FROM t INTERSECT ALL SELECT b FROM u", "SELECT a FROM t INTERSECT SELECT b FROM u"),
    ("SELECT a FROM t MINUS ALL SELECT b FROM u", "SELECT a FROM t MINUS SELECT b FROM u"), ("SELECT a FROM t UNION DISTINCT SELECT b FROM u", "SELECT a FROM t UNION SELECT b FROM u"),
    ("SELECT a FROM t UNION ALL SELECT b FROM u", "SELECT a FROM t UNION SELECT b FROM u"),
    ("SELECT CASE WHEN a THEN 1 ELSE NULL END FROM t", "SELECT CASE WHEN a THEN 1 END FROM t"), ("SELECT CASE a WHEN 1 THEN 2 ELSE null END FROM t", "SELECT CASE a WHEN 1 THEN 2 END FROM t"),
    ("SELECT CASE WHEN a THEN 1 ELSE (NULL) END FROM t", "SELECT CASE WHEN a THEN 1 END FROM t"),
    ("SELECT a FROM t LIMIT 5 OFFSET 0", "SELECT a FROM t LIMIT 5"), ("SELECT a FROM t LIMIT 0, 5", "SELECT a FROM t LIMIT 5"),
    ("SELECT a FROM t FOR UPDATE", "SELECT a FROM t"), ("SELECT a FROM t WINDOW w AS (ORDER BY a)", "SELECT a FROM t"), ("SELECT a FROM t LOCK IN SHARE MODE", "SELECT a FROM t"),
    ("SELECT a FROM t TABLESAMPLE (10 PERCENT)", "SELECT a FROM t"), ("SELECT a FROM t x1 USE INDEX (i1)", "SELECT a FROM t x1"), ("SELECT a FROM t x1 FORCE INDEX (i1) WHERE a = 1", "SELECT a FROM t x1 WHERE a = 1"),
    ("SELECT a FROM t GROUP BY a WITH ROLLUP", "SELECT a FROM t GROUP BY a"), ("SELECT a FROM t ORDER BY a NULLS LAST", "SELECT a FROM t ORDER BY a"), ("SELECT a FROM t ORDER BY a DESC", "SELECT a FROM t ORDER BY a"),
    ("SELECT sum(a) OVER (PARTITION BY b RANGE BETWEEN 1 PRECEDING AND CURRENT ROW) FROM t", "SELECT sum(a) OVER (PARTITION BY b) FROM t"),
    ("SELECT sum(a) OVER (PARTITION BY b ROWS BETWEEN 1 PRECEDING AND CURRENT ROW) FROM t", "SELECT sum(a) OVER (PARTITION BY b) FROM t"),
    ("SELECT sum(a) FILTER (WHERE a > 1) FROM t", "SELECT sum(a) FROM t"), ("SELECT count(DISTINCT a) FROM t", "SELECT count(a) FROM t"), ("SELECT ALL a FROM t", "SELECT a FROM t"),
    ("INSERT INTO t VALUES (1) ON DUPLICATE KEY UPDATE a = 1", "INSERT INTO t VALUES (1)"), ("INSERT INTO t (a) VALUES (1), (2)", "INSERT INTO t (a) VALUES (1)"),
    ("INSERT OVERWRITE TABLE t PARTITION (dt = '1') IF NOT EXISTS SELECT a FROM u", "INSERT OVERWRITE TABLE t PARTITION (dt = '1') SELECT a FROM u"),
    ("DELETE FROM t WHERE a = 1 LIMIT 3", "DELETE FROM t WHERE a = 1"), ("UPDATE t SET a = 1 ORDER BY b", "UPDATE t SET a = 1"), ("UPDATE LOW_PRIORITY t SET a = 1", "UPDATE t SET a = 1"),
    ("DELETE QUICK FROM t WHERE a = 1", "DELETE FROM t WHERE a = 1"), ("DROP TABLE IF EXISTS t", "DROP TABLE t"), ("DROP TABLE t CASCADE", "DROP TABLE t"), ("TRUNCATE TABLE t PARTITION (dt = '1')", "TRUNCATE TABLE t"),
    ("ANALYZE TABLE t COMPUTE STATISTICS NOSCAN", "ANALYZE TABLE t COMPUTE STATISTICS"), ("MSCK REPAIR TABLE t SYNC PARTITIONS", "MSCK REPAIR TABLE t"), ("SHOW TABLES LIKE 'x%'", "SHOW TABLES"),
    ("SELECT a FROM t1 JOIN t2 ON t1.a = t2.a AND t1.b = t2.b", "SELECT a FROM t1 JOIN t2 ON t1.a = t2.a"), ("SELECT a FROM t1 LEFT OUTER JOIN t2 ON 1 = 1", "SELECT a FROM t1 LEFT JOIN t2 ON 1 = 1"),
    ("SELECT CAST(a AS DECIMAL(10, 2)) FROM t", "SELECT CAST(a AS DECIMAL) FROM t"), ("SELECT CAST(a AS UNSIGNED INT) FROM t", "SELECT CAST(a AS INT) FROM t"), ("SELECT CAST(a AS SIGNED INT) FROM t", "SELECT CAST(a AS INT) FROM t"),
    ("SELECT a COLLATE utf8_bin FROM t", "SELECT a FROM t"), ("SELECT INTERVAL 1 DAY + a FROM t", "SELECT 1 + a FROM t"), ("SELECT a FROM t WHERE b LIKE 'x' ESCAPE '|'", "SELECT a FROM t WHERE b LIKE 'x'"),
    ("WITH RECURSIVE w AS (SELECT 1) SELECT 1 FROM w", "WITH w AS (SELECT 1) SELECT 1 FROM w"), ("SELECT a FROM t1 CROSS JOIN t2", "SELECT a FROM t1 JOIN t2"),
]


def bracket_item(ws, rng):
    """put one comment in front of a list separator and another behind the item that follows it: if the lexer let the first comment run on to the
    end of the second, `, item` would vanish and the rest would still be a statement"""
    depth, cands = 0, []
    for i, w in enumerate(ws):
        if w == "(":
            depth += 1
        elif w == ")":
            depth -= 1
        elif w == ",":
            d2 = depth
            for j in range(i + 1, len(ws)):
                if ws[j] == "(":
                    d2 += 1
                elif ws[j] == ")":
                    d2 -= 1
                    if d2 < depth:
                        cands.append((i, j))
                        break
                elif d2 == depth and (ws[j] == "," or ws[j].upper() in ("FROM", "WHERE", "VALUES")):
                    cands.append((i, j))
                    break
    if not cands:
        return None
    i, j = rng.choice(cands)
    first = rng.choice(["/*c**/", "/**c**/", "/***c**/", "/*c*/", "/**/", "/*c\n**/"])
    out = ws[:i] + [first + ws[i]] + ws[i + 1:j] + ["/*d*/" + ws[j]] + ws[j + 1:]
    return " ".join(out)


def rename(text):
    """replace every identifier / literal by a unique marker; returns (new text, markers)"""
    ws = TOK.findall(text)
    out, marks = [], []
    for i, w in enumerate(ws):
        prev = ws[i - 1].upper() if i else ""
        if re.match(r"^[A-Za-z_]\w*$", w) and w.upper() not in WORDS:
            m = "zq%dx" % len(marks)
            marks.append(m)
            out.append(m)
        elif re.match(r"^'.*'$", w, flags=re.S) and prev not in ("BY",):
            m = "zq%ds" % len(marks)
            marks.append(m)
            out.append("'" + m + "'")
        elif re.match(r"^\d+$", w) and prev not in ("(", ",", "LIMIT", "OFFSET", "=") and (i + 1 >= len(ws) or ws[i + 1] != ")"):
            m = str(900000 + len(marks))
            marks.append(m)
            out.append(m)
        else:
            out.append(w)
    return " ".join(out), marks


def atoms(v, acc):
    if isinstance(v, dict):
        for k, x in v.items():
            if k != "_":
                atoms(x, acc)
    elif isinstance(v, (tuple, list)):
        for x in v:
            atoms(x, acc)
    elif isinstance(v, (str, int)) and not isinstance(v, bool):
        acc.append(str(v))


def run(run):
    proofs_ok = core.proof_stage(run, "Props/C08.v")
    tier_q = run.tier == "quick"
    g = stgen.G(run.rng)
    fails, dis = [], []
    # (a) unique renaming
    cases = []
    n_st = 400 if tier_q else 20000
    for i in range(n_st + n_st // 6):
        t, tree = g.statement() if i < n_st else g.paren_case()
        hive_only = any(tree.get(k) for k in ("stored_as_textfile", "location", "row_format_serde", "row_format_delimited_fields_terminated_by")) if tree["_"] == "ASTCreateTableStatement" else False
        mysql_only = tree["_"] == "ASTCreateTableStatement" and (any(tree.get(k) for k in ("engine", "auto_increment", "default_charset", "collate", "row_format", "states_persistent", "primary_key", "unique_key", "key", "foreign_key"))
                                                                  or any(any(c.get(a) for a in ("is_unsigned", "is_zerofill", "character_set", "collate", "is_allow_null", "is_not_null", "is_auto_increment", "default", "on_update")) for c in tree["columns"])
                                                                  or any(c["column_type"]["params"] and c["column_type"]["name"] not in ("DECIMAL", "VARCHAR") for c in tree["columns"]))
        if hive_only and mysql_only:
            continue                                         # no single dialect prints all of it (K-DIALECT-OMIT)
        d = "HIVE" if (hive_only or g.hive) else "MYSQL"
        if tree["_"] == "ASTAlterTableStatement" and d != "MYSQL":
            d = "MYSQL"
        t2, marks = rename(t)
        if run.rng.random() < 0.25:
            t3 = bracket_item(t2.split(" "), run.rng)
            if t3:
                t2 = t3
        elif run.rng.random() < 0.3:
            # comments (written without blanks) in place of some separators: nothing next to a comment may vanish
            ws = t2.split(" ")
            t2 = ws[0]
            for w in ws[1:]:
                t2 += (run.rng.choice(COMMENT_SEPS) if run.rng.random() < 0.25 else " ") + w
        cases.append((d, t2, marks))
    reqs = [sqlgen.parse_request("statements", d, t) for d, t, _ in cases]
    preqs = [stmt.print_request("statements", d, d, t) for d, t, _ in cases]
    im = core.run_impl(reqs + preqs)
    mo = core.run_model(reqs + preqs)
    dis += stmt.tie(run, "PARSE/PRINT renamed", reqs + preqs, mo, im, [c[1] for c in cases] * 2)
    judged = 0
    for (d, t, marks), a, pr, rq in zip(cases, im[:len(cases)], im[len(cases):], reqs):
        if not a.startswith("OK ["):
            continue
        judged += 1
        acc = []
        atoms(stgen.parse_dump(a[3:]), acc)
        blob = "\x00".join(acc)
        missing = [m for m in marks if m not in blob]
        v = None
        if missing:
            v = "accepted, but %s of the input is not represented in the tree" % missing[:4]
        elif pr.startswith("OK ") and "ERR:" not in pr:
            printed = " ".join(stmt.dec(o) for o in pr[3:].split("|"))
            wrong = [m for m in marks if len(re.findall(r"(?<![\w])" + re.escape(m) + r"(?![\w])", printed)) != 1]
            if wrong:
                v = "printed in %s, %s does not appear exactly once: %r" % (d, wrong[:4], printed[:300])
        if v:
            fails.append({"kind": "input", "stream": "unique renaming", "text": t, "dialect": d, "markers": marks, "request": rq, "oracle_verdict": v})
    run.add_stream("unique renaming", 2 * len(cases), judged, [{"dialect": c[0], "text": c[1][:200]} for c in cases[:: max(1, len(cases) // 3)][:3]])
    # (b) stray tokens
    sreqs, smeta = [], []
    for ci, (d, t, marks) in enumerate(cases[: (120 if tier_q else 8000)] + cases[n_st:][: (60 if tier_q else 3000)]):
        ws = t.split(" ")
        after_close = [i + 1 for i, w in enumerate(ws) if w == ")"]
        chosen = run.rng.sample(range(len(ws) + 1), min(len(ws) + 1, 3 if tier_q else 8)) + run.rng.sample(after_close, min(len(after_close), 2 if tier_q else 4))
        if ci >= (120 if tier_q else 8000):
            chosen += after_close[-3:]              # bracketed SELECTs: between and behind the closing brackets
        for pos in chosen:
            stray = run.rng.choice(["zq9", "'zq9'", "979797", "`zq9`"])
            t2 = " ".join(ws[:pos] + [stray] + ws[pos:])
            sreqs.append(sqlgen.parse_request("statements", d, t2))
            smeta.append((d, t, t2, stray.strip("'`")))
        if t.lstrip().upper().startswith(("CREATE TABLE", "ALTER TABLE")):
            # option-shaped strays (NAME = VALUE, NAME VALUE) behind the column list and at the end: an unknown option must not be skipped
            ends = sorted(set([len(ws)] + after_close[-1:]))
            for pos in ends:
                for stray in ("zq9 = 979797", "zq9='zq9'", "zq9 zq9", "ZQ9=1"):
                    t2 = " ".join(ws[:pos] + [stray] + ws[pos:])
                    sreqs.append(sqlgen.parse_request("statements", d, t2))
                    smeta.append((d, t, t2, "zq9" if "zq9" in stray else "ZQ9"))
    for d, t in (("MYSQL", "CREATE TABLE t (a INT, b VARCHAR(10)) ENGINE=InnoDB"), ("MYSQL", "CREATE TABLE t (a INT) COMMENT='c' ENGINE=InnoDB DEFAULT CHARSET=utf8"),
                 ("HIVE", "CREATE TABLE h (a STRING) PARTITIONED BY (dt STRING) STORED AS TEXTFILE"), ("MYSQL", "CREATE TABLE t (a INT)"),
                 ("MYSQL", "CREATE TABLE t (a INT NOT NULL, PRIMARY KEY (a)) AUTO_INCREMENT=3 ROW_FORMAT=DYNAMIC")):
        ws = t.split(" ")
        for pos in sorted({len(ws), ws.index([w for w in ws if w.endswith(")")][-1]) + 1 if any(w.endswith(")") for w in ws) else len(ws)}):
            for stray in ("zq9 = 979797", "zq9='zq9'", "zq9 zq9", "ZQ9=1", "AVG_ROW_LENGTH=979797", "CHECKSUM=979797"):
                t2 = " ".join(ws[:pos] + [stray] + ws[pos:])
                sreqs.append(sqlgen.parse_request("statements", d, t2))
                smeta.append((d, t, t2, "zq9" if "zq9" in stray else ("ZQ9" if "ZQ9" in stray else "979797")))
    # a stray word in a slot that is read with a bare pop (the save mode of a generated column, ...)
    for d, t2 in (("MYSQL", "CREATE TABLE t (d INT GENERATED ALWAYS AS (a) zq9 NULL)"), ("MYSQL", "ALTER TABLE t ADD d INT GENERATED ALWAYS AS (a + 1) zq9 NOT NULL"),
                  ("MYSQL", "CREATE TABLE t (d INT GENERATED ALWAYS AS (a) 979797 COMMENT 'c')"), ("HIVE", "SELECT a FROM t LATERAL VIEW explode(x) zq9 lv AS e"),
                  ("MYSQL", "CREATE TABLE t (a INT, CONSTRAINT c1 FOREIGN KEY (a) REFERENCES o zq9 (id))"), ("MYSQL", "SET a = b zq9")):
        sreqs.append(sqlgen.parse_request("statements", d, t2))
        smeta.append((d, t2.replace(" zq9", "").replace(" 979797", ""), t2, "zq9" if "zq9" in t2 else "979797"))
    # keyword-shaped strays: a noise word the grammar knows elsewhere, in front of something it does not belong to
    for d, t2, key in (("MYSQL", "CREATE TABLE t (a INT) DEFAULT ENGINE=InnoDB", "DEFAULT"), ("MYSQL", "CREATE TABLE t (a INT) ENGINE=InnoDB DEFAULT COMMENT='x'", "DEFAULT"),
                       ("MYSQL", "CREATE TABLE t (a INT) DEFAULT AUTO_INCREMENT=3", "DEFAULT"), ("MYSQL", "SELECT a FROM t AS AS x", "AS"),
                       ("MYSQL", "INSERT INTO TABLE TABLE t VALUES (1)", "TABLE"), ("MYSQL", "SELECT a FROM t ORDER BY a ASC ASC", "ASC"),
                       ("HIVE", "SELECT a FROM t LATERAL VIEW OUTER OUTER explode(x) lv AS e", "OUTER"), ("MYSQL", "SELECT DISTINCT DISTINCT a FROM t", "DISTINCT")):
        sreqs.append(sqlgen.parse_request("statements", d, t2))
        smeta.append((d, t2, t2, key))
    sim = core.run_impl(sreqs)
    smo = core.run_model(sreqs)
    dis += stmt.tie(run, "PARSE stray", sreqs, smo, sim, [m[2] for m in smeta])
    n_acc = 0
    for (d, t, t2, key), a, rq in zip(smeta, sim, sreqs):
        if a.startswith("OK ["):
            acc = []
            atoms(stgen.parse_dump(a[3:]), acc)
            if not any(key in x for x in acc):
                fails.append({"kind": "input", "stream": "stray token", "text": t2, "original": t, "dialect": d, "request": rq,
                              "oracle_verdict": "a stray token %r is accepted and leaves no trace in the tree" % key})
            n_acc += 1
    run.add_stream("stray tokens", len(sreqs), len(set(m[2] for m in smeta)), [{"text": smeta[0][2][:200]}] if smeta else [], extra={"accepted_with_trace": n_acc})
    # (c) extra clauses: accepted => visible in the tree
    ereqs = []
    for a_, b_ in EXTRA_PAIRS:
        for d in ("MYSQL", "HIVE"):
            ereqs += [sqlgen.parse_request("statements", d, a_), sqlgen.parse_request("statements", d, b_)]
    eim = core.run_impl(ereqs)
    emo = core.run_model(ereqs)
    dis += stmt.tie(run, "PARSE extra clauses", ereqs, emo, eim, [x for p_ in EXTRA_PAIRS for _ in (0, 1) for x in p_])
    n_acc = 0
    for k in range(0, len(ereqs), 2):
        xa, xb = eim[k], eim[k + 1]
        pa = EXTRA_PAIRS[(k // 2) // 2]
        if xa.startswith("OK ["):
            n_acc += 1
            if xa == xb:
                fails.append({"kind": "input", "stream": "extra clauses", "text": pa[0], "without": pa[1], "dialect": ereqs[k].split()[3], "request": ereqs[k],
                              "oracle_verdict": "the text is accepted and parses to the same tree as the text without the extra part: %r vs %r" % (pa[0], pa[1])})
    run.add_stream("extra clauses (accepted => visible in the tree)", len(ereqs), n_acc, [{"with": EXTRA_PAIRS[0][0], "without": EXTRA_PAIRS[0][1]}], extra={"pairs": len(EXTRA_PAIRS)})
    run.cov["rule"] = ("statements of harness/stgen.py with every identifier / literal renamed to a unique marker: marker in tree, exactly once in the text printed in the "
                       "statement's own dialect; a fresh name / string / number / quoted name inserted at sampled token boundaries: error or a tree containing it; models run on the same texts")
    stmt.conclude(run, proofs_ok, dis, fails, "Props/C08.v", "unique-renaming and stray-token oracles on the implementation")


def replay(path):
    def chk(obj):
        a = core.run_impl([obj["request"]])[0]
        if not a.startswith("OK ["):
            return None
        acc = []
        atoms(stgen.parse_dump(a[3:]), acc)
        if obj.get("stream") == "stray token":
            return None if any("zq9" in x.lower() or "979797" in x for x in acc) else "stray token accepted without trace"
        blob = "\x00".join(acc)
        missing = [m for m in obj.get("markers", []) if m not in blob]
        return ("not represented: %s" % missing[:4]) if missing else None
    return stmt.replay_generic(path, chk)
