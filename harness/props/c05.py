"""C05 -- token boundaries and classes agree with the SQL token grammar.
proof : Props/C05.v  (lex = spec_lex outside the certified list of deviating product cells, all 8 flag settings)
tie   : regenerated tables + LEX correspondence;  oracle = the extracted specification lexer (SPEC request) judging
        the implementation's answers; region classifier = extracted classify_input (first deviating cell met)."""
import json

from .. import core, lexh

PROP = "C05"
FAMILY = {1: "K-WORDTERM", 2: "K-ZEROX", 3: "K-FLOATTERM"}


def spec_request(cps, mb, flags):
    return "SPEC %d %d %s" % (1 if mb else 0, flags, " ".join(map(str, cps)))


def judge(run, name, ins, flags):
    """model / implementation / specification on the same inputs. returns (disagreements, spec_failures, region_counts)"""
    lreq = [lexh.lex_request(s, False, flags) for s in ins]
    sreq = [spec_request(s, False, flags) for s in ins]
    creq = ["CLASSIFY %d %s" % (flags, " ".join(map(str, s))) for s in ins]
    mo = core.run_model(lreq + sreq + creq)
    n = len(ins)
    m_lex, m_spec, m_cls = mo[:n], mo[n:2 * n], mo[2 * n:]
    im = core.run_impl(lreq, flags=flags)
    dis, fails = [], []
    regions = {}
    nontriv = 0
    seen = set()
    for s, rq, a, b, sp, cl in zip(ins, lreq, m_lex, im, m_spec, m_cls):
        key = tuple(s)
        if key not in seen:
            seen.add(key)
            st, tr = lexh.parse_answer(b)
            if st == "OK" and len(tr) >= 2:
                nontriv += 1
        if a != b:
            dis.append({"kind": "input", "stream": name, "request": rq, "text": lexh.show(s), "mybatis": False, "flags": flags,
                        "model": a, "observed": b})
        try:
            fam = int(cl)
        except ValueError:
            fam = -1
        regions[fam] = regions.get(fam, 0) + 1
        if b != sp:
            rec = {"kind": "input", "stream": name, "request": rq, "text": lexh.show(s), "mybatis": False, "flags": flags,
                   "observed": b, "expected": sp, "region": fam,
                   "oracle_verdict": "implementation differs from the specification lexer"}
            fails.append(rec)
    samples = [{"stream": name, "flags": flags, "input": lexh.show(s), "implementation": b[:120], "specification": sp[:120],
                "region": cl} for s, b, sp, cl in list(zip(ins, im, m_spec, m_cls))[:: max(1, n // 3)][:3]]
    run.add_stream(name, n, nontriv, samples, extra={"region_counts": {str(k): v for k, v in regions.items()}})
    return dis, fails


def spec_oracle_single(cps, flags):
    rq = lexh.lex_request(cps, False, flags)
    b = core.run_impl([rq], flags=flags)[0]
    sp, cl = core.run_model([spec_request(cps, False, flags), "CLASSIFY %d %s" % (flags, " ".join(map(str, cps)))])
    return b, sp, int(cl) if cl.lstrip("-").isdigit() else -1


def run(run):
    proofs_ok = core.proof_stage(run, "Props/C05.v")
    info = lexh.load_info()
    tier_q = run.tier == "quick"
    flags_list = [7, 0] if tier_q else list(range(8))
    kfs = {k["id"]: k for k in core.known_findings(PROP)}
    all_dis, new_fails = [], []
    for flags in flags_list:
        ins = lexh.load_corpus(PROP) + lexh.gen_exhaustive(info, 2 if (tier_q or flags not in (7, 0)) else 3)
        ins += lexh.gen_random(info, run.rng, 2500 if tier_q else 60000)
        ins += lexh.gen_wellformed(run.rng, 1500 if tier_q else 45000)
        dis, fails = judge(run, "LEX+SPEC base flags=%d" % flags, ins, flags)
        all_dis += dis
        for f in fails:
            fam = FAMILY.get(f["region"])
            if fam and kfs.get(fam, {}).get("status") == "open":
                continue            # explained by a recorded finding (reported once below, from its witness)
            new_fails.append(f)
    run.cov["rule"] = ("inputs: saved corpus; all strings over one representative per generated class up to length 2 (3 for flags 7 and 0 "
                       "in the thorough tier); random class / fragment soups; random concatenations of well-formed tokens with "
                       "arbitrary separators.  Each input is lexed by the implementation, by the extracted model (tie) and by the "
                       "extracted specification lexer (oracle); region = family of the first deviating product cell met (0 = none). "
                       "distinct_nontrivial = distinct inputs on which the implementation returns >= 2 top-level tokens.")
    # replay recorded findings
    for k in kfs.values():
        if k.get("status") != "open":
            continue
        w = k["witness"]
        b, sp, cl = spec_oracle_single([ord(c) for c in w["text"]], w.get("flags", 7))
        if b != sp:
            run.known("%s: %s (witness %r: implementation %s, specification %s)" % (k["id"], k["description"], w["text"], b[:60], sp[:60]))
    if new_fails:
        f = new_fails[0]

        def still(c):
            b, sp, cl = spec_oracle_single(c, f["flags"])
            return b != sp and not (FAMILY.get(cl) in kfs and kfs[FAMILY.get(cl)].get("status") == "open")
        small = lexh.shrink_text([ord(c) for c in f["text"]], still, budget=60)
        b, sp, cl = spec_oracle_single(small, f["flags"])
        rep = dict(f)
        rep.update({"text": lexh.show(small), "request": lexh.lex_request(small, False, f["flags"]), "observed": b, "expected": sp,
                    "region": cl, "oracle": "extracted Lex.Spec.spec_lex", "shrunk_from": f["text"], "broken": run.broken,
                    "other_failing_inputs": [x["text"] for x in new_fails[1:6]]})
        run.violation(rep)
        return
    if proofs_ok and not all_dis:
        return
    if all_dis:
        run.broken.append({"kind": "correspondence", "count": len(all_dis),
                           "first": {k: all_dis[0][k] for k in ("text", "flags", "model", "observed")}})
    # search: shortest paths to unknown deviating cells (by-product of the certificate construction), then random
    found = None
    for flags in list(range(8)):
        line = core.run_model(["DEVS %d" % flags])[0]
        cands = []
        for item in line.split():
            fam, path = item.split(":", 1)
            if fam != "0":
                continue
            cps = [int(x) for x in path.rstrip("$").split(".") if x]
            cands += [cps, cps + [32], cps + [32, 97]]
        for cps in cands[:600]:
            b, sp, cl = spec_oracle_single(cps, flags)
            if b != sp and not (FAMILY.get(cl) in kfs):
                found = {"kind": "input", "stream": "certificate-search", "request": lexh.lex_request(cps, False, flags),
                         "text": lexh.show(cps), "mybatis": False, "flags": flags, "observed": b, "expected": sp, "region": cl,
                         "oracle": "extracted Lex.Spec.spec_lex", "broken": run.broken,
                         "oracle_verdict": "implementation differs from the specification lexer on the shortest input reaching a new deviating cell"}
                break
        if found:
            break
    if not found:
        ins = lexh.gen_random(info, run.rng, run.budget(6000, 60000)) + lexh.gen_wellformed(run.rng, run.budget(4000, 40000))
        dis, fails = judge(run, "search flags=7", ins, 7)
        fails = [f for f in fails if FAMILY.get(f["region"]) not in kfs]
        if fails:
            found = dict(fails[0])
            found.update({"oracle": "extracted Lex.Spec.spec_lex", "broken": run.broken})
    if found:
        run.violation(found)
    else:
        run.violation({"kind": "obligation", "theorem": "Props/C05.v", "broken": run.broken, "oracle": "extracted Lex.Spec.spec_lex",
                       "note": "proof / tie broken; no input found on which implementation and specification lexer differ outside the recorded regions"},
                      no_input=True)


def replay(path):
    obj = json.load(open(path, encoding="utf-8"))
    if obj.get("kind") != "input":
        print("replay: obligation-only replay file; re-run the check")
        return 1
    b, sp, cl = spec_oracle_single([ord(c) for c in obj["text"]], obj.get("flags", 7))
    print("input         :", repr(obj["text"]))
    print("implementation:", b)
    print("specification :", sp)
    print("region        :", cl)
    return 1 if b != sp else 0
