"""C19 -- work grows linearly with input size.
proof : Props/C19.v (handle calls <= 2 per character + 1 for every string; <= 4 memory effects per character; pre-pass not
        longer; one character per iteration; cursor positions non-decreasing along every call history, bounded advance)
tie   : LEXCALLS: the model's handle-call count equals the implementation's count (FSMMachine.handle wrapped from outside)
        on every accepted input; LEX / PARSE ties are those of C04 / C02
oracle: on the implementation, counters wrapped from outside (FSMMachine.handle calls, TokenScanner method calls, element reads,
        elements copied by slices, iterations, cursor moving backwards): handle <= 2*chars+1; cursor work <= 45*tokens+120;
        the cursor never moves backwards; growing any input pattern grows the work by at most the same factor (+ 2% and a constant slack)."""
import json

from .. import core, sqlgen, stmt

PROP = "C19"
FAMILIES = {
    "select items": lambda n: "SELECT " + ", ".join("c%d AS a%d" % (i, i) for i in range(n)) + " FROM t",
    "operator chain": lambda n: "SELECT " + " + ".join("c%d" % i for i in range(n)) + " FROM t",
    "mixed precedence chain": lambda n: "SELECT " + " ".join("c%d %s" % (i, ["*", "+", "|", "-", "<<"][i % 5]) for i in range(n)) + " z FROM t",
    "AND chain": lambda n: "SELECT 1 FROM t WHERE " + " AND ".join("a%d = %d" % (i, i) for i in range(n)),
    "OR of NOTs": lambda n: "SELECT 1 FROM t WHERE " + " OR ".join("NOT a%d IS NULL" % i for i in range(n)),
    "insert rows": lambda n: "INSERT INTO t VALUES " + ", ".join("(%d, 'x')" % i for i in range(n)),
    "statements": lambda n: "; ".join("SELECT a FROM t%d" % i for i in range(n)),
    "nesting": lambda n: "SELECT " + "(" * (n // 4) + "a" + ")" * (n // 4) + " FROM t",
    "sub-query nesting": lambda n: "SELECT a FROM " + "(SELECT a FROM " * (n // 8) + "t" + ") x" * (n // 8),
    "joins": lambda n: "SELECT 1 FROM t " + " ".join("JOIN u%d ON t.a = u%d.a" % (i, i) for i in range(n)),
    "case arms": lambda n: "SELECT CASE " + " ".join("WHEN a = %d THEN %d" % (i, i) for i in range(n)) + " END FROM t",
    "IN list": lambda n: "SELECT 1 FROM t WHERE a IN (" + ", ".join(str(i) for i in range(n)) + ")",
    "function arguments": lambda n: "SELECT f(" + ", ".join("g(%d)" % i for i in range(n)) + ") FROM t",
    "union branches": lambda n: " UNION ALL ".join("SELECT a FROM t%d" % i for i in range(n)),
    "with tables": lambda n: "WITH " + ", ".join("w%d AS (SELECT a FROM t)" % i for i in range(n)) + " SELECT 1",
    "columns of create table": lambda n: "CREATE TABLE t (" + ", ".join("c%d INT(11) NOT NULL COMMENT 'x'" % i for i in range(n)) + ")",
    "long literal and comment": lambda n: "SELECT '" + "x" * (n * 5) + "' /* " + "c " * (n * 2) + "*/ FROM t -- " + "z" * n,
    "nested calls": lambda n: "SELECT " + "f(" * (n // 4) + ", ".join("1" for _ in range(n // 4)) + ")" * (n // 4) + " FROM t",
    "nested windows": lambda n: "SELECT " + "sum(1 + " * (n // 8) + "x" + " OVER (ORDER BY a))" * (n // 8) + " FROM t",
    "rejected: nested tuples": lambda n: "SELECT " + "(" * min(12, n // 8) + "1" + ", 2)" * min(12, n // 8) + " IN (x) FROM t",
    "blanks": lambda n: "SELECT" + " " * (n * 4) + "a" + "\n" * n + "FROM\t\tt",
    "rejected: unterminated bracket at the end": lambda n: "SELECT " + ", ".join("c%d" % i for i in range(n)) + " FROM t WHERE (",
    "rejected: stray token at the end": lambda n: "SELECT " + ", ".join("c%d" % i for i in range(n)) + " FROM t WHERE a = 1 )",
    "rejected: bad last list item": lambda n: "SELECT 1 FROM t WHERE a IN (" + ", ".join(str(i) for i in range(n)) + ", )",
    "rejected: last statement malformed": lambda n: "; ".join("SELECT a FROM t%d" % i for i in range(n)) + "; SELECT FROM",
}


def work(d):
    return d["calls"] + d["reads"] + d["copied"] + d["iter"]


def run(run):
    proofs_ok = core.proof_stage(run, "Props/C19.v")
    tier_q = run.tier == "quick"
    sizes = (16, 32, 64, 128) if tier_q else (16, 32, 64, 128, 256, 512)
    fails, dis = [], []
    reqs, meta = [], []
    for name, f in FAMILIES.items():
        for n in sizes:
            reqs.append("COUNT statements MYSQL " + stmt.cps(f(n)))
            meta.append((name, n, f(n)))
    rnd = []
    for d in stmt.DIALECTS[:3]:
        for s in sqlgen.gen_statements(run.rng, 150 if tier_q else 2500, d):
            rnd.append((d, s))
            for m in sqlgen.mutants(run.rng, s, 1):
                rnd.append((d, m))
    reqs += ["COUNT statements %s %s" % (d, stmt.cps(s)) for d, s in rnd]
    meta += [("random", 0, s) for d, s in rnd]
    im = core.run_impl(reqs, timeout=1800)
    mo = core.run_model(["LEXCALLS 0 7 " + stmt.cps(t) for _, _, t in meta])
    table = {}
    worst = 0.0
    for (name, n, t), a, m, rq in zip(meta, im, mo, reqs):
        if not a.startswith("OK "):
            fails.append({"kind": "input", "stream": name, "text": t[:400], "request": rq, "oracle_verdict": "instrumented run failed: " + a[:200]})
            continue
        d = json.loads(a[3:])
        w = work(d)
        v = None
        if d["handle"] > 2 * d["chars"] + 1:
            v = "lexer handled %d characters with %d handle calls (> 2 per character + 1)" % (d["chars"], d["handle"])
        elif d["back"]:
            v = "the token cursor moved backwards %d times" % d["back"]
        elif d["lex"] == "OK" and w > 45 * d["tokens"] + 120:
            v = "cursor work %d for %d tokens exceeds 45 per token + 120" % (w, d["tokens"])
        elif d["lex"] == "OK" and str(d["handle"]) != m.strip():
            dis.append({"kind": "input", "stream": "LEXCALLS", "request": rq, "text": t[:300], "model": m, "observed": str(d["handle"])})
        if d["lex"] == "OK" and d["tokens"]:
            worst = max(worst, w / d["tokens"])
        if v:
            fails.append({"kind": "input", "stream": name, "text": t[:400], "request": rq, "oracle_verdict": v})
        if n:
            table.setdefault(name, {})[n] = (d["handle"], w, d["chars"], d["tokens"], d.get("pycalls", 0))
    # doubling: work(2n) <= 2*work(n) + slack, for lexer and cursor work alike
    for name, row in table.items():
        ns = sorted(row)
        for a, b in zip(ns, ns[1:]):
            ha, wa, ca, ta, pa = row[a]
            hb, wb, cb, tb, pb = row[b]
            # the input grew by cb/ca characters and tb/ta tokens (numbered names get longer): the work may grow by the same factor
            if hb > ha * (cb / ca) * 1.02 + 40 or (ta and wb > wa * (tb / ta) * 1.02 + 150):
                fails.append({"kind": "input", "stream": name, "text": FAMILIES[name](b)[:400], "request": "COUNT statements MYSQL " + stmt.cps(FAMILIES[name](b)),
                              "family": name, "n": b,
                              "oracle_verdict": "doubling the pattern %r from %d to %d more than doubles the work: handle %d -> %d, cursor work %d -> %d" % (name, a, b, ha, hb, wa, wb)})
            elif pa and pb > pa * max(cb / ca, (tb / ta) if ta else 1.0) * 1.05 + 400:
                fails.append({"kind": "input", "stream": name, "text": FAMILIES[name](b)[:400], "request": "COUNT statements MYSQL " + stmt.cps(FAMILIES[name](b)),
                              "family": name, "n": b,
                              "oracle_verdict": "growing the pattern %r from %d to %d (%.2fx the characters, %.2fx the tokens) makes the library execute %.2fx the function calls (%d -> %d)"
                                                % (name, a, b, cb / ca, (tb / ta) if ta else 0, pb / pa, pa, pb)})
    run.add_stream("scaled families", len(FAMILIES) * len(sizes), len(FAMILIES) * len(sizes),
                   [{"family": k, "sizes": list(sizes), "handle_calls": [table[k][n][0] for n in sizes if n in table[k]],
                     "cursor_work": [table[k][n][1] for n in sizes if n in table.get(k, {})]} for k in list(table)[:4]],
                   extra={"families": list(FAMILIES), "worst_cursor_work_per_token": round(worst, 1)})
    run.add_stream("random statements and mutants", len(rnd), len(set(s for _, s in rnd)), [])
    # text-level pre-passes (dialect shims, preproc_sql) run inside single library / builtin calls that no call counter sees: blank, comment and keyword runs
    # next to the words the shims look for, each in its own process with a hard limit (they take milliseconds; the limit only separates "finishes" from "does not")
    PRE = {"CURRENT then blanks then ROW": "SELECT sum(a) OVER (ORDER BY b ROWS BETWEEN 1 PRECEDING AND CURRENT" + " " * 70 + "ROW) FROM t",
           "CURRENT then line break and indentation": "SELECT CURRENT\n" + " " * 64 + "\n" + "\t" * 16 + "x FROM t",
           "CURRENT then comments": "SELECT CURRENT " + "/* c */ " * 40 + "z FROM t",
           "CURRENT words": "SELECT " + ", ".join(["CURRENT  DATE", "CURRENT   TIME", "CURRENT"] * 30) + " FROM t",
           "equal signs": "SELECT 1 FROM t WHERE a " + "= " * 70 + "1",
           "quotes then ==": "SELECT " + ", ".join(["'a''b'", "\"x\"", "`y`"] * 30) + " FROM t WHERE a == 1 -- it's" + " '" * 41,
           "CR runs": "SELECT a" + "\r" * 80 + "\n" + "\t" * 80 + "FROM" + "\u3000" * 80 + "t"}
    code = ("import sys\nfrom metasequoia_sql import SQLParser, SQLType\nfor d in sys.argv[1].split(','):\n  for t in sys.argv[2:]:\n    try:\n      SQLParser.parse_statements(t, sql_type=SQLType[d])\n"
            "    except RecursionError:\n      print('RECURSION')\n    except Exception:\n      pass\nprint('DONE')")
    rc, out = core.sh([core.PY, "-c", code, "DB2,HIVE,DEFAULT,MYSQL"] + list(PRE.values()), env=core.impl_env(), timeout=60)
    if "DONE" not in out:
        for d in ("DB2", "HIVE", "DEFAULT"):
            for name, t in PRE.items():
                rc1, out1 = core.sh([core.PY, "-c", code, d, t], env=core.impl_env(), timeout=20)
                if "DONE" not in out1:
                    fails.append({"kind": "input", "stream": "pre-pass cost", "text": t, "dialect": d, "family": name, "request": "PRETIME %s %s" % (d, stmt.cps(t)),
                                  "oracle_verdict": "parse_statements(%s) of a %d-character text (%s) does not finish within 20 s" % (d, len(t), name)})
    run.add_stream("pre-pass cost", 4 * len(PRE), len(PRE), [{"family": k, "chars": len(v)} for k, v in list(PRE.items())[:3]])
    run.cov["rule"] = ("25 input patterns (lists, operator chains, rows, statements, nesting, joins, arms, DDL columns, long literals / comments / blanks, and near-miss "
                       "inputs that fail at the last token) at sizes n, 2n, 4n, ...; plus random statements and malformed mutants; counters are wrapped around "
                       "FSMMachine.handle and every TokenScanner method from outside, the token list is a counting list subclass, every Python-level call inside the library is counted by a profile hook; wall time is not asserted")
    if (dis or not proofs_ok) and not fails:
        # search phase only (a proof or tie no longer checks): wall-clock ratios on scaled families, 3 of 3 repetitions
        for name in ("blanks", "long literal and comment", "select items", "joins", "statements", "nesting"):
            f = FAMILIES[name]
            a, b = f(2000), f(16000)
            if name == "nesting":
                a, b = f(60), f(120)
            rc, out = core.sh([core.PY, "-c", "import sys,time\nfrom metasequoia_sql import SQLParser\nr=[]\nfor t in (sys.argv[1], sys.argv[2]):\n    best=9e9\n    for _ in range(3):\n        t0=time.perf_counter()\n        try:\n            SQLParser.parse_statements(t)\n        except Exception:\n            pass\n        best=min(best,time.perf_counter()-t0)\n    r.append(best)\nprint(r[0], r[1])", a, b],
                              env=core.impl_env(), timeout=600)
            try:
                ta, tb = [float(x) for x in out.strip().splitlines()[-1].split()]
            except (ValueError, IndexError):
                continue
            grow = len(b) / len(a)
            if tb > ta * grow * 2.5 + 0.05:
                fails.append({"kind": "input", "stream": "timing (search phase)", "text": b[:300] + " ...", "family": name, "n": 16000, "request": "COUNT statements MYSQL " + stmt.cps(b[:50]),
                              "oracle_verdict": "input pattern %r grown %.1fx costs %.1fx the time (%.3fs -> %.3fs, best of 3)" % (name, grow, tb / max(ta, 1e-9), ta, tb)})
                break
    stmt.conclude(run, proofs_ok, dis, fails, "Props/C19.v", "step counters on the implementation (handle calls, cursor calls / reads / copies, direction)")


def replay(path):
    def chk(obj):
        if obj.get("stream") == "pre-pass cost":
            code = ("import sys\nfrom metasequoia_sql import SQLParser, SQLType\ntry:\n  SQLParser.parse_statements(sys.argv[2], sql_type=SQLType[sys.argv[1]])\nexcept Exception:\n  pass\nprint('DONE')")
            rc, out = core.sh([core.PY, "-c", code, obj["dialect"], obj["text"]], env=core.impl_env(), timeout=20)
            return None if "DONE" in out else "does not finish within 20 s"
        a = core.run_impl([obj["request"]])[0]
        if not a.startswith("OK "):
            return a[:200]
        d = json.loads(a[3:])
        if d["handle"] > 2 * d["chars"] + 1:
            return "handle calls %d for %d characters" % (d["handle"], d["chars"])
        if d["back"]:
            return "cursor moved backwards"
        if d["lex"] == "OK" and work(d) > 45 * d["tokens"] + 120:
            return "cursor work %d for %d tokens" % (work(d), d["tokens"])
        if "family" in obj:
            n = obj["n"]
            a2 = core.run_impl(["COUNT statements MYSQL " + stmt.cps(FAMILIES[obj["family"]](n // 2))])[0]
            d2 = json.loads(a2[3:])
            if d["handle"] > d2["handle"] * (d["chars"] / d2["chars"]) * 1.02 + 40 or (d2["tokens"] and work(d) > work(d2) * (d["tokens"] / d2["tokens"]) * 1.02 + 150):
                return "doubling more than doubles the work"
        return None
    return stmt.replay_generic(path, chk)
