"""C18 -- MySQL-to-Hive table conversion preserves the schema.
proof : Props/C18.v (type table total + range on the regenerated tables, change_type maps, Hive parameter rule on the
        printer model for every catalogued type, helper frame / kind laws for all helper histories)
tie   : HELPERS correspondence (extracted parser + helper + printer models vs the implementation) on the same requests
oracle: on the implementation: schema projection (name, columns with type / parameters / comment, partition columns, table
        comment) of helper-edited tree == independently computed edit of the original projection; projection after
        print-for-Hive + re-parse == expected Hive projection (mapped types, parameters only for DECIMAL/VARCHAR/CHAR)."""
import copy
import json
import os

from .. import core, sqlgen, stmt

PROP = "C18"
HIVE_PARAM_TYPES = {"DECIMAL", "VARCHAR", "CHAR"}
NEWCOLS = ["etl_time DATETIME COMMENT 'load time'", "dt VARCHAR(10)", "n2 DECIMAL(12,4) NOT NULL", "`flag` TINYINT(1) DEFAULT 0 COMMENT 'f'"]


def tables():
    """(MYSQL_DATA_TYPE, HASHMAP_MYSQL_TO_HIVE) as the implementation ships them"""
    rc, out = core.sh([core.PY, "-c", "import json;from metasequoia_sql.common.static import MYSQL_DATA_TYPE as a, HASHMAP_MYSQL_TO_HIVE as b;print(json.dumps([a,b]))"],
                      env=core.impl_env())
    a, b = json.loads(out.strip().splitlines()[-1])
    return a, b


def w(s):
    return ".".join(str(ord(c)) for c in s) if s else "-"


def gen_ddl(rng, mysql_types):
    """a MySQL CREATE TABLE over catalogued types"""
    cols = []
    n = rng.randint(1, 5)
    names = rng.sample(["id", "name", "`user id`", "c1", "amount", "created_at", "`desc`", "k", "v2", "名"], n)
    for nm in names:
        ty = rng.choice(sorted(mysql_types))
        lo, hi = mysql_types[ty]
        k = rng.randint(lo, min(hi, 2))
        if ty in ("ENUM", "SET"):
            params = ["'a'", "'b'", "'c'"][:max(1, k)]
        else:
            params = [str(rng.choice([1, 2, 10, 11, 20, 255]))] + ([str(rng.choice([0, 2, 4]))] if k > 1 else [])
            params = params[:k]
        s = nm + " " + (ty if rng.random() < 0.8 else ty.lower()) + ("(" + ",".join(params) + ")" if params else "")
        if rng.random() < 0.3:
            s += " NOT NULL"
        if rng.random() < 0.2:
            s += " DEFAULT NULL"
        if rng.random() < 0.5:
            s += " COMMENT " + rng.choice(["'c'", "'it''s'", "'主键'", "'a,b (c)'", "''", '"customer\'s nick"', '"two \'\' quotes"', "'back\\\\slash'", '"dq"'])
        cols.append(s)
    items = list(cols)
    if rng.random() < 0.4:
        items.append("PRIMARY KEY (" + names[0] + ")")
    if rng.random() < 0.2:
        items.append("KEY idx1 (" + names[-1] + ")")
    s = "CREATE TABLE " + ("IF NOT EXISTS " if rng.random() < 0.2 else "") + rng.choice(["t", "db.t1", "`s`.`u`", "`order`"]) + " (" + ", ".join(items) + ")"
    for o in rng.sample(["ENGINE=InnoDB", "DEFAULT CHARSET=utf8mb4", "COMMENT='tbl'", "COMMENT 'the table'", "COMMENT=''", 'COMMENT="owner\'s table"', "AUTO_INCREMENT=7",
                         "PARTITIONED BY (dt VARCHAR(8) COMMENT 'day', shard INT(11))", "PARTITIONED BY (p BIGINT(20))"], rng.randint(0, 3)):
        s += " " + o
    return s


def gen_ops(rng):
    ops = []
    for _ in range(rng.choice([0, 1, 1, 2, 3, 4])):
        k = rng.random()
        if k < 0.4:
            if not any(o.startswith("ct") for o in ops):      # the type table maps MySQL types: it is applied once
                ops.append(rng.choice(["ct0", "ct1"]))
        elif k < 0.6:
            ops.append("stn:%s:%s" % (w(rng.choice(["", "ods", "dw"])), w(rng.choice(["t_new", "x", "ods_t"]))))
        elif k < 0.8:
            ops.append("ac:" + w(rng.choice(NEWCOLS)))
        else:
            ops.append("apc:" + w(rng.choice(NEWCOLS)))
    return ops


def parse_newcol(text):
    """independent reading of the NEWCOLS entries: (name, type, params, comment)"""
    parts = text.split()
    name = parts[0].strip("`")
    ty = parts[1]
    params = None
    if "(" in ty:
        ty, p = ty.split("(", 1)
        params = p.rstrip(")").split(",")
    comment = None
    if " COMMENT " in text:
        comment = text.split(" COMMENT ", 1)[1]
    return [name, ty, params, comment]


def expected_edit(orig, ops, hashmap):
    p = copy.deepcopy(orig)
    for op in ops:
        parts = op.split(":")
        if parts[0] in ("ct0", "ct1"):
            for c in p["columns"]:
                c[1] = hashmap[c[1].upper()]
                if parts[0] == "ct1":
                    c[2] = None
        elif parts[0] == "stn":
            dec = lambda x: None if x == "-" else "".join(chr(int(y)) for y in x.split("."))
            p["schema"], p["table"] = dec(parts[1]), dec(parts[2])
        elif parts[0] == "ac":
            p["columns"].append(parse_newcol("".join(chr(int(y)) for y in parts[1].split("."))))
        else:
            p["partitioned_by"].append(parse_newcol("".join(chr(int(y)) for y in parts[1].split("."))))
    return p


def hive_expect(p):
    q = copy.deepcopy(p)
    for c in q["columns"] + q["partitioned_by"]:
        if c[2] is not None and c[1].upper() not in HIVE_PARAM_TYPES:
            c[2] = None
    return q


def judge(obj_text, ops, hashmap, mysql_types):
    if obj_text.startswith("PARSEERR"):
        return None, "skip"
    if obj_text.startswith("HELPERR"):
        return "helper call raised %s on a table whose column types are all catalogued MySQL types" % obj_text[8:], None
    if not obj_text.startswith("OK "):
        return "runner: " + obj_text[:200], None
    o = json.loads(obj_text[3:])
    if any(c[1].upper() not in mysql_types for c in o["orig"]["columns"]):
        return None, "skip"
    exp = expected_edit(o["orig"], ops, hashmap)
    if o["edited"] != exp:
        return "helper edits are not exactly the requested ones: edited %r, expected %r" % (o["edited"], exp), None
    ht = o.get("HIVE_text", "")
    if ht.startswith("ERR "):
        return "printing for Hive raised " + ht, None
    rp = o.get("HIVE_reparsed")
    if isinstance(rp, str):
        return "the printed Hive DDL does not parse again (%s): %r" % (rp, ht[:300]), None
    if o.get("HIVE_statements") != 1:
        return "the printed Hive DDL parses to %r statements" % o.get("HIVE_statements"), None
    he = hive_expect(exp)
    if rp != he:
        return "Hive DDL declares %r, expected %r (text %r)" % (rp, he, ht[:300]), None
    if any(c[2] is not None and c[1].upper() not in HIVE_PARAM_TYPES for c in rp["columns"]):
        return "Hive DDL keeps parameters on a type without parameters", None
    return None, "ok"


def run_cases(run, name, cases, hashmap, mysql_types):
    reqs_h = ["HELPERS %s %s" % (",".join(ops) or "-", stmt.cps(t)) for t, ops in cases]
    reqs_p = ["PROJ18 %s %s" % (",".join(ops) or "-", stmt.cps(t)) for t, ops in cases]
    mo = core.run_model(reqs_h)
    im = core.run_impl(reqs_h + reqs_p)
    dis = stmt.tie(run, name, reqs_h, mo, im[:len(cases)], [t for t, _ in cases])
    fails = []
    n_ok = 0
    distinct = set()
    for (t, ops), a, rq in zip(cases, im[len(cases):], reqs_p):
        v, st = judge(a, ops, hashmap, mysql_types)
        if st == "ok":
            n_ok += 1
            distinct.add(t)
        if v:
            fails.append({"kind": "input", "stream": name, "text": t, "ops": ops, "request": rq, "oracle_verdict": v})
    run.add_stream(name, 2 * len(cases), len(distinct), [{"ddl": t[:200], "helpers": ops} for t, ops in cases[:: max(1, len(cases) // 3)][:3]],
                   extra={"round_trips_judged": n_ok})
    return dis, fails


def run(run):
    proofs_ok = core.proof_stage(run, "Props/C18.v")
    mysql_types, hashmap = tables()
    # types the shipped MySQL-to-Hive table maps although the parser's catalogue does not list them (pinned when this check was written): a table
    # with such a column converted before, so it must keep converting
    for ty, rng_ in (("JSON", (0, 0)), ("BINARY", (0, 1)), ("VARBINARY", (1, 1))):
        mysql_types.setdefault(ty, list(rng_))
    tier_q = run.tier == "quick"
    cases = []
    # every catalogued type, with and without parameters, through change_type with both settings
    for ty, (lo, hi) in sorted(mysql_types.items()):
        for k in sorted({lo, min(hi, 1), min(hi, 2)}):
            if ty in ("ENUM", "SET"):
                ps = ["'a'", "'b'"][:max(1, k)]
            else:
                ps = ["10", "2"][:k]
            col = "c1 %s%s COMMENT 'x'" % (ty, "(" + ",".join(ps) + ")" if ps else "")
            for ops in ([], ["ct0"], ["ct1"]):
                cases.append(("CREATE TABLE t (id INT, %s) COMMENT='t'" % col, ops))
    for _ in range(150 if tier_q else 10000):
        cases.append((gen_ddl(run.rng, mysql_types), gen_ops(run.rng)))
    for s in sqlgen.corpus():
        if s.upper().startswith("CREATE TABLE") and len(s) < 3000:
            cases.append((s.rstrip().rstrip(";"), run.rng.choice([["ct1"], ["ct0"], []])))
    dis, fails = run_cases(run, "DDL x helper histories", cases, hashmap, mysql_types)
    run.cov["rule"] = ("MySQL CREATE TABLE texts (every catalogued type x parameter count x change_type setting; random tables over catalogued types with "
                       "keys / options / comments; the shipped DDL corpus) x random helper histories (change_type with the shipped table, set_table_name, "
                       "append_column, append_partition_by_column): projection oracle on the implementation, HELPERS tie with the extracted models")
    if os.environ.get("VERIF_DEBUG"):
        for f in fails[:40]:
            print("DEBUG", f["text"][:150], f.get("ops"), "=>", f["oracle_verdict"][:400])
        for d in dis[:10]:
            print("DEBUGDIS", d["text"][:150], "\n   M:", d["model"][:300], "\n   I:", d["observed"][:300])
    stmt.conclude(run, proofs_ok, dis, fails, "Props/C18.v", "schema projection through helpers / Hive printing / re-parse (implementation)")


def replay(path):
    def chk(obj):
        mysql_types, hashmap = tables()
        a = core.run_impl([obj["request"]])[0]
        v, st = judge(a, obj.get("ops", []), hashmap, mysql_types)
        return v
    return stmt.replay_generic(path, chk)
