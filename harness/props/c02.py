"""C02 -- expression trees follow the documented operator precedence and grouping.
proof : Props/C02.v (operator loop = precedence climbing, left-associative layers, documented levels, spellings)
tie   : PARSE correspondence (extracted parser model vs SQLParser) on the same texts
oracle: the extracted specification (Expr/Spec.v: emit with minimal + redundant parentheses, embed) judging the
        implementation: parse(emit v e) must equal embed e, at several embedding positions and for each dialect."""
import json

from .. import core, sqlgen, exprgen

PROP = "C02"
DIALECTS = ["DEFAULT", "MYSQL", "HIVE", "DB2", "ORACLE", "POSTGRE_SQL", "SQL_SERVER"]
# (template, entry): the expression text is substituted for {}
POSITIONS = [("{}", "logical_or_level_expression"),
             ("SELECT {} FROM t", "statements"),
             ("SELECT 1 FROM t WHERE {}", "statements"),
             ("SELECT 1 FROM t JOIN u ON {}", "statements"),
             ("SELECT 1 FROM t GROUP BY a HAVING {}", "statements"),
             ("SELECT CASE WHEN {} THEN 1 ELSE 2 END FROM t", "statements"),
             ("SELECT f(1, {}) FROM t", "statements"),
             ("SELECT ({}) FROM t", "statements"),
             ("UPDATE t SET a = {} WHERE b = 1", "statements"),
             ("SELECT 1 FROM t WHERE x IN (SELECT {} FROM u)", "statements")]


def run_cases(run, name, cases, dialects, positions):
    """cases: list of (words, choices).  returns (disagreements model/impl, oracle failures)"""
    dis, fails = [], []
    n_eval = 0
    distinct = set()
    samples = []
    for d in dialects:
        hive = d == "HIVE"
        em = exprgen.emit_all([(wds, hive, ch) for wds, ch in cases])
        reqs, meta = [], []
        for (wds, ch), (text, expected) in zip(cases, em):
            if text is None:
                fails.append({"kind": "input", "stream": name, "oracle_verdict": "EMIT failed: " + expected, "words": " ".join(wds)})
                continue
            for tpl, entry in positions:
                reqs.append(sqlgen.parse_request(entry, d, tpl.format(text)))
                meta.append((wds, ch, text, expected, tpl, entry))
        mo = core.run_model(reqs)
        im = core.run_impl(reqs)
        n_eval += len(reqs)
        for (wds, ch, text, expected, tpl, entry), rq, a, b in zip(meta, reqs, mo, im):
            distinct.add(text)
            if a != b:
                dis.append({"kind": "input", "stream": name, "request": rq, "text": tpl.format(text), "dialect": d, "entry": entry, "model": a[:2000], "observed": b[:2000]})
            ok = (b == "OK " + expected) if entry != "statements" else (b.startswith("OK ") and expected in b)
            if not ok:
                fails.append({"kind": "input", "stream": name, "request": rq, "text": tpl.format(text), "expression": text, "dialect": d, "entry": entry,
                              "spec_words": " ".join(wds), "choices": ch, "expected_subtree": expected[:3000], "observed": b[:3000],
                              "oracle_verdict": "the tree returned by the implementation does not contain embed(e) for the emitted expression"})
        if len(samples) < 4 and meta:
            samples.append({"dialect": d, "expression": meta[len(meta) // 2][2], "position": meta[len(meta) // 2][4]})
    run.add_stream(name, n_eval, len(distinct), samples)
    return dis, fails


def run(run):
    proofs_ok = core.proof_stage(run, "Props/C02.v")
    tier_q = run.tier == "quick"
    dis, fails = [], []
    # exhaustive: every operator sequence with every parenthesisation
    trees = exprgen.enumerate_trees(1) + exprgen.enumerate_trees(2) + (exprgen.enumerate_trees(3)[:: 1] if not tier_q else exprgen.enumerate_trees(3)[::23])
    cases = [(t, []) for t in trees]
    d1, f1 = run_cases(run, "exhaustive operator trees", cases, ["DEFAULT", "HIVE"] if tier_q else DIALECTS, POSITIONS[:1] if tier_q else POSITIONS[:3])
    dis += d1
    fails += f1
    # random expressions with every construct, redundant parentheses and spellings, at every position
    rcases = []
    for _ in range(700 if tier_q else 8000):
        e = exprgen.gen(run.rng, run.rng.choice([1, 2, 2, 3]))
        rcases.append((e, [run.rng.randint(0, 11) for _ in range(40)]))
    d2, f2 = run_cases(run, "random expressions x positions", rcases, ["DEFAULT", "MYSQL", "DB2"] if tier_q else DIALECTS[:1] + DIALECTS[1:2] + DIALECTS[3:], POSITIONS if not tier_q else POSITIONS[::2])
    dis += d2
    fails += f2
    # chains of keyword predicates (they bind alike and group to the left) and their operands at every level, exhaustively for two links
    w = exprgen.w
    A, B, C, D, E = (["col", w(x)] for x in "abcde")

    def pred(kind, left, k):
        if kind == "btw":
            return ["btw", str(k % 2)] + left + B + C
        if kind == "in":
            return ["in", str(k % 2), "2"] + left + D + E
        if kind == "is":
            return ["kw", "is", str(k % 2)] + left + ["lit", w("NULL")]
        return ["kw", kind, str(k % 2)] + left + D
    kinds = ["btw", "in", "is", "like", "rlike", "regexp"]
    kcases = []
    for i, k1 in enumerate(kinds):
        for j, k2 in enumerate(kinds):
            e = pred(k2, pred(k1, A, i), j)
            kcases.append((e, []))
            kcases.append((["and"] + e + ["cmp", "="] + A + B, []))
            kcases.append((["not"] + e, []))
    d4, f4 = run_cases(run, "keyword-predicate chains", kcases, ["DEFAULT", "MYSQL"] if tier_q else DIALECTS, POSITIONS[:2])
    dis += d4
    fails += f4
    hcases = []
    for _ in range(300 if tier_q else 3000):
        e = exprgen.gen(run.rng, run.rng.choice([1, 2, 3]), hive=True)
        hcases.append((e, [run.rng.randint(0, 11) for _ in range(40)]))
    d3, f3 = run_cases(run, "random expressions (Hive spellings)", hcases, ["HIVE"], POSITIONS[:3])
    dis += d3
    fails += f3
    run.cov["rule"] = ("spec expressions (Expr/Spec.v) are emitted by the extracted `emit` with minimal + redundant parentheses and random spellings, "
                       "embedded at statement positions, parsed by the implementation and compared with `embed e`; exhaustive part: all trees with <= 3 "
                       "operators over 14 representative operators (all shapes = all parenthesisations). distinct_nontrivial = distinct emitted texts.")
    if fails:
        f = fails[0]
        run.violation(dict(f, oracle="extracted Expr.Spec.emit / embed", broken=run.broken, other_failing_inputs=[x.get("text") for x in fails[1:6]]))
        return
    if proofs_ok and not dis:
        return
    if dis:
        run.broken.append({"kind": "correspondence", "count": len(dis), "first": dis[0]})
    run.violation({"kind": "obligation", "theorem": "Props/C02.v", "broken": run.broken, "oracle": "extracted Expr.Spec.emit / embed",
                   "note": "proof / tie broken; on every emitted expression the implementation still returns embed(e)"}, no_input=True)


def replay(path):
    obj = json.load(open(path, encoding="utf-8"))
    if obj.get("kind") != "input" or "request" not in obj:
        print("replay: obligation-only replay file; re-run the check")
        return 1
    b = core.run_impl([obj["request"]])[0]
    exp = obj.get("expected_subtree", "")
    print("text    :", obj.get("text"))
    print("observed:", b[:600])
    print("expected subtree:", exp[:600])
    ok = exp in b
    return 0 if ok else 1
