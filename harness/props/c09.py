"""C09 -- layout, comments, keyword case and redundant quoting do not change the tree.
proof : Props/C09.v (every keyword test of the parser model is case-blind; back-quotes around a name are redundant; operator spellings
        DIV / MOD / <> / != / && / || and both LIMIT spellings agree)
tie   : PARSE correspondence on every variant
oracle: surface variation on the implementation: statements with known trees (harness/stgen.py) and specification expressions (Expr/Spec.v emit
        with different choice streams) are rewritten -- separators (blanks, line breaks, block / line comments between any two tokens),
        keyword and operator-word case, back-quoting of column / table / function / alias names of queries and DML, AS before aliases, ASC,
        TABLE after INSERT INTO / OVERWRITE, <> / !=, && / AND, || / OR, LIMIT n OFFSET m / LIMIT m, n, redundant parentheses -- and every
        variant must parse to the same tree as the original (or both must be rejected)."""
import json
import re

from .. import core, sqlgen, stmt, stgen, exprgen
from . import c08

PROP = "C09"
TOK = re.compile(r"'(?:[^'\\]|\\.|'')*'|\"(?:[^\"\\]|\\.)*\"|`[^`]*`|\d+\.\d+|\w+|<=>|<=|>=|<>|!=|<<|>>|&&|\|\||==|[^\w\s]", re.S)
SEPS = [" ", "  ", "\n", "\t", " \n ", " /* c */ ", "/**/", " -- c\n", " # c\n ", "\n\n", " /* SELECT ; */ ", "/** c **/", "/***/", " /* c **/ ", " /*** c ***/ ", "/****/", "\u3000", " \u3000 ", "\r\n", " \r\n\t"]
DML = ("SELECT", "INSERT", "UPDATE", "DELETE")
AGG = {"SUM", "COUNT", "MAX", "MIN", "AVG"}


def retokenise(text):
    return TOK.findall(text)


def glue_ok(a, b):
    """may two tokens be written without a separator?  only punctuation against anything that cannot merge with it"""
    if re.match(r"^\w", b) and re.match(r".*\w$", a, flags=re.S):
        return False
    if re.match(r"^[^\w\s'\"`]+$", a) and re.match(r"^[^\w\s'\"`]+$", b):
        return False                      # two operators could merge (< and =, - and -, / and *)
    if a in ("'", '"') or b[:1] in ("'", '"') and a[-1:] in ("'", '"'):
        return False
    if a[-1:] in "&|^~#" or b[:1] in "&|^~#" or a[-1:] in ".0123456789" and b[:1] in ".":
        return False                      # known word-terminator deviations of the lexer (C05 findings) stay out of this property
    return a in "(),;" or b in "(),;"


def vary(rng, text, is_dml):
    toks = retokenise(text)
    out = []
    for i, t in enumerate(toks):
        up = t.upper()
        nxt = toks[i + 1] if i + 1 < len(toks) else ""
        prev = toks[i - 1] if i else ""
        k = rng.random()
        if re.match(r"^[A-Za-z_]\w*$", t) and up in c08.WORDS and up not in ("TRUE", "FALSE", "NULL", "BTREE", "INNODB", "DYNAMIC", "UTF8", "UTF8MB4", "UTF8_BIN", "INT",
                                                                                  "VARCHAR", "DECIMAL", "BIGINT", "DATETIME", "TEXT", "CURRENT_TIMESTAMP") \
                and not (up in AGG and nxt == "(") and up != "USING":          # USING: known finding K-USING-CASE
            if k < 0.3:
                t = t.lower()
            elif k < 0.45:
                t = "".join(c.upper() if rng.random() < 0.5 else c.lower() for c in t)
            elif k < 0.6:
                t = t.upper()
        elif is_dml and re.match(r"^[A-Za-z_]\w*$", t) and up not in c08.WORDS and k < 0.3 and prev != "`":
            t = "`" + t + "`"              # redundant quoting of a column / table / function / alias name
        elif t == "<>" and k < 0.5:
            t = "!="
        elif t == "!=" and k < 0.5:
            t = "<>"
        elif t == "&&" and k < 0.5:
            t = "AND"
        elif t == "||" and k < 0.5:
            t = "OR"
        elif up == "AND" and k < 0.2 and prev.upper() != "BETWEEN" and not between_open(toks, i):
            t = "&&"
        elif up == "OR" and k < 0.2:
            t = "||"
        out.append(t)
    # noise words
    s = []
    i = 0
    while i < len(out):
        t = out[i]
        up = t.upper()
        if up == "AS" and i + 1 < len(out) and re.match(r"^`?(al\d|x1|y2)`?$", out[i + 1]) and rng.random() < 0.5:
            i += 1
            continue                       # drop AS before an alias
        if up == "ASC" and rng.random() < 0.5:
            i += 1
            continue
        if up == "TABLE" and i >= 2 and out[i - 2].upper() == "INSERT" and rng.random() < 0.5:
            i += 1
            continue
        s.append(t)
        if up in ("INTO", "OVERWRITE") and i >= 1 and out[i - 1].upper() in ("INSERT", "IGNORE") and i + 1 < len(out) and out[i + 1].upper() != "TABLE" and rng.random() < 0.3:
            s.append("TABLE")
        i += 1
    # LIMIT spellings
    for j in range(len(s) - 3):
        if s[j].upper() == "LIMIT" and s[j + 2].upper() == "OFFSET" and rng.random() < 0.5:
            s[j + 1], s[j + 2], s[j + 3] = s[j + 3], ",", s[j + 1]
        elif s[j].upper() == "LIMIT" and s[j + 2] == "," and rng.random() < 0.5:
            s[j + 1], s[j + 2], s[j + 3] = s[j + 3], "OFFSET", s[j + 1]
    # separators
    text2 = s[0] if s else ""
    for a, b in zip(s, s[1:]):
        if glue_ok(a, b) and rng.random() < 0.4:
            sep = ""
        else:
            sep = rng.choice(SEPS)
        text2 += sep + b
    return rng.choice(["", " ", "\n", "/* lead */ "]) + text2 + rng.choice(["", " ", "\n", " -- tail", ";", " ;\n"])


def between_open(toks, i):
    """is the AND at position i the one that belongs to a BETWEEN?"""
    depth = 0
    for j in range(i - 1, -1, -1):
        u = toks[j].upper()
        if u == "BETWEEN":
            return True
        if u in ("AND", "OR", "WHERE", "ON", "HAVING", "SELECT", "&&", "||"):
            return False
    return False


def run(run):
    proofs_ok = core.proof_stage(run, "Props/C09.v")
    tier_q = run.tier == "quick"
    g = stgen.G(run.rng)
    base, variants = [], []
    for _ in range(250 if tier_q else 12000):
        t, tree = g.statement()
        is_dml = t.lstrip().upper().startswith(DML)
        d = run.rng.choice(["MYSQL", "DEFAULT", "HIVE"])
        base.append((d, t))
        for _ in range(3 if tier_q else 5):
            variants.append((len(base) - 1, d, vary(run.rng, t, is_dml)))
    # every keyword of the grammar at least once, deterministically: all-lower, all-upper and mixed case of the whole statement (quoted parts untouched)
    RICH = ["CREATE TABLE IF NOT EXISTS t (a INT UNSIGNED ZEROFILL NOT NULL AUTO_INCREMENT COMMENT 'c', b TIMESTAMP NULL DEFAULT CURRENT_TIMESTAMP ON UPDATE CURRENT_TIMESTAMP, "
            "c VARCHAR(10) CHARACTER SET utf8 COLLATE utf8_bin DEFAULT 'x', d INT GENERATED ALWAYS AS (a + 1) STORED, PRIMARY KEY (a), UNIQUE KEY u1 (c(4)) USING BTREE COMMENT 'k', "
            "KEY k1 (b) KEY_BLOCK_SIZE=4, FULLTEXT KEY f1 (c), CONSTRAINT fk1 FOREIGN KEY (a) REFERENCES o (id) ON DELETE CASCADE ON UPDATE RESTRICT, "
            "CONSTRAINT fk2 FOREIGN KEY (b) REFERENCES o (id) ON DELETE SET NULL ON UPDATE NO ACTION) ENGINE=InnoDB AUTO_INCREMENT=7 DEFAULT CHARSET=utf8 COLLATE=utf8_bin "
            "ROW_FORMAT=DYNAMIC STATS_PERSISTENT=1 COMMENT='t'",
            "CREATE TABLE h (a STRING COMMENT 'x') COMMENT 'h' PARTITIONED BY (dt STRING) ROW FORMAT SERDE 's' STORED AS INPUTFORMAT 'i' OUTPUTFORMAT 'o' LOCATION '/p' TBLPROPERTIES ('k'='v')",
            "CREATE TABLE h2 (a STRING) ROW FORMAT DELIMITED FIELDS TERMINATED BY ',' STORED AS TEXTFILE", "CREATE TABLE c AS SELECT a FROM t",
            "ALTER TABLE t ADD COLUMN2 INT, MODIFY b BIGINT NOT NULL, CHANGE c c2 INT, RENAME COLUMN d TO e, DROP COLUMN f, ADD PARTITION (dt='1'), DROP IF EXISTS PARTITION (dt='2'), ADD IF NOT EXISTS PARTITION (dt='3')",
            "SELECT DISTINCT a, sum(b) OVER (PARTITION BY c ORDER BY d DESC NULLS LAST ROWS BETWEEN UNBOUNDED PRECEDING AND 1 FOLLOWING), "
            "max(b) OVER (ORDER BY d ROWS BETWEEN CURRENT ROW AND UNBOUNDED FOLLOWING), CASE a WHEN 1 THEN 2 ELSE 3 END, CASE WHEN a IS NOT NULL THEN 1 END, "
            "CAST(a AS SIGNED), CAST(b AS DECIMAL(10, 2)), EXTRACT(YEAR FROM d), IF(a, 1, 2) FROM t INNER JOIN u ON t.a = u.a LEFT OUTER JOIN v USING(a) CROSS JOIN w "
            "RIGHT JOIN x ON 1 = 1 FULL JOIN y ON 2 = 2 WHERE a BETWEEN 1 AND 2 AND b NOT IN (1, 2) OR c LIKE 'x' XOR d RLIKE 'y' AND e REGEXP 'z' AND EXISTS (SELECT 1 FROM z) "
            "AND f IS NULL AND g DIV 2 = 1 AND h MOD 3 = 0 GROUP BY a, b WITH ROLLUP HAVING count(1) > 1 ORDER BY a ASC NULLS FIRST, b DESC LIMIT 3 OFFSET 4",
            "SELECT a FROM t GROUP BY GROUPING SETS ((a), (a, b), ()) UNION ALL SELECT b FROM u EXCEPT SELECT c FROM v INTERSECT SELECT d FROM w MINUS SELECT e FROM x",
            "SELECT a FROM t LATERAL VIEW OUTER explode(arr) lv AS x SORT BY a DISTRIBUTE BY b CLUSTER BY c", "WITH w AS (SELECT a FROM t) SELECT a FROM w GROUP BY a WITH CUBE",
            "INSERT OVERWRITE TABLE t PARTITION (dt = '1') SELECT a FROM u", "INSERT IGNORE INTO t (a, b) VALUES (1, 2), (3, 4)", "UPDATE t SET a = 1 WHERE b = 2 ORDER BY c LIMIT 1",
            "DELETE FROM t WHERE a = 1 ORDER BY b DESC LIMIT 2", "ANALYZE TABLE t PARTITION (dt='1') COMPUTE STATISTICS FOR COLUMNS CACHE METADATA NOSCAN", "MSCK REPAIR TABLE t",
            "SHOW COLUMNS FROM t WHERE a = 1", "SHOW TABLES", "SHOW DATABASES", "TRUNCATE TABLE t", "DROP TABLE IF EXISTS t", "USE db", "SET a = b"]

    def recase(t, f):
        out, q = [], None
        for ch in t:
            if q:
                out.append(ch)
                if ch == q:
                    q = None
            elif ch in "'`\"":
                q = ch
                out.append(ch)
            else:
                out.append(f(ch))
        return "".join(out)
    for t in RICH:
        data_words = {"TRUE", "FALSE", "NULL", "BTREE", "INNODB", "DYNAMIC", "UTF8", "UTF8MB4", "UTF8_BIN", "INT", "VARCHAR", "DECIMAL", "BIGINT", "DATETIME", "TEXT",
                      "CURRENT_TIMESTAMP", "STRING", "TIMESTAMP", "USING"}          # type names, option values, variables are data; USING: K-USING-CASE
        names = {w for w in re.findall(r"[A-Za-z_]\w*", t) if w.upper() not in c08.WORDS or w.upper() in data_words}   # identifiers and data keep their spelling
        for d in ("MYSQL", "HIVE"):
            base.append((d, t))
            for f in (str.lower, str.upper, lambda c: c.upper() if run.rng.random() < 0.5 else c.lower()):
                vt = re.sub(r"[A-Za-z_]\w*|'[^']*'|`[^`]*`", lambda m: m.group(0) if (m.group(0) in names or m.group(0)[0] in "'`") else recase(m.group(0), f), t)
                variants.append((len(base) - 1, d, vt))
    # expressions: one specification expression, several choice streams (spellings, letter case, redundant parentheses)
    ebase = []
    for _ in range(150 if tier_q else 8000):
        e = exprgen.gen(run.rng, run.rng.choice([1, 2, 2, 3]))
        ebase.append(e)
    em = exprgen.emit_all([(e, False, []) for e in ebase] + [(e, False, [run.rng.randint(0, 11) for _ in range(40)]) for e in ebase for _ in range(2)])
    n0 = len(ebase)
    for i, (text, _) in enumerate(em[:n0]):
        if text is None:
            continue
        base.append(("DEFAULT", "SELECT " + text + " FROM t"))
        for j in (0, 1):
            vt = em[n0 + 2 * i + j][0]
            if vt is not None:
                variants.append((len(base) - 1, "DEFAULT", "SELECT " + vt + " FROM t"))
    breqs = [sqlgen.parse_request("statements", d, t) for d, t in base]
    vreqs = [sqlgen.parse_request("statements", d, t) for _, d, t in variants]
    im = core.run_impl(breqs + vreqs)
    mo = core.run_model(vreqs)
    dis = stmt.tie(run, "PARSE variants", vreqs, mo, im[len(breqs):], [v[2] for v in variants])
    fails = []
    for (bi, d, vt), a, rq in zip(variants, im[len(breqs):], vreqs):
        b = im[bi]
        if a != b and not (a.startswith("ERR") and b.startswith("ERR")):
            fails.append({"kind": "input", "stream": "surface variants", "text": vt, "original": base[bi][1], "dialect": d, "request": rq, "request_original": breqs[bi],
                          "oracle_verdict": "the variant parses to %s, the original to %s" % (a[:160], b[:160])})
    run.add_stream("surface variants", len(breqs) + len(vreqs), len(set(v[2] for v in variants)),
                   [{"original": base[v[0]][1][:140], "variant": v[2][:200]} for v in variants[:: max(1, len(variants) // 3)][:3]])
    for kf in core.known_findings(PROP):
        if kf["id"] == "K-USING-CASE" and kf.get("status") == "open":
            a, b = core.run_impl([sqlgen.parse_request("statements", "DEFAULT", kf["witness"]["text"]), sqlgen.parse_request("statements", "DEFAULT", kf["witness"]["variant"])])
            if a != b:
                run.known("K-USING-CASE: %s (witness %r vs %r)" % (kf["description"], kf["witness"]["text"], kf["witness"]["variant"]))
    run.cov["rule"] = ("statements of harness/stgen.py x 3-5 random variants each (separators incl. comments between any two tokens and glued punctuation, keyword / operator-word "
                       "case, back-quoting of names in queries and DML, AS / ASC / TABLE noise words, <> != && AND || OR, both LIMIT spellings) and specification "
                       "expressions emitted with different choice streams (spellings, case, redundant parentheses): equal trees or both rejected; models parse every variant")
    stmt.conclude(run, proofs_ok, dis, fails, "Props/C09.v", "variant = original tree, on the implementation")


def replay(path):
    def chk(obj):
        a, b = core.run_impl([obj["request"], obj["request_original"]])
        return None if a == b or (a.startswith("ERR") and b.startswith("ERR")) else "variant and original parse differently"
    return stmt.replay_generic(path, chk)
