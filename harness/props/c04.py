"""C04 -- tokenisation is lossless, brackets faithfully nested.
proof: Props/C04.v (partition / retain_all / no_lost_char for every string, on the regenerated tables)
tie  : regenerated tables + LEX correspondence (extracted model vs FSMMachine.parse) under the flag settings
oracle (judges the implementation's own answers, used for the failing-input search): lexh.c04_oracle"""
import json
import os

from .. import core, lexh

PROP = "C04"


def streams(run, info, flags_list):
    tier_q = run.tier == "quick"
    out = []
    corpus = lexh.load_corpus(PROP)
    for flags in flags_list:
        ins = list(corpus)
        ins += lexh.gen_exhaustive(info, 2 if tier_q else 3) if flags in (7, 0) or not tier_q else lexh.gen_exhaustive(info, 1)
        ins += lexh.gen_brackets(run.rng, 300 if tier_q else 6000, 6 if tier_q else 8)
        ins += lexh.gen_random(info, run.rng, 1500 if tier_q else 60000)
        out.append((flags, ins))
    return out


def run(run):
    proofs_ok = core.proof_stage(run, "Props/C04.v")
    info = lexh.load_info()
    flags_list = [7, 0, 3, 5] if run.tier == "quick" else list(range(8))
    all_dis, all_of = [], []
    for flags, ins in streams(run, info, flags_list):
        dis, of = lexh.correspond(run, "LEX base flags=%d" % flags, ins, False, flags, oracle=lexh.c04_oracle)
        all_dis += dis
        all_of += of
    run.cov["rule"] = ("inputs: saved corpus, then all strings over one representative per generated character class up to "
                       "length 2 (quick) / 3 (thorough), then every string over ( ) [ ] up to length 6 (quick) / 8 (thorough) plus balanced two-kind bracket words with swapped / re-kinded closers (lexh.gen_brackets), then random strings (raw class soup, fragment soup, well-formed token "
                       "sequences) of length <= 68; per flag setting. distinct_nontrivial = distinct inputs for which the "
                       "implementation returns at least two top-level tokens.")
    lexh.decide(run, proofs_ok, all_dis, all_of, oracle=lexh.c04_oracle, oracle_name="lexh.c04_oracle (partition of preproc(text) by the returned token tree)",
                theorem="Props/C04.v", search=lambda n: search(run, info, flags_list, n))


def search(run, info, flags_list, n):
    """extra failing-input search after a broken proof / tie"""
    found = []
    for flags in flags_list:
        ins = lexh.gen_exhaustive(info, 3)[:60000] + lexh.gen_random(info, run.rng, n)
        reqs = [lexh.lex_request(s, False, flags) for s in ins]
        ans = core.run_impl(reqs, flags=flags)
        for s, rq, b in zip(ins, reqs, ans):
            st, tr = lexh.parse_answer(b)
            if st == "OK":
                v = lexh.c04_oracle(lexh.show(s), flags, tr)
                if v:
                    found.append({"kind": "input", "stream": "search", "request": rq, "text": lexh.show(s), "mybatis": False,
                                  "flags": flags, "observed": b, "oracle_verdict": v})
        if found:
            break
    return found


def replay(path):
    obj = json.load(open(path, encoding="utf-8"))
    return lexh.replay_lex(obj, lexh.c04_oracle)
