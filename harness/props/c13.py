"""C13 -- the requested dialect is honoured everywhere and never emitted wrongly.
proof : Props/C13.v (dialect delivery along every call path of the regenerated parser call graph, printers pass sql_type on,
        `!` by dialect, nested Hive / DB2 examples and printer refusals computed on the models)
tie   : PARSE / PRINT correspondence (extracted parser + printer models vs implementation), incl. all (parse dialect, print dialect) pairs
oracle: on the implementation: (i) dialect spellings planted in every container x clause (two levels deep) parse to the SAME tree as
        their neutral spelling (Hive `!`/NOT, `==`/`=`; DB2 CURRENT DATE/CURRENT_DATE ...); (ii) a dialect's own constructs printed in
        that dialect round-trip without any printer error; (iii) printing a tree in ANOTHER dialect either raises the library's
        not-supported / parse error or yields text that this dialect re-parses and re-prints identically."""
import json

from .. import core, sqlgen, stmt, stgen
from . import c01

PROP = "C13"
PAIRS = {"HIVE": [("! a", "NOT a"), ("a == b", "a = b"), ("! a == b", "NOT a = b"), ("! (a == 1 AND ! b)", "NOT (a = 1 AND NOT b)"), ("x[1] == 2", "x[1] = 2"),
                  ("! f(a == b)", "NOT f(a = b)")],
         "DB2": [("CURRENT DATE", "CURRENT_DATE"), ("CURRENT TIME", "CURRENT_TIME"), ("CURRENT TIMESTAMP", "CURRENT_TIMESTAMP"),
                 ("f(CURRENT DATE) > CURRENT TIMESTAMP", "f(CURRENT_DATE) > CURRENT_TIMESTAMP")]}
OWN = {"HIVE": ["a[0]", "m['k']", "f(a)[1]", "! a", "a == b", "a % b", "a[0][1]", "a"], "DB2": ["CURRENT DATE", "CURRENT TIMESTAMP", "a + 1", "a"],
       "MYSQL": ["a % b", "a DIV b", "a MOD b", "a"], "DEFAULT": ["a % b", "a"], "SQL_SERVER": ["a % b", "a"], "ORACLE": ["a || b", "a"], "POSTGRE_SQL": ["a"]}
HIVE_CLAUSES = ["SELECT 1 FROM t LATERAL VIEW explode(x) lv AS e WHERE {}", "SELECT 1 FROM t WHERE {} SORT BY a", "SELECT 1 FROM t WHERE {} DISTRIBUTE BY a",
                "SELECT 1 FROM t WHERE {} CLUSTER BY a, b", "INSERT OVERWRITE TABLE t PARTITION (dt='1') SELECT {} FROM u"]


FULL_SLOT = ("f({})", "f(1, {})", "IF({}, 1, 2)", "IF(x, {}, 2)", "CASE WHEN {} THEN 1 ELSE 2 END", "CASE WHEN x THEN {} END", "({})", "NOT {}", "{} AND y", "y OR {}",
             "(SELECT {} FROM u)", "EXISTS (SELECT 1 FROM u WHERE {})", "coalesce({}, {})", "x IN (SELECT {} FROM u)")


# the dialect spelling must be honoured whatever quoted text precedes it (apostrophes inside other quotes and comments included)
QUOTE_CONTEXT = ["SELECT 1 FROM t WHERE n = \"it's\" AND {}", "SELECT 1 -- don't\n FROM t WHERE {}", "SELECT 'a''b', {} FROM t", "SELECT `it's`, {} FROM t /* ' */",
                 "SELECT {} FROM t WHERE n = 'x' # it's\n AND m = \"'\""]


def planted(d, leaf_variants, two_level):
    """texts with the leaf variants planted at every container x clause position; returns list of tuples of texts.
    Containers whose slot is not a full-expression slot (operands of tighter operators, compute-level slots) get the leaf in brackets."""
    out = []
    leaf_variants_b = tuple("(" + v + ")" for v in leaf_variants)
    clauses = c01.CLAUSES + QUOTE_CONTEXT + (HIVE_CLAUSES if d == "HIVE" else [])
    for ci, c in enumerate(c01.CONTAINERS):
        for cl in clauses:
            if "GROUP BY {}" in cl or "ORDER BY {}" in cl or "VALUES ({})" in cl:
                continue      # compute-level slots do not take a predicate
            out.append(tuple(cl.format(c.replace("{}", v)) for v in (leaf_variants if c in FULL_SLOT else leaf_variants_b)))
        if two_level:
            c2 = c01.CONTAINERS[(ci * 5 + 3) % len(c01.CONTAINERS)]
            out.append(tuple("SELECT " + c.replace("{}", "(" + c2.replace("{}", v) + ")") + " FROM t" for v in (leaf_variants if c2 in FULL_SLOT else leaf_variants_b)))
    return out


def run(run):
    proofs_ok = core.proof_stage(run, "Props/C13.v")
    tier_q = run.tier == "quick"
    dis, fails = [], []
    # (i) spellings
    reqs, meta = [], []
    for d, pairs in PAIRS.items():
        for a, b in pairs:
            for ta, tb in planted(d, (a, b), True)[:: (3 if tier_q else 1)]:
                reqs += [sqlgen.parse_request("statements", d, ta), sqlgen.parse_request("statements", d, tb)]
                meta.append((d, ta, tb))
    im = core.run_impl(reqs)
    mo = core.run_model(reqs)
    dis += stmt.tie(run, "spellings", reqs, mo, im, [r for m in meta for r in (m[1], m[2])])
    # the dialect is honoured by every entry point of every shipped parser class: the MyBatis plug-in parser on the same texts (no '#' in them)
    mbi = list(range(0, len(reqs), 5 if tier_q else 2))
    mbreq = [reqs[i].replace("PARSE 0 ", "PARSE 1 ", 1) for i in mbi]
    mbim = core.run_impl(mbreq)
    dis += stmt.tie(run, "spellings (MyBatis plug-in parser)", mbreq, core.run_model(mbreq), mbim, [meta[i // 2][1 + i % 2] for i in mbi])
    for i, a, rq in zip(mbi, mbim, mbreq):
        if a != im[i] and "#" not in meta[i // 2][1 + i % 2]:
            fails.append({"kind": "input", "stream": "spellings", "text": meta[i // 2][1 + i % 2], "neutral": meta[i // 2][2], "dialect": meta[i // 2][0], "request": rq, "request2": reqs[i],
                          "oracle_verdict": "SQLParserMyBatis does not honour the dialect like SQLParser: %s vs %s" % (a[:160], im[i][:160])})
    n_eq = 0
    for i, (d, ta, tb) in enumerate(meta):
        xa, xb = im[2 * i], im[2 * i + 1]
        if xb.startswith("OK ") and xa != xb:
            fails.append({"kind": "input", "stream": "spellings", "text": ta, "neutral": tb, "dialect": d, "request": reqs[2 * i], "request2": reqs[2 * i + 1],
                          "oracle_verdict": "the %s spelling does not parse to the tree of its neutral spelling: %s vs %s" % (d, xa[:160], xb[:160])})
        elif xb.startswith("OK "):
            n_eq += 1
    run.add_stream("dialect spellings at every position", len(reqs), n_eq, [{"dialect": m[0], "text": m[1], "neutral": m[2]} for m in meta[:: max(1, len(meta) // 3)][:3]])
    # (ii) own constructs round-trip strictly
    cases = []
    for d, leaves in OWN.items():
        for leaf in leaves:
            for (t,) in planted(d, (leaf,), not tier_q)[:: (4 if tier_q else 1)]:
                cases.append((d, t))
    # whole statements that only one dialect writes: every combination of the Hive clauses, in the order the Hive parser reads them
    for srt in ("", " SORT BY a DESC"):
        for dist in ("", " DISTRIBUTE BY b, c"):
            for lim in ("", " LIMIT 3"):
                cases.append(("HIVE", "SELECT a FROM t WHERE a > 1" + srt + dist + lim))
    cases += [("HIVE", "SELECT a FROM t CLUSTER BY a LIMIT 2"), ("HIVE", "SELECT a FROM t LATERAL VIEW OUTER explode(arr) tmp AS x SORT BY x DISTRIBUTE BY x"),
              ("HIVE", "INSERT OVERWRITE TABLE t PARTITION (dt='1') SELECT a FROM u DISTRIBUTE BY a"),
              ("MYSQL", "INSERT IGNORE INTO t (a) VALUES (1)"), ("MYSQL", "SELECT a DIV 2, a MOD 3, a % 4 FROM t")]
    d2, f2, kn = c01.roundtrip_cases(run, cases, "own constructs, same dialect")
    dis += d2
    fails += f2
    preqs = [stmt.print_request("statements", d, d, s) for d, s in cases]
    for (d, s), a, rq in zip(cases, core.run_impl(preqs), preqs):
        if a.startswith("OK ") and "ERR:" in a:
            fails.append({"kind": "input", "stream": "own constructs", "text": s, "dialect": d, "request": rq,
                          "oracle_verdict": "the %s printer refuses a construct of its own dialect that the %s parser accepted: %s" % (d, d, a[:120])})
    # (iii) cross-dialect printing
    xs = []
    base = ["SELECT a[0] FROM t", "SELECT a % b FROM t", "SELECT 1 FROM t WHERE ! a", "SELECT a FROM t LATERAL VIEW explode(x) lv AS e", "SELECT a FROM t SORT BY a",
            "CREATE TABLE t (a INT(11) NOT NULL COMMENT 'c') COMMENT='x'", "INSERT OVERWRITE TABLE t SELECT a FROM u", "SELECT CAST(a[1] AS STRING) FROM t",
            "SELECT f(a % 2, CASE WHEN b[0] THEN 1 END) FROM t", "ANALYZE TABLE t COMPUTE STATISTICS", "SELECT CURRENT_DATE FROM t", "SELECT a || b FROM t",
            "SELECT sum(a % 2) OVER (PARTITION BY b[0]) FROM t", "SELECT 1 FROM t WHERE a IN (SELECT b % 2 FROM u)", "ALTER TABLE t ADD PARTITION (dt='1')"]
    base += ["CREATE TABLE t (a INT UNSIGNED ZEROFILL NOT NULL AUTO_INCREMENT COMMENT 'c', b TIMESTAMP NULL DEFAULT CURRENT_TIMESTAMP ON UPDATE CURRENT_TIMESTAMP, "
             "c VARCHAR(10) CHARACTER SET utf8 COLLATE utf8_bin DEFAULT 'x', d INT GENERATED ALWAYS AS (a + 1) STORED COMMENT 'g', PRIMARY KEY (a), KEY k1 (c(4)) USING BTREE) "
             "ENGINE=InnoDB AUTO_INCREMENT=7 DEFAULT CHARSET=utf8 COMMENT='t'",
             "ALTER TABLE t MODIFY b DATETIME NOT NULL ON UPDATE CURRENT_TIMESTAMP COMMENT 'm'", "ALTER TABLE t ADD c2 DECIMAL(10, 2) UNSIGNED DEFAULT 0",
             "CREATE TABLE h (a STRING COMMENT 'x', b DECIMAL(10,2)) COMMENT 'h' PARTITIONED BY (dt STRING COMMENT 'p') ROW FORMAT SERDE 's' STORED AS TEXTFILE LOCATION '/p' TBLPROPERTIES ('k'='v')",
             "SELECT a FROM t WHERE d < CURRENT_DATE ORDER BY CURRENT_TIMESTAMP", "SELECT 1 FROM t WHERE a BETWEEN CURRENT_DATE AND b GROUP BY CURRENT_TIME"]
    base += ["SELECT a FROM t ORDER BY a LIMIT 3, 7", "SELECT a FROM t LIMIT 7 OFFSET 3", "UPDATE t SET a = 1 WHERE b = 2 ORDER BY c LIMIT 2", "DELETE FROM t WHERE a = 1 ORDER BY b LIMIT 5",
             "SELECT a FROM (SELECT b FROM u ORDER BY b DESC LIMIT 1, 2) x WHERE a IN (SELECT c FROM v LIMIT 4 OFFSET 9)", "SELECT a FROM t UNION ALL SELECT b FROM u LIMIT 2, 3",
             "WITH w AS (SELECT a FROM t LIMIT 5, 6) SELECT a FROM w GROUP BY a WITH ROLLUP HAVING a > 1", "SELECT a, count(DISTINCT b) FROM t GROUP BY a, GROUPING SETS ((a), ())",
             "SELECT a <=> b, a DIV b, a MOD b, a XOR b, NOT a, a IS NOT NULL, a NOT LIKE 'x', a RLIKE 'y', a REGEXP 'z' FROM t",
             "SELECT cast(a AS DECIMAL(10, 2)), extract(YEAR FROM b), IF(a, 1, 2), substring(c FROM 1 FOR 2) FROM t FULL OUTER JOIN u USING(a) CROSS JOIN v",
             "SELECT sum(a) OVER (PARTITION BY b ORDER BY c DESC NULLS LAST ROWS BETWEEN 1 PRECEDING AND CURRENT ROW) FROM t",
             "INSERT INTO t (a, b) VALUES (1, 'x'), (2, 'y')", "INSERT OVERWRITE TABLE t PARTITION (dt = '1', h) SELECT a, h FROM u", "SHOW COLUMNS FROM t WHERE a = 1",
             "TRUNCATE TABLE t", "MSCK REPAIR TABLE t", "USE db", "SET a.b = c-d", "DROP TABLE IF EXISTS s.t", "ANALYZE TABLE t PARTITION (dt='1') COMPUTE STATISTICS FOR COLUMNS NOSCAN"]
    g = stgen.G(run.rng)
    base += [g.create_table()[0] for _ in range(8 if tier_q else 60)] + [g.alter()[0] for _ in range(4 if tier_q else 30)]
    extra = [s for _, s in stmt.gen_cases(run, ["HIVE", "MYSQL"], 20 if tier_q else 400, with_corpus=False)]
    for pd in (["HIVE", "MYSQL", "DEFAULT"] if tier_q else stmt.DIALECTS):
        for qd in stmt.DIALECTS:
            for s in base + (extra if not tier_q else extra[:10]):
                xs.append((pd, qd, s))
    reqs3 = [stmt.print_request("statements", pd, qd, s) for pd, qd, s in xs]
    im3 = core.run_impl(reqs3)
    mo3 = core.run_model(reqs3)
    dis += stmt.tie(run, "cross-dialect print", reqs3, mo3, im3, [x[2] for x in xs])
    second = []
    kinds = {}
    for (pd, qd, s), a, rq in zip(xs, im3, reqs3):
        if not a.startswith("OK "):
            continue
        for o in (a[3:].split("|") if a[3:] else []):
            k = o if o.startswith("ERR:") else "text"
            kinds[k] = kinds.get(k, 0) + 1
            if o.startswith("ERR:"):
                if o not in ("ERR:NotSupport", "ERR:ParseErr"):
                    fails.append({"kind": "input", "stream": "cross-dialect print", "text": s, "dialect": pd, "print_dialect": qd, "request": rq,
                                  "oracle_verdict": "printing for %s raised %s (not the library's not-supported / parse error)" % (qd, o)})
                continue
            second.append((pd, qd, s, stmt.dec(o)))
    reqs4 = [stmt.print_request("statements", qd, qd, p) for pd, qd, s, p in second]
    im4 = core.run_impl(reqs4)
    for (pd, qd, s, p), a in zip(second, im4):
        dump_probe = p
        if a.startswith("PARSEERR"):
            v = "text emitted for %s is rejected by the %s parser (%s): %r" % (qd, qd, a, p[:200])
        elif a.startswith("OK ") and a[3:] not in ("", ) and stmt.dec(a[3:].split("|")[0]) != p and "ERR:" not in a:
            v = "text emitted for %s does not re-print identically in %s: %r" % (qd, qd, p[:200])
        else:
            v = None
        if v and pd != qd:
            # the regions already recorded for C01 (silent omission by dialect, bare names) explain some of these
            tdump = core.run_impl([sqlgen.parse_request("statements", pd, s)])[0]
            if stmt.dialect_omits(tdump, qd) or stmt.bare_name_region(tdump):
                continue
            fails.append({"kind": "input", "stream": "cross-dialect print", "text": s, "dialect": pd, "print_dialect": qd,
                          "request": stmt.print_request("statements", pd, qd, s), "oracle_verdict": v})
    run.add_stream("cross-dialect print", len(reqs3) + len(reqs4), len(set(x[2] for x in xs)), [{"parse": xs[0][0], "print": xs[0][1], "text": xs[0][2]}],
                   extra={"outcomes": kinds})
    run.cov["rule"] = ("dialect spellings (Hive ! / ==, DB2 CURRENT DATE ...) at every container x clause position and two levels deep vs their neutral spelling; each "
                       "dialect's own constructs round-trip in that dialect with no printer error; every (parse dialect, print dialect) pair on planted and generated "
                       "statements: printer outcome is text, NotSupportError or SqlParseError, emitted text re-parses and re-prints identically in the target dialect")
    if __import__("os").environ.get("VERIF_DEBUG"):
        seen = set()
        for f in fails:
            k = f["oracle_verdict"][:70]
            if k not in seen:
                seen.add(k)
                print("DEBUG", f.get("dialect"), f.get("print_dialect"), repr(f["text"][:110]), "=>", f["oracle_verdict"][:260])
        for d_ in dis[:6]:
            print("DEBUGDIS", d_["text"][:120], "\n  M:", d_["model"][:200], "\n  I:", d_["observed"][:200])
    stmt.conclude(run, proofs_ok, dis, fails, "Props/C13.v", "dialect oracles on the implementation (spelling equivalence, strict same-dialect round trip, cross-dialect print)")


def replay(path):
    def chk(obj):
        if obj.get("stream") == "spellings":
            a, b = core.run_impl([obj["request"], obj["request2"]])
            return None if (a == b or not b.startswith("OK ")) else "spelling and neutral spelling parse differently"
        a = core.run_impl([obj["request"]])[0]
        if obj.get("stream") == "own constructs":
            return "printer error in own dialect: " + a[:100] if (a.startswith("OK ") and "ERR:" in a) else None
        if a.startswith("OK ") and any(o.startswith("ERR:") and o not in ("ERR:NotSupport", "ERR:ParseErr") for o in a[3:].split("|")):
            return "printer raised an unrelated error"
        if obj.get("stream", "").startswith("round trip") or obj.get("stream", "").startswith("own constructs"):
            run = core.Run(PROP, "quick", 0)
            d, f, k = c01.roundtrip_cases(run, [(obj["dialect"], obj["text"])], "replay")
            return f[0]["oracle_verdict"] if f else None
        if obj.get("print_dialect") and a.startswith("OK "):
            qd = obj["print_dialect"]
            for o in a[3:].split("|"):
                if o.startswith("ERR:"):
                    continue
                p = stmt.dec(o)
                b = core.run_impl([stmt.print_request("statements", qd, qd, p)])[0]
                if b.startswith("PARSEERR") or (b.startswith("OK ") and "ERR:" not in b and stmt.dec(b[3:].split("|")[0]) != p):
                    return "emitted text is not a fixed point of the target dialect"
        return None
    return stmt.replay_generic(path, chk)
