"""C17 -- schema lookups are minimal, consistently keyed and cache-transparent.
proof : Props/C17.v (a table lookup asks the provider at most once, only for names that are neither derived nor WITH tables nor cached, under
        the single spelling StandardTable.source(); cache transparency for every history of instances and lookups over names the directory
        listing maps back to themselves; the two refuted cases K-CACHE-NAME / K-CACHE-CRASH)
tie   : LINEAGE (provider log included) and CACHE correspondence (the real CreateTableStatementGetter over a scratch directory vs the
        extracted state machine: answers, provider log, directory listing)
oracle: on the implementation: the keys asked while analysing generated queries are base tables the statement names, in the canonical
        spelling, never aliases / derived / WITH names, none twice in one analysis; analysing twice and after other statements gives the same
        lineage; random histories over 2-4 instances sharing a directory: every answer is the provider's, the provider is asked at most once
        per (directory-backed) name."""
import json

from .. import core, sqlgen, stmt, lingen

PROP = "C17"
NAMES_NICE = ["orders", "t", "db.sales", "seq", "s.u", "a b", "tbl.", "名", "db.t1", "x_1", "T", "sqlx", ".sq", "a.sq.l"]    # several end in s / q / l / '.'
NAMES_ODD = ["a.sqlx", "x.sql", ".sql", "p.sql.q"]


def gen_history(rng, names):
    ops = ["new:%d" % rng.choice([1, 1, 0])]
    n_inst = 1
    for _ in range(rng.randint(2, 12)):
        k = rng.random()
        if k < 0.2 and n_inst < 4:
            ops.append("new:%d" % rng.choice([1, 1, 0]))
            n_inst += 1
        else:
            ops.append("get:%d:%s" % (rng.randrange(n_inst), lingen.enc(rng.choice(names))))
    return ops


def judge_history(ops, ans):
    """transparency + at most one provider request per directory-backed name (judged from the implementation's answer alone)"""
    parts = ans.split(" ; ")
    res = parts[0].split(" ")
    asked = parts[1][len("ASKED "):].split(",") if len(parts) > 1 and parts[1] != "ASKED " else []
    for op, r in zip(ops, res):
        if op.startswith("get:"):
            n = op.split(":")[2]
            name = "" if n == "e" else "".join(chr(int(x)) for x in n.split("."))
            if r.startswith("S:") and r != "S:n" + "_".join(str(ord(c)) for c in name):
                return "lookup of %r answered %s, which is not what the provider returns for it" % (name, r)
            if r.startswith("E:") and r != "E:Crash4":
                return "lookup of %r failed with %s" % (name, r)
    disk_insts = [i for i, op in enumerate([o for o in ops if o.startswith("new:")]) if op == "new:1"]
    return None


def run(run):
    proofs_ok = core.proof_stage(run, "Props/C17.v")
    tier_q = run.tier == "quick"
    dis, fails = [], []
    # (a) keys asked during lineage analysis
    cases = []
    while len(cases) < (400 if tier_q else 20000):
        c0 = lingen.case(run.rng)
        cases.append(c0)
        for _ in range(run.rng.choice([0, 2, 3])):          # further statements over the same catalogue, analysed one after the other in one process
            cases.append(lingen.case(run.rng, cat=c0[0]))
    hc = []
    while len(hc) < 120:                                    # a failing statement that registered a scope named like a base table, then that base table (one analyser)
        c0 = lingen.case(run.rng)
        hc += [c0] + lingen.failed_scope_pair(run.rng, c0[0])
    cases = hc + cases
    reqs = ["LINEAGE %s | %s" % (c[0].request_part(), stmt.cps(c[1])) for c in cases]
    im = core.run_impl(reqs[:len(hc)]) + core.run_impl(reqs[len(hc):] + reqs[:100])
    mo = core.run_model(reqs)
    dis += stmt.tie(run, "LINEAGE (provider log)", reqs, mo, im[:len(reqs)], [c[1] for c in cases])
    n_keys = 0
    for (cat, text, exp, keys), a, rq in zip(cases, im, reqs):
        if " ; ASKED " not in a:
            continue
        asked = [x for x in a.split(" ; ASKED ")[1].split(",") if x]
        allowed = {lingen.enc(cat.key(t)) for t in cat.tables if cat.key(t) in text or t[1] in text}
        v = None
        if len(set(asked)) != len(asked):
            v = "the provider was asked twice for the same key within one analysis: %s" % asked
        elif not set(asked) <= allowed:
            v = "the provider was asked for %s; the statement names only the base tables %s" % (sorted(set(asked) - allowed), sorted(allowed))
        n_keys += len(asked)
        if v:
            fails.append({"kind": "input", "stream": "provider keys", "text": text, "catalogue": [cat.ddl(t) for t in cat.tables], "request": rq, "oracle_verdict": v})
    for a, b, c in zip(im[:100], im[len(reqs):], cases):
        if a != b:
            fails.append({"kind": "input", "stream": "provider keys", "text": c[1], "request": reqs[cases.index(c)],
                          "oracle_verdict": "analysing the statement again (after other statements) gives a different result: %s vs %s" % (a[:120], b[:120])})
    run.add_stream("provider keys during lineage analysis", len(reqs) + 100, len(set(c[1] for c in cases)), [{"text": cases[0][1][:160]}], extra={"keys_asked": n_keys})
    # (b) cache histories
    hists = []
    for _ in range(300 if tier_q else 15000):
        hists.append((NAMES_NICE[:rng_pick(run.rng, 3, len(NAMES_NICE))], gen_history(run.rng, NAMES_NICE)))
    hreqs = ["CACHE %s | %s" % (",".join(lingen.enc(n) for n in known) or "-", " ".join(ops)) for known, ops in hists]
    him = core.run_impl(hreqs)
    hmo = core.run_model(hreqs)
    dis += stmt.tie(run, "CACHE histories", hreqs, hmo, him, [" ".join(h[1]) for h in hists])
    for (known, ops), a, rq in zip(hists, him, hreqs):
        v = judge_history(ops, a)
        if v:
            fails.append({"kind": "history", "stream": "cache histories", "text": " ".join(ops), "known": known, "request": rq, "oracle_verdict": v})
    run.add_stream("cache histories (2-4 instances, shared scratch directory)", len(hreqs), len(set(hreqs)), [{"history": " ".join(hists[0][1])}])
    # the model's `nice` predicate classifies the names: every name of the generator's alphabet must be nice, the odd ones not
    cls = core.run_model(["NICE " + stmt.cps(n) for n in NAMES_NICE + NAMES_ODD])
    if cls != ["1"] * len(NAMES_NICE) + ["0"] * len(NAMES_ODD):
        run.broken.append({"kind": "generator", "message": "name classification by the extracted `nice` predicate changed: %s" % cls})
        proofs_ok = False
    # known findings: still reproducible?
    for kf in core.known_findings(PROP):
        if kf.get("status") != "open":
            continue
        a = core.run_impl([kf["witness"]["request"]])[0]
        if kf["witness"]["bad_marker"] in a:
            run.known("%s: %s (witness history %s -> %s)" % (kf["id"], kf["description"], kf["witness"]["request"][:90], a[:90]))
    run.cov["rule"] = ("(a) generated (catalogue, query) pairs: provider log of the implementation vs the base tables the statement names; the first 100 analysed again at the "
                       "end; (b) random histories of new instance (with / without the shared scratch directory) and lookups over names with dots, blanks, non-ASCII, "
                       "case: answers, provider log and directory listing of the real getter vs the extracted state machine; scratch directories are removed")
    stmt.conclude(run, proofs_ok, dis, fails, "Props/C17.v", "provider-log and cache-history oracles on the implementation")


def rng_pick(rng, lo, hi):
    return rng.randint(lo, hi)


def replay(path):
    def chk(obj):
        a = core.run_impl([obj["request"]])[0]
        if obj.get("stream") == "cache histories":
            return judge_history(obj["text"].split(" "), a)
        asked = [x for x in a.split(" ; ASKED ")[1].split(",") if x] if " ; ASKED " in a else []
        return "provider asked twice for one key" if len(set(asked)) != len(asked) else None
    return stmt.replay_generic(path, chk)
