"""C16 -- column lineage maps each output column to exactly its base-table sources.
proof : Props/C16.v (base-table lineage shape for every CREATE TABLE; computed instances of every construct and every rejection on the
        parser + lineage models)
tie   : LINEAGE correspondence (extracted models vs TableLineageAnalyzer with a catalogue-backed provider), sources compared as sets
oracle: lineage known by construction (harness/lingen.py): catalogues of 1-4 base tables and queries built together with their output
        columns and source sets (expressions, aliases, wildcards, joins, derived tables to depth 2, WITH, UNION, INSERT with / without a
        column list, arity mismatches, ambiguous / unknown references, argument-less aggregates)."""
import json

from .. import core, sqlgen, stmt, lingen

PROP = "C16"


def run(run):
    proofs_ok = core.proof_stage(run, "Props/C16.v")
    tier_q = run.tier == "quick"
    cases = []
    while len(cases) < (500 if tier_q else 30000):
        c0 = lingen.case(run.rng)
        cases.append(c0)
        for _ in range(run.rng.choice([0, 2, 3])):          # further statements over the same catalogue, analysed one after the other in one process
            cases.append(lingen.case(run.rng, cat=c0[0]))
    reqs = ["LINEAGE %s | %s" % (c[0].request_part(), stmt.cps(c[1])) for c in cases]
    im = core.run_impl(reqs)
    mo = core.run_model(reqs)
    dis = stmt.tie(run, "LINEAGE", reqs, mo, im, [c[1] for c in cases])
    # histories on ONE analyser (one process, in order): a statement that fails after its WITH / derived-table scope was registered, then a statement over the
    # base table of that name; the runner answers every request on a fresh analyser and on the per-catalogue long-lived one and reports a difference
    hc = []
    while len(hc) < 150:
        c0 = lingen.case(run.rng)
        hc += [c0] + lingen.failed_scope_pair(run.rng, c0[0])
    hreqs = ["LINEAGE %s | %s" % (c[0].request_part(), stmt.cps(c[1])) for c in hc]
    him = core.run_impl(hreqs)
    dis += stmt.tie(run, "LINEAGE (failed-scope histories)", hreqs, core.run_model(hreqs), him, [c[1] for c in hc])
    cases += hc
    reqs += hreqs
    im += him
    fails = []
    kinds = {}
    for (cat, text, exp, keys), a, rq in zip(cases, im, reqs):
        body = a.split(" ; ASKED ")[0]
        k = exp.split(" ")[0] + " " + exp.split(" ")[1]
        kinds[k] = kinds.get(k, 0) + 1
        if body != exp:
            fails.append({"kind": "input", "stream": "generated lineage", "text": text, "catalogue": [cat.ddl(t) for t in cat.tables], "request": rq, "expected": exp,
                          "observed": a[:600], "oracle_verdict": "lineage is %s, the query's data flow is %s" % (body[:300], exp[:300])})
    run.add_stream("generated (catalogue, query) pairs", len(reqs), len(set(c[1] for c in cases)),
                   [{"text": c[1][:200], "expected": c[2][:200]} for c in cases[:: max(1, len(cases) // 3)][:3]], extra={"expected_outcomes": kinds})
    for kf in core.known_findings(PROP):
        if kf["id"] in ("K-UNION-SCOPE", "K-DUP-NAMES", "K-SAME-TABLE-NAME", "K-LATERAL-QUALIFIER") and kf.get("status") == "open":
            w = kf["witness"]
            a = core.run_impl(["LINEAGE %s | %s" % (w["catalogue"], stmt.cps(w["text"]))])[0]
            if a.split(" ; ASKED ")[0] != w["expected"]:
                run.known("%s: %s (witness %r: %s)" % (kf["id"], kf["description"], w["text"], a[:80]))
    run.cov["rule"] = ("catalogues and queries generated with their lineage; the implementation's result (output columns in order, names, source sets; or the analysis "
                       "error) must equal the expected one; the extracted models run on the same requests, provider log included")
    stmt.conclude(run, proofs_ok, dis, fails, "Props/C16.v", "lineage known by construction (harness/lingen.py) against TableLineageAnalyzer")


def replay(path):
    def chk(obj):
        a = core.run_impl([obj["request"]])[0]
        return None if a.split(" ; ASKED ")[0] == obj["expected"] else "lineage %s, expected %s" % (a[:200], obj["expected"][:200])
    return stmt.replay_generic(path, chk)
