"""C01 -- print/parse round trip is a fixed point.
oracle (on the implementation): parse x -> ts; s = print d t; parse s == [t]; print again == s
tie: PARSE and PRINT correspondence of the extracted parser / printer models on the same inputs."""
import json

from .. import core, sqlgen, stmt, stgen, exprgen

PROP = "C01"


def roundtrip_cases(run, cases, name):
    """cases: (dialect, text).  returns (dis, fails, known_counts)"""
    reqs = [stmt.print_request("statements", d, d, s) for d, s in cases]
    preqs = [sqlgen.parse_request("statements", d, s) for d, s in cases]
    mo = core.run_model(reqs + preqs)
    im = core.run_impl(reqs + preqs)
    n = len(cases)
    dis = stmt.tie(run, name, reqs + preqs, mo, im, [s for _, s in cases] * 2)
    # second leg: re-parse every printed statement with the implementation, and print again
    second, meta = [], []
    for (d, s), pr, dump in zip(cases, im[:n], im[n:]):
        if not pr.startswith("OK "):
            continue
        trees = stmt.split_dump_list(dump) or []
        outs = pr[3:].split("|") if pr[3:] else []
        for t, o in zip(trees, outs):
            if o.startswith("ERR:"):
                if o not in ("ERR:NotSupport", "ERR:ParseErr"):
                    meta.append((d, s, t, None, "printer raised " + o))
                continue
            p = stmt.dec(o)
            second.append((d, p))
            meta.append((d, s, t, p, None))
    reqs2 = [sqlgen.parse_request("statements", d, p) for d, p in second]
    reqs3 = [stmt.print_request("statements", d, d, p) for d, p in second]
    im2 = core.run_impl(reqs2 + reqs3)
    mo2 = core.run_model(reqs2)
    dis += stmt.tie(run, name + " (re-parse)", reqs2, mo2, im2[:len(reqs2)], [p for _, p in second])
    fails = []
    known = {"K-DIALECT-OMIT": 0, "K-BARE-NAME": 0}
    it = iter(zip(im2[:len(reqs2)], im2[len(reqs2):]))
    nontriv = set()
    for d, s, t, p, err in meta:
        if err:
            fails.append({"kind": "input", "stream": name, "text": s, "dialect": d, "oracle_verdict": err, "request": sqlgen.parse_request("statements", d, s)})
            continue
        rp, pp = next(it)
        nontriv.add(p)
        verdict = None
        if rp != "OK [" + t + "]":
            verdict = "printed text %r re-parses to %s instead of the original tree" % (p[:200], rp[:200])
        elif pp != "OK " + (".".join(str(ord(c)) for c in p) if p else "-"):
            verdict = "printing the re-parsed tree does not reproduce the text %r" % p[:200]
        if verdict:
            if stmt.dialect_omits(t, d):
                known["K-DIALECT-OMIT"] += 1
                continue
            if stmt.bare_name_region(t):
                known["K-BARE-NAME"] += 1
                continue
            fails.append({"kind": "input", "stream": name, "text": s, "dialect": d, "printed": p, "tree": t[:3000], "oracle_verdict": verdict,
                          "request": sqlgen.parse_request("statements", d, s)})
    run.add_stream(name, len(cases) + len(second), len(nontriv),
                   [{"dialect": d, "text": s[:160], "printed": (p or "")[:160]} for d, s, t, p, e in meta[:: max(1, len(meta) // 3)][:3]],
                   extra={"in_known_regions": known})
    return dis, fails, known


EXPR_POSITIONS = ["SELECT {} FROM t", "SELECT 1 FROM t WHERE {}", "SELECT f({}) FROM t", "UPDATE t SET a = {}"]


def expression_cases(run, tier_q):
    trees = exprgen.enumerate_trees(1) + exprgen.enumerate_trees(2)
    t3 = exprgen.enumerate_trees(3)
    trees += t3[:: 41 if tier_q else 3]
    cases = []
    for hive, dialects in ((False, ["DEFAULT", "MYSQL"] if tier_q else ["DEFAULT", "MYSQL", "DB2", "ORACLE", "POSTGRE_SQL", "SQL_SERVER"]), (True, ["HIVE"])):
        em = exprgen.emit_all([(t, hive, [run.rng.randint(0, 11) for _ in range(12)] if i % 3 else []) for i, t in enumerate(trees)])
        for i, (text, _) in enumerate(em):
            if text is None:
                continue
            d = dialects[i % len(dialects)]
            cases.append((d, EXPR_POSITIONS[i % len(EXPR_POSITIONS)].format(text)))
    # random richer expressions (unary, keyword predicates, IN, BETWEEN, functions)
    rc = []
    for _ in range(300 if tier_q else 4000):
        rc.append((exprgen.gen(run.rng, run.rng.choice([1, 2, 2, 3])), False, [run.rng.randint(0, 11) for _ in range(30)]))
    for (text, _) in exprgen.emit_all(rc):
        if text is not None:
            cases.append((run.rng.choice(["DEFAULT", "MYSQL", "SQL_SERVER"]), run.rng.choice(EXPR_POSITIONS).format(text)))
    return cases


CONTAINERS = ["CAST({} AS CHAR)", "f({})", "f(1, {})", "IF({}, 1, 2)", "IF(x, {}, 2)", "CASE WHEN {} THEN 1 ELSE 2 END", "CASE WHEN x THEN {} END",
              "CASE {} WHEN 1 THEN 2 END", "CASE x WHEN 1 THEN 2 ELSE {} END", "sum({})", "count(DISTINCT {})", "({})", "- {}", "{} + 1", "1 * {}",
              "{} IS NULL", "{} IN (1, 2)", "x IN ({}, 2)", "x BETWEEN {} AND 9", "x BETWEEN 1 AND {}", "{} LIKE 'a'", "NOT {}", "{} AND y", "y OR {}",
              "{} = 1", "1 < {}", "EXTRACT(year FROM {})", "sum({}) OVER (PARTITION BY {} ORDER BY {})", "x IN (SELECT {} FROM u)", "(SELECT {} FROM u)",
              "EXISTS (SELECT 1 FROM u WHERE {})", "coalesce({}, {})", "substring({}, 1, 2)"]
LEAVES = {"*": ["a", "t.a", "1", "'s'", "a + b", "a * (b % c)", "a - (b - c)", "(a + b) * c", "a | b & c", "(a | b) & c", "- - a", "-(-a)", "~a", "a % b",
                "NOT a", "a AND b", "(a OR b)", "a = b", "a IS NOT NULL", "f(a)", "CAST(a AS INT)", "CASE WHEN a THEN b END", "CURRENT_DATE", "a DIV b", "a MOD b",
                "a << 1", "a ^ b"],
          "HIVE": ["a[0]", "m['k']", "f(a)[1]", "! a", "a == b", "a[0][1]"],
          "DB2": ["CURRENT DATE", "CURRENT TIMESTAMP"]}
CLAUSES = ["SELECT {} FROM t", "SELECT 1 FROM t WHERE {}", "SELECT 1 FROM t GROUP BY a HAVING {}", "SELECT 1 FROM t JOIN u ON {}", "SELECT 1 FROM t ORDER BY {}",
           "UPDATE t SET a = {}", "DELETE FROM t WHERE {}", "INSERT INTO t VALUES ({})", "SELECT 1 FROM t GROUP BY {}"]


def nesting_cases(run, tier_q):
    cases = []
    dialects = stmt.DIALECTS[:4] if tier_q else stmt.DIALECTS
    for d in dialects:
        leaves = LEAVES["*"] + LEAVES.get(d, [])
        for ci, c in enumerate(CONTAINERS):
            for li, leaf in enumerate(leaves):
                if tier_q and (ci + li) % 3 and leaf in LEAVES["*"]:
                    continue
                cl = CLAUSES[(ci * 7 + li) % len(CLAUSES)] if not tier_q or (ci + li) % 2 else CLAUSES[0]
                cases.append((d, cl.format(c.replace("{}", leaf))))
        if not tier_q:
            for c1 in CONTAINERS[::2]:
                for c2 in CONTAINERS[1::3]:
                    leaf = run.rng.choice(leaves)
                    cases.append((d, "SELECT " + c1.replace("{}", c2.replace("{}", leaf)) + " FROM t"))
    return cases


def run(run):
    proofs_ok = core.proof_stage(run, "Props/C01.v")
    tier_q = run.tier == "quick"
    cases = stmt.gen_cases(run, stmt.DIALECTS, 290 if tier_q else 6000)
    dis, fails, known = roundtrip_cases(run, cases, "round trip")
    # statements of the structure-aware generator (windows with every frame shape, CASE / CAST / EXTRACT, nested queries, WITH, Hive clauses, brackets)
    g = stgen.G(run.rng)
    scases = []
    for i in range(300 if tier_q else 4000):
        t = g.statement()[0] if i % 8 else g.paren_case()[0]
        scases.append(("HIVE" if g.hive else run.rng.choice(stmt.DIALECTS), t))
    d0, f0, k0 = roundtrip_cases(run, scases, "round trip: structure-aware statements")
    dis += d0
    fails += f0
    for k in known:
        known[k] += k0.get(k, 0)
    # directed streams: (1) every operator tree shape (= every explicit grouping) through the specification's emitter,
    # (2) every container construct around every dialect-sensitive / grouping-sensitive leaf
    d1, f1, k1 = roundtrip_cases(run, expression_cases(run, tier_q), "round trip: operator trees with explicit grouping")
    d2, f2, k2 = roundtrip_cases(run, nesting_cases(run, tier_q), "round trip: container x leaf")
    dis += d1 + d2
    fails += f1 + f2
    for k in known:
        known[k] += k1.get(k, 0) + k2.get(k, 0)
    run.cov["rule"] = ("generated statements of every kind + the shipped corpora, per dialect: parse, print in the same dialect, re-parse, compare trees "
                       "(canonical reflective dump), print again, compare texts; all on the implementation, and the extracted parser / printer models are "
                       "run on the same requests (tie). distinct_nontrivial = distinct printed statements that were re-parsed.")
    kfs = {k["id"]: k for k in core.known_findings(PROP)}
    for kid in ("K-DIALECT-OMIT", "K-BARE-NAME"):
        k = kfs.get(kid)
        if k and k.get("status") == "open":
            w = k["witness"]
            d2, f2, kn = roundtrip_cases(run, [(w["dialect"], w["text"])], "known-finding witness " + kid)
            if kn.get(kid):
                run.known("%s: %s (witness %r, dialect %s)" % (kid, k["description"], w["text"], w["dialect"]))
            fails += f2
        elif known.get(kid):
            fails.append({"kind": "input", "text": "(region %s hit %d times but the finding is not recorded)" % (kid, known[kid]), "oracle_verdict": "unrecorded region"})
    stmt.conclude(run, proofs_ok, dis, fails, "Props/C01.v", "round-trip oracle on the implementation (parse . print . parse, print . parse . print)")


def replay(path):
    def chk(obj):
        run = core.Run(PROP, "quick", 0)
        d, f, k = roundtrip_cases(run, [(obj["dialect"], obj["text"])], "replay")
        return f[0]["oracle_verdict"] if f else None
    return stmt.replay_generic(path, chk)
