"""C01 -- print/parse round trip is a fixed point.
oracle (on the implementation): parse x -> ts; s = print d t; parse s == [t]; print again == s
tie: PARSE and PRINT correspondence of the extracted parser / printer models on the same inputs."""
import json

from .. import core, sqlgen, stmt

PROP = "C01"


def roundtrip_cases(run, cases, name):
    """cases: (dialect, text).  returns (dis, fails, known_counts)"""
    reqs = [stmt.print_request("statements", d, d, s) for d, s in cases]
    preqs = [sqlgen.parse_request("statements", d, s) for d, s in cases]
    mo = core.run_model(reqs + preqs)
    im = core.run_impl(reqs + preqs)
    n = len(cases)
    dis = stmt.tie(run, name, reqs + preqs, mo, im, [s for _, s in cases] * 2)
    # second leg: re-parse every printed statement with the implementation, and print again
    second, meta = [], []
    for (d, s), pr, dump in zip(cases, im[:n], im[n:]):
        if not pr.startswith("OK "):
            continue
        trees = stmt.split_dump_list(dump) or []
        outs = pr[3:].split("|") if pr[3:] else []
        for t, o in zip(trees, outs):
            if o.startswith("ERR:"):
                if o not in ("ERR:NotSupport", "ERR:ParseErr"):
                    meta.append((d, s, t, None, "printer raised " + o))
                continue
            p = stmt.dec(o)
            second.append((d, p))
            meta.append((d, s, t, p, None))
    reqs2 = [sqlgen.parse_request("statements", d, p) for d, p in second]
    reqs3 = [stmt.print_request("statements", d, d, p) for d, p in second]
    im2 = core.run_impl(reqs2 + reqs3)
    mo2 = core.run_model(reqs2)
    dis += stmt.tie(run, name + " (re-parse)", reqs2, mo2, im2[:len(reqs2)], [p for _, p in second])
    fails = []
    known = {"K-DIALECT-OMIT": 0, "K-BARE-NAME": 0}
    it = iter(zip(im2[:len(reqs2)], im2[len(reqs2):]))
    nontriv = set()
    for d, s, t, p, err in meta:
        if err:
            fails.append({"kind": "input", "stream": name, "text": s, "dialect": d, "oracle_verdict": err, "request": sqlgen.parse_request("statements", d, s)})
            continue
        rp, pp = next(it)
        nontriv.add(p)
        verdict = None
        if rp != "OK [" + t + "]":
            verdict = "printed text %r re-parses to %s instead of the original tree" % (p[:200], rp[:200])
        elif pp != "OK " + (".".join(str(ord(c)) for c in p) if p else "-"):
            verdict = "printing the re-parsed tree does not reproduce the text %r" % p[:200]
        if verdict:
            if stmt.dialect_omits(t, d):
                known["K-DIALECT-OMIT"] += 1
                continue
            if stmt.bare_name_region(t):
                known["K-BARE-NAME"] += 1
                continue
            fails.append({"kind": "input", "stream": name, "text": s, "dialect": d, "printed": p, "tree": t[:3000], "oracle_verdict": verdict,
                          "request": sqlgen.parse_request("statements", d, s)})
    run.add_stream(name, len(cases) + len(second), len(nontriv),
                   [{"dialect": d, "text": s[:160], "printed": (p or "")[:160]} for d, s, t, p, e in meta[:: max(1, len(meta) // 3)][:3]],
                   extra={"in_known_regions": known})
    return dis, fails, known


def run(run):
    proofs_ok = core.proof_stage(run, "Props/C01.v")
    tier_q = run.tier == "quick"
    cases = stmt.gen_cases(run, stmt.DIALECTS[:4] if tier_q else stmt.DIALECTS, 500 if tier_q else 6000)
    dis, fails, known = roundtrip_cases(run, cases, "round trip")
    run.cov["rule"] = ("generated statements of every kind + the shipped corpora, per dialect: parse, print in the same dialect, re-parse, compare trees "
                       "(canonical reflective dump), print again, compare texts; all on the implementation, and the extracted parser / printer models are "
                       "run on the same requests (tie). distinct_nontrivial = distinct printed statements that were re-parsed.")
    kfs = {k["id"]: k for k in core.known_findings(PROP)}
    for kid in ("K-DIALECT-OMIT", "K-BARE-NAME"):
        k = kfs.get(kid)
        if k and k.get("status") == "open":
            w = k["witness"]
            d2, f2, kn = roundtrip_cases(run, [(w["dialect"], w["text"])], "known-finding witness " + kid)
            if kn.get(kid):
                run.known("%s: %s (witness %r, dialect %s)" % (kid, k["description"], w["text"], w["dialect"]))
            fails += f2
        elif known.get(kid):
            fails.append({"kind": "input", "text": "(region %s hit %d times but the finding is not recorded)" % (kid, known[kid]), "oracle_verdict": "unrecorded region"})
    stmt.conclude(run, proofs_ok, dis, fails, "Props/C01.v", "round-trip oracle on the implementation (parse . print . parse, print . parse . print)")


def replay(path):
    def chk(obj):
        run = core.Run(PROP, "quick", 0)
        d, f, k = roundtrip_cases(run, [(obj["dialect"], obj["text"])], "replay")
        return f[0]["oracle_verdict"] if f else None
    return stmt.replay_generic(path, chk)
