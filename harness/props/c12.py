"""C12 -- results depend only on the input text and dialect.
proof : Props/C12.v (schedule independence of read-only-sharing threads; regenerated frame census: no function writes shared state, no
        ordered result is built from set iteration; models are functions)
tie   : the pool is also answered by the extracted models (history-free by construction) and compared with the implementation
oracle: one pool of lexing / parsing / printing / analysing / lineage requests, valid and invalid, mixed dialects and entry points, answered
        by the implementation (a) in one process in order, reversed and shuffled, (b) in fresh processes, (c) from 8 threads started together,
        (d) in processes with different PYTHONHASHSEED values; every request must get the same answer in every run (lineage source lists
        compared in order, not as sets)."""
import json
import os

from .. import core, sqlgen, stmt, lingen

PROP = "C12"


def pool(run, n):
    reqs = []
    for d in stmt.DIALECTS[:4]:
        for s in sqlgen.gen_statements(run.rng, n, d, maxlen=220):
            k = run.rng.random()
            if k < 0.4:
                reqs.append(sqlgen.parse_request("statements", d, s))
            elif k < 0.6:
                reqs.append(stmt.print_request("statements", d, run.rng.choice(stmt.DIALECTS), s))
            elif k < 0.7:
                reqs.append("LEX 0 7 " + stmt.cps(s))
            elif k < 0.85 and s.upper().startswith(("SELECT", "WITH")):
                reqs.append("WALK %s DEFAULT %s" % (run.rng.choice(["tables_all", "all", "select", "where", "order_by"]), stmt.cps(s)))
            else:
                reqs.append(sqlgen.parse_request("statements", d, sqlgen.mutants(run.rng, s, 1)[0]))
    for _ in range(n):
        c = lingen.case(run.rng)
        reqs.append("LINEAGEO %s | %s" % (c[0].request_part(), stmt.cps(c[1])))
    # argument-less aggregates over relations that read several tables: the branch that lists the upstream tables of a lineage object
    e = lingen.enc
    cat = "%s=%s,%s=%s,%s=%s" % (e("t"), e("CREATE TABLE t (a INT, b INT)"), e("db.u"), e("CREATE TABLE db.u (c INT, d INT)"), e("w1"), e("CREATE TABLE w1 (k INT)"))
    for q in ["SELECT count(1) AS n FROM (SELECT t.a, u.c, w1.k FROM t, db.u, w1) d", "SELECT count(1) AS n, sum(1) AS m FROM (SELECT t.a AS x, u.d AS y FROM t JOIN db.u ON t.a = u.c) d, w1",
              "WITH w AS (SELECT t.a, u.c FROM t, db.u) SELECT count(1) AS n FROM w"]:
        reqs.append("LINEAGEO %s | %s" % (cat, stmt.cps(q)))
    run.rng.shuffle(reqs)
    reqs = reqs[:380]
    # spellings whose meaning depends on the dialect, under every dialect: an earlier call in another dialect must not change them
    for q in ["SELECT !a = b FROM t", "SELECT a FROM t WHERE !(a > 1) AND b == 2", "SELECT CURRENT DATE FROM t", "SELECT a % 2, arr[1] FROM t", "SELECT a FROM t WHERE NOT a = b",
              "SELECT CAST(a AS DOUBLE PRECISION), CAST(b AS CHARACTER VARYING) FROM t", "SELECT CAST(a AS UNSIGNED INT), CAST(b AS SIGNED) FROM t"]:
        for d in ("HIVE", "MYSQL", "DEFAULT", "DB2", "HIVE", "ORACLE"):
            reqs.insert(run.rng.randrange(len(reqs) + 1), sqlgen.parse_request("statements", d, q))
            reqs.insert(run.rng.randrange(len(reqs) + 1), stmt.print_request("statements", d, run.rng.choice(["HIVE", "MYSQL", "DB2"]), q))
    # the same text handed to both shipped parser / lexer classes (a '#' means different things to them), valid and invalid, in both orders
    for q in ["SELECT a FROM t # c\n", "SELECT a, #{p} FROM t", "SELECT 1 # {x}\n FROM t -- #{y}", "SELECT a FROM t WHERE b = #{v} AND c = 1", "SELECT #", "SELECT a FROM t WHERE b == #{v}",
              "SELECT '#{q}' FROM t WHERE a = 1"]:
        for d in ("DEFAULT", "HIVE"):
            for mb in (0, 1, 0, 1):
                reqs.insert(run.rng.randrange(len(reqs) + 1), sqlgen.parse_request("statements", d, q, bool(mb)))
        for mb in (0, 1, 1, 0):
            reqs.insert(run.rng.randrange(len(reqs) + 1), "LEX %d 7 %s" % (mb, stmt.cps(q)))
    # interpreter-wide settings, observed between the other requests
    for _ in range(12):
        reqs.insert(run.rng.randrange(len(reqs) + 1), "STATE")
    return ["STATE"] + reqs + ["STATE"]               # observed before the first and after the last request of every run, too


def answers_single(reqs, extra_args=(), hashseed=None):
    old = os.environ.get("VERIF_HASHSEED")
    if hashseed is not None:
        os.environ["VERIF_HASHSEED"] = str(hashseed)
    try:
        return core.run_impl(reqs, extra_args=extra_args)       # fewer than 400 requests: one process, this order
    finally:
        if hashseed is not None:
            if old is None:
                os.environ.pop("VERIF_HASHSEED", None)
            else:
                os.environ["VERIF_HASHSEED"] = old


def run(run):
    proofs_ok = core.proof_stage(run, "Props/C12.v")
    tier_q = run.tier == "quick"
    reqs = pool(run, 40 if tier_q else 80)
    base = answers_single(reqs)
    ref = dict(zip(reqs, base))
    fails, dis = [], []
    st = [a for r, a in zip(reqs, base) if r == "STATE"]
    if len(set(st)) > 1:
        i = next(j for j, (r, a) in enumerate(zip(reqs, base)) if r == "STATE" and a != st[0])
        prev = max(j for j in range(i) if reqs[j] == "STATE")
        fails.append({"kind": "history", "stream": "interpreter-wide settings", "text": "STATE", "request": "STATE", "schedule": "one process, in order",
                      "history": [r[:200] for r in reqs[prev + 1:i]][:40],
                      "oracle_verdict": "interpreter-wide settings change while the library answers requests: %s -> %s" % (st[0][:120], base[i][:120])})
    runs = 1

    def compare(name, rs, ans):
        for rq, a in zip(rs, ans):
            if ref[rq] != a:
                fails.append({"kind": "history", "stream": name, "text": rq[:300], "request": rq, "schedule": name,
                              "oracle_verdict": "the same request is answered differently (%s): %s  vs  %s" % (name, ref[rq][:150], a[:150])})
                return
    rev = list(reversed(reqs))
    compare("same process, reversed order", rev, answers_single(rev))
    for k in range(2 if tier_q else 6):
        sh = list(reqs)
        run.rng.shuffle(sh)
        compare("same process, shuffled order", sh, answers_single(sh))
        runs += 1
    # fresh processes: one request per process for a sample, and 16-way sharding of a 20x repeated pool
    sample = reqs[:: 12 if tier_q else 4]
    for rq in sample:
        compare("fresh process", [rq], core.run_impl([rq]))
    big = reqs * (3 if tier_q else 12)
    compare("16 processes, repeated pool", big, core.run_impl(big))
    # threads
    for k in range(2 if tier_q else 5):
        compare("8 threads started together", reqs, answers_single(reqs, extra_args=("--threads", "8")))
        runs += 1
    # hash seeds
    seeds = [1, 2, 3, 17] if tier_q else list(range(1, 17))
    for hs in seeds:
        compare("PYTHONHASHSEED=%d" % hs, reqs, answers_single(reqs, hashseed=hs))
        runs += 1
    # tie: the models answer the modelled request kinds of the pool
    modelled = [r for r in reqs if not r.startswith(("LINEAGEO", "STATE"))]
    mo = core.run_model(modelled)
    dis += stmt.tie(run, "pool on the models", modelled, mo, [ref[r] for r in modelled], modelled)
    kinds = {}
    for r in reqs:
        kinds[r.split()[0]] = kinds.get(r.split()[0], 0) + 1
    run.add_stream("one pool under many histories / schedules / hash seeds", len(reqs) * (runs + 3) + len(sample) + len(big), len(set(reqs)),
                   [{"request": reqs[0][:120]}], extra={"pool": kinds, "hash_seeds": seeds, "threads": 8})
    run.cov["rule"] = ("pool of ~380 requests (PARSE / PRINT / LEX / WALK / lineage with ordered source lists; valid statements and malformed mutants; 4 dialects) answered in "
                       "order, reversed, shuffled, one per fresh process, sharded over 16 processes with repetition, from 8 threads with a barrier start, and under "
                       "several PYTHONHASHSEED values: every answer must equal the first run's; the extracted models answer the same pool")
    stmt.conclude(run, proofs_ok, dis, fails, "Props/C12.v", "equal answers under every history, schedule and hash seed (implementation)")


def replay(path):
    def chk(obj):
        rq = obj["request"]
        seen = set()
        for hs in (0, 1, 2, 3, 17):
            seen.add(answers_single([rq], hashseed=hs)[0])
        seen.add(answers_single([rq] * 8, extra_args=("--threads", "8"))[0])
        return None if len(seen) == 1 else "answers differ: %s" % sorted(seen)[:2]
    return stmt.replay_generic(path, chk)
