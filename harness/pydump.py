"""Reflective dump of metasequoia-sql values (AST nodes = frozen dataclasses, tuples, lists, enums, atoms) into
 (a) the canonical text compared byte-wise with the extracted model's answer, and (b) a Coq `value` literal."""
import dataclasses
import enum


def cps(s):
    return ".".join(str(ord(c)) for c in s)


def dump(v):
    if v is None:
        return "None"
    if v is True:
        return "T"
    if v is False:
        return "F"
    if isinstance(v, enum.Enum):
        return "%s.%s" % (type(v).__name__, v.name)
    if isinstance(v, int):
        return "i:%d" % v
    if isinstance(v, str):
        return "s:" + cps(v)
    if isinstance(v, tuple):
        return "(" + ",".join(dump(x) for x in v) + ")"
    if isinstance(v, list):
        return "[" + ",".join(dump(x) for x in v) + "]"
    if dataclasses.is_dataclass(v) and not isinstance(v, type):
        return "%s{%s}" % (type(v).__name__, ";".join("%s=%s" % (f.name, dump(getattr(v, f.name))) for f in dataclasses.fields(v)))
    if isinstance(v, (set, frozenset)):
        return "{" + ",".join(sorted(dump(x) for x in v)) + "}"
    if isinstance(v, dict):
        return "<" + ",".join("%s:%s" % (dump(k), dump(x)) for k, x in v.items()) + ">"
    return "?%s" % type(v).__name__


def coq_str(s):
    return "[" + "; ".join(str(ord(c)) for c in s) + "]"


def coq_value(v):
    if v is None:
        return "VNone"
    if v is True:
        return "(VBool true)"
    if v is False:
        return "(VBool false)"
    if isinstance(v, enum.Enum):
        return '(VEnum "%s" "%s")' % (type(v).__name__, v.name)
    if isinstance(v, int):
        return "(VInt (%d)%%Z)" % v
    if isinstance(v, str):
        return "(VStr %s)" % coq_str(v)
    if isinstance(v, tuple):
        return "(VTuple [" + "; ".join(coq_value(x) for x in v) + "])"
    if isinstance(v, list):
        return "(VList [" + "; ".join(coq_value(x) for x in v) + "])"
    if dataclasses.is_dataclass(v) and not isinstance(v, type):
        return '(VNode "%s" [%s])' % (type(v).__name__, "; ".join('("%s", %s)' % (f.name, coq_value(getattr(v, f.name))) for f in dataclasses.fields(v)))
    raise ValueError("cannot translate %r" % (v,))
