"""Reflective dump of metasequoia-sql values (AST nodes = frozen dataclasses, tuples, lists, enums, atoms) into
 (a) the canonical text compared byte-wise with the extracted model's answer, and (b) a Coq `value` literal."""
import dataclasses
import enum


def cps(s):
    return ".".join(str(ord(c)) for c in s)


def dump(v):
    """same text as dump_rec, without recursion (a flat chain of 1500 operands is a 1500-deep left-nested tree)"""
    out = []
    stack = [v]
    while stack:
        x = stack.pop()
        if isinstance(x, _Lit):
            out.append(x.s)
        elif x is None or x is True or x is False or isinstance(x, (enum.Enum, int, str)):
            out.append(dump_rec(x))
        elif isinstance(x, (tuple, list)):
            o, c = ("(", ")") if isinstance(x, tuple) else ("[", "]")
            items = [_Lit(c)]
            for i, e in enumerate(reversed(x)):
                items.append(e)
                if i != len(x) - 1:
                    items.append(_Lit(","))
            items.append(_Lit(o))
            stack.extend(items)
        elif dataclasses.is_dataclass(x) and not isinstance(x, type):
            fs = dataclasses.fields(x)
            items = [_Lit("}")]
            for i, f in enumerate(reversed(fs)):
                items.append(getattr(x, f.name))
                items.append(_Lit(f.name + "="))
                if i != len(fs) - 1:
                    items.append(_Lit(";"))
            items.append(_Lit(type(x).__name__ + "{"))
            stack.extend(items)
        else:
            out.append(dump_rec(x))
    return "".join(out)


class _Lit:
    __slots__ = ("s",)

    def __init__(self, s):
        self.s = s


def dump_rec(v):
    if v is None:
        return "None"
    if v is True:
        return "T"
    if v is False:
        return "F"
    if isinstance(v, enum.Enum):
        return "%s.%s" % (type(v).__name__, v.name)
    if isinstance(v, int):
        return "i:%d" % v
    if isinstance(v, str):
        return "s:" + cps(v)
    if isinstance(v, tuple):
        return "(" + ",".join(dump_rec(x) for x in v) + ")"
    if isinstance(v, list):
        return "[" + ",".join(dump_rec(x) for x in v) + "]"
    if dataclasses.is_dataclass(v) and not isinstance(v, type):
        return "%s{%s}" % (type(v).__name__, ";".join("%s=%s" % (f.name, dump_rec(getattr(v, f.name))) for f in dataclasses.fields(v)))
    if isinstance(v, (set, frozenset)):
        return "{" + ",".join(sorted(dump_rec(x) for x in v)) + "}"
    if isinstance(v, dict):
        return "<" + ",".join("%s:%s" % (dump_rec(k), dump_rec(x)) for k, x in v.items()) + ">"
    return "?%s" % type(v).__name__


def coq_str(s):
    return "[" + "; ".join(str(ord(c)) for c in s) + "]"


def coq_value(v):
    if v is None:
        return "VNone"
    if v is True:
        return "(VBool true)"
    if v is False:
        return "(VBool false)"
    if isinstance(v, enum.Enum):
        return '(VEnum "%s" "%s")' % (type(v).__name__, v.name)
    if isinstance(v, int):
        return "(VInt (%d)%%Z)" % v
    if isinstance(v, str):
        return "(VStr %s)" % coq_str(v)
    if isinstance(v, tuple):
        return "(VTuple [" + "; ".join(coq_value(x) for x in v) + "])"
    if isinstance(v, list):
        return "(VList [" + "; ".join(coq_value(x) for x in v) + "])"
    if dataclasses.is_dataclass(v) and not isinstance(v, type):
        return '(VNode "%s" [%s])' % (type(v).__name__, "; ".join('("%s", %s)' % (f.name, coq_value(getattr(v, f.name))) for f in dataclasses.fields(v)))
    raise ValueError("cannot translate %r" % (v,))
