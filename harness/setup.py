"""./check --setup : build the whole framework from the files on disk (offline)."""
import os
from . import core


def main():
    with core.Lock():
        for name, ok, msg in core.regen():
            print("regen %-10s %s %s" % (name, "ok" if ok else "FAILED", msg.splitlines()[-1] if msg else ""))
        ok, log = core.coq_make([f for f in core.coq_files()])
        print(log[-3000:])
        if not ok:
            print("setup: Coq build reported errors (checks will report the broken obligations themselves)")
        okm, logm = core.build_modelrun()
        print("modelrun:", "ok" if okm else "FAILED\n" + logm[-2000:])
        return 0 if okm else 1
