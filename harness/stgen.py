"""Structure-aware statement generator for C03: every statement is built from a small specification and comes with the tree the grammar
says it must produce (a nested dict {"_": class, field: value}); written against the property text and the SQL grammar, independently of
the models.  `parse_dump` reads the canonical reflective dump of the implementation back into the same shape for comparison."""


# ---------------------------------------------------------------- expected-tree constructors
def N(cls, **fields):
    d = {"_": cls}
    d.update(fields)
    return d


def col(name, table=None):
    return N("ASTColumnNameExpression", table_name=table, column_name=name)


def lit(text):
    return N("ASTLiteralExpression", value=text)


def tbl(name, schema=None):
    return N("ASTTableNameExpression", schema_name=schema, table_name=name)


def cmpx(l, op, r):
    return N("ASTOperatorConditionExpression", before_value=l, after_value=r, operator=N("ASTCompareOperator", enum="EnumCompareOperator." + op))


def binx(l, op, r):
    return N("ASTComputeExpression", before_value=l, after_value=r, operator=N("ASTComputeOperator", enum="EnumComputeOperator." + op))


def fn(name, *args):
    return N("ASTNormalFunctionExpression", name=N("ASTFunctionNameExpression", schema_name=None, function_name=name), params=tuple(args))


def agg(name, *args, distinct=False):
    return N("ASTAggregationFunction", name=N("ASTFunctionNameExpression", schema_name=None, function_name=name), params=tuple(args), is_distinct=distinct)


EMPTY_WITH = N("ASTWithClause", tables=())
CMP = {"=": "EQ", "<": "LT", ">": "GT", "<=": "LTE", ">=": "GTE", "!=": "NEQ", "<>": "NEQ"}
BIN = {"+": "PLUS", "-": "SUBTRACT", "*": "MULTIPLE", "/": "DIVIDE"}


class G:
    def __init__(self, rng, rich=True):
        self.r = rng
        self.rich_on = rich          # CASE / CAST / EXTRACT / IF / windows / unary / sub-queries / derived tables / WITH / Hive clauses
        self.depth = 0               # nesting depth of sub-queries being generated
        self.hive = False            # the statement generated last uses a clause only the Hive printer emits

    def pick(self, xs):
        return self.r.choice(xs)

    def kw(self, s):
        return s if self.r.random() < 0.7 else s.lower()

    def name(self):
        return self.pick(["a", "b", "c", "k", "amount", "user_id", "dt"])

    def value(self):
        """a compute-level expression: (text, tree)"""
        if self.rich_on and self.r.random() < 0.22:
            return self.rich()
        k = self.r.random()
        if k < 0.4:
            n = self.name()
            if self.r.random() < 0.3:
                t = self.pick(["t", "u", "x1", "b", "x", "B", "n"])         # one-letter qualifiers too (b / x / n start literal prefixes in the lexer)
                return "%s.%s" % (t, n), col(n, t)
            return n, col(n)
        if k < 0.65:
            l = self.pick(["1", "42", "'x'", "'it''s'", "3.14", "NULL", "TRUE", "null", "true", "false"] if self.rich_on else ["1", "42", "'x'", "'it''s'", "3.14", "NULL", "TRUE"])
            return l, lit(l)
        if k < 0.8:
            a, ta = self.atom()
            b, tb = self.atom()
            op = self.pick(list(BIN))
            return "%s %s %s" % (a, op, b), binx(ta, BIN[op], tb)
        a, ta = self.atom()
        f = self.pick(["f", "coalesce", "lower"])
        return "%s(%s, 1)" % (f, a), fn(f, ta, lit("1"))

    def sub_select(self):
        """a nested query (text, tree), at most two levels deep"""
        self.depth += 1
        try:
            return self.select() if self.r.random() < 0.25 else self.single_select()
        finally:
            self.depth -= 1

    def window(self):
        r = self.r
        n = self.name()
        f = self.pick([("SUM(%s)" % n, agg("SUM", col(n))), ("row_number()", fn("row_number")), ("lag(%s, 1)" % n, fn("lag", col(n), lit("1"))), ("max(%s)" % n, agg("max", col(n)))])
        parts, ords, rows = (), (), None
        inner = []
        if r.random() < 0.6:
            ps = [self.atom_col() for _ in range(r.randint(1, 2))]
            inner.append("PARTITION BY " + ", ".join(p[0] for p in ps))
            parts = tuple(p[1] for p in ps)
        if r.random() < 0.6:
            o, ords = self.order_items()
            inner.append("ORDER BY " + o)
        if r.random() < 0.5:
            def item(first):
                k = r.random()
                if k < 0.3:
                    return "CURRENT ROW", N("ASTWindowRowItem", row_type="EnumWindowRowType.CURRENT_ROW", is_unbounded=False, row_num=None)
                d = self.pick(["PRECEDING", "FOLLOWING"])
                if k < 0.55:
                    return "UNBOUNDED " + d, N("ASTWindowRowItem", row_type="EnumWindowRowType." + d, is_unbounded=True, row_num=None)
                m = r.choice([0, 0, 1, 2, 5, 9])
                return "%d %s" % (m, d), N("ASTWindowRowItem", row_type="EnumWindowRowType." + d, is_unbounded=False, row_num=m)
            a, ta = item(True)
            b, tb = item(False)
            inner.append("ROWS BETWEEN %s AND %s" % (a, b))
            rows = N("ASTWindowRow", from_row=ta, to_row=tb)
        return "%s OVER (%s)" % (f[0], " ".join(inner)), N("ASTWindowExpression", window_function=f[1], partition_by_columns=parts, order_by_columns=ords, row_expression=rows)

    def atom_col(self):
        n = self.name()
        return n, col(n)

    def rich(self):
        """expression forms beyond names, literals and one operator: (text, tree)"""
        r = self.r
        k = r.random()
        if k < 0.13:
            whens = [(self.simple_cond(), self.atom()) for _ in range(r.randint(1, 2))]
            els = (self.atom() if r.random() < 0.7 else self.pick([("NULL", lit("NULL")), ("null", lit("null"))])) if r.random() < 0.6 else None
            return "CASE " + " ".join("WHEN %s THEN %s" % (c[0], v[0]) for c, v in whens) + (" ELSE " + els[0] if els else "") + " END", \
                N("ASTCaseConditionExpression", cases=tuple(N("ASTCaseConditionItem", when=c[1], then=v[1]) for c, v in whens), else_value=els[1] if els else None)
        if k < 0.22:
            n = self.name()
            whens = [(self.atom(), self.atom()) for _ in range(r.randint(1, 2))]
            els = self.atom() if r.random() < 0.5 else None
            return "CASE %s " % n + " ".join("WHEN %s THEN %s" % (c[0], v[0]) for c, v in whens) + (" ELSE " + els[0] if els else "") + " END", \
                N("ASTCaseValueExpression", case_value=col(n), cases=tuple(N("ASTCaseValueItem", when=c[1], then=v[1]) for c, v in whens), else_value=els[1] if els else None)
        if k < 0.33:
            a, ta = self.atom_col()
            ty = self.pick([("CHAR", False, "CHAR", None), ("SIGNED INT", True, "INT", None), ("DECIMAL(10, 2)", False, "DECIMAL", (10, 2)), ("DATE", False, "DATE", None),
                            ("DECIMAL(8)", False, "DECIMAL", (8,)), ("STRING", False, "STRING", None), ("BIGINT", False, "BIGINT", None)])
            return "CAST(%s AS %s)" % (a, ty[0]), N("ASTCastFunctionExpression", name=N("ASTFunctionNameExpression", schema_name=None, function_name="CAST"), column_expression=ta,
                                                    cast_type=N("ASTCastDataType", signed=ty[1], type="EnumCastDataType." + ty[2], params=ty[3]))
        if k < 0.39:
            u = self.pick(["YEAR", "MONTH", "DAY"])
            a, ta = self.atom_col()
            return "EXTRACT(%s FROM %s)" % (u, a), N("ASTExtractFunctionExpression", name=N("ASTFunctionNameExpression", schema_name=None, function_name="EXTRACT"),
                                                     extract_name=col(u), column_expression=ta)
        if k < 0.47:
            c, tc = self.simple_cond()
            a, ta = self.atom()
            b, tb = self.atom()
            return "IF(%s, %s, %s)" % (c, a, b), fn("IF", tc, ta, tb)
        if k < 0.62:
            return self.window()
        if k < 0.72:
            op = self.pick([("-", "SUBTRACT"), ("~", "BITWISE_INVERSION"), ("+", "PLUS")])
            a, ta = self.atom_col()
            return "%s%s" % (op[0], a), N("ASTUnaryExpression", operator=N("ASTComputeOperator", enum="EnumComputeOperator." + op[1]), expression=ta)
        if k < 0.82:
            a, ta = self.atom()
            b, tb = self.atom()
            c, tc = self.atom()
            o1, o2 = self.pick(["+", "-"]), self.pick(["*", "/"])
            return "(%s %s %s) %s %s" % (a, o1, b, o2, c), binx(binx(ta, BIN[o1], tb), BIN[o2], tc)
        if k < 0.88:
            n = self.name()
            return "db.f(%s)" % n, N("ASTNormalFunctionExpression", name=N("ASTFunctionNameExpression", schema_name="db", function_name="f"), params=(col(n),))
        if k < 0.93:
            return "COUNT(*)", agg("COUNT", N("ASTWildcardExpression", table_name=None))
        if self.depth < 2:
            q, tq = self.sub_select()
            return "(%s)" % q, N("ASTSubQueryExpression", statement=tq)
        return self.atom()

    def simple_cond(self):
        a, ta = self.atom_col()
        b, tb = self.atom()
        op = self.pick(list(CMP))
        return "%s %s %s" % (a, op, b), cmpx(ta, CMP[op], tb)

    def atom(self):
        n = self.name()
        if self.r.random() < 0.5:
            return n, col(n)
        l = self.pick(["1", "7", "'s'"])
        return l, lit(l)

    def cond(self):
        """a condition: (text, tree)"""
        a, ta = self.value()
        b, tb = self.value()
        op = self.pick(list(CMP))
        t, tr = "%s %s %s" % (a, op, b), cmpx(ta, CMP[op], tb)
        k = self.r.random()
        if self.rich_on and self.r.random() < 0.3:
            r = self.r
            j = r.random()
            n = self.name()
            if j < 0.3:
                kw = self.pick([("LIKE", "ASTLikeExpression"), ("RLIKE", "ASTRlikeExpression"), ("REGEXP", "ASTRegexpExpression")])
                neg = r.random() < 0.4
                p = self.pick(["'x%'", "'^a.*'", "'_b'"])
                return "%s %s%s %s" % (n, "NOT " if neg else "", kw[0], p), N(kw[1], is_not=neg, before_value=col(n), after_value=lit(p))
            if j < 0.42:
                return "NOT %s" % t, N("ASTLogicalNotExpression", expression=tr)
            if j < 0.52:
                c, tc = self.simple_cond()
                return "%s XOR %s" % (t, c), N("ASTLogicalXorExpression", before_value=tr, after_value=tc)
            if j < 0.64:
                c, tc = self.simple_cond()
                d, td = self.simple_cond()
                return "(%s OR %s) AND %s" % (t, c, d), N("ASTLogicalAndExpression", before_value=N("ASTLogicalOrExpression", before_value=tr, after_value=tc), after_value=td)
            if self.depth < 2:
                q, tq = self.sub_select()
                sq = N("ASTSubQueryExpression", statement=tq)
                if j < 0.76:
                    return "EXISTS (%s)" % q, N("ASTExistsExpression", value=sq)
                if j < 0.9:
                    neg = r.random() < 0.4
                    return "%s %sIN (%s)" % (n, "NOT " if neg else "", q), N("ASTInExpression", is_not=neg, before_value=col(n), after_value=sq)
                return "%s > (%s)" % (n, q), cmpx(col(n), "GT", sq)
        if k < 0.25:
            c, tc = self.atom()
            d, td = self.atom()
            t2, tr2 = "%s %s %s" % (c, "<", d), cmpx(tc, "LT", td)
            w = self.pick(["AND", "OR", "and", "&&", "||"])
            cls = "ASTLogicalAndExpression" if w.upper() in ("AND", "&&") else "ASTLogicalOrExpression"
            return "%s %s %s" % (t, w, t2), N(cls, before_value=tr, after_value=tr2)
        if k < 0.35:
            n = self.name()
            neg = self.r.random() < 0.5
            nul = self.pick(["NULL", "NULL", "null", "Null"]) if self.rich_on else "NULL"
            return "%s IS %s%s" % (n, "NOT " if neg else "", nul), N("ASTIsExpression", is_not=neg, before_value=col(n), after_value=lit(nul))
        if k < 0.45:
            n = self.name()
            neg = self.r.random() < 0.5
            vs = [self.atom() for _ in range(self.r.randint(1, 3))]
            return "%s %sIN (%s)" % (n, "NOT " if neg else "", ", ".join(v[0] for v in vs)), \
                N("ASTInExpression", is_not=neg, before_value=col(n), after_value=N("ASTSubValueExpression", values=tuple(v[1] for v in vs)))
        if k < 0.52:
            n = self.name()
            lo, tlo = self.atom()
            hi, thi = self.atom()
            return "%s BETWEEN %s AND %s" % (n, lo, hi), N("ASTBetweenExpression", is_not=False, before_value=col(n), from_value=tlo, to_value=thi)
        return t, tr

    def table(self):
        """(text, ASTFromTable tree)"""
        if self.rich_on and self.depth < 2 and self.r.random() < 0.15:
            alias = self.pick(["x1", "y2", "d3"])
            if self.r.random() < 0.35:
                self.depth += 1
                try:
                    w, tw = self.with_clause()
                    q, tq = self.single_select(with_clause=tw)
                finally:
                    self.depth -= 1
                q = w + " " + q
            else:
                q, tq = self.sub_select()
            extra = self.pick([0, 0, 1])
            return "%s(%s)%s%s%s" % ("(" * extra, q, ")" * extra, self.pick([" AS ", " "]), alias), \
                N("ASTFromTable", name=N("ASTSubQueryExpression", statement=tq), alias=N("ASTAlisaExpression", name=alias))
        s = self.pick([None, None, "db"])
        t = self.pick(["t", "u", "orders"])
        alias = self.pick([None, None, "x1", "y2", "b", "x"])
        text = ("%s.%s" % (s, t) if s else t)
        if alias:
            text += self.pick([" AS ", " ", " as "]) + alias
        return text, N("ASTFromTable", name=tbl(t, s), alias=N("ASTAlisaExpression", name=alias) if alias else None)

    def with_clause(self):
        """(text, ASTWithClause tree) with one or two tables"""
        tabs = []
        for i in range(self.r.randint(1, 2)):
            n = "w%d" % (i + 1)
            self.depth += 1
            try:
                q, tq = self.select(allow_with=False) if self.r.random() < 0.2 else self.single_select()
            finally:
                self.depth -= 1
            tabs.append(("%s AS (%s)" % (n, q), N("ASTWithTable", name=n, statement=tq)))
        return self.kw("WITH") + " " + ", ".join(t[0] for t in tabs), N("ASTWithClause", tables=tuple(t[1] for t in tabs))

    def order_items(self):
        items, trees = [], []
        for _ in range(self.r.randint(1, 2)):
            v, tv = self.value()
            d = self.pick(["", " ASC", " DESC", " desc"])
            nf, nl = False, False
            k = self.r.random()
            sfx = ""
            if k < 0.2:
                sfx, nf = " NULLS FIRST", True
            elif k < 0.4:
                sfx, nl = " NULLS LAST", True
            items.append(v + d + sfx)
            trees.append(N("ASTOrderByColumn", column=tv, order=N("ASTOrderType", enum="EnumOrderType." + ("DESC" if d.strip().upper() == "DESC" else "ASC")),
                           nulls_first=nf, nulls_last=nl))
        return ", ".join(items), tuple(trees)

    def limit(self):
        n, m = self.r.randint(1, 99), self.r.randint(0, 50)
        k = self.r.random()
        if k < 0.34:
            return "LIMIT %d" % n, N("ASTLimitClause", limit=n, offset=None)
        if k < 0.67:
            return "LIMIT %d, %d" % (m, n), N("ASTLimitClause", limit=n, offset=m)
        return "LIMIT %d OFFSET %d" % (n, m), N("ASTLimitClause", limit=n, offset=m)

    def single_select(self, with_clause=None, allow_limit=True):
        r = self.r
        distinct = r.random() < 0.2
        items, item_trees = [], []
        for i in range(r.randint(1, 3)):
            k = r.random()
            if k < 0.1:
                items.append("*")
                item_trees.append(N("ASTSelectColumn", value=N("ASTWildcardExpression", table_name=None), alias=None))
                continue
            if k < 0.2:
                n = self.name()
                f = self.pick(["sum", "COUNT", "max"])
                d = r.random() < 0.3
                v, tv = "%s(%s%s)" % (f, "DISTINCT " if d else "", n), agg(f, col(n), distinct=d)
            else:
                v, tv = self.value()
            alias = self.pick([None, None, "al%d" % i])
            items.append(v + (self.pick([" AS ", " "]) + alias if alias else ""))
            item_trees.append(N("ASTSelectColumn", value=tv, alias=N("ASTAlisaExpression", name=alias) if alias else None))
        text = self.kw("SELECT") + " " + ("DISTINCT " if distinct else "") + ", ".join(items)
        tree = N("ASTSingleSelectStatement", with_clause=with_clause or EMPTY_WITH,
                 select_clause=N("ASTSelectClause", distinct=distinct, columns=tuple(item_trees)), from_clause=None, lateral_view_clauses=(), join_clauses=(),
                 where_clause=None, group_by_clause=None, having_clause=None, order_by_clause=None, sort_by_clause=None, distribute_by_clause=None,
                 cluster_by_clause=None, limit_clause=None)
        tabs = [self.table() for _ in range(self.pick([1, 1, 2]))]
        text += " " + self.kw("FROM") + " " + ", ".join(t[0] for t in tabs)
        tree["from_clause"] = N("ASTFromClause", tables=tuple(t[1] for t in tabs))
        if self.rich_on and r.random() < 0.1:
            lvs = []
            for i in range(r.randint(1, 2)):
                outer = r.random() < 0.4
                n = self.name()
                names = ["lv%d" % i] if r.random() < 0.6 else ["lv%d" % i, "lw%d" % i]
                text += " LATERAL VIEW %sexplode(%s) tmp%d AS %s" % ("OUTER " if outer else "", n, i, ", ".join(names))
                lvs.append(N("ASTLateralViewClause", outer=outer, function=fn("explode", col(n)), view_name="tmp%d" % i, alias=N("ASTMultiAlisaExpression", names=tuple(names))))
            tree["lateral_view_clauses"] = tuple(lvs)
            self.hive = True
        joins = []
        for _ in range(self.pick([0, 0, 1, 2])):
            jt = self.pick([("JOIN", "JOIN"), ("INNER JOIN", "INNER_JOIN"), ("LEFT JOIN", "LEFT_JOIN"), ("LEFT OUTER JOIN", "LEFT_OUTER_JOIN"), ("RIGHT JOIN", "RIGHT_JOIN"),
                            ("FULL OUTER JOIN", "FULL_OUTER_JOIN"), ("CROSS JOIN", "CROSS_JOIN"), ("left join", "LEFT_JOIN"), ("RIGHT OUTER JOIN", "RIGHT_OUTER_JOIN"),
                            ("FULL JOIN", "FULL_JOIN"), ("LEFT SEMI JOIN", "LEFT_SEMI_JOIN")])
            t, tt = self.table()
            k = r.random()
            if k < 0.6:
                c, tc = self.cond()
                rule_t, rule = " ON " + c, N("ASTJoinOnExpression", condition=tc)
            elif k < 0.8:
                n = self.name()
                rule_t, rule = " USING(%s)" % n, N("ASTJoinUsingExpression", using_function=fn("USING", col(n)))
            else:
                rule_t, rule = "", None
            text += " %s %s%s" % (jt[0], t, rule_t)
            joins.append(N("ASTJoinClause", type=N("ASTJoinType", enum="EnumJoinType." + jt[1]), table=tt, rule=rule))
        tree["join_clauses"] = tuple(joins)
        if r.random() < 0.6:
            c, tc = self.cond()
            text += " " + self.kw("WHERE") + " " + c
            tree["where_clause"] = N("ASTWhereClause", condition=tc)
        if r.random() < 0.35:
            gs = [self.value() for _ in range(r.randint(1, 2))]
            text += " GROUP BY " + ", ".join(g[0] for g in gs)
            cube = rollup = False
            gsets = None
            k = r.random()
            if k < 0.15:
                text += " WITH ROLLUP"
                rollup = True
            elif k < 0.3:
                text += " WITH CUBE"
                cube = True
            elif k < 0.4:
                text += " GROUPING SETS ((a, b), a, ())"
                gsets = N("ASTGroupingSets", grouping_list=((col("a"), col("b")), (col("a"),), ()))
            tree["group_by_clause"] = N("ASTGroupByClause", columns=tuple(g[1] for g in gs), grouping_sets=gsets, with_cube=cube, with_rollup=rollup)
            if r.random() < 0.5:
                c, tc = self.cond()
                text += " HAVING " + c
                tree["having_clause"] = N("ASTHavingClause", condition=tc)
        if r.random() < 0.4:
            o, to = self.order_items()
            text += " ORDER BY " + o
            tree["order_by_clause"] = N("ASTOrderByClause", columns=to)
        if self.rich_on and r.random() < 0.12:
            k = r.random()
            if k < 0.4:
                o, to = self.order_items()
                text += " SORT BY " + o
                tree["sort_by_clause"] = N("ASTSortByClause", columns=to)
            if k > 0.25 and k < 0.8:
                cs = [self.atom_col() for _ in range(r.randint(1, 2))]
                text += " DISTRIBUTE BY " + ", ".join(c[0] for c in cs)
                tree["distribute_by_clause"] = N("ASTDistributeByClause", columns=tuple(c[1] for c in cs))
            if k >= 0.8:
                cs = [self.atom_col() for _ in range(r.randint(1, 2))]
                text += " CLUSTER BY " + ", ".join(c[0] for c in cs)
                tree["cluster_by_clause"] = N("ASTClusterByClause", columns=tuple(c[1] for c in cs))
            self.hive = True
        if allow_limit and r.random() < 0.35:
            l, tl = self.limit()
            text += " " + l
            tree["limit_clause"] = tl
        return text, tree

    def select(self, allow_with=True):
        r = self.r
        wt, wc = "", None
        if allow_with and self.rich_on and self.depth < 2 and r.random() < 0.15:
            wt, wc = self.with_clause()
            wt += " "
        if r.random() < 0.75:
            t, tr = self.single_select(with_clause=wc)
            return wt + t, tr
        parts = [self.single_select(with_clause=wc, allow_limit=False)]
        text, elements = parts[0][0], [parts[0][1]]
        for _ in range(r.randint(1, 2)):
            u = self.pick([("UNION", "UNION"), ("UNION ALL", "UNION_ALL"), ("EXCEPT", "EXCEPT"), ("INTERSECT", "INTERSECT"), ("MINUS", "MINUS"), ("union all", "UNION_ALL")])
            t, tr = self.single_select(with_clause=wc, allow_limit=False)
            if self.rich_on and r.random() < 0.25:
                p = self.pick([1, 1, 2])
                t = "(" * p + t + ")" * p         # a bracketed branch (any number of brackets) is the branch itself
            text += " " + u[0] + " " + t
            elements += [N("ASTUnionType", enum="EnumUnionType." + u[1]), tr]
        return wt + text, N("ASTUnionSelectStatement", with_clause=wc or EMPTY_WITH, elements=tuple(elements))

    def insert(self):
        r = self.r
        it = self.pick([("INSERT INTO", "INSERT_INTO"), ("INSERT OVERWRITE", "INSERT_OVERWRITE"), ("INSERT IGNORE INTO", "INSERT_IGNORE_INTO"), ("insert into", "INSERT_INTO"),
                        ("INSERT INTO TABLE", "INSERT_INTO"), ("INSERT OVERWRITE TABLE", "INSERT_OVERWRITE")])
        s, t = self.pick([None, "db"]), self.pick(["t", "tgt"])
        wtext, wtree = "", EMPTY_WITH
        if self.rich_on and r.random() < 0.25:
            w, wtree = self.with_clause()                  # WITH ... INSERT: the clause belongs to the INSERT statement
            wtext = w + " "
        text = wtext + it[0] + " " + ("%s.%s" % (s, t) if s else t)
        part = None
        if r.random() < 0.3:
            k, v = self.pick(["dt", "h"]), self.pick(["'2024'", "1"])
            if r.random() < 0.6:
                text += " PARTITION (%s = %s)" % (k, v)
                part = N("ASTPartitionExpression", partitions=(cmpx(col(k), "EQ", lit(v)),))
            else:
                text += " PARTITION (%s)" % k
                part = N("ASTPartitionExpression", partitions=(col(k),))
        cols = None
        if r.random() < 0.5:
            names = r.sample(["a", "b", "c", "k"], r.randint(1, 3))
            text += " (" + ", ".join(names) + ")"
            cols = tuple(col(n) for n in names)
        if r.random() < 0.5:
            rows = []
            for _ in range(r.randint(1, 3)):
                vals = [self.atom() for _ in range(r.randint(1, 3))]
                rows.append(("(" + ", ".join(v[0] for v in vals) + ")", N("ASTSubValueExpression", values=tuple(v[1] for v in vals))))
            text += " VALUES " + ", ".join(x[0] for x in rows)
            return text, N("ASTInsertValuesStatement", with_clause=wtree, insert_type=N("ASTInsertType", enum="EnumInsertType." + it[1]), table_name=tbl(t, s),
                           partition=part, columns=cols, values=tuple(x[1] for x in rows))
        q, tq = self.select(allow_with=False)
        return text + " " + q, N("ASTInsertSelectStatement", with_clause=wtree, insert_type=N("ASTInsertType", enum="EnumInsertType." + it[1]), table_name=tbl(t, s),
                                  partition=part, columns=cols, select_statement=tq)

    def update(self):
        r = self.r
        t = self.pick(["t", "u"])
        sets = []
        for n in r.sample(["a", "b", "c"], r.randint(1, 2)):
            v, tv = self.value()
            sets.append(("%s = %s" % (n, v), N("ASTUpdateSetColumn", column_name=n, column_value=tv)))
        text = "UPDATE %s SET %s" % (t, ", ".join(s[0] for s in sets))
        tree = N("ASTUpdateStatement", with_clause=EMPTY_WITH, table_name=tbl(t), set_clause=N("ASTUpdateSetClause", columns=tuple(s[1] for s in sets)), where_clause=None,
                 order_by_clause=None, limit_clause=None)
        if r.random() < 0.7:
            c, tc = self.cond()
            text += " WHERE " + c
            tree["where_clause"] = N("ASTWhereClause", condition=tc)
        if r.random() < 0.2:
            o, to = self.order_items()
            text += " ORDER BY " + o
            tree["order_by_clause"] = N("ASTOrderByClause", columns=to)
        if r.random() < 0.2:
            n = r.randint(1, 9)
            text += " LIMIT %d" % n
            tree["limit_clause"] = N("ASTLimitClause", limit=n, offset=None)
        if self.rich_on and r.random() < 0.2:
            w, wtree = self.with_clause()                  # WITH ... UPDATE
            text = w + " " + text
            tree["with_clause"] = wtree
        return text, tree

    def delete(self):
        r = self.r
        s, t = self.pick([None, "db"]), self.pick(["t", "u"])
        text = "DELETE FROM " + ("%s.%s" % (s, t) if s else t)
        tree = N("ASTDeleteStatement", table_name=tbl(t, s), where_clause=None, order_by_clause=None, limit_clause=None)
        if r.random() < 0.8:
            c, tc = self.cond()
            text += " WHERE " + c
            tree["where_clause"] = N("ASTWhereClause", condition=tc)
        if r.random() < 0.2:
            o, to = self.order_items()
            text += " ORDER BY " + o
            tree["order_by_clause"] = N("ASTOrderByClause", columns=to)
        if r.random() < 0.25:
            n = r.randint(1, 9)
            text += " LIMIT %d" % n
            tree["limit_clause"] = N("ASTLimitClause", limit=n, offset=None)
        return text, tree

    def column_def(self, i):
        r = self.r
        name = self.pick(["id", "name", "c%d" % i, "amount"]) + str(i)
        ty = self.pick([("INT", None), ("INT(11)", ("11",)), ("VARCHAR(50)", ("50",)), ("DECIMAL(10,2)", ("10", "2")), ("BIGINT", None), ("DATETIME", None), ("TEXT", None)])
        tname = ty[0].split("(")[0]
        tree = N("ASTDefineColumnExpression", column_name=name, column_type=N("ASTColumnTypeExpression", name=tname, params=None if ty[1] is None else tuple(lit(p) for p in ty[1])),
                 comment=None, is_unsigned=False, is_zerofill=False, character_set=None, collate=None, generated_always_as=None, is_allow_null=False, is_not_null=False,
                 is_auto_increment=False, default=None, on_update=None)
        text = "%s %s" % (name, ty[0])
        attrs = [("NOT NULL", "is_not_null", True), ("NULL", "is_allow_null", True), ("UNSIGNED", "is_unsigned", True), ("ZEROFILL", "is_zerofill", True),
                 ("AUTO_INCREMENT", "is_auto_increment", True), ("DEFAULT 0", "default", lit("0")), ("DEFAULT 'x'", "default", lit("'x'")), ("DEFAULT NULL", "default", lit("NULL")),
                 ("COMMENT 'c%d'" % i, "comment", "'c%d'" % i), ("CHARACTER SET utf8", "character_set", "utf8"), ("COLLATE utf8_bin", "collate", "utf8_bin"),
                 ("ON UPDATE CURRENT_TIMESTAMP", "on_update", col("CURRENT_TIMESTAMP")), ("DEFAULT CURRENT_TIMESTAMP", "default", col("CURRENT_TIMESTAMP"))]
        used = set()
        for a in r.sample(attrs, r.choice([0, 1, 2, 3])):
            if a[1] in used or (a[1] == "is_allow_null" and "is_not_null" in used) or (a[1] == "is_not_null" and "is_allow_null" in used):
                continue
            used.add(a[1])
            text += " " + a[0]
            tree[a[1]] = a[2]
        return text, tree

    def index_tail(self):
        """(text, using, comment, key_block_size) in the order the grammar fixes: USING, COMMENT, KEY_BLOCK_SIZE"""
        r = self.r
        text, using, comment, kbs = "", None, None, None
        if r.random() < 0.3:
            text += " USING BTREE"
            using = "BTREE"
        if r.random() < 0.3:
            text += " COMMENT 'ix'"
            comment = "'ix'"
        if r.random() < 0.2:
            text += " KEY_BLOCK_SIZE=4"
            kbs = 4
        return text, using, comment, kbs

    def create_table(self):
        r = self.r
        s, t = self.pick([None, "db"]), self.pick(["t", "orders"])
        ine = r.random() < 0.3
        cols = [self.column_def(i) for i in range(r.randint(1, 4))]
        items = [c[0] for c in cols]
        tree = N("ASTCreateTableStatement", table_name=tbl(t, s), comment=None, if_not_exists=ine, columns=tuple(c[1] for c in cols), primary_key=None, unique_key=(), key=(),
                 fulltext_key=(), foreign_key=(), engine=None, auto_increment=None, default_charset=None, collate=None, row_format=None, states_persistent=None, partitioned_by=(),
                 row_format_serde=None, row_format_delimited_fields_terminated_by=None, stored_as_inputformat=None, stored_as_textfile=False, outputformat=None, location=None,
                 tblproperties=())

        def ixcols(names):
            return tuple(N("ASTIndexColumn", name=n, max_length=None) for n in names)
        first = cols[0][1]["column_name"]
        if r.random() < 0.5:
            tail, u, c, k = self.index_tail()
            items.append("PRIMARY KEY (%s)%s" % (first, tail))
            tree["primary_key"] = N("ASTPrimaryIndexExpression", name=None, columns=ixcols([first]), using=u, comment=c, key_block_size=k)
        if r.random() < 0.3:
            tail, u, c, k = self.index_tail()
            items.append("UNIQUE KEY uk1 (%s)%s" % (first, tail))
            tree["unique_key"] = (N("ASTUniqueIndexExpression", name="uk1", columns=ixcols([first]), using=u, comment=c, key_block_size=k),)
        if r.random() < 0.3:
            tail, u, c, k = self.index_tail()
            items.append("KEY idx1 (%s(10))%s" % (first, tail))
            tree["key"] = (N("ASTNormalIndexExpression", name="idx1", columns=(N("ASTIndexColumn", name=first, max_length=10),), using=u, comment=c, key_block_size=k),)
        if r.random() < 0.15:
            act = self.pick([("", None, None), (" ON DELETE CASCADE", "CASCADE", None), (" ON DELETE SET NULL ON UPDATE NO ACTION", "SET NULL", "NO ACTION"), (" ON UPDATE RESTRICT", None, "RESTRICT")])
            items.append("CONSTRAINT fk1 FOREIGN KEY (%s) REFERENCES other (id)%s" % (first, act[0]))
            tree["foreign_key"] = (N("ASTForeignKeyExpression", constraint_name="fk1", slave_columns=(first,), master_table_name="other", master_columns=("id",),
                                     on_delete=act[1], on_update=act[2]),)
        text = "CREATE TABLE %s%s (%s)" % ("IF NOT EXISTS " if ine else "", ("%s.%s" % (s, t) if s else t), ", ".join(items))
        opts = [("ENGINE=InnoDB", "engine", "InnoDB"), ("AUTO_INCREMENT=10", "auto_increment", 10), ("DEFAULT CHARSET=utf8mb4", "default_charset", "utf8mb4"),
                ("COLLATE=utf8_bin", "collate", "utf8_bin"), ("COMMENT='tbl'", "comment", "'tbl'"), ("ROW_FORMAT=DYNAMIC", "row_format", "DYNAMIC"),
                ("STATS_PERSISTENT=1", "states_persistent", "1"), ("STORED AS TEXTFILE", "stored_as_textfile", True), ("LOCATION '/p'", "location", "'/p'"),
                ("ROW FORMAT SERDE 'x.y'", "row_format_serde", "'x.y'"), ("ROW FORMAT DELIMITED FIELDS TERMINATED BY ','", "row_format_delimited_fields_terminated_by", "','")]
        for o in r.sample(opts, r.choice([0, 1, 2, 3])):
            text += " " + o[0]
            tree[o[1]] = o[2]
        return text, tree

    def alter(self):
        r = self.r
        t = self.pick(["t", "orders"])
        k = r.random()
        if k < 0.2:
            c, tc = self.column_def(1)
            return "ALTER TABLE %s ADD %s" % (t, c), N("ASTAlterTableStatement", table_name=tbl(t), expressions=(N("ASTAlterAddExpression", expression=tc),))
        if k < 0.35:
            c, tc = self.column_def(2)
            return "ALTER TABLE %s MODIFY %s" % (t, c), N("ASTAlterTableStatement", table_name=tbl(t), expressions=(N("ASTAlterModifyExpression", expression=tc),))
        if k < 0.5:
            c, tc = self.column_def(3)
            return "ALTER TABLE %s CHANGE old_c %s" % (t, c), N("ASTAlterTableStatement", table_name=tbl(t),
                                                                   expressions=(N("ASTAlterChangeExpression", from_column_name="old_c", to_expression=tc),))
        if k < 0.65:
            return "ALTER TABLE %s RENAME COLUMN a TO b, DROP COLUMN c" % t, N("ASTAlterTableStatement", table_name=tbl(t), expressions=(
                N("ASTAlterRenameColumnExpression", from_column_name="a", to_column_name="b"), N("ASTAlterDropColumnExpression", column_name="c")))
        ine = r.random() < 0.5
        part = N("ASTPartitionExpression", partitions=(cmpx(col("dt"), "EQ", lit("'1'")), cmpx(col("h"), "EQ", lit("2"))))
        if k < 0.85:
            return "ALTER TABLE %s ADD %sPARTITION (dt='1', h=2)" % (t, "IF NOT EXISTS " if ine else ""), N("ASTAlterTableStatement", table_name=tbl(t), expressions=(
                N("ASTAlterAddPartitionExpression", if_not_exists=ine, partition=part),))
        # DROP PARTITION takes a range, not only key = value; a counter, not self.r, so that the rest of every stream stays as it was
        self._n_drop = getattr(self, "_n_drop", 0) + 1
        o1, o2 = [("<", ">="), ("=", "="), (">=", "<"), ("!=", "<="), ("=", ">"), ("<>", "=")][self._n_drop % 6]
        part = N("ASTPartitionExpression", partitions=(cmpx(col("dt"), CMP[o1], lit("'1'")), cmpx(col("h"), CMP[o2], lit("2"))))
        return "ALTER TABLE %s DROP %sPARTITION (dt%s'1', h %s 2)" % (t, "IF EXISTS " if ine else "", o1, o2), N("ASTAlterTableStatement", table_name=tbl(t), expressions=(
            N("ASTAlterDropPartitionExpression", if_exists=ine, partition=part),))

    def paren_case(self):
        """statements in which a SELECT is wrapped in one to three extra bracket levels (UNION branch, CREATE TABLE AS, derived table)"""
        r = self.r
        self.hive = False
        self.depth = 0
        p = self.pick([1, 2, 2, 3])
        k = r.random()
        if k < 0.45:
            a, ta = self.single_select(allow_limit=False)
            b, tb = self.single_select(allow_limit=False)
            u = self.pick([("UNION ALL", "UNION_ALL"), ("UNION", "UNION"), ("EXCEPT", "EXCEPT")])
            return "%s %s %s%s%s" % (a, u[0], "(" * p, b, ")" * p), \
                N("ASTUnionSelectStatement", with_clause=EMPTY_WITH, elements=(ta, N("ASTUnionType", enum="EnumUnionType." + u[1]), tb))
        if k < 0.7:
            a, ta = self.single_select()
            return "CREATE TABLE t9 AS %s%s%s" % ("(" * p, a, ")" * p), N("ASTCreateTableAsStatement", table_name=tbl("t9"), select_statement=ta)
        self.depth = 1
        a, ta = self.single_select()
        self.depth = 0
        n = self.name()
        tree = N("ASTSingleSelectStatement", with_clause=EMPTY_WITH,
                 select_clause=N("ASTSelectClause", distinct=False, columns=(N("ASTSelectColumn", value=col(n), alias=None),)),
                 from_clause=N("ASTFromClause", tables=(N("ASTFromTable", name=N("ASTSubQueryExpression", statement=ta), alias=N("ASTAlisaExpression", name="d3")),)),
                 lateral_view_clauses=(), join_clauses=(), where_clause=None, group_by_clause=None, having_clause=None, order_by_clause=None, sort_by_clause=None,
                 distribute_by_clause=None, cluster_by_clause=None, limit_clause=None)
        return "SELECT %s FROM %s%s%s d3" % (n, "(" * p, a, ")" * p), tree

    def misc(self):
        r = self.r
        s, t = self.pick([None, "db"]), self.pick(["t", "orders"])
        q = ("%s.%s" % (s, t) if s else t)
        k = r.random()
        if k < 0.2:
            p = self.pick([0, 0, 1, 2])
            sel, ts = self.select() if p == 0 else self.single_select()
            return "CREATE TABLE %s AS %s%s%s" % (q, "(" * p, sel, ")" * p), N("ASTCreateTableAsStatement", table_name=tbl(t, s), select_statement=ts)
        if k < 0.35:
            ie = r.random() < 0.5
            return "DROP TABLE %s%s" % ("IF EXISTS " if ie else "", q), N("ASTDropTableStatement", if_exists=ie, table_name=tbl(t, s))
        if k < 0.45:
            return "TRUNCATE TABLE " + q, N("ASTTruncateTable", table_name=tbl(t, s))
        if k < 0.52:
            return "USE db", N("ASTUseStatement", schema_name="db")
        if k < 0.62:
            kv = self.pick([("hive.vectorized.execution.enabled", "yes"), ("mapreduce.job.queue-name", "root.q1"), ("a", "b")])   # no keyword-like words: the key is data
            return "SET %s = %s" % kv, N("ASTSetStatement", config=N("ASTConfigStringExpression", name=kv[0], value=kv[1]))
        if k < 0.78:
            self.hive = True
            part = r.random() < 0.5
            fc, cm, ns = r.random() < 0.4, r.random() < 0.3, r.random() < 0.3
            return "ANALYZE TABLE %s%s COMPUTE STATISTICS%s%s%s" % (q, " PARTITION (dt='1')" if part else "", " FOR COLUMNS" if fc else "", " CACHE METADATA" if cm else "", " NOSCAN" if ns else ""), \
                N("ASTAnalyzeTableStatement", table_name=tbl(t, s), partition=N("ASTPartitionExpression", partitions=(cmpx(col("dt"), "EQ", lit("'1'")),)) if part else None,
                  for_columns=fc, cache_metadata=cm, noscan=ns)
        if k < 0.85:
            self.hive = True
            return "MSCK REPAIR TABLE " + q, N("ASTMsckRepairTableStatement", table_name=tbl(t, s))
        if k < 0.9:
            return "SHOW DATABASES", N("ASTShowDatabasesStatement")
        if k < 0.94:
            return "SHOW TABLES", N("ASTShowTablesStatement")
        c, tc = self.simple_cond()
        w = r.random() < 0.5
        return "SHOW COLUMNS FROM %s%s" % (q, " WHERE " + c if w else ""), \
            N("ASTShowColumnsStatement", from_clause=N("ASTFromClause", tables=(N("ASTFromTable", name=tbl(t, s), alias=None),)), where_clause=N("ASTWhereClause", condition=tc) if w else None)

    def statement(self):
        self.hive = False
        self.depth = 0
        k = self.r.random()
        if self.rich_on and k > 0.93:
            return self.misc()
        if k < 0.4:
            return self.select()
        if k < 0.55:
            return self.insert()
        if k < 0.65:
            return self.update()
        if k < 0.72:
            return self.delete()
        if k < 0.88:
            return self.create_table()
        return self.alter()


# ---------------------------------------------------------------- dump parser
def parse_dump(s):
    """canonical reflective dump -> nested dict / tuple / atoms (strings decoded)"""
    pos = [0]

    def val():
        i = pos[0]
        if s.startswith("None", i):
            pos[0] += 4
            return None
        if s[i] == "(" or s[i] == "[":
            close = ")" if s[i] == "(" else "]"
            pos[0] += 1
            items = []
            while s[pos[0]] != close:
                items.append(val())
                if s[pos[0]] == ",":
                    pos[0] += 1
            pos[0] += 1
            return tuple(items) if close == ")" else items
        if s.startswith("s:", i):
            j = i + 2
            while j < len(s) and (s[j].isdigit() or s[j] == "."):
                j += 1
            pos[0] = j
            body = s[i + 2:j]
            return "".join(chr(int(x)) for x in body.split(".") if x)
        if s.startswith("i:", i):
            j = i + 2
            while j < len(s) and (s[j].isdigit() or s[j] == "-"):
                j += 1
            pos[0] = j
            return int(s[i + 2:j])
        if s[i] in "TF" and (i + 1 == len(s) or s[i + 1] in ";,)}]"):
            pos[0] += 1
            return s[i] == "T"
        j = i
        while j < len(s) and (s[j].isalnum() or s[j] in "_."):
            j += 1
        word = s[i:j]
        pos[0] = j
        if j < len(s) and s[j] == "{":
            pos[0] += 1
            d = {"_": word}
            while s[pos[0]] != "}":
                k = pos[0]
                while s[k] != "=":
                    k += 1
                fname = s[pos[0]:k]
                pos[0] = k + 1
                d[fname] = val()
                if s[pos[0]] == ";":
                    pos[0] += 1
            pos[0] += 1
            return d
        return word          # enum member  Class.NAME
    return val()


def diff(exp, got, path="$"):
    """first difference between the expected tree and the parsed dump, or None"""
    if isinstance(exp, dict):
        if not isinstance(got, dict) or got.get("_") != exp["_"]:
            return "%s: expected node %s, got %r" % (path, exp["_"], got.get("_") if isinstance(got, dict) else got)
        for k in set(exp) | set(got):
            if k == "_":
                continue
            if k not in exp:
                return "%s.%s: field not specified by the generator (got %r)" % (path, k, got[k])
            if k not in got:
                return "%s.%s: field missing in the tree" % (path, k)
            d = diff(exp[k], got[k], path + "." + k)
            if d:
                return d
        return None
    if isinstance(exp, tuple):
        if not isinstance(got, tuple):
            return "%s: expected a tuple of %d, got %r" % (path, len(exp), got)
        if len(exp) != len(got):
            return "%s: expected %d elements, got %d" % (path, len(exp), len(got))
        for i, (a, b) in enumerate(zip(exp, got)):
            d = diff(a, b, "%s[%d]" % (path, i))
            if d:
                return d
        return None
    if exp != got or type(exp) is not type(got):
        return "%s: expected %r, got %r" % (path, exp, got)
    return None
