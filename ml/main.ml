(* Line-protocol driver around the extracted Coq models.  One request per line on stdin, one answer per line. *)
open Modelx

let rec pos_of_int (i : int) : positive =
  if i = 1 then XH else if i land 1 = 1 then XI (pos_of_int (i lsr 1)) else XO (pos_of_int (i lsr 1))
let n_of_int (i : int) : n = if i = 0 then N0 else Npos (pos_of_int i)
let rec int_of_pos = function XH -> 1 | XO p -> 2 * int_of_pos p | XI p -> 2 * int_of_pos p + 1
let int_of_n = function N0 -> 0 | Npos p -> int_of_pos p
let rec nat_of_int i = if i <= 0 then O else S (nat_of_int (i - 1))
let rec int_of_nat = function O -> 0 | S n -> 1 + int_of_nat n

let cps (s : n list) = String.concat "." (List.map (fun c -> string_of_int (int_of_n c)) s)

let err_name = function
  | LexErr -> "LexErr" | ParseErr -> "ParseErr" | NotSupport -> "NotSupport" | AnalyzerErr -> "AnalyzerErr"
  | Crash k -> "Crash" ^ string_of_int (int_of_n k) | OutOfFuel -> "OutOfFuel"

let rec show_tok b (t : tok) =
  match t with
  | Leaf (s, m) -> Buffer.add_string b (Printf.sprintf "L:%d:%s " (int_of_n m) (cps s))
  | Group (k, ts) ->
      Buffer.add_string b (Printf.sprintf "%s:%d:%s( " (match k with KPar -> "P" | KSlice -> "S")
                             (int_of_n (group_marks k)) (cps (source t)));
      List.iter (show_tok b) ts;
      Buffer.add_string b ") "

let rec show_ftok b (t : ftok) =
  match t with
  | FLeaf (s, m) -> Buffer.add_string b (Printf.sprintf "L:%d:%s " (int_of_n m) (cps s))
  | FSkip s -> Buffer.add_string b (Printf.sprintf "K:%s " (cps s))
  | FGroup (o, k, c, ts) ->
      Buffer.add_string b (Printf.sprintf "%s:%s:%s( " (match k with KPar -> "P" | KSlice -> "S") (cps o) (cps c));
      List.iter (show_ftok b) ts;
      Buffer.add_string b ") "

(* ---- cursor protocol ---- *)
let str_of_word w = if w = "-" then [] else List.map (fun x -> n_of_int (int_of_string x)) (String.split_on_char '.' w)
let rec parse_toks (ws : string list) : tok list * string list =
  match ws with
  | [] -> ([], [])
  | ")" :: rest -> ([], ")" :: rest)
  | "|" :: rest -> ([], "|" :: rest)
  | w :: rest when w = "P(" || w = "S(" ->
      let (ch, rest1) = parse_toks rest in
      let rest2 = (match rest1 with ")" :: r -> r | _ -> failwith "unbalanced") in
      let (more, rest3) = parse_toks rest2 in
      (Group ((if w = "P(" then KPar else KSlice), ch) :: more, rest3)
  | w :: rest ->
      (match String.split_on_char ':' w with
       | ["L"; m; s] -> let (more, rest1) = parse_toks rest in (Leaf (str_of_word s, n_of_int (int_of_string m)) :: more, rest1)
       | _ -> failwith ("bad token " ^ w))
let pat_of w = match String.split_on_char ':' w with
  | ["s"; s] -> PStr (str_of_word s) | ["m"; m] -> PMark (n_of_int (int_of_string m)) | _ -> failwith ("bad pat " ^ w)
let op_of (ws : string list) : cop =
  match ws with
  | ["go"; k] -> OGetOffset (nat_of_int (int_of_string k)) | ["gn"; k] -> OGetOffsetOrNull (nat_of_int (int_of_string k))
  | ["g"] -> OGetOrNull | ["pop"] -> OPop | ["mv"; k] -> OMove (nat_of_int (int_of_string k)) | ["close"] -> OClose
  | ["fin"] -> OIsFinish | ["src"] -> OGetSource | ["psrc"] -> OPopSource | ["ch"] -> OGetChildren | ["pch"] -> OPopChildren
  | "s" :: ps -> OSearch (List.map pat_of ps) | "S" :: ps -> OSearchMove (List.map pat_of ps) | "m" :: ps -> OMatch (List.map pat_of ps)
  | ["sm"; m] -> OSearchMark (n_of_int (int_of_string m))
  | ["ss"; s] -> OSearchStr (str_of_word s) | ["su"; s] -> OSearchUpper (str_of_word s)
  | ["su2"; a; b] -> OSearchUpper2 (str_of_word a, str_of_word b) | ["su3"; a; b; c] -> OSearchUpper3 (str_of_word a, str_of_word b, str_of_word c)
  | "sset" :: l -> OSearchSet (List.map str_of_word l) | "ssetu" :: l -> OSearchSetUpper (List.map str_of_word l)
  | ["Ss"; s] -> OSearchMoveStr (str_of_word s) | ["Su"; s] -> OSearchMoveUpper (str_of_word s)
  | ["Su2"; a; b] -> OSearchMoveUpper2 (str_of_word a, str_of_word b) | ["Su3"; a; b; c] -> OSearchMoveUpper3 (str_of_word a, str_of_word b, str_of_word c)
  | "Sset" :: l -> OSearchMoveSet (List.map str_of_word l) | "Ssetu" :: l -> OSearchMoveSetUpper (List.map str_of_word l)
  | ["split"; s] -> OPopSplit (str_of_word s)
  | _ -> failwith ("bad op " ^ String.concat " " ws)
let rec split_ops (ws : string list) (cur : string list) : string list list =
  match ws with
  | [] -> if cur = [] then [] else [List.rev cur]
  | ";" :: rest -> (List.rev cur) :: split_ops rest []
  | w :: rest -> split_ops rest (w :: cur)
let show_toks ts = let b = Buffer.create 64 in List.iter (show_tok b) ts; String.trim (Buffer.contents b)
let show_out (o : cout) : string =
  match o with
  | CErr e -> "E:" ^ err_name e
  | COk VUnit -> "U"
  | COk (VBool true) -> "T" | COk (VBool false) -> "F"
  | COk (VTok None) -> "tok[none]" | COk (VTok (Some t)) -> "tok[" ^ show_toks [t] ^ "]"
  | COk (VStr None) -> "str[none]" | COk (VStr (Some s)) -> "str[" ^ cps s ^ "]"
  | COk (VScanner ts) -> "sc[" ^ show_toks ts ^ "]"
  | COk (VScanners l) -> "scs[" ^ String.concat "|" (List.map show_toks l) ^ "]"

let ints_of words = List.map (fun w -> n_of_int (int_of_string w)) words

let handle (line : string) : string =
  let words = List.filter (fun w -> w <> "") (String.split_on_char ' ' line) in
  match words with
  | "LEX" :: mb :: flags :: rest ->
      (match lex (mb = "1") (nat_of_int (int_of_string flags)) (ints_of rest) with
       | Ok ts -> let b = Buffer.create 256 in Buffer.add_string b "OK "; List.iter (show_tok b) ts; Buffer.contents b
       | Err e -> "ERR " ^ err_name e)
  | "LEXFULL" :: mb :: flags :: rest ->
      (match lex_full (mb = "1") (nat_of_int (int_of_string flags)) (ints_of rest) with
       | Ok ts -> let b = Buffer.create 256 in Buffer.add_string b "OK "; List.iter (show_ftok b) ts; Buffer.contents b
       | Err e -> "ERR " ^ err_name e)
  | "SPEC" :: mb :: flags :: rest ->
      (match spec_lex (mb = "1") (nat_of_int (int_of_string flags)) (ints_of rest) with
       | Ok ts -> let b = Buffer.create 256 in Buffer.add_string b "OK "; List.iter (show_tok b) ts; Buffer.contents b
       | Err e -> "ERR " ^ err_name e)
  | "CLASSIFY" :: flags :: rest ->
      string_of_int (int_of_n (classify_input (nat_of_int (int_of_string flags)) (ints_of rest)))
  | "DEVS" :: flags :: [] ->
      let ds = devs_paths (nat_of_int (int_of_string flags)) in
      String.concat " " (List.map (fun (((s, t), i), path) ->
        Printf.sprintf "%d:%s%s" (int_of_n (dev_family ((s, t), i))) (cps path) (match i with None -> "$" | Some _ -> "")) ds)
  | "CLASSIFYMB" :: flags :: rest ->
      string_of_int (int_of_n (classify_input_mb (nat_of_int (int_of_string flags)) (ints_of rest)))
  | "DEVSMB" :: flags :: [] ->
      let ds = devs_mb_paths (nat_of_int (int_of_string flags)) in
      String.concat " " (List.map (fun (((s, t), i), path) ->
        Printf.sprintf "%d:%s%s" (int_of_n (dev_family ((s, t), i))) (cps path) (match i with None -> "$" | Some _ -> "")) ds)
  | "HASPH" :: rest -> if has_ph_open false (ints_of rest) then "1" else "0"
  | "CURSOR" :: rest ->
      (try
         let (toks, rest1) = parse_toks rest in
         let opws = (match rest1 with "|" :: r -> r | _ -> failwith "no ops") in
         let ops = List.map op_of (List.filter (fun l -> l <> []) (split_ops opws [])) in
         let (tr, _) = run_ops { elems = toks; pos = O } ops in
         String.concat " ; " (List.map (fun (p, o) -> Printf.sprintf "%d=%s" (int_of_nat p) (show_out o)) tr)
       with Failure m -> "BAD-REQUEST " ^ m)
  | _ -> "BAD-REQUEST"

let () =
  try
    while true do
      let line = input_line stdin in
      print_string (String.trim (handle line)); print_newline ()
    done
  with End_of_file -> ()
