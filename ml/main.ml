(* Line-protocol driver around the extracted Coq models.  One request per line on stdin, one answer per line. *)
open Modelx

let rec pos_of_int (i : int) : positive =
  if i = 1 then XH else if i land 1 = 1 then XI (pos_of_int (i lsr 1)) else XO (pos_of_int (i lsr 1))
let n_of_int (i : int) : n = if i = 0 then N0 else Npos (pos_of_int i)
let rec int_of_pos = function XH -> 1 | XO p -> 2 * int_of_pos p | XI p -> 2 * int_of_pos p + 1
let int_of_n = function N0 -> 0 | Npos p -> int_of_pos p
let rec nat_of_int i = if i <= 0 then O else S (nat_of_int (i - 1))
let rec int_of_nat = function O -> 0 | S n -> 1 + int_of_nat n

let cps (s : n list) = String.concat "." (List.map (fun c -> string_of_int (int_of_n c)) s)

let err_name = function
  | LexErr -> "LexErr" | ParseErr -> "ParseErr" | NotSupport -> "NotSupport" | AnalyzerErr -> "AnalyzerErr"
  | Crash k -> "Crash" ^ string_of_int (int_of_n k) | OutOfFuel -> "OutOfFuel"

let rec show_tok b (t : tok) =
  match t with
  | Leaf (s, m) -> Buffer.add_string b (Printf.sprintf "L:%d:%s " (int_of_n m) (cps s))
  | Group (k, ts) ->
      Buffer.add_string b (Printf.sprintf "%s:%d:%s( " (match k with KPar -> "P" | KSlice -> "S")
                             (int_of_n (group_marks k)) (cps (source t)));
      List.iter (show_tok b) ts;
      Buffer.add_string b ") "

let rec show_ftok b (t : ftok) =
  match t with
  | FLeaf (s, m) -> Buffer.add_string b (Printf.sprintf "L:%d:%s " (int_of_n m) (cps s))
  | FSkip s -> Buffer.add_string b (Printf.sprintf "K:%s " (cps s))
  | FGroup (o, k, c, ts) ->
      Buffer.add_string b (Printf.sprintf "%s:%s:%s( " (match k with KPar -> "P" | KSlice -> "S") (cps o) (cps c));
      List.iter (show_ftok b) ts;
      Buffer.add_string b ") "

(* ---- cursor protocol ---- *)
let str_of_word w = if w = "-" then [] else List.map (fun x -> n_of_int (int_of_string x)) (String.split_on_char '.' w)
let rec parse_toks (ws : Stdlib.String.t list) : tok list * Stdlib.String.t list =
  match ws with
  | [] -> ([], [])
  | ")" :: rest -> ([], ")" :: rest)
  | "|" :: rest -> ([], "|" :: rest)
  | w :: rest when w = "P(" || w = "S(" ->
      let (ch, rest1) = parse_toks rest in
      let rest2 = (match rest1 with ")" :: r -> r | _ -> failwith "unbalanced") in
      let (more, rest3) = parse_toks rest2 in
      (Group ((if w = "P(" then KPar else KSlice), ch) :: more, rest3)
  | w :: rest ->
      (match String.split_on_char ':' w with
       | ["L"; m; s] -> let (more, rest1) = parse_toks rest in (Leaf (str_of_word s, n_of_int (int_of_string m)) :: more, rest1)
       | _ -> failwith ("bad token " ^ w))
let pat_of w = match String.split_on_char ':' w with
  | ["s"; s] -> PStr (str_of_word s) | ["m"; m] -> PMark (n_of_int (int_of_string m)) | _ -> failwith ("bad pat " ^ w)
let op_of (ws : Stdlib.String.t list) : cop =
  match ws with
  | ["go"; k] -> OGetOffset (nat_of_int (int_of_string k)) | ["gn"; k] -> OGetOffsetOrNull (nat_of_int (int_of_string k))
  | ["g"] -> OGetOrNull | ["pop"] -> OPop | ["mv"; k] -> OMove (nat_of_int (int_of_string k)) | ["close"] -> OClose
  | ["fin"] -> OIsFinish | ["src"] -> OGetSource | ["psrc"] -> OPopSource | ["ch"] -> OGetChildren | ["pch"] -> OPopChildren
  | "s" :: ps -> OSearch (List.map pat_of ps) | "S" :: ps -> OSearchMove (List.map pat_of ps) | "m" :: ps -> OMatch (List.map pat_of ps)
  | ["sm"; m] -> OSearchMark (n_of_int (int_of_string m))
  | ["ss"; s] -> OSearchStr (str_of_word s) | ["su"; s] -> OSearchUpper (str_of_word s)
  | ["su2"; a; b] -> OSearchUpper2 (str_of_word a, str_of_word b) | ["su3"; a; b; c] -> OSearchUpper3 (str_of_word a, str_of_word b, str_of_word c)
  | "sset" :: l -> OSearchSet (List.map str_of_word l) | "ssetu" :: l -> OSearchSetUpper (List.map str_of_word l)
  | ["Ss"; s] -> OSearchMoveStr (str_of_word s) | ["Su"; s] -> OSearchMoveUpper (str_of_word s)
  | ["Su2"; a; b] -> OSearchMoveUpper2 (str_of_word a, str_of_word b) | ["Su3"; a; b; c] -> OSearchMoveUpper3 (str_of_word a, str_of_word b, str_of_word c)
  | "Sset" :: l -> OSearchMoveSet (List.map str_of_word l) | "Ssetu" :: l -> OSearchMoveSetUpper (List.map str_of_word l)
  | ["split"; s] -> OPopSplit (str_of_word s)
  | _ -> failwith ("bad op " ^ String.concat " " ws)
let rec split_ops (ws : Stdlib.String.t list) (cur : Stdlib.String.t list) : Stdlib.String.t list list =
  match ws with
  | [] -> if cur = [] then [] else [List.rev cur]
  | ";" :: rest -> (List.rev cur) :: split_ops rest []
  | w :: rest -> split_ops rest (w :: cur)
let show_toks ts = let b = Buffer.create 64 in List.iter (show_tok b) ts; String.trim (Buffer.contents b)
let show_out (o : cout) : Stdlib.String.t =
  match o with
  | CErr e -> "E:" ^ err_name e
  | COk CVUnit -> "U"
  | COk (CVBool true) -> "T" | COk (CVBool false) -> "F"
  | COk (CVTok None) -> "tok[none]" | COk (CVTok (Some t)) -> "tok[" ^ show_toks [t] ^ "]"
  | COk (CVStr None) -> "str[none]" | COk (CVStr (Some s)) -> "str[" ^ cps s ^ "]"
  | COk (CVScanner ts) -> "sc[" ^ show_toks ts ^ "]"
  | COk (CVScanners l) -> "scs[" ^ String.concat "|" (List.map show_toks l) ^ "]"

(* ---- values ---- *)
let char_of_ascii (a : ascii) : char =
  match a with Ascii (b0, b1, b2, b3, b4, b5, b6, b7) ->
    let v b k = if b then 1 lsl k else 0 in
    Char.chr (v b0 0 + v b1 1 + v b2 2 + v b3 3 + v b4 4 + v b5 5 + v b6 6 + v b7 7)
let ascii_of_char (c : char) : ascii =
  let n = Char.code c in let b k = (n lsr k) land 1 = 1 in Ascii (b 0, b 1, b 2, b 3, b 4, b 5, b 6, b 7)
let rec string_of_coq (s : string) : Stdlib.String.t =
  match s with EmptyString -> "" | String (a, r) -> Stdlib.String.make 1 (char_of_ascii a) ^ string_of_coq r
let coq_of_string (s : Stdlib.String.t) : string =
  let r = ref EmptyString in
  for i = Stdlib.String.length s - 1 downto 0 do r := String (ascii_of_char s.[i], !r) done; !r
let rec z_to_string (z : z) : Stdlib.String.t =
  match z with Z0 -> "0" | Zpos p -> big_pos p | Zneg p -> "-" ^ big_pos p
and big_pos (p : positive) : Stdlib.String.t =
  (* decimal printing of a positive of any size: repeated division by 10 on the bit list *)
  let rec bits p acc = match p with XH -> true :: acc | XO q -> bits q (false :: acc) | XI q -> bits q (true :: acc) in
  let bl = bits p [] in          (* most significant first *)
  let digits = ref [0] in        (* little endian decimal *)
  List.iter (fun b ->
    let carry = ref (if b then 1 else 0) in
    digits := List.map (fun d -> let v = d * 2 + !carry in carry := v / 10; v mod 10) !digits;
    if !carry > 0 then digits := !digits @ [!carry]) bl;
  String.concat "" (List.rev_map string_of_int !digits)
let rec dump_value b (v : value) =
  match v with
  | VNone -> Buffer.add_string b "None"
  | VBool true -> Buffer.add_string b "T" | VBool false -> Buffer.add_string b "F"
  | VEnum (c, n) -> Buffer.add_string b (string_of_coq c ^ "." ^ string_of_coq n)
  | VInt z -> Buffer.add_string b ("i:" ^ z_to_string z)
  | VStr s -> Buffer.add_string b ("s:" ^ cps s)
  | VTuple l -> Buffer.add_char b '('; List.iteri (fun i x -> if i > 0 then Buffer.add_char b ','; dump_value b x) l; Buffer.add_char b ')'
  | VList l -> Buffer.add_char b '['; List.iteri (fun i x -> if i > 0 then Buffer.add_char b ','; dump_value b x) l; Buffer.add_char b ']'
  | VNode (c, fs) ->
      Buffer.add_string b (string_of_coq c); Buffer.add_char b '{';
      List.iteri (fun i (k, x) -> if i > 0 then Buffer.add_char b ';'; Buffer.add_string b (string_of_coq k); Buffer.add_char b '='; dump_value b x) fs;
      Buffer.add_char b '}'
let dialect_of (name : Stdlib.String.t) : sqltype =
  try List.find (fun d -> string_of_coq (sqltype_name d) = name) all_sqltypes with Not_found -> failwith ("bad dialect " ^ name)

(* ---- specification expressions (prefix notation) ---- *)
let rec parse_sexpr (ws : Stdlib.String.t list) : sexpr * Stdlib.String.t list =
  let two r = let (a, r1) = parse_sexpr r in let (b, r2) = parse_sexpr r1 in (a, b, r2) in
  let rec many n r = if n = 0 then ([], r) else let (a, r1) = parse_sexpr r in let (l, r2) = many (n - 1) r1 in (a :: l, r2) in
  match ws with
  | "col" :: n :: r -> (SCol (None, str_of_word n), r)
  | "tcol" :: t :: n :: r -> (SCol (Some (str_of_word t), str_of_word n), r)
  | "lit" :: s :: r -> (SLit (str_of_word s), r)
  | "un" :: o :: r -> let (a, r1) = parse_sexpr r in
      (SUn ((match o with "-" -> U_MINUS | "+" -> U_PLUS | "~" -> U_TILDE | _ -> U_BANG), a), r1)
  | "bin" :: o :: r -> let (a, b, r2) = two r in
      (SBin ((match o with "^" -> B_XOR | "*" -> B_MUL | "/" -> B_DIV | "%" -> B_MOD | "+" -> B_ADD | "-" -> B_SUB | "<<" -> B_SHL
                          | ">>" -> B_SHR | "&" -> B_AND | _ -> B_OR), a, b), r2)
  | "kw" :: k :: neg :: r -> let (a, b, r2) = two r in
      (SKw ((match k with "like" -> K_LIKE | "rlike" -> K_RLIKE | "regexp" -> K_REGEXP | _ -> K_IS), neg = "1", a, b), r2)
  | "btw" :: neg :: r -> let (a, r1) = parse_sexpr r in let (b, c, r3) = two r1 in (SBetween (neg = "1", a, b, c), r3)
  | "in" :: neg :: n :: r -> let (a, r1) = parse_sexpr r in let (l, r2) = many (int_of_string n) r1 in (SIn (neg = "1", a, l), r2)
  | "cmp" :: o :: r -> let (a, b, r2) = two r in
      (SCmp ((match o with "=" -> C_EQ | "!=" -> C_NEQ | "<" -> C_LT | "<=" -> C_LTE | ">" -> C_GT | ">=" -> C_GTE | _ -> C_SAFE_EQ), a, b), r2)
  | "not" :: r -> let (a, r1) = parse_sexpr r in (SNot a, r1)
  | "and" :: r -> let (a, b, r2) = two r in (SAnd (a, b), r2)
  | "xor" :: r -> let (a, b, r2) = two r in (SXor (a, b), r2)
  | "or" :: r -> let (a, b, r2) = two r in (SOr (a, b), r2)
  | "fn" :: f :: n :: r -> let (l, r2) = many (int_of_string n) r in (SFunc (str_of_word f, l), r2)
  | _ -> failwith "bad sexpr"

let ints_of words = List.map (fun w -> n_of_int (int_of_string w)) words

let handle (line : Stdlib.String.t) : Stdlib.String.t =
  let words = List.filter (fun w -> w <> "") (String.split_on_char ' ' line) in
  match words with
  | "LEX" :: mb :: flags :: rest ->
      (match lex (mb = "1") (nat_of_int (int_of_string flags)) (ints_of rest) with
       | Ok ts -> let b = Buffer.create 256 in Buffer.add_string b "OK "; List.iter (show_tok b) ts; Buffer.contents b
       | Err e -> "ERR " ^ err_name e)
  | "LEXFULL" :: mb :: flags :: rest ->
      (match lex_full (mb = "1") (nat_of_int (int_of_string flags)) (ints_of rest) with
       | Ok ts -> let b = Buffer.create 256 in Buffer.add_string b "OK "; List.iter (show_ftok b) ts; Buffer.contents b
       | Err e -> "ERR " ^ err_name e)
  | "SPEC" :: mb :: flags :: rest ->
      (match spec_lex (mb = "1") (nat_of_int (int_of_string flags)) (ints_of rest) with
       | Ok ts -> let b = Buffer.create 256 in Buffer.add_string b "OK "; List.iter (show_tok b) ts; Buffer.contents b
       | Err e -> "ERR " ^ err_name e)
  | "CLASSIFY" :: flags :: rest ->
      string_of_int (int_of_n (classify_input (nat_of_int (int_of_string flags)) (ints_of rest)))
  | "DEVS" :: flags :: [] ->
      let ds = devs_paths (nat_of_int (int_of_string flags)) in
      String.concat " " (List.map (fun (((s, t), i), path) ->
        Printf.sprintf "%d:%s%s" (int_of_n (dev_family ((s, t), i))) (cps path) (match i with None -> "$" | Some _ -> "")) ds)
  | "CLASSIFYMB" :: flags :: rest ->
      string_of_int (int_of_n (classify_input_mb (nat_of_int (int_of_string flags)) (ints_of rest)))
  | "DEVSMB" :: flags :: [] ->
      let ds = devs_mb_paths (nat_of_int (int_of_string flags)) in
      String.concat " " (List.map (fun (((s, t), i), path) ->
        Printf.sprintf "%d:%s%s" (int_of_n (dev_family ((s, t), i))) (cps path) (match i with None -> "$" | Some _ -> "")) ds)
  | "HASPH" :: rest -> if has_ph_open false (ints_of rest) then "1" else "0"
  | "PARSE" :: mb :: entry :: dialect :: rest ->
      (try
         (match parse_text (mb = "1") (coq_of_string entry) (dialect_of dialect) (ints_of rest) with
          | Ok v -> let b = Buffer.create 512 in Buffer.add_string b "OK "; dump_value b v; Buffer.contents b
          | Err e -> "ERR " ^ err_name e)
       with Failure m -> "BAD-REQUEST " ^ m)
  | "EMIT" :: hive :: cs :: "|" :: rest ->
      (try
         let choices = if cs = "-" then [] else List.map (fun x -> nat_of_int (int_of_string x)) (Stdlib.String.split_on_char ',' cs) in
         let (e, _) = parse_sexpr rest in
         let (text, _) = emit (hive = "1") e choices in
         let b = Buffer.create 256 in dump_value b (canon (embed e));
         (if text = [] then "-" else cps text) ^ " | " ^ Buffer.contents b
       with Failure m -> "BAD-REQUEST " ^ m)
  | "PRINT" :: mb :: entry :: pd :: qd :: rest ->
      (* parse with dialect pd, print every resulting node with dialect qd *)
      (try
         (match parse_text (mb = "1") (coq_of_string entry) (dialect_of pd) (ints_of rest) with
          | Err e -> "PARSEERR " ^ err_name e
          | Ok v ->
              let nodes = (match v with VList l -> l | x -> [x]) in
              "OK " ^ Stdlib.String.concat "|" (List.map (fun n ->
                 match print (dialect_of qd) n with Ok s -> if s = [] then "-" else cps s | Err e -> "ERR:" ^ err_name e) nodes))
       with Failure m -> "BAD-REQUEST " ^ m)
  | "HELPERS" :: ops :: rest ->
      (* HELPERS <op,op,...|-> <text code points>  : parse CREATE TABLE (MySQL), apply the helper history, dump + print *)
      (try
         let req_of (w : Stdlib.String.t) : hreq =
           match Stdlib.String.split_on_char ':' w with
           | ["ct0"] -> RChangeType false | ["ct1"] -> RChangeType true
           | ["stn"; s; t] -> RSetTableName ((if s = "-" then None else Some (str_of_word s)), str_of_word t)
           | ["ac"; t] -> RAppendColumn (str_of_word t) | ["apc"; t] -> RAppendPartition (str_of_word t)
           | _ -> failwith ("bad helper op " ^ w) in
         let reqs = if ops = "-" then [] else List.map req_of (Stdlib.String.split_on_char ',' ops) in
         (match helpers_text reqs (ints_of rest) with
          | Err e -> "PARSEERR " ^ err_name e
          | Ok (Err e) -> "HELPERR " ^ err_name e
          | Ok (Ok v) ->
              let b = Buffer.create 512 in dump_value b v;
              let pr d = (match print d v with Ok s -> if s = [] then "-" else cps s | Err e -> "ERR:" ^ err_name e) in
              "OK " ^ Buffer.contents b ^ " | " ^ pr (dialect_of "MYSQL") ^ " | " ^ pr (dialect_of "HIVE")
              ^ " | " ^ (if no_list v then "hashable" else "unhashable"))
       with Failure m -> "BAD-REQUEST " ^ m)
  | "SETWITH" :: dialect :: rest ->
      (try
         let rec split acc = function "|" :: r -> (List.rev acc, r) | x :: r -> split (x :: acc) r | [] -> (List.rev acc, []) in
         let (a, b) = split [] rest in
         (match setwith_text (dialect_of dialect) (ints_of a) (ints_of b) with
          | Err e -> "PARSEERR " ^ err_name e
          | Ok (Err e) -> "HELPERR " ^ err_name e
          | Ok (Ok v) -> let bf = Buffer.create 512 in dump_value bf v;
              "OK " ^ Buffer.contents bf ^ " | " ^ (if no_list v then "hashable" else "unhashable"))
       with Failure m -> "BAD-REQUEST " ^ m)
  | "LEXCALLS" :: mb :: flags :: rest ->
      string_of_int (int_of_nat (lex_handle_calls (mb = "1") (nat_of_int (int_of_string flags)) (ints_of rest)))
  | "WALK" :: which :: dialect :: rest ->
      (try
         let so = function None -> "-" | Some s -> if s = [] then "e" else cps s in
         (match walk_text (coq_of_string which) (dialect_of dialect) (ints_of rest) with
          | Err e -> "PARSEERR " ^ err_name e
          | Ok (Err e) -> "ERR " ^ err_name e
          | Ok (Ok (WTables l)) -> "OK T[" ^ String.concat "," (List.map (fun (s, t) -> so s ^ ":" ^ so (Some t)) l) ^ "]"
          | Ok (Ok (WCols l)) ->
              "OK C[" ^ String.concat "," (List.map (fun q -> so q.q_table ^ ":" ^ so q.q_column ^ ":" ^
                                              (match q.q_idx with None -> "-" | Some z -> z_to_string z)) l) ^ "]")
       with Failure m -> "BAD-REQUEST " ^ m)
  | "LINEAGE" :: rest ->
      (* LINEAGE name=sql,name=sql,... | query     (names, sql and query as code points; entries separated by ',') *)
      (try
         let rec split acc = function "|" :: r -> (List.rev acc, r) | x :: r -> split (x :: acc) r | [] -> (List.rev acc, []) in
         let (cw, qw) = split [] rest in
         let cat = List.concat_map (fun w -> if w = "-" then [] else List.map (fun e ->
                     match Stdlib.String.split_on_char '=' e with [n; s] -> (str_of_word n, str_of_word s) | _ -> failwith "bad catalogue")
                     (Stdlib.String.split_on_char ',' w)) cw in
         let so = function None -> "-" | Some s -> if s = [] then "e" else cps s in
         let show_src (x : src0) = so x.s_schema ^ ":" ^ so (Some x.s_table) ^ ":" ^ so x.s_column in
         let show_srcs l = "[" ^ String.concat "," (List.sort_uniq compare (List.map show_src l)) ^ "]" in
         (match lineage_text cat (ints_of qw) with
          | Err e -> "PARSEERR " ^ err_name e
          | Ok (Err e, _) -> "ERR " ^ err_name e
          | Ok (Ok (LSelect l), asked) ->
              "OK S " ^ String.concat " " (List.map (fun (c, ss) -> z_to_string c.sc_idx ^ ":" ^ so (Some c.sc_name) ^ "=" ^ show_srcs ss) l)
              ^ " ; ASKED " ^ String.concat "," (List.map (fun k -> so (Some k)) asked)
          | Ok (Ok (LInsert l), asked) ->
              "OK I " ^ String.concat " " (List.map (fun (t, ss) -> show_src t ^ "=" ^ show_srcs ss) l)
              ^ " ; ASKED " ^ String.concat "," (List.map (fun k -> so (Some k)) asked))
       with Failure m -> "BAD-REQUEST " ^ m)
  | "CACHE" :: rest ->
      (* CACHE known=name,name,... | op op ...   ops: new:1 new:0 get:<i>:<name> crash:<i>:<name>:<k>
         provider(name) = "CREATE TABLE zz (n<name code points joined by _> INT)" for known names, raises otherwise *)
      (try
         let rec split acc = function "|" :: r -> (List.rev acc, r) | x :: r -> split (x :: acc) r | [] -> (List.rev acc, []) in
         let (kw, ops) = split [] rest in
         let known = List.concat_map (fun w -> if w = "-" then [] else List.map str_of_word (Stdlib.String.split_on_char ',' w)) kw in
         let tag (n : n list) = "n" ^ String.concat "_" (List.map (fun c -> string_of_int (int_of_n c)) n) in
         let str_of_ocaml (s : Stdlib.String.t) = List.init (Stdlib.String.length s) (fun i -> n_of_int (Char.code s.[i])) in
         let provider (n : n list) = if List.mem n known then Some (str_of_ocaml ("CREATE TABLE zz (" ^ tag n ^ " INT)")) else None in
         let op_of w = match Stdlib.String.split_on_char ':' w with
           | ["new"; d] -> CNew (d = "1") | ["get"; i; n] -> CGet (nat_of_int (int_of_string i), str_of_word n)
           | ["crash"; i; n; k] -> CCrashSave (nat_of_int (int_of_string i), str_of_word n, nat_of_int (int_of_string k))
           | _ -> failwith ("bad cache op " ^ w) in
         let (w, rs) = crun provider empty_world (List.map op_of ops) in
         let ocaml_of_str l = Stdlib.String.concat "" (List.map (fun c -> Stdlib.String.make 1 (Char.chr (int_of_n c land 255))) l) in
         let show = function
           | RNone -> "-"
           | RErr e -> "E:" ^ err_name e
           | RSql s -> let t = ocaml_of_str s in
               (try let a = Stdlib.String.index t '(' in let b = Stdlib.String.rindex t ' ' in "S:" ^ Stdlib.String.sub t (a + 1) (b - a - 1)
                with Not_found | Invalid_argument _ -> "S:?" ^ t) in
         String.concat " " (List.map show rs) ^ " ; ASKED " ^ String.concat "," (List.map (fun k -> if k = [] then "e" else cps k) w.w_asked)
         ^ " ; FILES " ^ String.concat "," (List.sort compare (List.map (fun (f, _) -> cps f) w.w_fs))
       with Failure m -> "BAD-REQUEST " ^ m)
  | "NICE" :: rest -> if nice (ints_of rest) then "1" else "0"
  | "CURSOR" :: rest ->
      (try
         let (toks, rest1) = parse_toks rest in
         let opws = (match rest1 with "|" :: r -> r | _ -> failwith "no ops") in
         let ops = List.map op_of (List.filter (fun l -> l <> []) (split_ops opws [])) in
         let (tr, _) = run_ops { elems = toks; pos = O } ops in
         String.concat " ; " (List.map (fun (p, o) -> Printf.sprintf "%d=%s" (int_of_nat p) (show_out o)) tr)
       with Failure m -> "BAD-REQUEST " ^ m)
  | _ -> "BAD-REQUEST"

let () =
  try
    while true do
      let line = input_line stdin in
      print_string (String.trim (handle line)); print_newline ()
    done
  with End_of_file -> ()
