(* Line-protocol driver around the extracted Coq models.  One request per line on stdin, one answer per line. *)
open Modelx

let rec pos_of_int (i : int) : positive =
  if i = 1 then XH else if i land 1 = 1 then XI (pos_of_int (i lsr 1)) else XO (pos_of_int (i lsr 1))
let n_of_int (i : int) : n = if i = 0 then N0 else Npos (pos_of_int i)
let rec int_of_pos = function XH -> 1 | XO p -> 2 * int_of_pos p | XI p -> 2 * int_of_pos p + 1
let int_of_n = function N0 -> 0 | Npos p -> int_of_pos p
let rec nat_of_int i = if i <= 0 then O else S (nat_of_int (i - 1))
let rec int_of_nat = function O -> 0 | S n -> 1 + int_of_nat n

let cps (s : n list) = String.concat "." (List.map (fun c -> string_of_int (int_of_n c)) s)

let err_name = function
  | LexErr -> "LexErr" | ParseErr -> "ParseErr" | NotSupport -> "NotSupport" | AnalyzerErr -> "AnalyzerErr"
  | Crash k -> "Crash" ^ string_of_int (int_of_n k) | OutOfFuel -> "OutOfFuel"

let rec show_tok b (t : tok) =
  match t with
  | Leaf (s, m) -> Buffer.add_string b (Printf.sprintf "L:%d:%s " (int_of_n m) (cps s))
  | Group (k, ts) ->
      Buffer.add_string b (Printf.sprintf "%s:%d:%s( " (match k with KPar -> "P" | KSlice -> "S")
                             (int_of_n (group_marks k)) (cps (source t)));
      List.iter (show_tok b) ts;
      Buffer.add_string b ") "

let rec show_ftok b (t : ftok) =
  match t with
  | FLeaf (s, m) -> Buffer.add_string b (Printf.sprintf "L:%d:%s " (int_of_n m) (cps s))
  | FSkip s -> Buffer.add_string b (Printf.sprintf "K:%s " (cps s))
  | FGroup (o, k, c, ts) ->
      Buffer.add_string b (Printf.sprintf "%s:%s:%s( " (match k with KPar -> "P" | KSlice -> "S") (cps o) (cps c));
      List.iter (show_ftok b) ts;
      Buffer.add_string b ") "

let ints_of words = List.map (fun w -> n_of_int (int_of_string w)) words

let handle (line : string) : string =
  let words = List.filter (fun w -> w <> "") (String.split_on_char ' ' line) in
  match words with
  | "LEX" :: mb :: flags :: rest ->
      (match lex (mb = "1") (nat_of_int (int_of_string flags)) (ints_of rest) with
       | Ok ts -> let b = Buffer.create 256 in Buffer.add_string b "OK "; List.iter (show_tok b) ts; Buffer.contents b
       | Err e -> "ERR " ^ err_name e)
  | "LEXFULL" :: mb :: flags :: rest ->
      (match lex_full (mb = "1") (nat_of_int (int_of_string flags)) (ints_of rest) with
       | Ok ts -> let b = Buffer.create 256 in Buffer.add_string b "OK "; List.iter (show_ftok b) ts; Buffer.contents b
       | Err e -> "ERR " ^ err_name e)
  | "SPEC" :: mb :: flags :: rest ->
      (match spec_lex (mb = "1") (nat_of_int (int_of_string flags)) (ints_of rest) with
       | Ok ts -> let b = Buffer.create 256 in Buffer.add_string b "OK "; List.iter (show_tok b) ts; Buffer.contents b
       | Err e -> "ERR " ^ err_name e)
  | "CLASSIFY" :: flags :: rest ->
      string_of_int (int_of_n (classify_input (nat_of_int (int_of_string flags)) (ints_of rest)))
  | "DEVS" :: flags :: [] ->
      let ds = devs_paths (nat_of_int (int_of_string flags)) in
      String.concat " " (List.map (fun (((s, t), i), path) ->
        Printf.sprintf "%d:%s%s" (int_of_n (dev_family ((s, t), i))) (cps path) (match i with None -> "$" | Some _ -> "")) ds)
  | _ -> "BAD-REQUEST"

let () =
  try
    while true do
      let line = input_line stdin in
      print_string (String.trim (handle line)); print_newline ()
    done
  with End_of_file -> ()
