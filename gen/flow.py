#!/venv/bin/python
"""Translator: dialect flow of core/parser.py (+ plugins/mybaitis.py) and of the printers in core/node.py -> coq/Gen/Flow.v

Parser: every function of class SQLParser / SQLParserMyBatis with (has a sql_type parameter, is dialect-sensitive = uses
sql_type other than by forwarding it, is a public entry point), and every intra-class call edge with how the dialect is
passed: Param (the caller's own sql_type), Const (something else), Missing (callee has the parameter, the call leaves it
to the default), NoParam (callee has no such parameter).
Printers: every call of .source(...) / _operand_source(...) / self._helper(...) inside a method that has a sql_type
parameter, with the same kinds; a Missing call is `excused` only when the receiver is a field declared as
ASTFunctionNameExpression (whose printer has no dialect branch), a Const call only inside a method _source_<dialect>.
Fail-closed: a parse function used as a value (callback), a call through getattr, *args/**kwargs forwarding -> abort."""
import ast
import os
import sys

REPO = os.environ.get("VERIF_REPO", "/repo")


def q(s):
    return '"%s"' % s


def parser_flow(path, clsname, known=None):
    tree = ast.parse(open(path, encoding="utf-8").read())
    cls = [n for n in tree.body if isinstance(n, ast.ClassDef) and n.name == clsname][0]
    funs = {}
    for f in cls.body:
        if isinstance(f, ast.FunctionDef):
            args = [a.arg for a in f.args.args] + [a.arg for a in f.args.kwonlyargs]
            if f.args.vararg or f.args.kwarg:
                raise SystemExit("flow: %s.%s takes *args/**kwargs (fail closed)" % (clsname, f.name))
            funs[f.name] = (f, args)
    allf = dict(known or {})
    allf.update({k: v[1] for k, v in funs.items()})
    rows, edges = [], []
    for name, (f, args) in funs.items():
        has = "sql_type" in args
        forwarded = set()
        for node in ast.walk(f):
            if isinstance(node, ast.Call):
                fn = node.func
                callee = None
                if isinstance(fn, ast.Attribute):
                    base = fn.value
                    if (isinstance(base, ast.Name) and base.id in ("cls", "self", "SQLParser", clsname)) or \
                            (isinstance(base, ast.Call) and isinstance(base.func, ast.Name) and base.func.id == "super"):
                        if fn.attr in allf:
                            callee = fn.attr
                if callee is None:
                    continue
                if any(isinstance(a, ast.Starred) for a in node.args) or any(k.arg is None for k in node.keywords):
                    raise SystemExit("flow: %s.%s forwards *args/**kwargs to %s (fail closed)" % (clsname, name, callee))
                cargs = [a for a in allf[callee] if a not in ("cls", "self")]
                if "sql_type" not in cargs:
                    edges.append((name, callee, "NoParam"))
                    continue
                idx = cargs.index("sql_type")
                val = None
                for k in node.keywords:
                    if k.arg == "sql_type":
                        val = k.value
                if val is None and len(node.args) > idx:
                    val = node.args[idx]
                if val is None:
                    edges.append((name, callee, "Missing"))
                elif isinstance(val, ast.Name) and val.id == "sql_type" and has:
                    edges.append((name, callee, "Param"))
                    forwarded.add(id(val))
                else:
                    edges.append((name, callee, "Const"))
            elif isinstance(node, ast.Attribute) and isinstance(node.value, ast.Name) and node.value.id in ("cls", "self") and node.attr in allf:
                pass
        # a parse function used as a value (not called) would escape the census
        called = {id(n.func) for n in ast.walk(f) if isinstance(n, ast.Call)}
        for node in ast.walk(f):
            if isinstance(node, ast.Attribute) and isinstance(node.value, ast.Name) and node.value.id in ("cls", "self") \
                    and node.attr in allf and node.attr.lstrip("_").startswith("parse") and id(node) not in called:
                raise SystemExit("flow: %s.%s uses %s as a value (fail closed)" % (clsname, name, node.attr))
        uses = [n for n in ast.walk(f) if isinstance(n, ast.Name) and n.id == "sql_type" and isinstance(n.ctx, ast.Load) and id(n) not in forwarded]
        sensitive = bool(uses)
        public = name.startswith("parse_")
        rows.append((name, has, sensitive, public))
    return rows, edges, {k: v[1] for k, v in funs.items()}


def printer_flow(path):
    tree = ast.parse(open(path, encoding="utf-8").read())
    calls = []
    classes = {n.name: n for n in tree.body if isinstance(n, ast.ClassDef)}

    def annotations(cls, seen=()):
        out = {}
        for bse in cls.bases:
            bn = bse.id if isinstance(bse, ast.Name) else None
            if bn in classes and bn not in seen:
                out.update(annotations(classes[bn], seen + (bn,)))
        for st in cls.body:
            if isinstance(st, ast.AnnAssign) and isinstance(st.target, ast.Name):
                out[st.target.id] = ast.unparse(st.annotation)
        return out
    for cls in classes.values():
        ann = annotations(cls)
        methods = {f.name: [a.arg for a in f.args.args] for f in cls.body if isinstance(f, ast.FunctionDef)}
        for f in cls.body:
            if not isinstance(f, ast.FunctionDef) or f.name.startswith("__"):
                continue
            args = [a.arg for a in f.args.args]
            has = "sql_type" in args
            if not has and not f.name.startswith("_source_"):
                continue
            for node in ast.walk(f):
                if not isinstance(node, ast.Call):
                    continue
                fn = node.func
                target, val, recv = None, None, ""
                if isinstance(fn, ast.Attribute) and fn.attr == "source":
                    target = "source"
                    recv = ast.unparse(fn.value)
                    for k in node.keywords:
                        if k.arg == "sql_type":
                            val = k.value
                    if val is None and node.args:
                        val = node.args[0]
                elif isinstance(fn, ast.Name) and fn.id == "_operand_source":
                    target = "_operand_source"
                    recv = ast.unparse(node.args[0]) if node.args else ""
                    val = node.args[1] if len(node.args) > 1 else None
                elif isinstance(fn, ast.Attribute) and isinstance(fn.value, ast.Name) and fn.value.id == "self" and fn.attr in methods \
                        and "sql_type" in methods[fn.attr]:
                    target = fn.attr
                    recv = "self"
                    idx = [a for a in methods[fn.attr] if a != "self"].index("sql_type")
                    for k in node.keywords:
                        if k.arg == "sql_type":
                            val = k.value
                    if val is None and len(node.args) > idx:
                        val = node.args[idx]
                if target is None:
                    continue
                if val is None:
                    kind = "Missing"
                    excused = recv.startswith("self.") and recv.count(".") == 1 and ann.get(recv[5:], "").strip() == "ASTFunctionNameExpression"
                elif isinstance(val, ast.Name) and val.id == "sql_type" and has:
                    kind, excused = "Param", True
                else:
                    kind = "Const"
                    txt = ast.unparse(val)
                    excused = f.name.startswith("_source_") and txt == "SQLType." + f.name[len("_source_"):].upper()
                calls.append(("%s.%s" % (cls.name, f.name), recv[:60].replace('"', "'"), kind, excused))
    return calls


def build(outpath):
    rows, edges, known = parser_flow(os.path.join(REPO, "metasequoia_sql/core/parser.py"), "SQLParser")
    rows2, edges2, _ = parser_flow(os.path.join(REPO, "metasequoia_sql/plugins/mybaitis.py"), "SQLParserMyBatis", known)
    calls = printer_flow(os.path.join(REPO, "metasequoia_sql/core/node.py"))
    L = ["(* GENERATED by gen/flow.py from /repo -- do not edit. *)",
         "From Coq Require Import List Bool String.", "Import ListNotations.", "Open Scope string_scope.", "",
         "Inductive fkind : Type := Param | Const | Missing | NoParam.",
         "Record pfun := mkpf { pf_name : string; pf_has_param : bool; pf_sensitive : bool; pf_public : bool }.",
         "Record pedge := mkpe { pe_caller : string; pe_callee : string; pe_kind : fkind }.",
         "Record prcall := mkpc { pc_site : string; pc_receiver : string; pc_kind : fkind; pc_excused : bool }.", ""]
    b = lambda x: "true" if x else "false"
    L.append("Definition parser_funs : list pfun := [\n  " + ";\n  ".join("mkpf %s %s %s %s" % (q(n), b(h), b(s), b(p)) for n, h, s, p in rows) + "].")
    L.append("Definition parser_edges : list pedge := [\n  " + ";\n  ".join("mkpe %s %s %s" % (q(a), q(c), k) for a, c, k in edges) + "].")
    L.append("Definition plugin_funs : list pfun := [\n  " + ";\n  ".join("mkpf %s %s %s %s" % (q(n), b(h), b(s), b(p)) for n, h, s, p in rows2) + "].")
    L.append("Definition plugin_edges : list pedge := [\n  " + ";\n  ".join("mkpe %s %s %s" % (q(a), q(c), k) for a, c, k in edges2) + "].")
    L.append("Definition printer_calls : list prcall := [\n  " + ";\n  ".join("mkpc %s %s %s %s" % (q(s), q(r), k, b(e)) for s, r, k, e in calls) + "].")
    text = "\n".join(L) + "\n"
    old = open(outpath, encoding="utf-8").read() if os.path.exists(outpath) else None
    if old != text:
        open(outpath, "w", encoding="utf-8").write(text)
    return len(rows), len(edges), len(rows2), len(edges2), len(calls)


if __name__ == "__main__":
    print("flow: parser functions %d edges %d; plug-in functions %d edges %d; printer calls %d" % build(sys.argv[1] if len(sys.argv) > 1 else "/verif/coq/Gen/Flow.v"))
