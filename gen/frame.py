#!/venv/bin/python
"""Translator: frame census of the whole package -> coq/Gen/Frame.v

For every function / method of metasequoia_sql (lexical, common, core, analyzer, plugins): statements that can write state shared
between calls -- `global` / `nonlocal`; assignment, augmented assignment or deletion whose target is an attribute or subscript rooted
at a module-level name, at `cls`, or at a class name; calls of mutating methods (append, extend, update, add, pop, clear, remove,
insert, setdefault, sort, reverse, discard, popitem, __setitem__, __delitem__) on such a root; object.__setattr__ anywhere.
Module-level code (it runs once, at import, and builds the shared tables) is not a function and is not listed.
Also: every Python `set` that is turned into a list / iterated to produce an ordered result (hash-seed dependent order).
Fail-closed: exec / eval / setattr with a non-constant name / importlib reload abort the translation."""
import ast
import os
import sys

REPO = os.environ.get("VERIF_REPO", "/repo")
MUTATORS = {"append", "extend", "update", "add", "pop", "clear", "remove", "insert", "setdefault", "sort", "reverse", "discard", "popitem", "__setitem__",
            "__delitem__", "appendleft", "popleft"}


def root_name(node):
    while isinstance(node, (ast.Attribute, ast.Subscript)):
        node = node.value
    if isinstance(node, ast.Call):
        return None
    return node.id if isinstance(node, ast.Name) else None


def set_names_of(path):
    """names / attributes of this file that are bound to a Python set somewhere (set display, set comprehension, set() / frozenset() call)"""
    tree = ast.parse(open(path, encoding="utf-8").read())
    names = set()
    for n in ast.walk(tree):
        if isinstance(n, (ast.Assign, ast.AnnAssign)):
            val = n.value
            is_set = isinstance(val, (ast.Set, ast.SetComp)) or (isinstance(val, ast.Call) and isinstance(val.func, ast.Name) and val.func.id in ("set", "frozenset"))
            if is_set:
                for t in (n.targets if isinstance(n, ast.Assign) else [n.target]):
                    if isinstance(t, ast.Attribute):
                        names.add(t.attr)
                    elif isinstance(t, ast.Name):
                        names.add(t.id)
    return names


GLOBAL_SET_NAMES = set()


def scan_file(path, rel):
    tree = ast.parse(open(path, encoding="utf-8").read())
    module_names = set()
    for st in tree.body:
        if isinstance(st, (ast.Assign, ast.AnnAssign)):
            for t in (st.targets if isinstance(st, ast.Assign) else [st.target]):
                for n in ast.walk(t):
                    if isinstance(n, ast.Name):
                        module_names.add(n.id)
        elif isinstance(st, ast.ClassDef):
            module_names.add(st.name)
        elif isinstance(st, (ast.Import, ast.ImportFrom)):
            for a in st.names:
                module_names.add((a.asname or a.name).split(".")[0])
    writes, orders = [], []
    # attributes that hold a Python set: `self.x = set()` / set display / set comprehension / `x: Set[...] = ...`
    set_attrs = set(GLOBAL_SET_NAMES)          # sets defined in any file of the package: they are reached as module.NAME or through an import
    for n in ast.walk(tree):
        if isinstance(n, (ast.Assign, ast.AnnAssign)):
            val = n.value
            is_set = isinstance(val, (ast.Set, ast.SetComp)) or (isinstance(val, ast.Call) and isinstance(val.func, ast.Name) and val.func.id in ("set", "frozenset"))
            if is_set:
                for t in (n.targets if isinstance(n, ast.Assign) else [n.target]):
                    if isinstance(t, ast.Attribute):
                        set_attrs.add(t.attr)
                    elif isinstance(t, ast.Name):
                        set_attrs.add(t.id)

    def is_set_expr(e):
        if isinstance(e, (ast.Set, ast.SetComp)):
            return True
        if isinstance(e, ast.Call) and isinstance(e.func, ast.Name) and e.func.id in ("set", "frozenset"):
            return True
        if isinstance(e, ast.Attribute) and e.attr in set_attrs:
            return True
        if isinstance(e, ast.Name) and e.id in set_attrs:
            return True
        return False

    def visit_fn(fn, qual):
        local = {a.arg for a in fn.args.args + fn.args.kwonlyargs}
        if fn.args.vararg:
            local.add(fn.args.vararg.arg)
        if fn.args.kwarg:
            local.add(fn.args.kwarg.arg)
        for n in ast.walk(fn):
            if isinstance(n, (ast.Assign, ast.AnnAssign, ast.AugAssign, ast.For, ast.With, ast.comprehension, ast.NamedExpr)):
                tg = []
                if isinstance(n, ast.Assign):
                    tg = n.targets
                elif isinstance(n, (ast.AnnAssign, ast.AugAssign, ast.NamedExpr)):
                    tg = [n.target]
                elif isinstance(n, (ast.For, ast.comprehension)):
                    tg = [n.target]
                for t in tg:
                    for x in ast.walk(t):
                        if isinstance(x, ast.Name) and isinstance(x.ctx, ast.Store):
                            local.add(x.id)
        shared_root = lambda r: r is not None and r not in local and (r in module_names or r == "cls")
        # local names bound DIRECTLY to a shared object (x = GLOBAL, x = cls.attr, x = module.GLOBAL): mutating x mutates the shared object
        aliases = {}
        for n in ast.walk(fn):
            if isinstance(n, ast.Assign) and len(n.targets) == 1 and isinstance(n.targets[0], ast.Name):
                v = n.value
                plain = isinstance(v, ast.Name) or (isinstance(v, ast.Attribute) and all(isinstance(y, (ast.Attribute, ast.Name, ast.Load)) for y in ast.walk(v)))
                if plain and shared_root(root_name(v)):
                    aliases[n.targets[0].id] = ast.unparse(v)[:40]
        for d in fn.decorator_list:
            dn = ast.unparse(d)
            if "lru_cache" in dn or dn.split("(")[0].split(".")[-1] in ("cache", "cached_property"):
                writes.append((rel, qual, fn.lineno, "memoising decorator " + dn[:40]))
        for n in ast.walk(fn):
            if isinstance(n, ast.AugAssign) and isinstance(n.target, ast.Name) and n.target.id in aliases:
                writes.append((rel, qual, n.lineno, "augmented assignment to %s, an alias of shared %s" % (n.target.id, aliases[n.target.id])))
            if isinstance(n, (ast.Assign, ast.AugAssign, ast.AnnAssign, ast.Delete)):
                tg = n.targets if isinstance(n, (ast.Assign, ast.Delete)) else [n.target]
                for t in tg:
                    for x in ([t] if not isinstance(t, (ast.Tuple, ast.List)) else t.elts):
                        if isinstance(x, (ast.Attribute, ast.Subscript)) and root_name(x) in aliases:
                            writes.append((rel, qual, n.lineno, "store through %s, an alias of shared %s" % (root_name(x), aliases[root_name(x)])))
            if isinstance(n, ast.Call) and isinstance(n.func, ast.Attribute) and n.func.attr in MUTATORS and root_name(n.func.value) in aliases:
                r0 = root_name(n.func.value)
                writes.append((rel, qual, n.lineno, "mutating call %s through an alias of shared %s" % (ast.unparse(n.func)[:40], aliases[r0])))
        for n in ast.walk(fn):
            if isinstance(n, (ast.Global, ast.Nonlocal)):
                writes.append((rel, qual, n.lineno, "global/nonlocal " + ",".join(n.names)))
            if isinstance(n, (ast.Assign, ast.AugAssign, ast.AnnAssign, ast.Delete)):
                tg = n.targets if isinstance(n, (ast.Assign, ast.Delete)) else [n.target]
                for t in tg:
                    for x in ([t] if not isinstance(t, (ast.Tuple, ast.List)) else t.elts):
                        if isinstance(x, (ast.Attribute, ast.Subscript)) and shared_root(root_name(x)):
                            writes.append((rel, qual, n.lineno, "store to " + ast.unparse(x)[:60]))
            if isinstance(n, ast.Call):
                f = n.func
                if isinstance(f, ast.Attribute) and f.attr in MUTATORS and shared_root(root_name(f.value)):
                    writes.append((rel, qual, n.lineno, "mutating call " + ast.unparse(f)[:60]))
                if isinstance(f, ast.Attribute) and f.attr == "__setattr__" and isinstance(f.value, ast.Name) and f.value.id == "object":
                    writes.append((rel, qual, n.lineno, "object.__setattr__"))
                if isinstance(f, ast.Name) and f.id in ("exec", "eval"):
                    raise SystemExit("frame: %s:%d uses %s (fail closed)" % (rel, n.lineno, f.id))
                if isinstance(f, ast.Name) and f.id == "setattr" and not (len(n.args) > 1 and isinstance(n.args[1], ast.Constant)):
                    raise SystemExit("frame: %s:%d setattr with a computed name (fail closed)" % (rel, n.lineno))
                if isinstance(f, ast.Name) and f.id == "setattr" and shared_root(root_name(n.args[0])):
                    writes.append((rel, qual, n.lineno, "setattr on " + ast.unparse(n.args[0])[:40]))
                # sorted(<set>) is fine; list / tuple / join over a set gives hash order
                if isinstance(f, ast.Name) and f.id in ("list", "tuple", "enumerate", "zip") and n.args and is_set_expr(n.args[0]):
                    orders.append((rel, qual, n.lineno, "%s(%s)" % (f.id, ast.unparse(n.args[0])[:50])))
                if isinstance(f, ast.Attribute) and f.attr == "join" and n.args and is_set_expr(n.args[0]):
                    orders.append((rel, qual, n.lineno, "join(%s)" % ast.unparse(n.args[0])[:50]))
            if isinstance(n, (ast.For, ast.comprehension)) and is_set_expr(n.iter):
                # iterating a set is order dependent unless the result is again a set / a membership test: listed, judged by the theorem
                parent_is_setcomp = False
                orders.append((rel, qual, getattr(n, "lineno", 0), "iteration over %s" % ast.unparse(n.iter)[:50]))

    for st in ast.walk(tree):
        if isinstance(st, ast.ClassDef):
            for f in st.body:
                if isinstance(f, (ast.FunctionDef, ast.AsyncFunctionDef)):
                    visit_fn(f, st.name + "." + f.name)
    for st in tree.body:
        if isinstance(st, (ast.FunctionDef, ast.AsyncFunctionDef)):
            visit_fn(st, st.name)
    return writes, orders


def build(outpath):
    base = os.path.join(REPO, "metasequoia_sql")
    writes, orders, nfiles = [], [], 0
    GLOBAL_SET_NAMES.clear()
    for root, _, files in sorted(os.walk(base)):
        for fn in sorted(files):
            if fn.endswith(".py"):
                GLOBAL_SET_NAMES.update(set_names_of(os.path.join(root, fn)))
    for root, _, files in sorted(os.walk(base)):
        for fn in sorted(files):
            if fn.endswith(".py"):
                rel = os.path.relpath(os.path.join(root, fn), REPO)
                w, o = scan_file(os.path.join(root, fn), rel)
                writes += w
                orders += o
                nfiles += 1
    q = lambda s: '"%s"' % s.replace('"', "'").replace("\\", "/")
    L = ["(* GENERATED by gen/frame.py from /repo -- do not edit. *)", "From Coq Require Import List String.", "Import ListNotations.", "Open Scope string_scope.", "",
         "Definition frame_files : nat := %d." % nfiles,
         "Definition shared_writes : list (string * string * nat * string) := [" + "; ".join("(%s, %s, %d, %s)" % (q(a), q(b), c, q(d)) for a, b, c, d in writes) + "].",
         "Definition set_orders : list (string * string * nat * string) := [" + "; ".join("(%s, %s, %d, %s)" % (q(a), q(b), c, q(d)) for a, b, c, d in orders) + "]."]
    text = "\n".join(L) + "\n"
    old = open(outpath, encoding="utf-8").read() if os.path.exists(outpath) else None
    if old != text:
        open(outpath, "w", encoding="utf-8").write(text)
    return nfiles, len(writes), len(orders)


if __name__ == "__main__":
    print("frame: files %d, shared writes %d, set-order sites %d" % build(sys.argv[1] if len(sys.argv) > 1 else "/verif/coq/Gen/Frame.v"))
