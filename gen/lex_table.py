#!/venv/bin/python
"""Translator: effective lexer transition tables of /repo -> coq/Gen/LexTable.v

The table is *observed*, not re-derived: for each of the 8 settings of the LEXICAL_IGNORE_* flags a fresh
subprocess patches metasequoia_sql.config before importing the lexer, replaces `execute` of every
FSMOperate subclass by a recorder and calls `FSMMachine().handle` / `FSMMachineMyBatis().handle` on every
(state, input) pair, where input ranges over every character the code base distinguishes (all single
character keys of FSM_OPERATION_MAP, all single-character string constants of the plug-in source), a few
representatives of "every other code point", and the END marker used by the driver.  Characters with
identical columns in all 16 tables are merged into one generated class.

Fail-closed: an operation class this translator does not know, a handle() that executes zero or more than
one operation, or non-ASCII sample characters that disagree among themselves abort the translation.
"""
import ast
import json
import os
import subprocess
import sys

REPO = os.environ.get("VERIF_REPO", "/repo")

KNOWN_OPS = {
    "FSMOperateMoveAndCleanCache": ("MoveClean", 0, 0),
    "FSMOperateMoveAndCleanCacheToWait": ("MoveCleanWait", 0, 0),
    "FSMOperateCleanCacheToWait": ("CleanWait", 0, 0),
    "FSMOperateCleanCacheToEnd": ("CleanEnd", 0, 0),
    "FSMOperateAddCache": ("AddCache", 1, 0),
    "FSMOperateSetStatus": ("SetEnd", 0, 0),
    "FSMOperateHandleCacheToWait": ("HandleWait", 0, 1),
    "FSMOperateHandleCacheToEnd": ("HandleEnd", 0, 1),
    "FSMOperateHandleCacheWordToWait": ("WordWait", 0, 0),
    "FSMOperateHandleCacheWordToEnd": ("WordEnd", 0, 0),
    "FSMOperateAddAndHandleCacheToWait": ("AddHandleWait", 0, 1),
    "FSMOperateAddAndHandleCache": ("AddHandle", 0, 1),
    "FSMOperateStartParenthesis": ("StartPar", 0, 0),
    "FSMOperateEndParenthesis": ("EndPar", 0, 0),
    "FSMOperateStartSlice": ("StartSlice", 0, 0),
    "FSMOperateEndSlice": ("EndSlice", 0, 0),
    "FSMOperateRaise": ("Raise", 0, 0),
}

STATUS_KEEPING = {"FSMOperateMoveAndCleanCache", "FSMOperateAddAndHandleCache", "FSMOperateStartParenthesis",
                  "FSMOperateEndParenthesis", "FSMOperateStartSlice", "FSMOperateEndSlice", "FSMOperateRaise"}

OTHER_SAMPLES = [0xE9, 0x4E2D, 0x1F600, 0x7F, 0x0D, 0x01, 0x3000 + 1, 0xA0]


def dump(flags: int):
    """(child) observe the tables under one flag setting and print JSON"""
    sys.path.insert(0, REPO)
    # The flags are read when metasequoia_sql.lexical.fsm_operation_map is imported, and importing any
    # metasequoia_sql.* module runs the package __init__, which imports the lexer.  So the real config module is
    # executed stand-alone, patched, and registered in sys.modules *before* the package is imported.
    import importlib.util
    spec = importlib.util.spec_from_file_location("metasequoia_sql.config", os.path.join(REPO, "metasequoia_sql", "config.py"))
    config = importlib.util.module_from_spec(spec)
    spec.loader.exec_module(config)
    for name in ("LEXICAL_IGNORE_SPACE", "LEXICAL_IGNORE_LINEBREAK", "LEXICAL_IGNORE_COMMENT"):
        if not isinstance(getattr(config, name, None), bool):
            raise SystemExit("lex_table: config.%s is not a bool (fail closed)" % name)
    config.LEXICAL_IGNORE_SPACE = bool(flags & 1)
    config.LEXICAL_IGNORE_LINEBREAK = bool(flags & 2)
    config.LEXICAL_IGNORE_COMMENT = bool(flags & 4)
    sys.modules["metasequoia_sql.config"] = config
    from metasequoia_sql.lexical import fsm_operate, fsm_operation_map, fsm_machine
    from metasequoia_sql.lexical.fsm_status import FSMStatus
    from metasequoia_sql.lexical.fsm_operate import FSMOperate
    import metasequoia_sql.plugins.mybaitis as mb

    # alphabet
    chars = set()
    for (_, ch) in fsm_operation_map.FSM_OPERATION_MAP:
        if isinstance(ch, str) and len(ch) == 1:
            chars.add(ord(ch))
    with open(mb.__file__, encoding="utf-8") as f:
        tree = ast.parse(f.read())
    for node in ast.walk(tree):
        if isinstance(node, ast.ClassDef) and node.name == "FSMMachineMyBatis":
            for sub in ast.walk(node):
                if isinstance(sub, ast.Constant) and isinstance(sub.value, str) and len(sub.value) == 1:
                    chars.add(ord(sub.value))
    for c in OTHER_SAMPLES:
        chars.add(c)
    end_marker = fsm_machine.END

    record = []

    def all_subclasses(c):
        out = []
        for s in c.__subclasses__():
            out.append(s)
            out.extend(all_subclasses(s))
        return out

    for sub in all_subclasses(FSMOperate):
        name = sub.__name__
        if "execute" not in sub.__dict__:
            continue

        def make(name):
            def spy(self, memory, ch):
                attrs = {}
                d = getattr(self, "__dict__", {})
                for k, v in d.items():
                    attrs[k] = int(v) if isinstance(v, int) else repr(v)
                record.append((name, attrs))
                return True
            return spy
        sub.execute = make(name)

    class Mem:
        def __init__(self, status):
            self.status = status
            self.text = ""
            self.pos_start = 0
            self.pos_now = 0
            self.stack = [[]]

    states = [s for s in FSMStatus if s in fsm_operation_map.FSM_OPERATION_MAP_DEFAULT
              or s in (FSMStatus.END, FSMStatus.CUSTOM_1, FSMStatus.CUSTOM_2)]
    out = {"flags": flags, "end": end_marker, "states": [[s.name, int(s.value)] for s in states],
           "chars": sorted(chars), "tables": {}}
    for mname, mcls in (("base", fsm_machine.FSMMachine), ("mybatis", mb.FSMMachineMyBatis)):
        tbl = {}
        for s in states:
            row = []
            for inp in sorted(chars) + [None]:
                ch = end_marker if inp is None else chr(inp)
                del record[:]
                try:
                    mem = Mem(s)
                    mcls().handle(mem, ch)
                    if len(record) != 1:
                        raise RuntimeError(f"handle executed {len(record)} operations")
                    if mem.status != s and record[0][0] in STATUS_KEEPING:
                        # handle() itself changed the status and the operation would not overwrite it: not expressible
                        raise RuntimeError("handle() changes memory.status around a status-keeping operation (fail closed)")
                    if (mem.text, mem.pos_start, mem.pos_now, mem.stack) != ("", 0, 0, [[]]):
                        raise RuntimeError("handle() writes the memory outside an operation (fail closed)")
                    row.append(record[0])
                except KeyError:
                    row.append(("<nocell>", {}))
            tbl[s.name] = row
        out["tables"][mname] = tbl
    # mark values
    from metasequoia_sql.lexical.amt_node import AMTMark
    out["marks"] = {m.name: int(m.value) for m in AMTMark}
    out["word_table"] = {k: int(v) for k, v in fsm_operate.HANDLE_WORD_TO_MARK_HASH.items()}
    json.dump(out, sys.stdout)


def observe_all():
    res = []
    for flags in range(8):
        env = dict(os.environ, PYTHONPATH=REPO, PYTHONHASHSEED="0", VERIF_REPO=REPO)
        p = subprocess.run([sys.executable, os.path.abspath(__file__), "--dump", str(flags)],
                           capture_output=True, text=True, env=env, timeout=120)
        if p.returncode != 0:
            raise SystemExit("lex_table: observing flags=%d failed:\n%s" % (flags, p.stderr[-2000:]))
        res.append(json.loads(p.stdout))
    return res


def coq_ident(name):
    return "S_" + name


def opterm(entry, state_names):
    name, attrs = entry
    if name == "<nocell>":
        return "NoCell"
    if name not in KNOWN_OPS:
        raise SystemExit(f"lex_table: unknown operation class {name} (fail closed)")
    ctor, needs_status, needs_marks = KNOWN_OPS[name]
    extra = set(attrs) - ({"status"} if needs_status else set()) - ({"marks"} if needs_marks else set())
    if extra:
        raise SystemExit(f"lex_table: operation {name} carries unexpected attributes {sorted(extra)} (fail closed)")
    if needs_status:
        v = attrs.get("status")
        sn = [n for n, val in state_names if val == v]
        if not sn:
            raise SystemExit(f"lex_table: operation {name} targets unknown status {v}")
        return f"({ctor} {coq_ident(sn[0])})"
    if needs_marks:
        return f"({ctor} {attrs['marks']})"
    return ctor


def build(outpath, jsonpath=None):
    obs = observe_all()
    states = obs[0]["states"]
    chars = obs[0]["chars"]
    for o in obs:
        if o["states"] != states or o["chars"] != chars or o["end"] != obs[0]["end"]:
            raise SystemExit("lex_table: flag settings disagree on states / alphabet")
    # add states that are targets but not rows
    nst = len(states)
    ninp = len(chars) + 1
    # columns: per input, tuple of op terms across all 16 tables x states
    cfgs = [(m, f) for m in ("base", "mybatis") for f in range(8)]
    col = {}
    cellterm = {}
    for (m, f) in cfgs:
        tbl = obs[f]["tables"][m]
        for si, (sn, _) in enumerate(states):
            for ii in range(ninp):
                cellterm[(m, f, si, ii)] = opterm(tbl[sn][ii], states)
    for ii in range(ninp):
        col[ii] = tuple(cellterm[(m, f, si, ii)] for (m, f) in cfgs for si in range(nst))
    # the "other" samples must agree
    other_idx = [chars.index(c) for c in OTHER_SAMPLES]
    for i in other_idx[1:]:
        if col[i] != col[other_idx[0]]:
            raise SystemExit("lex_table: non-distinguished sample code points disagree (fail closed): %x vs %x"
                             % (chars[i], chars[other_idx[0]]))
    # classes: index 0 = other; END = last
    classes = []  # list of (column, [chars])
    classes.append((col[other_idx[0]], []))
    for ii, c in enumerate(chars):
        if c in OTHER_SAMPLES:
            continue
        for k, (cc, members) in enumerate(classes):
            if cc == col[ii]:
                if k != 0:
                    members.append(c)
                break
        else:
            classes.append((col[ii], [c]))
    ncls = len(classes)
    end_cls = ncls
    char2cls = {}
    for k, (_, members) in enumerate(classes):
        for c in members:
            char2cls[c] = k
    # chars merged into class 0 explicitly (behave like other) need no entry

    L = []
    w = L.append
    w("(* GENERATED by gen/lex_table.py from /repo -- do not edit.  Regenerated on every check. *)")
    w("From Coq Require Import List NArith Bool.")
    w("Import ListNotations.")
    w("Open Scope N_scope.")
    w("")
    w("Inductive state : Type :=")
    for sn, _ in states:
        w(f"| {coq_ident(sn)}")
    w(".")
    w("")
    w("Definition st_idx (s : state) : nat := match s with")
    for i, (sn, _) in enumerate(states):
        w(f"| {coq_ident(sn)} => {i}%nat")
    w("end.")
    w("Definition all_states : list state := [" + "; ".join(coq_ident(sn) for sn, _ in states) + "].")
    w("Definition st_value (s : state) : N := match s with")
    for i, (sn, v) in enumerate(states):
        w(f"| {coq_ident(sn)} => {v}")
    w("end.")
    w("")
    w("Inductive opk : Type :=")
    w("| MoveClean | MoveCleanWait | CleanWait | CleanEnd | AddCache (s : state) | SetEnd")
    w("| HandleWait (m : N) | HandleEnd (m : N) | WordWait | WordEnd | AddHandleWait (m : N) | AddHandle (m : N)")
    w("| StartPar | EndPar | StartSlice | EndSlice | Raise | NoCell.")
    w("")
    w(f"Definition n_classes : nat := {ncls}%nat.   (* character classes 0 .. n_classes-1; class 0 = every other code point *)")
    w(f"Definition cls_end : nat := {end_cls}%nat.   (* the END marker *)")
    items = sorted(char2cls.items())
    ranges = []
    for c, k in items:
        if ranges and ranges[-1][2] == k and ranges[-1][1] == c - 1:
            ranges[-1][1] = c
        else:
            ranges.append([c, c, k])
    w("(* every code point the code base distinguishes, with its class; all other code points are class 0 *)")
    w("Definition char_classes : list (N * nat) := [" + "; ".join(f"({c}, {k}%nat)" for c, k in items) + "].")
    w("Fixpoint assoc_cls (c : N) (l : list (N * nat)) : nat :=")
    w("  match l with [] => 0%nat | (c', k) :: l' => if N.eqb c c' then k else assoc_cls c l' end.")
    w("Definition classify (c : N) : nat := assoc_cls c char_classes.")
    w("Definition class_repr (k : nat) : N := match k with")
    for k, (_, members) in enumerate(classes):
        rep = members[0] if members else OTHER_SAMPLES[0]
        w(f"| {k}%nat => {rep}")
    w("| _ => 0 end.")
    w("")
    # op pool
    pool = {}
    for key, t in cellterm.items():
        pool.setdefault(t, len(pool))
    w("Definition op_pool : list opk := [" + "; ".join(t for t, _ in sorted(pool.items(), key=lambda x: x[1])) + "].")
    w("")
    for (m, f) in cfgs:
        rows = []
        for si in range(nst):
            cells = []
            for k in range(ncls):
                # representative input index
                members = classes[k][1]
                ii = chars.index(members[0]) if members else other_idx[0]
                cells.append(str(pool[cellterm[(m, f, si, ii)]]))
            cells.append(str(pool[cellterm[(m, f, si, ninp - 1)]]))
            rows.append("[" + ";".join(cells) + "]")
        w(f"Definition tbl_{m}_{f} : list (list nat) := [")
        w(";\n".join("  " + r for r in rows))
        w("]%nat.")
    w("")
    w("Definition table (mybatis : bool) (flags : nat) : list (list nat) :=")
    w("  match mybatis, flags with")
    for (m, f) in cfgs:
        w(f"  | {'true' if m == 'mybatis' else 'false'}, {f}%nat => tbl_{m}_{f}")
    w("  | _, _ => [] end.")
    w("")
    marks = obs[0]["marks"]
    for mn, mv in marks.items():
        w(f"Definition MARK_{mn} : N := {mv}.")
    w("")
    wt = obs[0]["word_table"]
    for o in obs:
        if o["word_table"] != wt or o["marks"] != marks:
            raise SystemExit("lex_table: word table differs between flag settings")
    w("Definition word_table : list (list N * N) := [")
    ents = []
    for k, v in wt.items():
        ents.append("  ([" + "; ".join(str(ord(ch)) for ch in k) + "], " + str(v) + ")")
    w(";\n".join(ents))
    w("].")
    w("")
    text = "\n".join(L) + "\n"
    old = None
    if os.path.exists(outpath):
        with open(outpath, encoding="utf-8") as f:
            old = f.read()
    if old != text:
        with open(outpath, "w", encoding="utf-8") as f:
            f.write(text)
    info = {"states": states, "classes": [{"idx": k, "members": m} for k, (_, m) in enumerate(classes)],
            "n_classes": ncls, "cls_end": end_cls, "ranges": ranges, "marks": marks, "word_table": wt,
            "tables": {f"{m}_{f}": [[cellterm[(m, f, si, (chars.index(classes[k][1][0]) if classes[k][1] else other_idx[0]))]
                                     for k in range(ncls)] + [cellterm[(m, f, si, ninp - 1)]]
                                    for si in range(nst)] for (m, f) in cfgs},
            "end_marker": obs[0]["end"]}
    if jsonpath:
        with open(jsonpath, "w", encoding="utf-8") as f:
            json.dump(info, f)
    return info


if __name__ == "__main__":
    if len(sys.argv) >= 3 and sys.argv[1] == "--dump":
        dump(int(sys.argv[2]))
    else:
        out = sys.argv[1] if len(sys.argv) > 1 else "/verif/coq/Gen/LexTable.v"
        js = sys.argv[2] if len(sys.argv) > 2 else None
        info = build(out, js)
        print("states=%d classes=%d(+END)" % (len(info["states"]), info["n_classes"]))
