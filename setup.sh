#!/bin/sh
# Build the whole framework from files on disk only (offline).
set -e
cd "$(dirname "$0")"
exec /venv/bin/python ./check --setup
