#!/bin/sh
# usage: coqshow.sh File.v LINE  -- prints the goal just before LINE (dev helper, not part of the checks)
f=$1; n=$2
cd /verif/coq
head -n $((n-1)) $f > /tmp/_show.v
echo "Show. Abort." >> /tmp/_show.v
coqc -Q Base Base -Q Gen Gen -Q Lex Lex -Q Props Props $(grep '^-Q' _CoqProject | grep -v 'Base\|Gen\|Lex\|Props\|Extract' | tr '\n' ' ') /tmp/_show.v 2>&1 | tail -${3:-40}
