#!/usr/bin/env python3
"""maintenance helper (not part of the checks): register / update a check in MANIFEST.json from a small JSON spec on stdin
   {property_id, engine, text, note, technique, design_ref}; removes the property from not_applicable."""
import json, sys
m = json.load(open("/verif/MANIFEST.json"))
spec = json.load(sys.stdin)
pid = spec["property_id"]
entry = {
    "property_id": pid, "quick_cmd": "./check %s --tier quick" % pid, "thorough_cmd": "./check %s --tier thorough" % pid,
    "evidence_file": "evidence/%s.json" % pid, "replay_cmd_template": "./check %s --replay {path}" % pid, "engine": spec["engine"],
    "level_claimed": {"category": "proof", "text": spec["text"], "design_ref": spec.get("design_ref", "DESIGN.md section 4 " + pid)},
    "level_note": spec["note"], "technique": spec["technique"]}
m["checks"] = [c for c in m["checks"] if c["property_id"] != pid] + [entry]
m["checks"].sort(key=lambda c: c["property_id"])
m["not_applicable"] = [n for n in m.get("not_applicable", []) if n["property_id"] != pid]
for e in m["engines"]:
    if e["name"] in spec["engine"].split("+") and pid not in e["serves_properties"]:
        e["serves_properties"].append(pid)
json.dump(m, open("/verif/MANIFEST.json", "w"), indent=1, ensure_ascii=False)
print("registered", pid, "claimed:", [c["property_id"] for c in m["checks"]])
