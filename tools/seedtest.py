#!/usr/bin/env python3
"""maintenance helper (not part of the checks): confirm a seeded change and run the registered checks against it.
usage: seedtest.py <dir with patch.diff demo.py meta.json> <seed-id> <prop> [<prop>...]
 1. in a scratch worktree of /repo: baseline suite passes with the patch, demo fails with it and passes without it
 2. git -C /repo apply; ./check <prop> --tier quick for each prop; git -C /repo checkout -- .
 3. copy into /verif/seeded/<seed-id>/ with the results in meta.json"""
import json, os, shutil, subprocess, sys, tempfile

src, sid, props = sys.argv[1], sys.argv[2], sys.argv[3:]
patch = os.path.abspath(os.path.join(src, "patch.diff"))
demo = os.path.abspath(os.path.join(src, "demo.py"))
meta = json.load(open(os.path.join(src, "meta.json")))

def sh(cmd, **kw):
    p = subprocess.run(cmd, shell=True, stdout=subprocess.PIPE, stderr=subprocess.STDOUT, text=True, **kw)
    return p.returncode, p.stdout

wt = tempfile.mkdtemp(prefix="seedwt_", dir="/tmp")
os.rmdir(wt)
rc, out = sh("git -C /repo worktree add -q --detach %s HEAD" % wt)
assert rc == 0, out
res = {}
try:
    env = dict(os.environ, PYTHONPATH=wt, PYTHONDONTWRITEBYTECODE="1")
    rc0, o0 = sh("/venv/bin/python %s" % demo, cwd=wt, env=env)
    res["demo_without_patch"] = rc0
    rc, out = sh("git apply %s" % patch, cwd=wt)
    assert rc == 0, "patch does not apply: " + out
    rc1, o1 = sh("/venv/bin/python %s" % demo, cwd=wt, env=env)
    res["demo_with_patch"] = rc1
    rct, ot = sh("/venv/bin/python -m pytest -q -p no:cacheprovider --timeout=900 2>&1 | tail -1", cwd=wt, env=env)
    res["suite_with_patch"] = ot.strip()
finally:
    sh("git -C /repo worktree remove --force %s" % wt)
print("confirm:", res)
confirmed = res["demo_without_patch"] == 0 and res["demo_with_patch"] != 0 and " passed" in res["suite_with_patch"] and "failed" not in res["suite_with_patch"]
checks = {}
if confirmed:
    rc, out = sh("git -C /repo status --porcelain --untracked-files=no")
    assert out.strip() == "", "/repo is dirty: " + out
    rc, out = sh("git -C /repo apply %s" % patch)
    assert rc == 0, out
    try:
        for p in props:
            rc, out = sh("./check %s --tier quick" % p, cwd="/verif")
            vl = [l for l in out.splitlines() if l.startswith("VIOLATION")]
            checks[p] = {"exit": rc, "violation_lines": vl[:3]}
            if vl:
                rp = vl[0].split("replay=")[1].split()[0]
                try:
                    o = json.load(open(rp))
                    checks[p]["replay_summary"] = {k: (str(o.get(k))[:300]) for k in ("kind", "text", "oracle_verdict", "theorem", "stream") if k in o}
                    os.remove(rp)      # the replay file belongs to the seeded tree, not to the corpus
                except Exception as e:
                    checks[p]["replay_summary"] = "unreadable: %r" % e
            print(p, checks[p])
    finally:
        sh("git -C /repo checkout -- .")
    # evidence files were rewritten against the mutated tree: restore them
    sh("git -C /verif checkout -- evidence", cwd="/verif")
dst = os.path.join("/verif/seeded", sid)
os.makedirs(dst, exist_ok=True)
if os.path.abspath(src) != os.path.abspath(dst):
    shutil.copy(patch, os.path.join(dst, "patch.diff"))
    shutil.copy(demo, os.path.join(dst, "demo.py"))
meta.update({"breaks_property": meta.get("property"), "confirmed": res, "confirmed_ok": confirmed, "checks_run": checks,
             "detected_by": [p for p, c in checks.items() if c["exit"] == 1 and c["violation_lines"]],
             "what_was_run": "scratch worktree: demo without/with patch, baseline suite with patch; then git -C /repo apply, ./check <prop> --tier quick, git -C /repo checkout -- ."})
json.dump(meta, open(os.path.join(dst, "meta.json"), "w"), indent=1, ensure_ascii=False)
print("detected_by:", meta["detected_by"])
