#!/usr/bin/env python3
"""Rewrite the seeded-change table of DESIGN.md (between the SEEDTABLE markers) from seeded/*/meta.json."""
import glob, json, os, re

ROOT = os.path.dirname(os.path.dirname(os.path.abspath(__file__)))
# seeds whose first run was missed by the property's check, and what was added (a stream / oracle, never a fingerprint)
STRENGTHENED = {
    "C01_1": "stream 'operator trees with explicit grouping': specification expressions printed and re-parsed",
    "C01_2": "the regenerated printer-call census (every printer passes sql_type on) became an obligation of C01",
    "C01_3": "index options (USING / COMMENT / KEY_BLOCK_SIZE) and column attributes in the statement generator",
    "C10_1": "block comments of every star parity (/***/, /** x **/) as separators in scripts",
    "C10_2": "WITH statements followed by statements without WITH, comment-only separators",
    "C18_3": "names that need quoting and several partition columns in the DDL x helper-history stream",
    "C07_2": "stream 'no-trace (long history)': a valid statement after hundreds of rejected ones vs a fresh process",
    "C13_2": "dialect spellings next to string literals that contain quotes and '='",
    "C06_1": "comment templates whose payload ends in runs of '*'",
    "C06_2": "payloads with backslashes and the other quote kind at every position of a literal",
    "C06_3": "printed-SQL carriage checked for DDL comments in every print dialect",
    "C14_1": "qgen: tables inside WITH bodies and sub-queries of every clause",
    "C14_2": "qgen: schema-qualified and back-quoted dotted names with the expected schema / name split",
    "C14_3": "qgen: nested queries in the select list, multi-part names",
    "C15_2": "qgen: wildcard next to qualified references, dialect variables",
    "C15_3": "qgen: implicit (no AS) aliases referenced from GROUP BY / ORDER BY",
    "C19_3": "pattern 'blanks' (long runs of white space) in the scaled inputs; seconds used only in the search phase",
}


def main():
    rows = []
    for mp in sorted(glob.glob(os.path.join(ROOT, "seeded", "*", "meta.json"))):
        sid = os.path.basename(os.path.dirname(mp))
        m = json.load(open(mp, encoding="utf-8"))
        det = m.get("detected_by") or []
        kinds = []
        for p, r in (m.get("checks_run") or {}).items():
            rs = r.get("replay_summary") or {}
            if r.get("violation_lines"):
                k = rs.get("kind", "?")
                kinds.append("%s:%s" % (p, "failing input" if k == "input" else "obligation"))
        summ = re.sub(r"\s+", " ", m.get("summary", "")).replace("|", "\\|")
        if len(summ) > 150:
            summ = summ[:147] + "..."
        files = ", ".join(os.path.basename(f) for f in m.get("files", []))
        rows.append("| %s | %s | %s | %s | %s | %s |" % (sid, files, summ, ", ".join(det) or "**missed**", "; ".join(kinds), STRENGTHENED.get(sid, "")))
    head = ["| seed | file(s) | change | VIOLATION from | replay kind | added to the check before it was caught |", "|---|---|---|---|---|---|"]
    n = len(rows)
    caught = sum(1 for r in rows if "**missed**" not in r)
    block = "\n".join(head + rows) + "\n\n%d seeded changes, %d caught by the quick check of the property they were written against.\n" % (n, caught)
    p = os.path.join(ROOT, "DESIGN.md")
    s = open(p, encoding="utf-8").read()
    s = re.sub(r"<!-- SEEDTABLE BEGIN -->.*<!-- SEEDTABLE END -->", "<!-- SEEDTABLE BEGIN -->\n" + block.replace("\\", "\\\\") + "<!-- SEEDTABLE END -->", s, flags=re.S)
    open(p, "w", encoding="utf-8").write(s)
    print("%d rows, %d caught" % (n, caught))


if __name__ == "__main__":
    main()
