#!/usr/bin/env python3
"""Rewrite the seeded-change table of DESIGN.md (between the SEEDTABLE markers) from seeded/*/meta.json."""
import glob, json, os, re

ROOT = os.path.dirname(os.path.dirname(os.path.abspath(__file__)))
# seeds whose first run was missed by the property's check, and what was added (a stream / oracle, never a fingerprint)
STRENGTHENED = {
    "XU_1": "NBSP, zero-width space, BOM, soft hyphen, line separator and full-width / typographic punctuation as quoted payloads and lexer fragments",
    "XV_2": "the types the shipped MySQL-to-Hive map knows beyond the parser's catalogue (JSON, BINARY, VARBINARY) are pinned in the DDL generator",
    "XX_4": "keyword-shaped strays (a doubled or misplaced noise word such as DEFAULT / AS / TABLE / ASC / OUTER / DISTINCT) in the stray-token stream (the main property C08 now reports it; C07 had)",
    "XQ_2": "a select item aliased like a base column that another item reads, and clause references to that other item (one-step resolution)",
    "XQ_6": "a derived table whose alias is also the name of a WITH table of the statement",
    "XS_5": "option-shaped strays (NAME = VALUE, NAME VALUE) behind the column list and at the end of DDL statements",
    "XS_6": "27 keyword-rich statements (every keyword of the grammar) in lower, upper and mixed case, identifiers and data words untouched",
    "XT_4": "a derived table that reads a WITH table of the enclosing statement",
    "XS_3": "(patch re-based on f4445dc, which repaired the same function)",
    "XM_1": "cursor histories that place every multi-token search / match exactly at the end of the list (and one token short of it)",
    "XN_1": "quote characters as comment payloads, comment templates followed by the dialect's own spellings (==, CURRENT DATE)",
    "XN_3": "statements with LIMIT + offset (and every other clause kind) in the cross-dialect print base; all 7 dialects in C01's quick tier",
    "XN_6": "stream 'pre-pass cost': blank / comment / keyword runs next to the words the dialect shims look for, each under a hard time limit",
    "XO_1": "stream 'long flat inputs': 27 list / chain shapes of 1500 items must end in a tree (iterative dumper, larger model stack)",
    "XO_2": "a back-quoted table name with two dots in the statement generator's name pool",
    "XO_3": "the same '#'-bearing texts handed alternately to both shipped parser / lexer classes inside the C12 pool",
    "XO_5": "STATE requests (interpreter-wide settings) before, between and after the other requests of every C12 run",
    "XO_6": "failed-scope histories (a rejected statement that registered a WITH / derived table named like a base table, then that base table); the runner now sends rejected statements to the long-lived analyser too",
    "XP_4": "the payload texts also go through SQLParserMyBatis (model tie + equality with SQLParser on texts without '#'); payload atoms ${x}, ${",
    "XP_5": "the dialect spellings also go through SQLParserMyBatis (model tie + equality with SQLParser)",
    "C01_1": "stream 'operator trees with explicit grouping': specification expressions printed and re-parsed",
    "C01_2": "the regenerated printer-call census (every printer passes sql_type on) became an obligation of C01",
    "C01_3": "index options (USING / COMMENT / KEY_BLOCK_SIZE) and column attributes in the statement generator",
    "C10_1": "block comments of every star parity (/***/, /** x **/) as separators in scripts",
    "C10_2": "WITH statements followed by statements without WITH, comment-only separators",
    "C18_3": "names that need quoting and several partition columns in the DDL x helper-history stream",
    "C07_2": "stream 'no-trace (long history)': a valid statement after hundreds of rejected ones vs a fresh process",
    "C13_2": "dialect spellings next to string literals that contain quotes and '='",
    "C06_1": "comment templates whose payload ends in runs of '*'",
    "C06_2": "payloads with backslashes and the other quote kind at every position of a literal",
    "C06_3": "printed-SQL carriage checked for DDL comments in every print dialect",
    "C14_1": "qgen: tables inside WITH bodies and sub-queries of every clause",
    "C14_2": "qgen: schema-qualified and back-quoted dotted names with the expected schema / name split",
    "C14_3": "qgen: nested queries in the select list, multi-part names",
    "C15_2": "qgen: wildcard next to qualified references, dialect variables",
    "C15_3": "qgen: implicit (no AS) aliases referenced from GROUP BY / ORDER BY",
    "C03_3": "stgen: derived tables whose body starts with WITH, extra brackets around derived tables",
    "C08_1": "comments in front of a list separator and behind the item after it (if the first ran on, `, item` would vanish from a still valid statement)",
    "C08_2": "stgen: SELECTs wrapped in 1-3 bracket levels (UNION branch, CREATE TABLE AS, derived table); stray tokens placed behind closing brackets",
    "C08_3": "stgen: window functions with every combination of PARTITION BY / ORDER BY / frame",
    "C09_1": "comment separators of every star parity in the surface variants",
    "C09_2": "stgen: lower-case null / true / false literals (statements ending in one) with varied trailing layout",
    "C12_1": "census follows local aliases of module-level objects and memoising decorators; pool holds dialect-sensitive spellings under every dialect",
    "C16_1": "lingen: self-joins (unqualified reference must be rejected, qualified ones resolved)",
    "C16_2": "lingen: INSERT ... SELECT whose SELECT outputs one name twice (pairing is by position)",
    "C16_3": "lingen: columns spelled like global variables (current_date ...), referenced qualified / back-quoted",
    "C17_2": "lingen: one table name in two schemas within a statement",
    "C17_3": "lingen: mixed-case aliases of derived tables and base tables",
    "C20_4": "child cursors handed out by a call history are checked to start at their first token, and one token of each is consumed",
    "C20_6": "base lexer and plug-in lexer asked about the same short placeholder text one after the other in one process",
    "C02_6": "exhaustive two-link chains of keyword predicates (BETWEEN / IN / IS / LIKE / RLIKE / REGEXP), also under AND and NOT",
    "C06_4": "back-quoted names as implicit aliases (no AS) with clause keywords as payload",
    "C06_6": "literals in every arm of the CASE-value form, payloads with line breaks; printed SQL must carry them unchanged",
    "C11_4": "regenerated census of field flags (compare / hash) as a theorem; copies differing in one field must be unequal",
    "C11_5": "several helper histories on structurally equal receivers one after the other in one process",
    "C13_4": "DDL with every MySQL / Hive column attribute and table option printed in every dialect (printer tie + re-parse)",
    "C01_4": "round trip over the structure-aware statements (window frames incl. bound 0, CASE / CAST, nested queries, WITH, Hive clauses)",
    "C07_6": "(caught by C19) every Python-level call inside the library counted by a profile hook; work must not grow faster than the input",
    "C10_5": "texts whose only ';' are inside quotes (incl. backslash-escaped quotes) must parse to exactly one statement",
    "C14_5": "qgen: NATURAL JOIN after an unaliased table",
    "C14_6": "160 different WITH queries analysed one after the other in one process",
    "C15_4": "qgen: window functions with integer constants in their ORDER BY",
    "C15_5": "qgen: one-letter aliases b / X",
    "C19_4": "family 'nested calls' and the call-count measure (repr work is invisible to cursor counters)",
    "XA_3": "C06 payload atoms with full-width punctuation (the text-level pre-pass must not touch quoted text)",
    "XC_2": "(C13) every combination of the Hive clauses SORT BY / DISTRIBUTE BY / CLUSTER BY / LIMIT as own constructs of the Hive dialect",
    "XD_2": "every lineage request is also answered by an analyser that has already analysed other statements over the same catalogue; WITH tables named like base tables",
    "XD_5": "qgen: UNION branches repeated word for word",
    "XF_3": "(C12) the set census follows sets defined in any file of the package (module.NAME); CAST spellings of neighbouring dialects in the request pool",
    "XF_4": "(C19) family 'rejected: nested tuples' (syntax this grammar rejects today must be rejected in linear work too)",
    "XF_6": "(C08) pairs (text with an extra clause or value, text without it): accepted => the trees differ; ELSE NULL in generated CASE expressions",
    "XG_4": "(C08) the same pairs: EXCEPT / INTERSECT / MINUS ALL, UNION DISTINCT and 50 more constructs of neighbouring dialects",
    "XG_6": "(C19) calls of builtins made by library code are counted as work as well (set / list comprehensions are invisible to a Python-call count)",
    "XH_2": "(C16) lingen: LATERAL VIEW columns (single view, two aliases, UNION of two views with the same column alias)",
    "XH_3": "(C17) cache names that end in s / q / l / '.' at the front of the name pool",
    "XH_4": "(C15) qgen: table-qualified ORDER BY references spelled like a select-list alias stay as written",
    "XH_6": "(C14) qgen: sub-queries inside JOIN ... ON conditions",
    "XJ_1": "(C09) the ideographic space and CRLF among the separators of the surface variants (first caught by C05 / C04 only)",
    "XJ_2": "(C07) every slot of the grammar that wants an integer fed with almost-integers (superscript / circled digits, fractions, signs, hex, ...)",
    "XJ_3": "(C03 / C09) one-letter table aliases and qualifiers b / x / B / n in the structure-aware statements (first caught by C05 only)",
    "XL_1": "(C11) rebuilding every node from get_params_dict() must give an equal node with an equal hash",
    "C19_3": "pattern 'blanks' (long runs of white space) in the scaled inputs; seconds used only in the search phase",
}


def main():
    rows = []
    for mp in sorted(glob.glob(os.path.join(ROOT, "seeded", "*", "meta.json"))):
        sid = os.path.basename(os.path.dirname(mp))
        m = json.load(open(mp, encoding="utf-8"))
        det = m.get("detected_by") or []
        kinds = []
        for p, r in (m.get("checks_run") or {}).items():
            rs = r.get("replay_summary") or {}
            if r.get("violation_lines"):
                k = rs.get("kind", "?")
                kinds.append("%s:%s" % (p, "failing input" if k == "input" else "obligation"))
        summ = re.sub(r"\s+", " ", m.get("summary", "")).replace("|", "\\|")
        if len(summ) > 150:
            summ = summ[:147] + "..."
        files = ", ".join(os.path.basename(f) for f in m.get("files", []))
        rows.append("| %s | %s | %s | %s | %s | %s |" % (sid, files, summ, ", ".join(det) or "**missed**", "; ".join(kinds), STRENGTHENED.get(sid, "")))
    head = ["| seed | file(s) | change | VIOLATION from | replay kind | added to the check before it was caught |", "|---|---|---|---|---|---|"]
    n = len(rows)
    caught = sum(1 for r in rows if "**missed**" not in r)
    block = "\n".join(head + rows) + "\n\n%d seeded changes, %d caught by the quick check of the property they were written against.\n" % (n, caught)
    p = os.path.join(ROOT, "DESIGN.md")
    s = open(p, encoding="utf-8").read()
    s = re.sub(r"<!-- SEEDTABLE BEGIN -->.*<!-- SEEDTABLE END -->", "<!-- SEEDTABLE BEGIN -->\n" + block.replace("\\", "\\\\") + "<!-- SEEDTABLE END -->", s, flags=re.S)
    open(p, "w", encoding="utf-8").write(s)
    print("%d rows, %d caught" % (n, caught))


if __name__ == "__main__":
    main()
