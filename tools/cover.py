#!/venv/bin/python
"""maintenance helper (not a check): which lines of /repo's parser / printer / analyser do the generators of the tie streams reach?
usage: tools/cover.py [n]   -- prints line coverage per file and the uncovered line ranges of core/parser.py"""
import os, random, sys, collections
sys.path.insert(0, "/verif")
sys.path.insert(0, os.environ.get("VERIF_REPO", "/repo"))
from harness import sqlgen, stgen, qgen, lingen, exprgen
from metasequoia_sql import SQLParser, SQLType

n = int(sys.argv[1]) if len(sys.argv) > 1 else 600
rng = random.Random(11)
texts = []
g = stgen.G(rng)
for i in range(n):
    texts.append(("HIVE" if i % 3 == 0 else "MYSQL", g.statement()[0] if i % 7 else g.paren_case()[0]))
for d in ("MYSQL", "HIVE", "DEFAULT", "DB2"):
    for s in sqlgen.gen_statements(rng, n // 2, d):
        texts.append((d, s))
        for m in sqlgen.mutants(rng, s, 1):
            texts.append((d, m))
for s in sqlgen.corpus():
    texts.append(("MYSQL", s))
for _ in range(n // 2):
    texts.append(("DEFAULT", qgen.gen(rng, rng.choice([0, 1, 2]))[0]))
for _ in range(n // 2):
    texts.append(("DEFAULT", lingen.case(rng)[1]))
hits = collections.defaultdict(set)
want = ("core/parser.py", "core/node.py", "common/scanner.py", "analyzer/base.py", "analyzer/toolkit", "lexical/fsm_operate.py")


def tracer(frame, event, arg):
    fn = frame.f_code.co_filename
    if "metasequoia_sql" not in fn:
        return None
    if event == "line":
        hits[fn].add(frame.f_lineno)
    return tracer
sys.settrace(tracer)
ok = 0
for d, t in texts:
    try:
        sts = SQLParser.parse_statements(t, sql_type=SQLType[d])
        ok += 1
        for st in sts:
            for q in (SQLType.MYSQL, SQLType.HIVE):
                try:
                    st.source(q)
                except Exception:
                    pass
    except Exception:
        pass
sys.settrace(None)
import ast
print("texts %d, accepted %d" % (len(texts), ok))
for fn in sorted(hits):
    if not any(w in fn for w in want):
        continue
    src = open(fn, encoding="utf-8").read()
    body = set()
    for fdef in ast.walk(ast.parse(src)):
        if not isinstance(fdef, (ast.FunctionDef, ast.AsyncFunctionDef)):
            continue
        for node in ast.walk(fdef):
            if node is fdef:
                continue
            if isinstance(node, ast.stmt) and not isinstance(node, (ast.FunctionDef, ast.ClassDef, ast.Import, ast.ImportFrom)) and not (isinstance(node, ast.Expr) and isinstance(node.value, ast.Constant)):
                body.add(node.lineno)
    cov = body & hits[fn]
    print("%-70s %4d / %4d statements (%.0f%%)" % (fn.split("metasequoia_sql/")[1], len(cov), len(body), 100.0 * len(cov) / max(1, len(body))))
    if fn.endswith("core/parser.py") or fn.endswith("core/node.py"):
        miss = sorted(body - hits[fn])
        lines = src.splitlines()
        shown = 0
        for ln in miss:
            t = lines[ln - 1].strip()
            if t.startswith(("scanner = cls._unify_input_scanner", "return cls._parse", '"""', "raise ", "@")):
                continue
            print("     %5d: %s" % (ln, t[:110]))
            shown += 1
            if shown > 70:
                break
