#!/bin/sh
# dev helper: build targets in a scratch copy of coq/ (Gen/ taken from git HEAD, so a seeded-mutation run that
# regenerates coq/Gen concurrently does not disturb it).  usage: tools/sbuild.sh Props/C18.vo ...
set -e
SB=/tmp/coq_sbuild
mkdir -p $SB
rsync -a --exclude 'Gen/' --exclude '*.vo' --exclude '*.glob' --exclude '*.aux' --exclude '.*.d' --exclude '*.vok' --exclude '*.vos' --exclude Makefile --exclude Makefile.conf /verif/coq/ $SB/
mkdir -p $SB/Gen
for f in Upper.v LexTable.v Schema.v Static.v Flow.v Frame.v; do git -C /verif show HEAD:coq/Gen/$f > $SB/Gen/$f.new; cmp -s $SB/Gen/$f.new $SB/Gen/$f || mv $SB/Gen/$f.new $SB/Gen/$f; rm -f $SB/Gen/$f.new; done
cd $SB
# SB_EXTRA: files not (yet) in _CoqProject, appended in the scratch copy only
for f in $SB_EXTRA; do grep -q "^$f\$" _CoqProject || echo $f >> _CoqProject; done
coq_makefile -f _CoqProject -o Makefile >/dev/null 2>&1
timeout ${SB_TIMEOUT:-600} make -j12 "$@" 2>&1 | grep -v "^COQDEP\|^COQC\|Warning\|^make\[" | tail -40
