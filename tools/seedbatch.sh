#!/bin/sh
# usage: tools/seedbatch.sh <logfile> <id:prop[,prop...]> ...   (the seed is taken from /verif/seeded/<id> or /tmp/w*/_out/<id>)
log=$1; shift
for x in "$@"; do
  id=${x%%:*}; p=$(echo ${x##*:} | tr ',' ' ')
  src=/verif/seeded/$id
  [ -d "$src" ] || src=$(ls -d /tmp/w*/_out/$id 2>/dev/null | head -1)
  echo "=== $id" >> $log
  python3 /verif/tools/seedtest.py $src $id $p 2>&1 | tail -3 >> $log
done
echo "BATCH-DONE" >> $log
