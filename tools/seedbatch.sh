#!/bin/sh
# usage: tools/seedbatch.sh <logfile> <src-root> <id:prop> ...   (src-root/<id> holds patch.diff demo.py meta.json; or /verif/seeded)
log=$1; shift
for x in "$@"; do
  id=${x%%:*}; p=${x##*:}
  src=/verif/seeded/$id
  [ -d "$src" ] || src=/tmp/w3_${id%%_*}/_out/$id
  echo "=== $id" >> $log
  python3 /verif/tools/seedtest.py $src $id $p 2>&1 | tail -3 >> $log
done
echo "BATCH-DONE" >> $log
