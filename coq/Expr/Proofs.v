(* C02 proofs about the parser model's operator machinery (Parse/Model.v):
   - compute_loop (the shift-reduce loop of _parse_compute_expression) is precedence climbing with left associativity,
     for ANY operand parser and ANY level table -- for all expression trees of any size;
   - left_loop (comparison / AND / XOR / OR layers) folds a chain to the left;
   - the generated level table equals the documented one; every spelling maps to the documented operator. *)
From Coq Require Import List NArith ZArith Bool String Ascii Lia.
Require Import Base.Common Gen.LexTable Lex.Model Cur.Model Tree.Value Gen.Static Parse.Prim Parse.Model Expr.Spec.
Import ListNotations.
Open Scope string_scope.
Open Scope N_scope.
Open Scope list_scope.

Section ComputeLoop.
  Variable unary : toks -> PR.

  (* expression trees over abstract operands (an operand = whatever the operand parser turns a token block into:
     a name, a literal, a unary expression, a bracket group, a function call ...) *)
  Inductive cx : Type :=
  | COperand (v : value) (block : toks)
  | CBin (o : string) (t : tok) (l r : cx).

  Fixpoint cval (e : cx) : value :=
    match e with COperand v _ => v | CBin o _ l r => compute_node (cval l) o (cval r) end.
  Fixpoint cemit (e : cx) : toks :=
    match e with COperand _ b => b | CBin _ t l r => cemit l ++ t :: cemit r end.
  Definition clvl (e : cx) : N := match e with COperand _ _ => 0 | CBin o _ _ _ => op_level o end.
  Fixpoint nops (e : cx) : nat := match e with COperand _ _ => O | CBin _ _ l r => (nops l + 1 + nops r)%nat end.

  (* the tree is what precedence + left associativity give for its own token sequence:
     a left child binds at least as tight as its parent, a right child strictly tighter (otherwise it would have
     been written in brackets, i.e. would be an operand) *)
  Fixpoint proper (e : cx) : Prop :=
    match e with
    | COperand _ _ => True
    | CBin o _ l r => 0 < op_level o /\ clvl l <= op_level o /\ clvl r < op_level o /\ proper l /\ proper r
    end.
  (* the operand parser accepts every operand block, the operator tokens are recognised *)
  Fixpoint parts_ok (e : cx) : Prop :=
    match e with
    | COperand v b => forall rest, unary (b ++ rest) = Ok (v, rest)
    | CBin o t l r => (forall rest, next_compute_op (t :: rest) = Some o) /\ parts_ok l /\ parts_ok r
    end.

  Definition head_ok (pend : list (value * string)) (n : N) : Prop :=
    match pend with (_, o) :: _ => n < op_level o | [] => True end.
  Definition next_ok (ks : toks) (n : N) : Prop :=
    match next_compute_op ks with Some o => n <= op_level o | None => True end.

  Definition run_c (n : nat) (pend : list (value * string)) (ts : toks) : PR :=
    match unary ts with Ok (v, ts') => compute_loop n unary pend v ts' | Err e => Err e end.

  Lemma reduce_while_head pend top n : head_ok pend n -> reduce_while n pend top = (pend, top).
  Proof.
    destruct pend as [|[e o] rest]; simpl; auto. intros H.
    destruct (N.leb_spec (op_level o) n); [lia|reflexivity].
  Qed.

  Lemma loop_fold n : forall pend l o r ks, next_ok ks (op_level o) ->
    compute_loop n unary ((l, o) :: pend) r ks = compute_loop n unary pend (compute_node l o r) ks.
  Proof.
    destruct n as [|n]; intros pend l o r ks Hn; [reflexivity|]. cbn [compute_loop].
    unfold next_ok in Hn. destruct (next_compute_op ks) as [o'|]; [|reflexivity].
    cbn [reduce_while]. destruct (N.leb_spec (op_level o) (op_level o')); [reflexivity|lia].
  Qed.

  Lemma next_ok_le ks n m : m <= n -> next_ok ks n -> next_ok ks m.
  Proof. unfold next_ok. destruct (next_compute_op ks); auto. lia. Qed.
  Lemma head_ok_le pend n m : m <= n -> head_ok pend n -> head_ok pend m.
  Proof. destruct pend as [|[e o] p]; simpl; auto. lia. Qed.

  Theorem run_emit e : forall pend ks n, proper e -> parts_ok e -> head_ok pend (clvl e) -> next_ok ks (clvl e) ->
    run_c (nops e + n) pend (cemit e ++ ks) = compute_loop n unary pend (cval e) ks.
  Proof.
    induction e as [v b|o t l IHl r IHr]; intros pend ks n Hp Hk Hh Hn.
    - unfold run_c. cbn [cemit nops cval parts_ok] in *. rewrite Hk. reflexivity.
    - cbn [proper parts_ok clvl] in *. destruct Hp as (Hpos & Hl & Hr & Hpl & Hpr). destruct Hk as (Ht & Hkl & Hkr).
      cbn [cemit nops cval]. rewrite <- app_assoc. cbn [app].
      replace (nops l + 1 + nops r + n)%nat with (nops l + Datatypes.S (nops r + n))%nat by lia.
      rewrite (IHl pend (t :: cemit r ++ ks) (Datatypes.S (nops r + n)) Hpl Hkl).
      + cbn [compute_loop]. rewrite Ht. rewrite (reduce_while_head pend (cval l) (op_level o) Hh). cbn [skipn].
        change (match unary (cemit r ++ ks) with
                | Ok (v, ts') => compute_loop (nops r + n) unary ((cval l, o) :: pend) v ts'
                | Err e => Err e end) with (run_c (nops r + n) ((cval l, o) :: pend) (cemit r ++ ks)).
        rewrite (IHr ((cval l, o) :: pend) ks n Hpr Hkr).
        * apply loop_fold. exact Hn.
        * simpl. exact Hr.
        * eapply next_ok_le; [|exact Hn]. lia.
      + eapply head_ok_le; [|exact Hh]. exact Hl.
      + unfold next_ok. rewrite Ht. exact Hl.
  Qed.

  (* the whole of _parse_compute_expression on the tokens of a properly bracketed tree returns that tree and stops
     exactly in front of the first token that is not a compute operator *)
  Theorem compute_parses_emit e ks fuel : proper e -> parts_ok e -> next_compute_op ks = None -> (nops e < fuel)%nat ->
    run_c fuel [] (cemit e ++ ks) = Ok (cval e, ks).
  Proof.
    intros Hp Hk Hks Hf.
    replace fuel with (nops e + (fuel - nops e))%nat by lia.
    rewrite (run_emit e [] ks (fuel - nops e) Hp Hk I).
    - destruct (fuel - nops e)%nat as [|m] eqn:E; [lia|]. cbn [compute_loop]. rewrite Hks. reflexivity.
    - unfold next_ok. rewrite Hks. exact I.
  Qed.
End ComputeLoop.

(* ---------- left-associative layers ---------- *)
Section LeftLoop.
  Variable sub : toks -> PR.
  Variable op : toks -> option (value -> value -> value) * toks.

  Record link := mklink { lk_mk : value -> value -> value; lk_optoks : toks; lk_val : value; lk_block : toks }.
  Definition link_ok (k : link) : Prop :=
    (forall rest, op (lk_optoks k ++ rest) = (Some (lk_mk k), rest)) /\ (forall rest, sub (lk_block k ++ rest) = Ok (lk_val k, rest)).
  Fixpoint flat_links (l : list link) : toks :=
    match l with [] => [] | k :: l' => lk_optoks k ++ lk_block k ++ flat_links l' end.

  Theorem left_loop_chain : forall (links : list link) n acc ks, Forall link_ok links -> fst (op ks) = None ->
    left_loop (List.length links + Datatypes.S n) sub op acc (flat_links links ++ ks)
    = Ok (fold_left (fun a k => lk_mk k a (lk_val k)) links acc, ks).
  Proof.
    induction links as [|k links IH]; intros n acc ks Hall Hks.
    - cbn [List.length flat_links app fold_left Nat.add left_loop]. destruct (op ks) as [[m|] ks']; simpl in Hks; [discriminate|reflexivity].
    - apply Forall_cons_iff in Hall as [[Ho Hs] Hall].
      cbn [List.length flat_links fold_left Nat.add left_loop]. rewrite <- !app_assoc. rewrite Ho, Hs. apply IH; assumption.
  Qed.
End LeftLoop.

(* ---------- the generated tables against the documented ones ---------- *)
Lemma levels_documented : forall o : binop, op_level (binop_enum o) = N.of_nat (binop_level o).
Proof. destruct o; vm_compute; reflexivity. Qed.

Lemma pick_in {A} (n : nat) (l : list A) (dflt : A) : l <> [] -> In (pick n l dflt) l.
Proof.
  intros Hl. unfold pick. apply nth_In. destruct l; [contradiction|].
  cbn [List.length]. apply Nat.mod_upper_bound. lia.
Qed.

Lemma binop_spellings : forall o n, assoc_str (upper (binop_text n o)) compute_operator_hash = Some (binop_enum o).
Proof.
  intros o n.
  assert (H : forall l : list str, l <> [] -> forallb (fun s => match assoc_str (upper s) compute_operator_hash with
                                                                | Some x => String.eqb x (binop_enum o) | None => false end) l = true ->
                                   forall d, assoc_str (upper (pick n l d)) compute_operator_hash = Some (binop_enum o)).
  { intros l Hl Hall d. rewrite forallb_forall in Hall. specialize (Hall _ (pick_in n l d Hl)).
    destruct (assoc_str (upper (pick n l d)) compute_operator_hash); [|discriminate]. apply String.eqb_eq in Hall. congruence. }
  destruct o; cbn [binop_text]; try (vm_compute; reflexivity); apply H; try discriminate; vm_compute; reflexivity.
Qed.

Lemma cmpop_spellings : forall o n, assoc_str (cmpop_text n o) compare_operator_hash = Some (cmpop_enum o).
Proof.
  intros o n.
  assert (H : forall l : list str, l <> [] -> forallb (fun s => match assoc_str s compare_operator_hash with
                                                                | Some x => String.eqb x (cmpop_enum o) | None => false end) l = true ->
                                   forall d, assoc_str (pick n l d) compare_operator_hash = Some (cmpop_enum o)).
  { intros l Hl Hall d. rewrite forallb_forall in Hall. specialize (Hall _ (pick_in n l d Hl)).
    destruct (assoc_str (pick n l d) compare_operator_hash); [|discriminate]. apply String.eqb_eq in Hall. congruence. }
  destruct o; cbn [cmpop_text]; try (vm_compute; reflexivity); apply H; try discriminate; vm_compute; reflexivity.
Qed.

(* dialect: for Hive `!` is a spelling of NOT and not a unary operator; elsewhere it is a unary operator and not NOT *)
Lemma bang_by_dialect : forall d,
  mem_str (S "!") (unary_operator_set d) = negb (mem_str (S "!") (not_operator_set d)) /\
  (mem_str (S "!") (not_operator_set d) = match d with D_HIVE => true | _ => false end) /\
  mem_str (S "NOT") (not_operator_set d) = true /\
  forallb (fun o => mem_str o (unary_operator_set d)) [S "-"; S "+"; S "~"] = true.
Proof. destruct d; vm_compute; auto. Qed.

(* ---------- different specification trees have different result trees (grouping is observable) ---------- *)
Section SexprInd.
  Variable P : sexpr -> Prop.
  Hypothesis Hcol : forall t n, P (SCol t n).
  Hypothesis Hlit : forall s, P (SLit s).
  Hypothesis Hun : forall o e, P e -> P (SUn o e).
  Hypothesis Hbin : forall o l r, P l -> P r -> P (SBin o l r).
  Hypothesis Hkw : forall k n l r, P l -> P r -> P (SKw k n l r).
  Hypothesis Hbtw : forall n e lo hi, P e -> P lo -> P hi -> P (SBetween n e lo hi).
  Hypothesis Hin : forall n e vs, P e -> Forall P vs -> P (SIn n e vs).
  Hypothesis Hcmp : forall o l r, P l -> P r -> P (SCmp o l r).
  Hypothesis Hnot : forall e, P e -> P (SNot e).
  Hypothesis Hand : forall l r, P l -> P r -> P (SAnd l r).
  Hypothesis Hxor : forall l r, P l -> P r -> P (SXor l r).
  Hypothesis Hor : forall l r, P l -> P r -> P (SOr l r).
  Hypothesis Hfunc : forall f args, Forall P args -> P (SFunc f args).
  Fixpoint sexpr_ind2 (e : sexpr) : P e :=
    let fix go (l : list sexpr) : Forall P l :=
        match l with [] => Forall_nil P | x :: l' => Forall_cons x (sexpr_ind2 x) (go l') end in
    match e with
    | SCol t n => Hcol t n | SLit s => Hlit s | SUn o x => Hun o x (sexpr_ind2 x)
    | SBin o l r => Hbin o l r (sexpr_ind2 l) (sexpr_ind2 r)
    | SKw k n l r => Hkw k n l r (sexpr_ind2 l) (sexpr_ind2 r)
    | SBetween n x lo hi => Hbtw n x lo hi (sexpr_ind2 x) (sexpr_ind2 lo) (sexpr_ind2 hi)
    | SIn n x vs => Hin n x vs (sexpr_ind2 x) (go vs)
    | SCmp o l r => Hcmp o l r (sexpr_ind2 l) (sexpr_ind2 r)
    | SNot x => Hnot x (sexpr_ind2 x)
    | SAnd l r => Hand l r (sexpr_ind2 l) (sexpr_ind2 r)
    | SXor l r => Hxor l r (sexpr_ind2 l) (sexpr_ind2 r)
    | SOr l r => Hor l r (sexpr_ind2 l) (sexpr_ind2 r)
    | SFunc f args => Hfunc f args (go args)
    end.
End SexprInd.

Lemma map_embed_inj (l1 : list sexpr) : Forall (fun x => forall y, embed x = embed y -> x = y) l1 ->
  forall l2, map embed l1 = map embed l2 -> l1 = l2.
Proof.
  induction 1 as [|x l1 Hx _ IH]; intros [|y l2] H; simpl in H; try discriminate; [reflexivity|].
  inversion H. f_equal; auto.
Qed.

Lemma unop_enum_inj a b : unop_enum a = unop_enum b -> a = b.
Proof. destruct a, b; simpl; intros H; try reflexivity; discriminate. Qed.
Lemma binop_enum_inj a b : binop_enum a = binop_enum b -> a = b.
Proof. destruct a, b; simpl; intros H; try reflexivity; discriminate. Qed.
Lemma cmpop_enum_inj a b : cmpop_enum a = cmpop_enum b -> a = b.
Proof. destruct a, b; simpl; intros H; try reflexivity; discriminate. Qed.
Lemma kw_class_inj a b : kw_class a = kw_class b -> a = b.
Proof. destruct a, b; simpl; intros H; try reflexivity; discriminate. Qed.

Theorem embed_injective : forall e1 e2, embed e1 = embed e2 -> e1 = e2.
Proof.
  induction e1 as [t n|s|o e IH|o l r IHl IHr|k n l r IHl IHr|n e lo hi IHe IHlo IHhi|n e vs IHe IHvs|o l r IHl IHr|e IH|l r IHl IHr|l r IHl IHr|l r IHl IHr|f args IHargs]
    using sexpr_ind2; intros e2 H; destruct e2; cbn [embed] in H;
    try (match type of H with VNode ?a _ = VNode ?b _ => try discriminate end);
    try (destruct k; discriminate); try (destruct k0; discriminate).
  - inversion H. destruct t, tbl; try discriminate; congruence.
  - inversion H. reflexivity.
  - inversion H. f_equal; [apply unop_enum_inj; assumption|apply IH; assumption].
  - inversion H. f_equal; [apply binop_enum_inj; assumption|apply IHl; assumption|apply IHr; assumption].
  - inversion H as [[Hc Hn Hl Hr]]. apply kw_class_inj in Hc. subst. f_equal; [apply IHl; assumption|apply IHr; assumption].
  - inversion H. subst. f_equal; [apply IHe|apply IHlo|apply IHhi]; assumption.
  - inversion H. subst. f_equal; [apply IHe; assumption|apply (map_embed_inj vs IHvs); assumption].
  - inversion H. f_equal; [apply cmpop_enum_inj; assumption|apply IHl; assumption|apply IHr; assumption].
  - inversion H. f_equal. apply IH; assumption.
  - inversion H. f_equal; [apply IHl|apply IHr]; assumption.
  - inversion H. f_equal; [apply IHl|apply IHr]; assumption.
  - inversion H. f_equal; [apply IHl|apply IHr]; assumption.
  - inversion H. subst. f_equal. apply (map_embed_inj args IHargs). assumption.
Qed.
