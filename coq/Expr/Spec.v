(* Specification side of the expression grammar (independent of the parser model):
   typed syntax, the DOCUMENTED precedence table, emission to text with exactly the parentheses that level and left
   associativity require (plus any number of redundant ones, chosen by a choice stream), and the tree the parser is
   expected to return (embed).  Used (a) as the oracle that judges the implementation and (b) in the theorems of
   Expr/Proofs.v about the parser model. *)
From Coq Require Import List NArith ZArith Bool String Ascii.
Require Import Base.Common Tree.Value Gen.Static.
Import ListNotations.
Open Scope string_scope.
Open Scope N_scope.
Open Scope list_scope.

Inductive unop := U_MINUS | U_PLUS | U_TILDE | U_BANG.
Inductive binop := B_XOR | B_MUL | B_DIV | B_MOD | B_ADD | B_SUB | B_SHL | B_SHR | B_AND | B_OR.
Inductive cmpop := C_EQ | C_NEQ | C_LT | C_LTE | C_GT | C_GTE | C_SAFE_EQ.
Inductive kwop := K_LIKE | K_RLIKE | K_REGEXP | K_IS.

Inductive sexpr : Type :=
| SCol (tbl : option str) (name : str)
| SLit (src : str)
| SUn (o : unop) (e : sexpr)
| SBin (o : binop) (l r : sexpr)
| SKw (k : kwop) (neg : bool) (l r : sexpr)
| SBetween (neg : bool) (e lo hi : sexpr)
| SIn (neg : bool) (e : sexpr) (vs : list sexpr)
| SCmp (o : cmpop) (l r : sexpr)
| SNot (e : sexpr)
| SAnd (l r : sexpr)
| SXor (l r : sexpr)
| SOr (l r : sexpr)
| SFunc (name : str) (args : list sexpr).

(* ---------- the documented precedence table (smaller number binds tighter) ---------- *)
Definition binop_level (o : binop) : nat :=
  match o with
  | B_XOR => 3 | B_MUL | B_DIV | B_MOD => 4 | B_ADD | B_SUB => 5 | B_SHL | B_SHR => 6 | B_AND => 7 | B_OR => 8
  end%nat.
Definition level (e : sexpr) : nat :=
  match e with
  | SCol _ _ | SLit _ | SFunc _ _ => 0
  | SUn _ _ => 2
  | SBin o _ _ => binop_level o
  | SKw _ _ _ _ | SBetween _ _ _ _ | SIn _ _ _ => 9
  | SCmp _ _ _ => 10
  | SNot _ => 11
  | SAnd _ _ => 12
  | SXor _ _ => 13
  | SOr _ _ => 14
  end%nat.

(* ---------- enum member names of the result tree ---------- *)
Definition unop_enum (o : unop) : string :=
  match o with U_MINUS => "SUBTRACT" | U_PLUS => "PLUS" | U_TILDE => "BITWISE_INVERSION" | U_BANG => "LOGICAL_INVERSION" end.
Definition binop_enum (o : binop) : string :=
  match o with
  | B_XOR => "BITWISE_XOR" | B_MUL => "MULTIPLE" | B_DIV => "DIVIDE" | B_MOD => "MOD" | B_ADD => "PLUS" | B_SUB => "SUBTRACT"
  | B_SHL => "SHIFT_LEFT" | B_SHR => "SHIRT_RIGHT" | B_AND => "BITWISE_AND" | B_OR => "BITWISE_OR"
  end.
Definition cmpop_enum (o : cmpop) : string :=
  match o with C_EQ => "EQ" | C_NEQ => "NEQ" | C_LT => "LT" | C_LTE => "LTE" | C_GT => "GT" | C_GTE => "GTE" | C_SAFE_EQ => "SAME_EQUAL" end.
Definition kw_class (k : kwop) : string :=
  match k with K_LIKE => "ASTLikeExpression" | K_RLIKE => "ASTRlikeExpression" | K_REGEXP => "ASTRegexpExpression" | K_IS => "ASTIsExpression" end.

(* ---------- spellings (choice n selects among equivalent spellings / letter cases) ---------- *)
Definition pick {A} (n : nat) (l : list A) (dflt : A) : A := nth (Nat.modulo n (Nat.max 1 (List.length l))) l dflt.
Definition unop_text (o : unop) : str := match o with U_MINUS => S "-" | U_PLUS => S "+" | U_TILDE => S "~" | U_BANG => S "!" end.
Definition binop_text (n : nat) (o : binop) : str :=
  match o with
  | B_XOR => S "^" | B_MUL => S "*" | B_DIV => pick n [S "/"; S "DIV"; S "div"; S "Div"] (S "/")
  | B_MOD => pick n [S "%"; S "MOD"; S "mod"; S "mOd"] (S "%") | B_ADD => S "+" | B_SUB => S "-"
  | B_SHL => S "<<" | B_SHR => S ">>" | B_AND => S "&" | B_OR => S "|"
  end.
Definition cmpop_text (n : nat) (o : cmpop) : str :=
  match o with
  | C_EQ => S "=" | C_NEQ => pick n [S "!="; S "<>"] (S "!=") | C_LT => S "<" | C_LTE => S "<=" | C_GT => S ">" | C_GTE => S ">="
  | C_SAFE_EQ => S "<=>"
  end.
Definition kw_text (n : nat) (k : kwop) : str :=
  match k with
  | K_LIKE => pick n [S "LIKE"; S "like"; S "Like"] (S "LIKE") | K_RLIKE => pick n [S "RLIKE"; S "rlike"] (S "RLIKE")
  | K_REGEXP => pick n [S "REGEXP"; S "regexp"] (S "REGEXP") | K_IS => pick n [S "IS"; S "is"; S "Is"] (S "IS")
  end.
Definition word (n : nat) (l : list string) : str := pick n (map S l) (S "?").

(* ---------- choice stream ---------- *)
Definition choices := list nat.
Definition next (cs : choices) : nat * choices := match cs with c :: r => (c, r) | [] => (0%nat, []) end.

Definition sp : str := [32].
Fixpoint wrap (k : nat) (s : str) : str := match k with O => s | Datatypes.S k' => S "(" ++ wrap k' s ++ S ")" end.
Definition paren_if (b : bool) (s : str) : str := if b then S "(" ++ s ++ S ")" else s.

(* emit (cs, e) = (text, remaining choices); every sub-expression consumes one choice for its number (0..2) of redundant
   bracket pairs; operator words consume one choice for their spelling *)
Fixpoint emit (hive : bool) (e : sexpr) (cs : choices) : str * choices :=
  let '(extra, cs) := next cs in
  let sub (need : bool) (x : sexpr) (cs : choices) := let '(t, cs') := emit hive x cs in (paren_if need t, cs') in
  let fix emit_list (l : list sexpr) (cs : choices) : list str * choices :=
      match l with
      | [] => ([], cs)
      | x :: l' => let '(t, cs1) := sub (9 <=? level x)%nat x cs in let '(ts, cs2) := emit_list l' cs1 in (t :: ts, cs2)
      end in
  let fix emit_args (l : list sexpr) (cs : choices) : list str * choices :=
      match l with
      | [] => ([], cs)
      | x :: l' => let '(t, cs1) := sub false x cs in let '(ts, cs2) := emit_args l' cs1 in (t :: ts, cs2)
      end in
  let fix commas (l : list str) : str := match l with [] => [] | [x] => x | x :: l' => x ++ S ", " ++ commas l' end in
  let '(body, cs) :=
    match e with
    | SCol None n => (n, cs)
    | SCol (Some t) n => (t ++ S "." ++ n, cs)
    | SLit s => (s, cs)
    | SUn o x => let '(t, cs1) := sub (2 <? level x)%nat x cs in (unop_text o ++ sp ++ t, cs1)
    | SBin o l r =>
        let '(c, cs0) := next cs in
        let '(tl, cs1) := sub (binop_level o <? level l)%nat l cs0 in
        let '(tr, cs2) := sub (binop_level o <=? level r)%nat r cs1 in (tl ++ sp ++ binop_text c o ++ sp ++ tr, cs2)
    | SKw k neg l r =>
        let '(c, cs0) := next cs in
        let '(tl, cs1) := sub (9 <? level l)%nat l cs0 in
        let '(tr, cs2) := sub (9 <=? level r)%nat r cs1 in
        let kwt := match k, neg with
                   | K_IS, true => kw_text c K_IS ++ sp ++ word c ["NOT"; "not"]
                   | _, true => word c ["NOT"; "not"; "Not"] ++ sp ++ kw_text c k
                   | _, false => kw_text c k
                   end in
        (tl ++ sp ++ kwt ++ sp ++ tr, cs2)
    | SBetween neg x lo hi =>
        let '(c, cs0) := next cs in
        let '(tx, cs1) := sub (9 <? level x)%nat x cs0 in
        let '(tlo, cs2) := sub (9 <=? level lo)%nat lo cs1 in
        let '(thi, cs3) := sub (9 <=? level hi)%nat hi cs2 in
        (tx ++ sp ++ (if neg then word c ["NOT"; "not"] ++ sp else []) ++ word c ["BETWEEN"; "between"; "Between"] ++ sp ++ tlo ++ sp
            ++ word c ["AND"; "and"] ++ sp ++ thi, cs3)
    | SIn neg x vs =>
        let '(c, cs0) := next cs in
        let '(tx, cs1) := sub (9 <? level x)%nat x cs0 in
        let '(tvs, cs2) := emit_list vs cs1 in
        (tx ++ sp ++ (if neg then word c ["NOT"; "not"] ++ sp else []) ++ word c ["IN"; "in"; "In"] ++ sp ++ S "(" ++ commas tvs ++ S ")", cs2)
    | SCmp o l r =>
        let '(c, cs0) := next cs in
        let '(tl, cs1) := sub (10 <? level l)%nat l cs0 in
        let '(tr, cs2) := sub (10 <=? level r)%nat r cs1 in (tl ++ sp ++ cmpop_text c o ++ sp ++ tr, cs2)
    | SNot x =>
        let '(c, cs0) := next cs in
        let '(t, cs1) := sub (11 <? level x)%nat x cs0 in
        ((if hive then pick c [S "NOT"; S "!"; S "not"] (S "NOT") else word c ["NOT"; "not"; "Not"]) ++ sp ++ t, cs1)
    | SAnd l r =>
        let '(c, cs0) := next cs in
        let '(tl, cs1) := sub (12 <? level l)%nat l cs0 in
        let '(tr, cs2) := sub (12 <=? level r)%nat r cs1 in (tl ++ sp ++ word c ["AND"; "and"; "&&"; "And"] ++ sp ++ tr, cs2)
    | SXor l r =>
        let '(c, cs0) := next cs in
        let '(tl, cs1) := sub (13 <? level l)%nat l cs0 in
        let '(tr, cs2) := sub (13 <=? level r)%nat r cs1 in (tl ++ sp ++ word c ["XOR"; "xor"; "Xor"] ++ sp ++ tr, cs2)
    | SOr l r =>
        let '(c, cs0) := next cs in
        let '(tl, cs1) := sub (14 <? level l)%nat l cs0 in
        let '(tr, cs2) := sub (14 <=? level r)%nat r cs1 in (tl ++ sp ++ word c ["OR"; "or"; "||"; "Or"] ++ sp ++ tr, cs2)
    | SFunc f args => let '(ts, cs1) := emit_args args cs in (f ++ S "(" ++ commas ts ++ S ")", cs1)
    end in
  (wrap (Nat.modulo extra 3) body, cs).

(* ---------- the expected tree ---------- *)
Definition op_node (cls ecls : string) (n : string) : value := VNode cls [("enum", VEnum ecls n)].
Fixpoint embed (e : sexpr) : value :=
  match e with
  | SCol t n => VNode "ASTColumnNameExpression" [("table_name", match t with Some x => VStr x | None => VNone end); ("column_name", VStr n)]
  | SLit s => VNode "ASTLiteralExpression" [("value", VStr s)]
  | SUn o x => VNode "ASTUnaryExpression" [("operator", op_node "ASTComputeOperator" "EnumComputeOperator" (unop_enum o)); ("expression", embed x)]
  | SBin o l r => VNode "ASTComputeExpression" [("before_value", embed l); ("operator", op_node "ASTComputeOperator" "EnumComputeOperator" (binop_enum o));
                                                ("after_value", embed r)]
  | SKw k neg l r => VNode (kw_class k) [("is_not", VBool neg); ("before_value", embed l); ("after_value", embed r)]
  | SBetween neg x lo hi => VNode "ASTBetweenExpression" [("is_not", VBool neg); ("before_value", embed x); ("from_value", embed lo); ("to_value", embed hi)]
  | SIn neg x vs => VNode "ASTInExpression" [("is_not", VBool neg); ("before_value", embed x);
                                             ("after_value", VNode "ASTSubValueExpression" [("values", VTuple (map embed vs))])]
  | SCmp o l r => VNode "ASTOperatorConditionExpression" [("before_value", embed l); ("operator", op_node "ASTCompareOperator" "EnumCompareOperator" (cmpop_enum o));
                                                          ("after_value", embed r)]
  | SNot x => VNode "ASTLogicalNotExpression" [("expression", embed x)]
  | SAnd l r => VNode "ASTLogicalAndExpression" [("before_value", embed l); ("after_value", embed r)]
  | SXor l r => VNode "ASTLogicalXorExpression" [("before_value", embed l); ("after_value", embed r)]
  | SOr l r => VNode "ASTLogicalOrExpression" [("before_value", embed l); ("after_value", embed r)]
  | SFunc f args => VNode "ASTNormalFunctionExpression"
                      [("name", VNode "ASTFunctionNameExpression" [("schema_name", VNone); ("function_name", VStr f)]); ("params", VTuple (map embed args))]
  end.
