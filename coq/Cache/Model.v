(* Model of analyzer/tool.py::CreateTableStatementGetter as a state machine over a shared directory.
   World: the files of the cache directory (name -> content) and the schema provider (table name -> CREATE TABLE text; None = raises).
   An instance is (has a disk path?, memory cache, disk-cache name set).  Operations: a new instance (lists the directory and applies
   str.replace(".sql", "") to every file name), a lookup, and -- to state the crash question -- a save that is cut short. *)
From Coq Require Import List NArith Bool Arith String Lia.
Require Import Base.Common Parse.Prim.
Import ListNotations.
Open Scope list_scope.

Definition fsys := list (str * str).                    (* file name -> content; the first binding of a name is the live one *)
Record inst := mki { i_disk : bool; i_mem : list (str * str); i_names : list str }.
Record world := mkw { w_fs : fsys; w_insts : list inst; w_asked : list str }.

Definition dot_sql : str := [46; 115; 113; 108].
Fixpoint fs_get (n : str) (fs : fsys) : option str := match fs with [] => None | (k, v) :: r => if str_eqb k n then Some v else fs_get n r end.
Definition fs_put (n c : str) (fs : fsys) : fsys := (n, c) :: filter (fun p => negb (str_eqb (fst p) n)) fs.

Inductive cop : Type :=
| CNew (disk : bool)
| CGet (i : nat) (name : str)
| CCrashSave (i : nat) (name : str) (keep : nat).       (* the provider is asked, the file is created, only `keep` characters get written, the instance is gone *)

Inductive cres : Type := RNone | RSql (s : str) | RErr (e : err).

Section Machine.
  Variable provider : str -> option str.

  Definition new_inst (disk : bool) (fs : fsys) : inst :=
    mki disk [] (if disk then map (fun p => replace dot_sql [] (fst p)) fs else []).

  Fixpoint set_nth {A} (n : nat) (x : A) (l : list A) : list A :=
    match n, l with O, _ :: r => x :: r | S n', y :: r => y :: set_nth n' x r | _, [] => [] end.

  Definition cstep (w : world) (o : cop) : world * cres :=
    match o with
    | CNew disk => (mkw (w_fs w) (w_insts w ++ [new_inst disk (w_fs w)]) (w_asked w), RNone)
    | CGet i name =>
        match nth_error (w_insts w) i with
        | None => (w, RErr (Crash 1))
        | Some ins =>
            match fs_get name (i_mem ins) with
            | Some sql => (w, RSql sql)
            | None =>
                if i_disk ins then
                  if mem_str name (i_names ins) then
                    match fs_get (name ++ dot_sql) (w_fs w) with
                    | Some sql => (mkw (w_fs w) (set_nth i (mki true ((name, sql) :: i_mem ins) (i_names ins)) (w_insts w)) (w_asked w), RSql sql)
                    | None => (w, RErr (Crash 7))                                 (* FileNotFoundError *)
                    end
                  else
                    match provider name with
                    | None => (mkw (w_fs w) (w_insts w) (w_asked w ++ [name]), RErr (Crash 4))
                    | Some sql =>
                        (mkw (fs_put (name ++ dot_sql) sql (w_fs w))
                             (set_nth i (mki true ((name, sql) :: i_mem ins) (name :: i_names ins)) (w_insts w)) (w_asked w ++ [name]), RSql sql)
                    end
                else
                  match provider name with
                  | None => (mkw (w_fs w) (w_insts w) (w_asked w ++ [name]), RErr (Crash 4))
                  | Some sql => (mkw (w_fs w) (set_nth i (mki false ((name, sql) :: i_mem ins) (i_names ins)) (w_insts w)) (w_asked w ++ [name]), RSql sql)
                  end
            end
        end
    | CCrashSave i name keep =>
        match provider name with
        | Some sql => (mkw (fs_put (name ++ dot_sql) (firstn keep sql) (w_fs w)) (w_insts w) (w_asked w ++ [name]), RNone)
        | None => (w, RNone)
        end
    end.

  Fixpoint crun (w : world) (ops : list cop) : world * list cres :=
    match ops with
    | [] => (w, [])
    | o :: ops' => let '(w1, r) := cstep w o in let '(w2, rs) := crun w1 ops' in (w2, r :: rs)
    end.
End Machine.

Definition empty_world : world := mkw [] [] [].
