(* Cache transparency as an invariant of the state machine, for every history of instance creations and lookups. *)
From Coq Require Import List NArith Bool Arith String Lia.
Require Import Base.Common Parse.Prim Cache.Model.
Import ListNotations.
Open Scope list_scope.

Section Transparent.
  Variable provider : str -> option str.
  (* names the cache can represent faithfully: the file name <name>.sql maps back to <name> under replace(".sql", "") *)
  Variable nice : str -> bool.
  Hypothesis nice_roundtrip : forall n, nice n = true -> replace dot_sql [] (n ++ dot_sql) = n.
  Hypothesis nice_inj : forall a b, nice a = true -> nice b = true -> (a ++ dot_sql) = (b ++ dot_sql) -> a = b.

  (* every file of the directory holds exactly what the provider says for the table it is named after; every memory entry too;
     every name an instance believes to be on disk has its file *)
  Definition file_ok (p : str * str) : Prop := exists n, nice n = true /\ fst p = n ++ dot_sql /\ provider n = Some (snd p).
  Definition inst_ok (fs : fsys) (ins : inst) : Prop :=
    (forall n sql, fs_get n (i_mem ins) = Some sql -> provider n = Some sql) /\
    (forall n, In n (i_names ins) -> nice n = true -> exists sql, fs_get (n ++ dot_sql) fs = Some sql /\ provider n = Some sql).
  Definition consistent (w : world) : Prop := Forall file_ok (w_fs w) /\ Forall (inst_ok (w_fs w)) (w_insts w).

  Definition op_nice (o : cop) : bool := match o with CGet _ n => nice n | CNew _ => true | CCrashSave _ _ _ => false end.

  Lemma fs_get_in n fs v : fs_get n fs = Some v -> In (n, v) fs.
  Proof.
    induction fs as [|[k x] r IH]; simpl; [discriminate|]. destruct (str_eqb k n) eqn:E.
    - intros H; inversion H; subst. apply str_eqb_eq in E. subst. left; reflexivity.
    - intros H. right. apply IH. exact H.
  Qed.
  Lemma file_lookup fs n sql : Forall file_ok fs -> nice n = true -> fs_get (n ++ dot_sql) fs = Some sql -> provider n = Some sql.
  Proof.
    intros Hf Hn Hg. apply fs_get_in in Hg. rewrite Forall_forall in Hf. destruct (Hf _ Hg) as (m & Hm & E & P). cbn [fst snd] in *.
    apply (nice_inj n m Hn Hm) in E. subst. exact P.
  Qed.

  Lemma fs_put_get n c fs : fs_get n (fs_put n c fs) = Some c.
  Proof. unfold fs_put. simpl. assert (E : str_eqb n n = true) by (apply str_eqb_eq; reflexivity). rewrite E. reflexivity. Qed.
  Lemma fs_put_other n m c fs : str_eqb m n = false -> fs_get n (fs_put m c fs) = fs_get n fs.
  Proof.
    intros H. unfold fs_put. simpl. rewrite H. induction fs as [|[k x] r IH]; simpl; [reflexivity|].
    destruct (str_eqb k m) eqn:E; simpl.
    - apply str_eqb_eq in E. subst. rewrite H. exact IH.
    - destruct (str_eqb k n); [reflexivity|exact IH].
  Qed.
  Lemma fs_put_files n c fs : Forall file_ok fs -> file_ok (n, c) -> Forall file_ok (fs_put n c fs).
  Proof.
    intros Hf Hn. unfold fs_put. constructor; [exact Hn|]. apply Forall_forall. intros p Hp. apply filter_In in Hp as [Hp _].
    rewrite Forall_forall in Hf. exact (Hf _ Hp).
  Qed.

  Lemma set_nth_forall {A} (P : A -> Prop) n x l : Forall P l -> P x -> Forall P (set_nth n x l).
  Proof. revert n. induction l as [|y l IH]; intros [|n] Hl Hx; simpl; auto; inversion Hl; subst; constructor; auto. Qed.

  (* one step: consistency is kept, and a lookup answers with the provider's text *)
  Lemma inst_ok_put fs ins n sql : nice n = true -> provider n = Some sql -> Forall file_ok fs -> inst_ok fs ins -> inst_ok (fs_put (n ++ dot_sql) sql fs) ins.
  Proof.
    intros Hn Hp Hf [A B]. split; [exact A|]. intros m Hm Hnm. destruct (B m Hm Hnm) as (s & G & P).
    destruct (str_eqb (n ++ dot_sql) (m ++ dot_sql)) eqn:E.
    - apply str_eqb_eq in E. apply (nice_inj n m Hn Hnm) in E. subst. exists sql. split; [apply fs_put_get|exact Hp].
    - exists s. split; [rewrite fs_put_other; assumption|exact P].
  Qed.

  Lemma step_consistent w o : consistent w -> op_nice o = true ->
    consistent (fst (cstep provider w o)) /\
    (forall i n sql, o = CGet i n -> snd (cstep provider w o) = RSql sql -> provider n = Some sql).
  Proof.
    intros [Hf Hi] Hn. destruct o as [disk|i n|i n k]; cbn [cstep op_nice] in *; [| |discriminate].
    - split; [|intros; discriminate]. split; [exact Hf|]. cbn [fst w_fs w_insts]. apply Forall_app. split; [exact Hi|]. constructor; [|constructor].
      unfold new_inst. split; cbn [i_mem i_names]; [intros ? ? H; discriminate|].
      destruct disk; [|intros ? []]. intros m Hm Hnm. apply in_map_iff in Hm as ([f c] & E & Hin). cbn [fst] in E.
      rewrite Forall_forall in Hf. destruct (Hf _ Hin) as (m' & Hm' & Ef & P). cbn [fst snd] in *. subst f.
      rewrite (nice_roundtrip m' Hm') in E. subst m'. exists c. split; [|exact P].
      (* the first binding of the file name is the live one; all bindings agree with the provider *)
      destruct (fs_get (m ++ dot_sql) (w_fs w)) as [c'|] eqn:G.
      + pose proof (file_lookup _ _ _ (proj2 (Forall_forall _ _) Hf) Hnm G) as P'. congruence.
      + exfalso. clear -Hin G. induction (w_fs w) as [|[k x] r IH]; [contradiction|]. simpl in G. destruct (str_eqb k (m ++ dot_sql)) eqn:E; [discriminate|].
        destruct Hin as [H|H]; [inversion H; subst; assert (T : str_eqb (m ++ dot_sql) (m ++ dot_sql) = true) by (apply str_eqb_eq; reflexivity); congruence|auto].
    - destruct (nth_error (w_insts w) i) as [ins|] eqn:Ei; [|split; [split; assumption|intros; discriminate]].
      assert (Hins : inst_ok (w_fs w) ins) by (rewrite Forall_forall in Hi; apply Hi; eapply nth_error_In; eauto).
      destruct Hins as [A B].
      destruct (fs_get n (i_mem ins)) as [sql|] eqn:Em.
      { split; [split; assumption|]. intros i' n' s E R. inversion E; subst. inversion R; subst. exact (A _ _ Em). }
      destruct (i_disk ins) eqn:Ed.
      + destruct (mem_str n (i_names ins)) eqn:En.
        * assert (Hin : In n (i_names ins)).
          { unfold mem_str in En. apply existsb_exists in En as (x & Hx & E). apply str_eqb_eq in E. subst. exact Hx. }
          destruct (B n Hin Hn) as (sql & G & P). rewrite G. split.
          -- split; [exact Hf|]. cbn [fst w_fs w_insts]. apply set_nth_forall; [exact Hi|]. split; cbn [i_mem i_names]; [|exact B].
             intros m s. cbn [fs_get]. destruct (str_eqb n m) eqn:E; [intros H; inversion H; subst; apply str_eqb_eq in E; subst; exact P|apply A].
          -- intros i' n' s E R. inversion E; subst. inversion R; subst. exact P.
        * destruct (provider n) as [sql|] eqn:P; [|split; [split; assumption|intros; discriminate]].
          split.
          -- split; cbn [fst w_fs w_insts].
             ++ apply fs_put_files; [exact Hf|]. exists n. cbn [fst snd]. auto.
             ++ apply set_nth_forall.
                ** apply Forall_forall. intros x Hx. rewrite Forall_forall in Hi. apply inst_ok_put; auto.
                ** split; cbn [i_mem i_names].
                   --- intros m s. cbn [fs_get]. destruct (str_eqb n m) eqn:E; [intros H; inversion H; subst; apply str_eqb_eq in E; subst; exact P|apply A].
                   --- intros m [Hm|Hm] Hnm.
                       +++ subst m. exists sql. split; [apply fs_put_get|exact P].
                       +++ destruct (inst_ok_put (w_fs w) ins n sql Hn P Hf (conj A B)) as [_ B']. exact (B' m Hm Hnm).
          -- intros i' n' s E R. inversion E; subst. inversion R; subst. exact P.
      + destruct (provider n) as [sql|] eqn:P; [|split; [split; assumption|intros; discriminate]].
        split.
        * split; [exact Hf|]. cbn [fst w_fs w_insts]. apply set_nth_forall; [exact Hi|]. split; cbn [i_mem i_names]; [|exact B].
          intros m s. cbn [fs_get]. destruct (str_eqb n m) eqn:E; [intros H; inversion H; subst; apply str_eqb_eq in E; subst; exact P|apply A].
        * intros i' n' s E R. inversion E; subst. inversion R; subst. exact P.
  Qed.

  (* every history *)
  Theorem cache_transparent : forall ops w, consistent w -> forallb op_nice ops = true ->
    consistent (fst (crun provider w ops)) /\
    Forall2 (fun o r => forall i n sql, o = CGet i n -> r = RSql sql -> provider n = Some sql) ops (snd (crun provider w ops)).
  Proof.
    induction ops as [|o ops IH]; intros w Hw Hn; cbn [crun].
    - split; [exact Hw|constructor].
    - cbn [forallb] in Hn. apply andb_true_iff in Hn as [H1 H2].
      destruct (step_consistent w o Hw H1) as [Hc Hr]. destruct (cstep provider w o) as [w1 r] eqn:E. cbn [fst snd] in *.
      destruct (IH w1 Hc H2) as [Hc2 Hr2]. destruct (crun provider w1 ops) as [w2 rs]. cbn [fst snd] in *.
      split; [exact Hc2|]. constructor; assumption.
  Qed.

  Lemma empty_consistent : consistent empty_world.
  Proof. split; constructor. Qed.
End Transparent.
