(* Lexer part of C07 (fails closed: the only failure is the lexical error) and of C19 (work per character). *)
From Coq Require Import List NArith Bool Arith Lia.
Require Import Base.Common Gen.LexTable Lex.Model Lex.Invariants Lex.ImplFacts Lex.C04Proofs.
Import ListNotations.

Definition eff_crash (e : eff) : bool := match e with ECrash => true | _ => false end.

Lemma apply_eff_err e m x : apply_eff e m = Err x -> bottom_ok (stack m) -> eff_crash e = false -> x = LexErr.
Proof.
  assert (Hpush : forall t, push_item t m = Err x -> bottom_ok (stack m) -> x = LexErr).
  { intros t. unfold push_item. destruct (stack m) as [|[[k o] items] st'] eqn:E; [|discriminate].
    intros _ Hb. apply bottom_ok_nonempty in Hb. contradiction. }
  destruct e; simpl; intros H Hb Hc; try discriminate.
  - eapply Hpush; eauto.
  - eapply Hpush; eauto.
  - unfold drop in H. destruct (win m); [discriminate|]. eapply Hpush; eauto.
  - destruct (stack m) as [|[[ko o] items] [|[[k2 o2] items2] st']] eqn:E; try (inversion H; reflexivity).
    destruct (gkind_eqb ko k); [discriminate|inversion H; reflexivity].
  - inversion H; reflexivity.
Qed.

Lemma apply_effs_err es : forall m x, apply_effs es m = Err x -> bottom_ok (stack m) -> existsb eff_crash es = false -> x = LexErr.
Proof.
  induction es as [|e es IH]; simpl; intros m x H Hb Hc; [discriminate|].
  apply orb_false_iff in Hc as [Hc1 Hc2].
  destruct (apply_eff e m) as [m1|y] eqn:E.
  - eapply IH; eauto. eapply apply_eff_bottom; eauto.
  - inversion H; subst. eapply apply_eff_err; eauto.
Qed.

(* finite checks on the regenerated tables: the set of states reachable from WAIT is closed under the macro step, and no
   (reachable state, class) macro step contains a missing cell (the base table has no rows for the plug-in's CUSTOM states) *)
Definition memS (s : state) (R : list state) : bool := existsb (st_eqb s) R.
Lemma memS_In s R : memS s R = true -> In s R.
Proof. unfold memS. rewrite existsb_exists. intros [y [Hy E]]. apply st_eqb_eq in E. subst. exact Hy. Qed.
Lemma In_memS s R : In s R -> memS s R = true.
Proof. intros H. unfold memS. rewrite existsb_exists. exists s. split; auto. unfold st_eqb. apply Nat.eqb_refl. Qed.
Definition classes_all : list nat := seq 0 (S n_classes).
Definition classes_chars : list nat := seq 0 n_classes.
Definition succs (tbl : list (list nat)) (s : state) : list state := map (fun k => fst (impl_step tbl s k)) classes_chars.
Definition add_new (R : list state) (l : list state) : list state :=
  fold_left (fun acc s => if memS s acc then acc else acc ++ [s]) l R.
Fixpoint closure (n : nat) (tbl : list (list nat)) (R : list state) : list state :=
  match n with O => R | S n' => closure n' tbl (add_new R (flat_map (succs tbl) R)) end.
Definition reach (tbl : list (list nat)) : list state := closure 12 tbl [S_WAIT].
Definition closedR (tbl : list (list nat)) (R : list state) : bool :=
  memS S_WAIT R && forallb (fun s => forallb (fun k => memS (fst (impl_step tbl s k)) R) classes_chars) R.
Definition crash_free_on (tbl : list (list nat)) (R : list state) : bool :=
  closedR tbl R && forallb (fun s => forallb (fun k => negb (existsb eff_crash (snd (impl_step tbl s k)))) classes_all) R.
Definition crash_free (tbl : list (list nat)) : bool := crash_free_on tbl (reach tbl).
Arguments reach : simpl never.
Arguments crash_free : simpl never.
Arguments closure : simpl never.
Lemma crash_free_all : forallb (fun mb => forallb (fun f => crash_free (table mb f)) (seq 0 8)) [false; true] = true.
Proof. vm_compute. reflexivity. Qed.
Lemma crash_free_cfg mb f : (f < 8)%nat -> crash_free (table mb f) = true.
Proof.
  intros Hf. pose proof crash_free_all as H. rewrite forallb_forall in H.
  assert (Hm : In mb [false; true]) by (destruct mb; simpl; auto).
  specialize (H mb Hm). rewrite forallb_forall in H. apply H. apply in_seq. lia.
Qed.
Lemma crash_free_step tbl : crash_free tbl = true -> forall s k, In s (reach tbl) -> (k <= n_classes)%nat ->
  existsb eff_crash (snd (impl_step tbl s k)) = false /\ ((k < n_classes)%nat -> In (fst (impl_step tbl s k)) (reach tbl)).
Proof.
  unfold crash_free. generalize (reach tbl) as R. intros R H s k Hs Hk.
  unfold crash_free_on in H. apply andb_true_iff in H as [H1 H2].
  assert (Hin : In k classes_all) by (apply in_seq; lia). split.
  - rewrite forallb_forall in H2. specialize (H2 s Hs). rewrite forallb_forall in H2. apply negb_true_iff. apply H2. exact Hin.
  - intros Hlt. unfold closedR in H1. apply andb_true_iff in H1 as [_ H1]. rewrite forallb_forall in H1. specialize (H1 s Hs).
    rewrite forallb_forall in H1. apply memS_In. apply H1. apply in_seq. lia.
Qed.
Lemma reach_wait tbl : crash_free tbl = true -> In S_WAIT (reach tbl).
Proof.
  unfold crash_free. generalize (reach tbl) as R. intros R H. unfold crash_free_on, closedR in H.
  apply andb_true_iff in H as [H _]. apply andb_true_iff in H as [H _]. apply memS_In. exact H.
Qed.

Lemma run_chars_err tbl : crash_free tbl = true -> forall cs s m x,
  run_chars (impl_step tbl) s m cs = Err x -> In s (reach tbl) -> bottom_ok (stack m) -> x = LexErr.
Proof.
  intros Hc. induction cs as [|c cs IH]; cbn [run_chars]; intros s m x H Hs Hb; [discriminate H|].
  destruct (crash_free_step tbl Hc s (classify c) Hs (Nat.lt_le_incl _ _ (classify_lt c))) as [Hk Hn].
  specialize (Hn (classify_lt c)).
  destruct (impl_step tbl s (classify c)) as [s1 es] eqn:Es. cbn [fst snd] in Hk, Hn.
  destruct (apply_effs es m) as [m1|y] eqn:Ea.
  - exact (IH s1 m1 x H Hn (apply_effs_bottom es m m1 Ea Hb)).
  - inversion H; subst. exact (apply_effs_err es m x Ea Hb Hk).
Qed.

Lemma run_chars_bottom tbl : crash_free tbl = true -> forall cs s m s' m',
  run_chars (impl_step tbl) s m cs = Ok (s', m') -> In s (reach tbl) -> bottom_ok (stack m) -> bottom_ok (stack m') /\ In s' (reach tbl).
Proof.
  intros Hc. induction cs as [|c cs IH]; cbn [run_chars]; intros s m s' m' H Hs Hb; [inversion H; subst; split; assumption|].
  destruct (crash_free_step tbl Hc s (classify c) Hs (Nat.lt_le_incl _ _ (classify_lt c))) as [_ Hn].
  specialize (Hn (classify_lt c)).
  destruct (impl_step tbl s (classify c)) as [s1 es]. cbn [fst snd] in Hn.
  destruct (apply_effs es m) as [m1|y] eqn:Ea; [|discriminate H].
  exact (IH s1 m1 s' m' H Hn (apply_effs_bottom es m m1 Ea Hb)).
Qed.

Theorem glex_full_err tbl text x : crash_free tbl = true ->
  glex_full (impl_step tbl) impl_accept S_WAIT text = Err x -> x = LexErr.
Proof.
  intros Hc. unfold glex_full.
  assert (Hb0 : bottom_ok (stack (init_mem text))) by (exists KPar, [], []; reflexivity).
  pose proof (reach_wait tbl Hc) as Hw.
  destruct (run_chars (impl_step tbl) S_WAIT (init_mem text) text) as [[s m]|y] eqn:Er.
  - destruct (run_chars_bottom tbl Hc _ _ _ _ _ Er Hw Hb0) as [Hb Hs]. unfold finish.
    assert (Hle : (cls_end <= n_classes)%nat) by (rewrite cls_end_is_n; apply Nat.le_refl).
    destruct (crash_free_step tbl Hc s cls_end Hs Hle) as [Hk _].
    destruct (impl_step tbl s cls_end) as [s1 es] eqn:Es. cbn [fst snd] in Hk.
    destruct (apply_effs es m) as [m1|y] eqn:Ea.
    + destruct (impl_accept s1); [|intros H; inversion H; reflexivity].
      destruct (stack m1) as [|[[k o] items] [|? ?]]; intros H; inversion H; reflexivity.
    + intros H; inversion H; subst. exact (apply_effs_err es m x Ea Hb Hk).
  - intros H; inversion H; subst. exact (run_chars_err tbl Hc text S_WAIT (init_mem text) x Er Hw Hb0).
Qed.

(* ---------- work per character (C19) ---------- *)
(* number of FSMMachine.handle calls of one loop iteration, and number of elementary memory effects *)
Definition handle_calls (tbl : list (list nat)) (s : state) (k : nat) : nat :=
  let o1 := cell tbl s k in if op_ret o1 || op_stops o1 || Nat.eqb k cls_end then 1%nat else 2%nat.
Fixpoint total_calls (tbl : list (list nat)) (s : state) (cs : list nat) : nat :=
  match cs with
  | [] => 0%nat
  | k :: cs' => (handle_calls tbl s k + total_calls tbl (fst (impl_step tbl s k)) cs')%nat
  end.
Lemma handle_calls_le2 tbl s k : (handle_calls tbl s k <= 2)%nat.
Proof. unfold handle_calls. destruct (_ || _ || _); lia. Qed.
Lemma total_calls_bound tbl : forall cs s, (total_calls tbl s cs <= 2 * List.length cs)%nat.
Proof. induction cs as [|k cs IH]; simpl; intros s; [lia|]. pose proof (handle_calls_le2 tbl s k). specialize (IH (fst (impl_step tbl s k))). lia. Qed.

Lemma op_effs_le2 o : (List.length (op_effs o) <= 2)%nat.
Proof. destruct o; simpl; lia. Qed.
Lemma step_effs_le4 tbl s k : (List.length (snd (impl_step tbl s k)) <= 4)%nat.
Proof.
  unfold impl_step. destruct (_ || _ || _); simpl.
  - pose proof (op_effs_le2 (cell tbl s k)). lia.
  - rewrite app_length. pose proof (op_effs_le2 (cell tbl s k)). pose proof (op_effs_le2 (cell tbl (op_next (cell tbl s k) s) k)). lia.
Qed.

(* the text is never re-scanned: the pre-pass output is no longer than the input *)
Lemma preproc_step c s' : preproc (c :: s') = preproc s' \/ exists x, preproc (c :: s') = x :: preproc s'.
Proof.
  destruct c as [|p]; [right; eexists; reflexivity|].
  do 4 (destruct p as [p|p|]; try (right; eexists; reflexivity)).
  destruct s' as [|c2 s2]; [right; eexists; reflexivity|].
  destruct c2 as [|q]; [right; eexists; reflexivity|].
  do 4 (destruct q as [q|q|]; try (right; eexists; reflexivity)).
  left; reflexivity.
Qed.
Lemma preproc_length : forall s, (List.length (preproc s) <= List.length s)%nat.
Proof.
  induction s as [|c s IH]; [simpl; lia|].
  destruct (preproc_step c s) as [E|[x E]]; rewrite E; simpl; lia.
Qed.

(* number of FSMMachine.handle calls for a whole text: one macro step per (pre-processed) character plus the END step *)
Definition lex_handle_calls (mybatis : bool) (flags : nat) (s : str) : nat :=
  total_calls (table mybatis flags) S_WAIT (map classify (preproc s) ++ [cls_end]).
Lemma lex_handle_calls_bound mb f s : (lex_handle_calls mb f s <= 2 * List.length s + 1)%nat.
Proof.
  unfold lex_handle_calls.
  assert (G : forall tbl cs st, (total_calls tbl st (cs ++ [cls_end]) <= 2 * List.length cs + 1)%nat).
  { intros tbl. induction cs as [|k cs IH]; intros st.
    - cbn [app total_calls]. unfold handle_calls. rewrite Nat.eqb_refl. rewrite !orb_true_r. simpl. lia.
    - cbn [app total_calls List.length]. pose proof (handle_calls_le2 tbl st k). specialize (IH (fst (impl_step tbl st k))). lia. }
  pose proof (G (table mb f) (map classify (preproc s)) S_WAIT) as H. rewrite map_length in H.
  pose proof (preproc_length s). lia.
Qed.
