(* C20 (lexer half) definitions: the MyBatis plug-in lexer against (a) the base lexer with a monitor for the
   substring "#{" and (b) the MyBatis variant of the specification lexer. No table-dependent proofs here. *)
From Coq Require Import List NArith Bool Arith Lia.
Require Import Base.Common Gen.LexTable Lex.Model Lex.Invariants Lex.ImplFacts Lex.Spec Lex.Product Lex.C05Defs.
Import ListNotations.
Open Scope N_scope.

(* ---------- (a) base lexer + monitor: was the previous character a '#' ? ---------- *)
Definition is_hash (i : option N) : bool := match i with Some c => N.eqb c 35 | None => false end.
Definition base_mon_step (f : nat) (tb : state * bool) (i : option N) : (state * bool) * list eff :=
  let '(t', es) := impl_stepI (table false f) (fst tb) i in ((t', is_hash i), es).
Definition sb_eqb (a b : state * bool) : bool := st_eqb (fst a) (fst b) && Bool.eqb (snd a) (snd b).
(* the excluded cells: the monitor says "previous character was #" and the input is '{' *)
Definition ph_open_cell (s : state) (tb : state * bool) (i : option N) : bool :=
  snd tb && match i with Some c => N.eqb c 123 | None => false end.

Definition explored_mon_all := Eval vm_compute in
  map (fun f => explore st_eqb sb_eqb (impl_stepI (table true f)) (base_mon_step f) sigma_chars ph_open_cell 3000
                        [(S_WAIT, (S_WAIT, false), [])] [] []) (seq 0 8).
Definition explored_mon (f : nat) := nth f explored_mon_all ([], []).
Definition RM (f : nat) := fst (explored_mon f).
Definition devsM (f : nat) : list (state * (state * bool) * option N) := map fst (snd (explored_mon f)).

Definition avoids_ph (f : nat) (text : str) : bool :=
  avoids st_eqb sb_eqb (impl_stepI (table true f)) (base_mon_step f) norm (devsM f) S_WAIT (S_WAIT, false) text.

(* "#{" occurs in the text (prev = the character before the text was '#') *)
Fixpoint has_ph_open (prev : bool) (cs : str) : bool :=
  match cs with
  | [] => false
  | c :: cs' => (prev && N.eqb c 123) || has_ph_open (N.eqb c 35) cs'
  end.

(* ---------- (b) plug-in against the MyBatis specification lexer ---------- *)
Definition explored_mb_all := Eval vm_compute in
  map (fun f => explore st_eqb live_eqb (impl_stepI (table true f)) (spec_step true f) sigma_chars (fun _ _ _ => false) 3000
                        [(S_WAIT, [], [])] [] []) (seq 0 8).
Definition explored_mb (f : nat) := nth f explored_mb_all ([], []).
Definition Rmb (f : nat) := fst (explored_mb f).
Definition devs_mb_paths (f : nat) := snd (explored_mb f).
Definition devs_mb (f : nat) : list (state * live * option N) := map fst (devs_mb_paths f).
Definition avoids_devs_mb (f : nat) (text : str) : bool :=
  avoids st_eqb live_eqb (impl_stepI (table true f)) (spec_step true f) norm (devs_mb f) S_WAIT [] text.

Fixpoint first_dev_mb (f : nat) (s : state) (t : live) (cs : str) : option (state * live * option N) :=
  match cs with
  | [] => if cell_mem st_eqb live_eqb (s, t, None) (devs_mb f) then Some (s, t, None) else None
  | c :: cs' =>
      if cell_mem st_eqb live_eqb (s, t, Some (norm c)) (devs_mb f) then Some (s, t, Some (norm c))
      else if stops (snd (impl_stepI (table true f) s (Some c))) then None
      else first_dev_mb f (fst (impl_stepI (table true f) s (Some c))) (fst (spec_step true f t (Some c))) cs'
  end.
Definition classify_input_mb (f : nat) (s : str) : N :=
  match first_dev_mb f S_WAIT [] (preproc s) with
  | None => 0
  | Some d => match dev_family d with 0 => 99 | k => k end
  end.
