(* Independent specification of the SQL token grammar (does not mention the transition table):
   a list of tiny DFAs, one per token class, and a generic no-backtrack maximal-munch driver over them.
   The driver emits the same primitive effects as the implementation model, so DQimplementation = specificationDQ
   is equality of effect streams, decided by the product certificate of Lex/Product.v. *)
From Coq Require Import List NArith Bool Arith.
Require Import Base.Common Gen.LexTable Lex.Model.
Import ListNotations.
Open Scope N_scope.

(* ---------- specification alphabet: the characters the token grammar mentions; everything else is 0 ---------- *)
Definition spec_special : list N :=
  [32; 10;                                              (* blank, line break *)
   48; 49; 50; 51; 52; 53; 54; 55; 56; 57;              (* digits *)
   97; 98; 99; 100; 101; 102; 65; 66; 67; 68; 69; 70;   (* hex letters (b, B among them) *)
   120; 88;                                             (* x X *)
   39; 34; 96; 92;                                      (* ' DQ ` \ *)
   33; 35; 37; 38; 40; 41; 42; 43; 44; 45; 46; 47; 59; 60; 61; 62; 91; 93; 94; 124; 126;   (* ! # % & ( ) * + , - . / ; < = > [ ] ^ | ~ *)
   123; 125].                                           (* { }  (MyBatis placeholder) *)
Definition inl (c : N) (l : list N) : bool := existsb (N.eqb c) l.
Definition scls (c : N) : N := if inl c spec_special then c else 0.

Definition is_digit (c : N) : bool := (48 <=? c) && (c <=? 57).
Definition is_bit (c : N) : bool := (c =? 48) || (c =? 49).
Definition is_hex (c : N) : bool := is_digit c || ((97 <=? c) && (c <=? 102)) || ((65 <=? c) && (c <=? 70)).
(* characters that end a bare word *)
Definition terminators : list N :=
  [32; 10; 44; 59; 43; 45; 42; 47; 96; 60; 62; 33; 37; 40; 41; 34; 39; 61; 91; 93; 46; 38; 124; 94; 126; 35].
Definition is_wordch (c : N) : bool := negb (inl c terminators).

(* ---------- token classes ---------- *)
Inductive act : Type :=
| AEmit (m : N)      (* a token with these marks *)
| AWord              (* a bare word: marks from the keyword table *)
| ASpace | ALine | AComment   (* dropped or kept according to the three options *)
| AOpen (k : gkind) | AClose (k : gkind).

Inductive tclass : Type :=
| T_SPACE | T_LINE | T_INT | T_DEC | T_HEX0X | T_BIT0B | T_HEXQ | T_BITQ | T_SQ | T_DQ | T_BQ
| T_LC_HASH | T_LC_DASH | T_BC | T_BANG | T_AMP | T_MINUS | T_SLASH | T_LT | T_GT | T_BAR | T_PUNCT
| T_OPENP | T_OPENS | T_CLOSEP | T_CLOSES | T_WORD
| T_PLACEHOLDER | T_LC_HASH_MB.     (* MyBatis variant only *)

Definition tc_idx (t : tclass) : nat :=
  match t with
  | T_SPACE => 0 | T_LINE => 1 | T_INT => 2 | T_DEC => 3 | T_HEX0X => 4 | T_BIT0B => 5 | T_HEXQ => 6 | T_BITQ => 7
  | T_SQ => 8 | T_DQ => 9 | T_BQ => 10 | T_LC_HASH => 11 | T_LC_DASH => 12 | T_BC => 13 | T_BANG => 14 | T_AMP => 15
  | T_MINUS => 16 | T_SLASH => 17 | T_LT => 18 | T_GT => 19 | T_BAR => 20 | T_PUNCT => 21 | T_OPENP => 22
  | T_OPENS => 23 | T_CLOSEP => 24 | T_CLOSES => 25 | T_WORD => 26 | T_PLACEHOLDER => 27 | T_LC_HASH_MB => 28
  end%nat.

(* token classes in priority order (first accepting class wins among equally long matches) *)
Definition tclasses (mybatis : bool) : list tclass :=
  [T_SPACE; T_LINE; T_INT; T_DEC; T_HEX0X; T_BIT0B; T_HEXQ; T_BITQ; T_SQ; T_DQ; T_BQ]
  ++ (if mybatis then [T_PLACEHOLDER; T_LC_HASH_MB] else [T_LC_HASH])
  ++ [T_LC_DASH; T_BC; T_BANG; T_AMP; T_MINUS; T_SLASH; T_LT; T_GT; T_BAR; T_PUNCT;
      T_OPENP; T_OPENS; T_CLOSEP; T_CLOSES; T_WORD].

Definition on (b : bool) (q : N) : option N := if b then Some q else None.

(* transition functions; state 0 is initial *)
Definition delta (t : tclass) (q : N) (c : N) : option N :=
  match t, q with
  | T_SPACE, 0 => on (c =? 32) 1
  | T_LINE, 0 => on (c =? 10) 1
  | T_INT, (0 | 1) => on (is_digit c) 1                               (* d+ *)
  | T_DEC, (0 | 1) => if is_digit c then Some 1 else if (c =? 46) && (q =? 1) then Some 2 else None
  | T_DEC, 2 => on (is_digit c) 2                                     (* d+ . d* *)
  | T_HEX0X, 0 => on (c =? 48) 1 | T_HEX0X, 1 => on (c =? 120) 2 | T_HEX0X, (2 | 3) => on (is_hex c) 3   (* 0x h+ *)
  | T_BIT0B, 0 => on (c =? 48) 1 | T_BIT0B, 1 => on (c =? 98) 2 | T_BIT0B, (2 | 3) => on (is_bit c) 3    (* 0b [01]+ *)
  | T_HEXQ, 0 => on ((c =? 120) || (c =? 88)) 1
  | T_HEXQ, 1 => if c =? 39 then Some 2 else if c =? 34 then Some 3 else None
  | T_HEXQ, 2 => if is_hex c then Some 2 else on (c =? 39) 4
  | T_HEXQ, 3 => if is_hex c then Some 3 else on (c =? 34) 4          (* [xX] ' h* '  |  [xX] DQ h* DQ *)
  | T_BITQ, 0 => on ((c =? 98) || (c =? 66)) 1
  | T_BITQ, 1 => if c =? 39 then Some 2 else if c =? 34 then Some 3 else None
  | T_BITQ, 2 => if is_bit c then Some 2 else on (c =? 39) 4
  | T_BITQ, 3 => if is_bit c then Some 3 else on (c =? 34) 4
  | T_SQ, 0 => on (c =? 39) 1
  | T_SQ, 1 => if c =? 39 then Some 2 else if c =? 92 then Some 3 else Some 1
  | T_SQ, 2 => on (c =? 39) 1                                         (* SQSQ inside a string *)
  | T_SQ, 3 => Some 1                                                 (* backslash escapes any character *)
  | T_DQ, 0 => on (c =? 34) 1
  | T_DQ, 1 => if c =? 34 then Some 2 else if c =? 92 then Some 3 else Some 1
  | T_DQ, 2 => on (c =? 34) 1
  | T_DQ, 3 => Some 1
  | T_BQ, 0 => on (c =? 96) 1 | T_BQ, 1 => if c =? 96 then Some 2 else Some 1
  | T_LC_HASH, 0 => on (c =? 35) 1 | T_LC_HASH, 1 => on (negb (c =? 10)) 1           (* # to end of line *)
  | T_LC_HASH_MB, 0 => on (c =? 35) 1                                                  (* same, but DQ#{DQ is not a comment *)
  | T_LC_HASH_MB, 1 => on (negb (c =? 10) && negb (c =? 123)) 2
  | T_LC_HASH_MB, 2 => on (negb (c =? 10)) 2
  | T_LC_DASH, 0 => on (c =? 45) 1 | T_LC_DASH, 1 => on (c =? 45) 2 | T_LC_DASH, 2 => on (negb (c =? 10)) 2
  | T_BC, 0 => on (c =? 47) 1 | T_BC, 1 => on (c =? 42) 2
  | T_BC, 2 => if c =? 42 then Some 3 else Some 2
  | T_BC, 3 => if c =? 47 then Some 4 else if c =? 42 then Some 3 else Some 2        (* /* ... first */ *)
  | T_BANG, 0 => on (c =? 33) 1 | T_BANG, 1 => on (c =? 61) 2                          (* !  != *)
  | T_AMP, 0 => on (c =? 38) 1 | T_AMP, 1 => on (c =? 38) 2                            (* &  && *)
  | T_MINUS, 0 => on (c =? 45) 1
  | T_SLASH, 0 => on (c =? 47) 1
  | T_LT, 0 => on (c =? 60) 1
  | T_LT, 1 => if c =? 61 then Some 2 else on ((c =? 62) || (c =? 60)) 3              (* <  <=  <>  <<  <=> *)
  | T_LT, 2 => on (c =? 62) 3
  | T_GT, 0 => on (c =? 62) 1 | T_GT, 1 => on ((c =? 61) || (c =? 62)) 2              (* >  >=  >> *)
  | T_BAR, 0 => on (c =? 124) 1 | T_BAR, 1 => on (c =? 124) 2                          (* |  || *)
  | T_PUNCT, 0 => on (inl c [126; 42; 94; 44; 59; 61; 43; 46; 37]) 1                   (* ~ * ^ , ; = + . % *)
  | T_OPENP, 0 => on (c =? 40) 1 | T_OPENS, 0 => on (c =? 91) 1
  | T_CLOSEP, 0 => on (c =? 41) 1 | T_CLOSES, 0 => on (c =? 93) 1
  | T_WORD, (0 | 1) => on (is_wordch c) 1
  | T_PLACEHOLDER, 0 => on (c =? 35) 1 | T_PLACEHOLDER, 1 => on (c =? 123) 2
  | T_PLACEHOLDER, 2 => if c =? 125 then Some 3 else Some 2                            (* #{ ... } *)
  | _, _ => None
  end.

Definition MK_NAME := 2. Definition MK_LITERAL := 8. Definition MK_HEX := 16. Definition MK_BIT := 32.
Definition MK_INT := 64. Definition MK_FLOAT := 128. Definition MK_CUSTOM_1 := 4194304.

(* accepting states and what the token is *)
Definition accepting (t : tclass) (q : N) : option act :=
  match t, q with
  | T_SPACE, 1 => Some ASpace | T_LINE, 1 => Some ALine
  | T_INT, 1 => Some (AEmit (MK_LITERAL + MK_INT))
  | T_DEC, 2 => Some (AEmit (MK_LITERAL + MK_FLOAT))
  | T_HEX0X, 3 | T_HEXQ, 4 => Some (AEmit (MK_LITERAL + MK_HEX))
  | T_BIT0B, 3 | T_BITQ, 4 => Some (AEmit (MK_LITERAL + MK_BIT))
  | T_SQ, 2 | T_DQ, 2 => Some (AEmit (MK_LITERAL + MK_NAME))
  | T_BQ, 2 => Some (AEmit MK_NAME)
  | T_LC_HASH, 1 | T_LC_HASH_MB, (1 | 2) | T_LC_DASH, 2 | T_BC, 4 => Some AComment
  | T_BANG, (1 | 2) | T_AMP, (1 | 2) | T_MINUS, 1 | T_SLASH, 1 | T_LT, (1 | 2 | 3) | T_GT, (1 | 2) | T_BAR, (1 | 2)
  | T_PUNCT, 1 => Some (AEmit 0)
  | T_OPENP, 1 => Some (AOpen KPar) | T_OPENS, 1 => Some (AOpen KSlice)
  | T_CLOSEP, 1 => Some (AClose KPar) | T_CLOSES, 1 => Some (AClose KSlice)
  | T_WORD, 1 => Some AWord
  | T_PLACEHOLDER, 3 => Some (AEmit (MK_NAME + MK_CUSTOM_1))
  | _, _ => None
  end.

(* the keyword table of the specification: clause keywords carry no mark, TRUE/FALSE/NULL are literals
   (any letter case), every other bare word is a name *)
Definition spec_keywords : list str :=
  [[83;69;76;69;67;84]; [70;82;79;77]; [76;65;84;69;82;65;76]; [86;73;69;87]; [76;69;70;84]; [82;73;71;72;84];
   [73;78;78;69;82]; [79;85;84;69;82]; [70;85;76;76]; [74;79;73;78]; [79;78]; [87;72;69;82;69]; [71;82;79;85;80];
   [66;89]; [72;65;86;73;78;71]; [79;82;68;69;82]; [76;73;77;73;84]; [85;78;73;79;78]; [69;88;67;69;80;84];
   [77;73;78;85;83]; [73;78;84;69;82;83;69;67;84]; [65;78;68]; [78;79;84]; [79;82]].
Definition spec_literal_words : list str := [[84;82;85;69]; [70;65;76;83;69]; [78;85;76;76]].
Definition spec_word_marks (src : str) : N :=
  let u := upper src in
  if mem_str u spec_keywords then 0 else if mem_str u spec_literal_words then MK_LITERAL else MK_NAME.

(* ---------- the maximal-munch driver ---------- *)
Definition live := list (tclass * N).

Definition advance (l : live) (c : N) : live :=
  flat_map (fun p => match delta (fst p) (snd p) c with Some q' => [(fst p, q')] | None => [] end) l.

Definition initial (mybatis : bool) : live := map (fun t => (t, 0)) (tclasses mybatis).

Fixpoint best (l : live) : option act :=
  match l with
  | [] => None
  | (t, q) :: l' => match accepting t q with Some a => Some a | None => best l' end
  end.

(* a state with no outgoing transition (decided on the specification alphabet) *)
Definition dead_end (p : tclass * N) : bool :=
  forallb (fun c => match delta (fst p) (snd p) c with None => true | Some _ => false end) (0 :: spec_special).

(* effects of recognising a token; `incl` = the current character is the last character of the token *)
Definition act_effs (flags : nat) (a : act) (incl : bool) : list eff :=
  let pre := if incl then [EInc] else [] in
  let keep_or_drop (bit : nat) (mark : N) := if Nat.testbit flags bit then [EDrop] else [EEmit mark] in
  match a with
  | AEmit m => pre ++ [EEmit m]
  | AWord => pre ++ [EWord]
  | ASpace => pre ++ keep_or_drop 0%nat MARK_SPACE
  | ALine => pre ++ keep_or_drop 1%nat MARK_SPACE
  | AComment => pre ++ keep_or_drop 2%nat MARK_COMMENT
  | AOpen k => [EOpen k]
  | AClose k => [EClose k]
  end.

(* the character has been taken into the token(s) `nxt` *)
Definition settle (flags : nat) (nxt : live) (pre : list eff) : live * list eff :=
  if forallb dead_end nxt then
    match best nxt with
    | Some a => ([], pre ++ act_effs flags a true)      (* complete and not extendable: cut right here *)
    | None => ([], [EFail])
    end
  else (nxt, pre ++ [EInc]).

(* [] = at a token boundary *)
Definition spec_step (mybatis : bool) (flags : nat) (l : live) (inp : option N) : live * list eff :=
  match inp with
  | None =>                                     (* end of input *)
      match l with
      | [] => ([], [])
      | _ => match best l with Some a => ([], act_effs flags a false) | None => ([], [EFail]) end
      end
  | Some c0 =>
      let c := scls c0 in
      let cur := match l with [] => initial mybatis | _ => l end in
      match advance cur c with
      | (_ :: _) as nxt => settle flags nxt []
      | [] =>
          match l with
          | [] => ([], [EFail])                 (* no token starts with this character *)
          | _ =>
              match best l with
              | None => ([], [EFail])           (* the pending text is not a token: no backtracking *)
              | Some a =>                       (* longest match ends before c; c starts the next token *)
                  match advance (initial mybatis) c with
                  | [] => ([], [EFail])
                  | nxt2 => settle flags nxt2 (act_effs flags a false)
                  end
              end
          end
      end
  end.
