(* Lexer-level layout theorems for C09: with the whitespace-ignoring flags on, a blank or a line break between two texts that lex on their own is
   pure layout - lex (s1 ++ " " ++ s2) = lex s1 ++ lex s2 - unless (for the blank) the first text ends inside a line comment; a line break also
   ends a line comment, so it needs no exception.  Same three ingredients as Lex/Compose.v, with "advance, drop" instead of "advance, emit". *)
From Coq Require Import List NArith Bool Arith Lia.
Require Import Base.Common Gen.LexTable Lex.Model Lex.Invariants Lex.ImplFacts Lex.C04Proofs Lex.C20Proofs Lex.Compose.
Import ListNotations.
Local Open Scope nat_scope.

Definition blank_check (c : N) (excl : state -> bool) (tbl : list (list nat)) : bool :=
  forallb (fun q =>
    let '(qe, ee) := impl_step tbl q cls_end in
    if impl_accept qe && negb (existsb eff_stops ee) && negb (excl q) then
      let '(qs, es) := impl_step tbl q (classify c) in
      st_eqb qs S_WAIT && effs_eqb es (ee ++ [EInc; EDrop]) && small_end q ee
    else true) all_states.
Lemma blank_check_state c excl tbl q qe ee : blank_check c excl tbl = true -> impl_step tbl q cls_end = (qe, ee) ->
  impl_accept qe = true -> existsb eff_stops ee = false -> excl q = false ->
  impl_step tbl q (classify c) = (S_WAIT, ee ++ [EInc; EDrop]) /\ small_end q ee = true.
Proof.
  unfold blank_check. rewrite forallb_forall. intros H He Ha Hs Hc. specialize (H q (all_states_complete q)). rewrite He, Ha, Hs, Hc in H. simpl in H.
  destruct (impl_step tbl q (classify c)) as [qs es]. apply andb_true_iff in H as [H H3]. apply andb_true_iff in H as [H1 H2].
  apply st_eqb_eq in H1. apply effs_eqb_eq in H2. subst. split; [reflexivity|exact H3].
Qed.
(* the shipped configuration (flags = 7: blanks, line breaks and comments ignored), both lexers *)
Definition custom_state (q : state) : bool := st_eqb q S_CUSTOM_1 || st_eqb q S_CUSTOM_2.
Lemma blank_check_7 mb : blank_check 32 line_comment (table mb 7) = true. Proof. destruct mb; vm_compute; reflexivity. Qed.
Lemma newline_check_7 mb : blank_check 10 custom_state (table mb 7) = true. Proof. destruct mb; vm_compute; reflexivity. Qed.

Section Main.
  Variable tbl : list (list nat).
  Variable c : N.
  Variable excl : state -> bool.
  Hypothesis Hadv : adv_check tbl = true.
  Hypothesis Hops : ops_check tbl = true.
  Hypothesis Hblank : blank_check c excl tbl = true.

  Theorem glex_blank p1 p2 T1 T2 q :
    glex_full (impl_step tbl) impl_accept S_WAIT p1 = Ok T1 ->
    glex_full (impl_step tbl) impl_accept S_WAIT p2 = Ok T2 ->
    end_state tbl p1 = Some q -> excl q = false ->
    glex_full (impl_step tbl) impl_accept S_WAIT (p1 ++ c :: p2) = Ok (T1 ++ FSkip [c] :: T2).
  Proof.
    unfold glex_full, end_state. intros H1 H2 Hq Hc.
    destruct (run_chars (impl_step tbl) S_WAIT (init_mem p1) p1) as [[q1 m1]|e] eqn:R1; [|discriminate]. inversion Hq; subst q1; clear Hq.
    destruct (impl_run tbl Hadv Hops p1 S_WAIT (init_mem p1) q m1 [] R1 (eq_sym (app_nil_r _)) eq_refl (J_init p1)) as (Hr1 & Ho1 & HJ1 & _).
    unfold finish in H1. destruct (impl_step tbl q cls_end) as [qe ee] eqn:Ee. destruct (apply_effs ee m1) as [me|x] eqn:Ea; [|discriminate].
    destruct (impl_accept qe) eqn:Eacc; [|discriminate].
    pose proof (apply_effs_stops _ _ _ Ea) as Hst.
    destruct (blank_check_state c excl tbl q qe ee Hblank Ee Eacc Hst Hc) as [Hstep Hsmall].
    assert (Hz : effs_adv ee = 0).
    { destruct (adv_check_end tbl Hadv q) as [A|[A|A]]; rewrite Ee in A; simpl in A; [congruence|congruence|exact A]. }
    destruct (apply_effs_zero_adv _ _ _ Ea Hz) as [Hre Hoe].
    pose proof (end_clean q m1 ee me HJ1 Hsmall Ea) as Hwe.
    destruct (stack me) as [|[[k o] items1] [|y st']] eqn:Est; try discriminate. inversion H1; subst T1; clear H1.
    change (init_mem (p1 ++ c :: p2)) with (ext (init_mem p1) (c :: p2)).
    rewrite run_chars_app. rewrite (run_chars_ext tbl Hadv p1 S_WAIT (init_mem p1) q m1 (c :: p2) R1 eq_refl eq_refl).
    cbn [run_chars]. rewrite Hstep. rewrite apply_effs_app.
    rewrite (apply_effs_ext ee m1 me (c :: p2) Ea) by (rewrite Hz; lia).
    assert (Hstep2 : apply_effs [EInc; EDrop] (ext me (c :: p2)) = Ok (mkmem [] p2 0 [(k, o, FSkip [c] :: items1)])).
    { unfold ext. rewrite Hre, Hr1, Hoe, Ho1, Hwe, Est. reflexivity. }
    rewrite Hstep2.
    destruct (run_chars (impl_step tbl) S_WAIT (init_mem p2) p2) as [[q2 m2]|e] eqn:R2; [|discriminate].
    assert (Ho : o = []).
    { assert (Hb : bottom_ok (stack m1)) by (destruct HJ1 as [_ [(outer & k0 & it0 & Hst0 & _) _]]; exists k0, it0, outer; exact Hst0).
      apply (apply_effs_bottom _ _ _ Ea) in Hb. destruct Hb as (k0 & it0 & outer & Hst0). rewrite Est in Hst0.
      destruct outer as [|z [|z2 outer]]; simpl in Hst0; inversion Hst0; reflexivity. }
    subst o.
    assert (HU : U (FSkip [c] :: items1) (init_mem p2) (mkmem [] p2 0 [(k, [], FSkip [c] :: items1)])).
    { repeat split. exists [], KPar, k, []. split; reflexivity. }
    destruct (run_chars_U (impl_step tbl) _ p2 S_WAIT _ _ q2 m2 HU R2) as (m2' & R2' & HU2).
    match goal with |- match ?R with _ => _ end = _ => replace R with (Ok (q2, m2') : res (state * gmem)) by (symmetry; exact R2') end.
    rewrite (finish_U (impl_step tbl) impl_accept _ q2 m2 m2' T2 HU2 H2). simpl. rewrite <- app_assoc. reflexivity.
  Qed.
End Main.

Lemma preproc_app_blank : forall s1 s2, preproc (s1 ++ 32%N :: s2) = preproc s1 ++ 32%N :: preproc s2.
Proof.
  assert (H32 : forall s2, preproc (32%N :: s2) = 32%N :: preproc s2) by (intros; rewrite preproc_cons_other by discriminate; reflexivity).
  induction s1 as [|c s1 IH]; intros s2; [apply H32|].
  destruct (N.eq_dec c 13) as [->|Hc].
  - destruct s1 as [|d t].
    + cbn [app]. rewrite preproc_cr_other by discriminate. rewrite H32. reflexivity.
    + destruct (N.eq_dec d 10) as [->|Hd].
      * change (preproc ((13%N :: 10%N :: t) ++ 32%N :: s2)) with (preproc ((10%N :: t) ++ 32%N :: s2)).
        change (preproc (13%N :: 10%N :: t)) with (preproc (10%N :: t)). apply IH.
      * cbn [app]. rewrite !preproc_cr_other by exact Hd. rewrite <- app_comm_cons. f_equal. apply (IH s2).
  - cbn [app]. rewrite !preproc_cons_other by exact Hc. rewrite <- app_comm_cons. f_equal. apply IH.
Qed.

(* a blank between two texts is layout (shipped flags, both lexers), unless the first text ends inside a line comment *)
Theorem lex_blank mb s1 s2 t1 t2 :
  lex mb 7 s1 = Ok t1 -> lex mb 7 s2 = Ok t2 -> ends_in_line_comment mb 7 s1 = false ->
  lex mb 7 (s1 ++ 32%N :: s2) = Ok (t1 ++ t2).
Proof.
  unfold lex, lex_full, ends_in_line_comment. intros H1 H2 Hc. rewrite preproc_app_blank.
  destruct (glex_full _ _ _ (preproc s1)) as [T1|e] eqn:E1; [|discriminate]. destruct (glex_full _ _ _ (preproc s2)) as [T2|e] eqn:E2; [|discriminate].
  inversion H1; inversion H2; subst.
  destruct (end_state (table mb 7) (preproc s1)) as [q|] eqn:Eq.
  - rewrite (glex_blank (table mb 7) 32 line_comment (adv_check_cfg mb 7 ltac:(lia)) (ops_check_cfg_mb mb 7 ltac:(lia)) (blank_check_7 mb) _ _ T1 T2 q E1 E2 Eq Hc).
    unfold erase. rewrite flat_map_app. reflexivity.
  - exfalso. unfold end_state in Eq. unfold glex_full in E1. destruct (run_chars _ _ _ _) as [[q m]|e]; discriminate.
Qed.

(* a line break between two texts is layout as well; it also ends a line comment, so only the plug-in's placeholder states are excepted *)
Definition ends_in_placeholder (mb : bool) (s : str) : bool :=
  match end_state (table mb 7) s with Some q => custom_state q | None => false end.
Theorem lex_newline_preprocessed mb p1 p2 t1 t2 :
  preproc p1 = p1 -> preproc p2 = p2 -> preproc (p1 ++ 10%N :: p2) = p1 ++ 10%N :: p2 ->
  lex mb 7 p1 = Ok t1 -> lex mb 7 p2 = Ok t2 -> ends_in_placeholder mb p1 = false ->
  lex mb 7 (p1 ++ 10%N :: p2) = Ok (t1 ++ t2).
Proof.
  unfold lex, lex_full, ends_in_placeholder. intros P1 P2 P12 H1 H2 Hc. rewrite P12. rewrite P1 in H1. rewrite P2 in H2.
  destruct (glex_full _ _ _ p1) as [T1|e] eqn:E1; [|discriminate]. destruct (glex_full _ _ _ p2) as [T2|e] eqn:E2; [|discriminate].
  inversion H1; inversion H2; subst.
  destruct (end_state (table mb 7) p1) as [q|] eqn:Eq.
  - rewrite (glex_blank (table mb 7) 10 custom_state (adv_check_cfg mb 7 ltac:(lia)) (ops_check_cfg_mb mb 7 ltac:(lia)) (newline_check_7 mb) _ _ T1 T2 q E1 E2 Eq Hc).
    unfold erase. rewrite flat_map_app. reflexivity.
  - exfalso. unfold end_state in Eq. unfold glex_full in E1. destruct (run_chars _ _ _ _) as [[q m]|e]; discriminate.
Qed.

Definition plain_char (c : N) : bool := negb (N.eqb c 13 || N.eqb c 9 || N.eqb c 12288).
Lemma preproc_plain : forall s, forallb plain_char s = true -> preproc s = s.
Proof.
  induction s as [|c s IH]; intros H; [reflexivity|]. cbn [forallb] in H. apply andb_true_iff in H as [Hc Hs].
  unfold plain_char in Hc. apply negb_true_iff in Hc. apply orb_false_iff in Hc as [Hc H3]. apply orb_false_iff in Hc as [H1 H2].
  rewrite preproc_cons_other by (intros ->; discriminate). rewrite H2, H3. cbn [orb]. rewrite (IH Hs). reflexivity.
Qed.
Theorem lex_newline mb s1 s2 t1 t2 :
  forallb plain_char s1 = true -> forallb plain_char s2 = true ->
  lex mb 7 s1 = Ok t1 -> lex mb 7 s2 = Ok t2 -> ends_in_placeholder mb s1 = false ->
  lex mb 7 (s1 ++ 10%N :: s2) = Ok (t1 ++ t2).
Proof.
  intros P1 P2. apply lex_newline_preprocessed; try (apply preproc_plain; assumption).
  apply preproc_plain. rewrite forallb_app. rewrite P1. cbn [forallb]. rewrite P2. reflexivity.
Qed.
