(* The lexer side of C10: a ';' between two texts is lexed as a token of its own between their token lists.
   lex_full (s1 ++ ";" ++ s2) = T1 ++ [;] ++ T2 whenever lex_full s1 = T1, lex_full s2 = T2 and s1 does not end inside a line comment
   (there the ';' belongs to the comment).  Three ingredients: (1) a finite certificate on the regenerated tables - in every state from
   which the end of input is accepted, except the line-comment state, the character ';' does what the end of input does and then emits the
   one-character token ';' and goes to WAIT; (2) running over a prefix does not depend on the text behind it; (3) running with older items
   at the bottom level of the stack only prepends them to the result. *)
From Coq Require Import List NArith Bool Arith Lia.
Require Import Base.Common Gen.LexTable Lex.Model Lex.Invariants Lex.ImplFacts Lex.C04Proofs.
Import ListNotations.
Local Open Scope nat_scope.

(* ---------- (1) the certificate ---------- *)
Definition eff_eqb (a b : eff) : bool :=
  match a, b with
  | EInc, EInc | EWord, EWord | EDrop, EDrop | EFail, EFail | ECrash, ECrash => true
  | EEmit x, EEmit y => N.eqb x y
  | EOpen x, EOpen y | EClose x, EClose y => gkind_eqb x y
  | _, _ => false
  end.
Fixpoint effs_eqb (a b : list eff) : bool :=
  match a, b with [], [] => true | x :: a', y :: b' => eff_eqb x y && effs_eqb a' b' | _, _ => false end.
Lemma eff_eqb_eq a b : eff_eqb a b = true -> a = b.
Proof.
  destruct a, b; simpl; intros H; try discriminate; try reflexivity.
  - apply N.eqb_eq in H. subst. reflexivity.
  - destruct k, k0; try discriminate; reflexivity.
  - destruct k, k0; try discriminate; reflexivity.
Qed.
Lemma effs_eqb_eq : forall a b, effs_eqb a b = true -> a = b.
Proof. induction a as [|x a IH]; destruct b as [|y b]; simpl; intros H; try discriminate; [reflexivity|]. apply andb_true_iff in H as [H1 H2]. apply eff_eqb_eq in H1. apply IH in H2. subst. reflexivity. Qed.

Definition semi_cls : nat := classify 59.
Definition small_end (q : state) (ee : list eff) : bool :=
  match ee with [] => empty_st q | [EEmit _] | [EWord] | [EDrop] => true | _ => false end.
Definition line_comment (q : state) : bool := st_eqb q S_IN_EXPLAIN_1 || st_eqb q S_CUSTOM_1 || st_eqb q S_CUSTOM_2.
Definition semi_check (tbl : list (list nat)) : bool :=
  forallb (fun q =>
    let '(qe, ee) := impl_step tbl q cls_end in
    if impl_accept qe && negb (existsb eff_stops ee) && negb (line_comment q) then
      let '(qs, es) := impl_step tbl q semi_cls in
      st_eqb qs S_WAIT && effs_eqb es (ee ++ [EInc; EEmit 0]) && small_end q ee
    else true) all_states.
Lemma semi_check_all : forallb (fun mb => forallb (fun f => semi_check (table mb f)) (seq 0 8)) [false; true] = true.
Proof. vm_compute. reflexivity. Qed.
Lemma semi_check_cfg mb f : f < 8 -> semi_check (table mb f) = true.
Proof.
  intros Hf. pose proof semi_check_all as H. rewrite forallb_forall in H. specialize (H mb ltac:(destruct mb; simpl; auto)).
  rewrite forallb_forall in H. apply H. apply in_seq. lia.
Qed.
Lemma semi_check_state tbl q qe ee : semi_check tbl = true -> impl_step tbl q cls_end = (qe, ee) ->
  impl_accept qe = true -> existsb eff_stops ee = false -> line_comment q = false ->
  impl_step tbl q semi_cls = (S_WAIT, ee ++ [EInc; EEmit 0]) /\ small_end q ee = true.
Proof.
  unfold semi_check. rewrite forallb_forall. intros H He Ha Hs Hc. specialize (H q (all_states_complete q)). rewrite He, Ha, Hs, Hc in H. simpl in H.
  destruct (impl_step tbl q semi_cls) as [qs es]. apply andb_true_iff in H as [H H3]. apply andb_true_iff in H as [H1 H2].
  apply st_eqb_eq in H1. apply effs_eqb_eq in H2. subst. split; [reflexivity|exact H3].
Qed.

(* ---------- (2) the text behind the part being read does not matter ---------- *)
Definition ext (m : gmem) (x : str) : gmem := mkmem (win m) (rest m ++ x) (over m) (stack m).
Lemma inc_ext m x : rest m <> [] -> inc (ext m x) = ext (inc m) x.
Proof. unfold inc, ext. simpl. destruct (rest m) as [|c r]; [congruence|]. intros _. reflexivity. Qed.
Lemma push_item_ext t m m' x : push_item t m = Ok m' -> push_item t (ext m x) = Ok (ext m' x).
Proof. unfold push_item, ext. simpl. destruct (stack m) as [|[[k o] items] st']; [discriminate|]. intros H. inversion H; subst. reflexivity. Qed.
Lemma apply_eff_ext e m m' x : apply_eff e m = Ok m' -> (eff_adv e = 1 -> rest m <> []) -> apply_eff e (ext m x) = Ok (ext m' x).
Proof.
  destruct e; simpl; intros H Hr.
  - inversion H; subst. rewrite inc_ext by auto. reflexivity.
  - apply push_item_ext. exact H.
  - apply (push_item_ext _ _ _ x) in H. exact H.
  - unfold drop in *. change (win (ext m x)) with (win m). destruct (win m) as [|c w] eqn:E.
    + inversion H; subst. reflexivity.
    + rewrite <- E in *. apply (push_item_ext _ _ _ x) in H. exact H.
  - inversion H; subst. rewrite inc_ext by auto. reflexivity.
  - change (stack (ext m x)) with (stack m). destruct (stack m) as [|[[ko o] items] [|[[k2 o2] items2] st']]; try discriminate.
    destruct (gkind_eqb ko k); [|discriminate]. inversion H; subst. rewrite inc_ext by auto. reflexivity.
  - discriminate.
  - discriminate.
Qed.
Lemma apply_eff_len e m m' : apply_eff e m = Ok m' -> (eff_adv e = 1 -> rest m <> []) -> List.length (rest m') = List.length (rest m) - eff_adv e.
Proof.
  intros H Hr. destruct (apply_eff_rest _ _ _ H) as [(Ha & Hr1 & _)|(Ha & Hr1 & _)]; rewrite Ha, Hr1; [lia|].
  unfold inc. destruct (rest m) as [|c r]; [exfalso; apply (Hr Ha); reflexivity|]. simpl. lia.
Qed.
Lemma apply_effs_ext es : forall m m' x, apply_effs es m = Ok m' -> effs_adv es <= List.length (rest m) -> apply_effs es (ext m x) = Ok (ext m' x).
Proof.
  induction es as [|e es IH]; simpl; intros m m' x H Hl; [inversion H; reflexivity|].
  destruct (apply_eff e m) as [m1|err] eqn:E; [|discriminate].
  assert (Hr : eff_adv e = 1 -> rest m <> []) by (intros Ha Hn; rewrite Hn in Hl; simpl in Hl; lia).
  rewrite (apply_eff_ext _ _ _ x E Hr). apply IH; [exact H|]. rewrite (apply_eff_len _ _ _ E Hr). lia.
Qed.

Section Run.
  Variable tbl : list (list nat).
  Hypothesis Hadv : adv_check tbl = true.
  Lemma run_chars_ext : forall cs s m s' m' x, run_chars (impl_step tbl) s m cs = Ok (s', m') -> rest m = cs -> over m = 0 ->
    run_chars (impl_step tbl) s (ext m x) cs = Ok (s', ext m' x).
  Proof.
    induction cs as [|c cs IH]; simpl; intros s m s' m' x H Hrest Hover; [inversion H; reflexivity|].
    destruct (impl_step tbl s (classify c)) as [s1 es] eqn:Es. destruct (apply_effs es m) as [m1|err] eqn:Ea; [|discriminate].
    destruct (adv_check_char tbl Hadv s (classify c) (classify_lt c)) as [Hs|Hs]; rewrite Es in Hs; simpl in Hs.
    - rewrite (apply_effs_stops _ _ _ Ea) in Hs. discriminate.
    - rewrite (apply_effs_ext es m m1 x Ea) by (rewrite Hs, Hrest; simpl; lia).
      destruct (apply_effs_one_adv _ _ _ _ _ Ea Hs Hrest Hover) as [Hr2 Ho2]. apply IH; assumption.
  Qed.
End Run.

(* ---------- (3) older items at the bottom of the stack are carried through ---------- *)
Definition U (pre : list ftok) (m m2 : gmem) : Prop :=
  win m2 = win m /\ rest m2 = rest m /\ over m2 = over m /\
  exists outer k k2 items, stack m = outer ++ [(k, [], items)] /\ stack m2 = outer ++ [(k2, [], items ++ pre)].
Lemma U_inc pre m m2 : U pre m m2 -> U pre (inc m) (inc m2).
Proof.
  intros (Hw & Hr & Ho & outer & k & k2 & items & H1 & H2). unfold inc. rewrite Hr, Hw, Ho. destruct (rest m); simpl; (split; [reflexivity|]; split; [reflexivity|]; split; [reflexivity|]); exists outer, k, k2, items; rewrite H1, H2; auto.
Qed.
Lemma push_item_U pre t m m2 m' : U pre m m2 -> push_item t m = Ok m' -> exists m2', push_item t m2 = Ok m2' /\ U pre m' m2'.
Proof.
  intros (Hw & Hr & Ho & outer & k & k2 & items & H1 & H2) H. unfold push_item in *. rewrite H1 in H. rewrite H2.
  destruct outer as [|[[k0 o0] it0] outer]; simpl in *; inversion H; subst; eexists; (split; [reflexivity|]); simpl.
  - repeat split; auto. exists [], k, k2, (t :: items). simpl. auto.
  - repeat split; auto. exists ((k0, o0, t :: it0) :: outer), k, k2, items. simpl. auto.
Qed.
Lemma apply_eff_U pre e m m2 m' : U pre m m2 -> apply_eff e m = Ok m' -> exists m2', apply_eff e m2 = Ok m2' /\ U pre m' m2'.
Proof.
  intros HU H. destruct e; simpl in *.
  - inversion H; subst. eexists; split; [reflexivity|]. apply U_inc. exact HU.
  - pose proof HU as HU0. destruct HU as (Hw & HU'). rewrite Hw. eapply push_item_U; [exact HU0|exact H].
  - pose proof HU as HU0. destruct HU as (Hw & HU'). rewrite Hw. eapply push_item_U; [exact HU0|exact H].
  - unfold drop in *. pose proof HU as HU0. destruct HU as (Hw & HU'). rewrite Hw. destruct (win m) as [|c w] eqn:E.
    + inversion H; subst. eexists; split; [reflexivity|]. exact HU0.
    + eapply push_item_U; [exact HU0|exact H].
  - inversion H; subst. pose proof (U_inc _ _ _ HU) as (Hw & Hr & Ho & outer & k0 & k2 & items & H1 & H2).
    eexists; split; [reflexivity|]. simpl. rewrite Hw, Hr, Ho. repeat split; auto.
    exists ((k, rev (win (inc m)), []) :: outer), k0, k2, items. rewrite H1, H2. simpl. auto.
  - pose proof (U_inc _ _ _ HU) as (Hw' & Hr' & Ho' & _). destruct HU as (Hw & Hr & Ho & outer & k0 & k2 & items & H1 & H2). rewrite H1 in H. rewrite H2.
    destruct outer as [|[[ka oa] ita] [|[[kb ob] itb] outer]]; simpl in *; try discriminate.
    + destruct (gkind_eqb ka k); [|discriminate]. inversion H; subst. eexists; split; [reflexivity|]. simpl. rewrite Hw', Hr', Ho'. repeat split; auto.
      exists [], k0, k2, (FGroup oa k (rev (win (inc m))) (rev ita) :: items). simpl. auto.
    + destruct (gkind_eqb ka k); [|discriminate]. inversion H; subst. eexists; split; [reflexivity|]. simpl. rewrite Hw', Hr', Ho'. repeat split; auto.
      exists ((kb, ob, FGroup oa k (rev (win (inc m))) (rev ita) :: itb) :: outer), k0, k2, items. simpl. auto.
  - discriminate.
  - discriminate.
Qed.
Lemma apply_effs_U pre es : forall m m2 m', U pre m m2 -> apply_effs es m = Ok m' -> exists m2', apply_effs es m2 = Ok m2' /\ U pre m' m2'.
Proof.
  induction es as [|e es IH]; simpl; intros m m2 m' HU H; [inversion H; subst; eauto|].
  destruct (apply_eff e m) as [m1|err] eqn:E; [|discriminate]. destruct (apply_eff_U _ _ _ _ _ HU E) as (m21 & E2 & HU1). rewrite E2. eapply IH; eauto.
Qed.
Section RunU.
  Context {S : Type}.
  Variable step : S -> nat -> S * list eff.
  Variable accept : S -> bool.
  Lemma run_chars_U pre : forall cs s m m2 s' m', U pre m m2 -> run_chars step s m cs = Ok (s', m') -> exists m2', run_chars step s m2 cs = Ok (s', m2') /\ U pre m' m2'.
  Proof.
    induction cs as [|c cs IH]; simpl; intros s m m2 s' m' HU H; [inversion H; subst; eauto|].
    destruct (step s (classify c)) as [s1 es]. destruct (apply_effs es m) as [m1|err] eqn:Ea; [|discriminate].
    destruct (apply_effs_U _ _ _ _ _ HU Ea) as (m21 & E2 & HU1). rewrite E2. eapply IH; eauto.
  Qed.
  Lemma finish_U pre s m m2 tr : U pre m m2 -> finish step accept s m = Ok tr -> finish step accept s m2 = Ok (rev pre ++ tr).
  Proof.
    unfold finish. intros HU. destruct (step s cls_end) as [s' es]. destruct (apply_effs es m) as [m'|err] eqn:Ea; [|discriminate].
    destruct (apply_effs_U _ _ _ _ _ HU Ea) as (m2' & E2 & (_ & _ & _ & outer & k & k2 & items & H1 & H2)). rewrite E2. destruct (accept s'); [|discriminate].
    rewrite H1, H2. destruct outer as [|x [|y outer]]; simpl; try discriminate.
    - intros H; inversion H; subst. rewrite rev_app_distr. reflexivity.
    - destruct x as [[kx ox] ix]. discriminate.
    - destruct x as [[kx ox] ix]. destruct outer; discriminate.
  Qed.
End RunU.

(* ---------- the composition ---------- *)
Lemma run_chars_app {S : Type} (step : S -> nat -> S * list eff) : forall a b s m,
  run_chars step s m (a ++ b) = match run_chars step s m a with Ok (s', m') => run_chars step s' m' b | Err x => Err x end.
Proof.
  induction a as [|c a IH]; simpl; intros b s m; [reflexivity|]. destruct (step s (classify c)) as [s1 es]. destruct (apply_effs es m); [apply IH|reflexivity].
Qed.

Definition semi_tok : ftok := FLeaf [59%N] 0%N.

Section Main.
  Variable tbl : list (list nat).
  Hypothesis Hadv : adv_check tbl = true.
  Hypothesis Hops : ops_check tbl = true.
  Hypothesis Hsemi : semi_check tbl = true.

  Lemma end_clean q m ee me : J q m -> small_end q ee = true -> apply_effs ee m = Ok me -> win me = [].
  Proof.
    intros [Hw Hl] Hs H. destruct ee as [|e [|e2 ee]]; simpl in Hs.
    - inversion H; subst. apply rev_nil_inv. eapply empty_st_wp; eauto.
    - destruct e; try discriminate; simpl in H.
      + destruct (push_item _ m) as [m1|x] eqn:Ep; [|discriminate]. inversion H; subst. eapply push_item_win; eauto.
      + destruct (push_item _ m) as [m1|x] eqn:Ep; [|discriminate]. inversion H; subst. eapply push_item_win; eauto.
      + destruct (drop m) as [m1|x] eqn:Ed; [|discriminate]. inversion H; subst. unfold drop in Ed. destruct (win m) eqn:E; [inversion Ed; subst; exact E|eapply push_item_win; eauto].
    - destruct e; discriminate.
  Qed.

  (* the state in which the end of p1 is reached *)
  Definition end_state (p1 : str) : option state :=
    match run_chars (impl_step tbl) S_WAIT (init_mem p1) p1 with Ok (q, _) => Some q | Err _ => None end.

  Theorem glex_semicolon p1 p2 T1 T2 q :
    glex_full (impl_step tbl) impl_accept S_WAIT p1 = Ok T1 ->
    glex_full (impl_step tbl) impl_accept S_WAIT p2 = Ok T2 ->
    end_state p1 = Some q -> line_comment q = false ->
    glex_full (impl_step tbl) impl_accept S_WAIT (p1 ++ 59%N :: p2) = Ok (T1 ++ semi_tok :: T2).
  Proof.
    unfold glex_full, end_state. intros H1 H2 Hq Hc.
    destruct (run_chars (impl_step tbl) S_WAIT (init_mem p1) p1) as [[q1 m1]|e] eqn:R1; [|discriminate]. inversion Hq; subst q1; clear Hq.
    destruct (impl_run tbl Hadv Hops p1 S_WAIT (init_mem p1) q m1 [] R1 (eq_sym (app_nil_r _)) eq_refl (J_init p1)) as (Hr1 & Ho1 & HJ1 & _).
    unfold finish in H1. destruct (impl_step tbl q cls_end) as [qe ee] eqn:Ee. destruct (apply_effs ee m1) as [me|x] eqn:Ea; [|discriminate].
    destruct (impl_accept qe) eqn:Eacc; [|discriminate].
    pose proof (apply_effs_stops _ _ _ Ea) as Hst.
    destruct (semi_check_state tbl q qe ee Hsemi Ee Eacc Hst Hc) as [Hstep Hsmall].
    assert (Hz : effs_adv ee = 0).
    { destruct (adv_check_end tbl Hadv q) as [A|[A|A]]; rewrite Ee in A; simpl in A; [congruence|congruence|exact A]. }
    destruct (apply_effs_zero_adv _ _ _ Ea Hz) as [Hre Hoe].
    pose proof (end_clean q m1 ee me HJ1 Hsmall Ea) as Hwe.
    destruct (stack me) as [|[[k o] items1] [|y st']] eqn:Est; try discriminate. inversion H1; subst T1; clear H1.
    (* the run over the longer text *)
    change (init_mem (p1 ++ 59%N :: p2)) with (ext (init_mem p1) (59%N :: p2)).
    rewrite run_chars_app. rewrite (run_chars_ext tbl Hadv p1 S_WAIT (init_mem p1) q m1 (59%N :: p2) R1 eq_refl eq_refl).
    cbn [run_chars]. change (classify 59) with semi_cls. rewrite Hstep. rewrite apply_effs_app.
    rewrite (apply_effs_ext ee m1 me (59%N :: p2) Ea) by (rewrite Hz; lia).
    assert (Hstep2 : apply_effs [EInc; EEmit 0] (ext me (59%N :: p2)) = Ok (mkmem [] p2 0 [(k, o, semi_tok :: items1)])).
    { unfold ext. rewrite Hre, Hr1, Hoe, Ho1, Hwe, Est. reflexivity. }
    rewrite Hstep2.
    (* the rest of the run, with the older items underneath *)
    destruct (run_chars (impl_step tbl) S_WAIT (init_mem p2) p2) as [[q2 m2]|e] eqn:R2; [|discriminate].
    assert (Ho : o = []).
    { assert (Hb : bottom_ok (stack m1)) by (destruct HJ1 as [_ [(outer & k0 & it0 & Hst0 & _) _]]; exists k0, it0, outer; exact Hst0).
      apply (apply_effs_bottom _ _ _ Ea) in Hb. destruct Hb as (k0 & it0 & outer & Hst0). rewrite Est in Hst0.
      destruct outer as [|z [|z2 outer]]; simpl in Hst0; inversion Hst0; reflexivity. }
    subst o.
    assert (HU : U (semi_tok :: items1) (init_mem p2) (mkmem [] p2 0 [(k, [], semi_tok :: items1)])).
    { repeat split. exists [], KPar, k, []. split; reflexivity. }
    destruct (run_chars_U (impl_step tbl) _ p2 S_WAIT _ _ q2 m2 HU R2) as (m2' & R2' & HU2).
    match goal with |- match ?R with _ => _ end = _ => replace R with (Ok (q2, m2') : res (state * gmem)) by (symmetry; exact R2') end.
    rewrite (finish_U (impl_step tbl) impl_accept _ q2 m2 m2' T2 HU2 H2). simpl. rewrite <- app_assoc. reflexivity.
  Qed.
End Main.

(* ---------- the same for the lexer entry points (with the character pre-pass, and after erasing the ghost parts) ---------- *)
Require Import Lex.C20Proofs.
Lemma preproc_app_semi : forall s1 s2, preproc (s1 ++ 59%N :: s2) = preproc s1 ++ 59%N :: preproc s2.
Proof.
  assert (H59 : forall s2, preproc (59%N :: s2) = 59%N :: preproc s2) by (intros; rewrite preproc_cons_other by discriminate; reflexivity).
  induction s1 as [|c s1 IH]; intros s2; [apply H59|].
  destruct (N.eq_dec c 13) as [->|Hc].
  - destruct s1 as [|d t].
    + cbn [app]. rewrite preproc_cr_other by discriminate. rewrite H59. reflexivity.
    + destruct (N.eq_dec d 10) as [->|Hd].
      * change (preproc ((13%N :: 10%N :: t) ++ 59%N :: s2)) with (preproc ((10%N :: t) ++ 59%N :: s2)).
        change (preproc (13%N :: 10%N :: t)) with (preproc (10%N :: t)). apply IH.
      * cbn [app]. rewrite !preproc_cr_other by exact Hd. rewrite <- app_comm_cons. f_equal. apply (IH s2).
  - cbn [app]. rewrite !preproc_cons_other by exact Hc. rewrite <- app_comm_cons. f_equal. apply IH.
Qed.

Definition ends_in_line_comment (mb : bool) (f : nat) (s : str) : bool :=
  match end_state (table mb f) (preproc s) with Some q => line_comment q | None => false end.

Theorem lex_full_semicolon mb (f : nat) s1 s2 T1 T2 : (f < 8)%nat ->
  lex_full mb f s1 = Ok T1 -> lex_full mb f s2 = Ok T2 -> ends_in_line_comment mb f s1 = false ->
  lex_full mb f (s1 ++ 59%N :: s2) = Ok (T1 ++ semi_tok :: T2).
Proof.
  unfold lex_full, ends_in_line_comment. intros Hf H1 H2 Hc. rewrite preproc_app_semi.
  destruct (end_state (table mb f) (preproc s1)) as [q|] eqn:Eq.
  - apply (glex_semicolon (table mb f) (adv_check_cfg mb f Hf) (ops_check_cfg_mb mb f Hf) (semi_check_cfg mb f Hf) _ _ T1 T2 q H1 H2 Eq Hc).
  - exfalso. unfold end_state in Eq. unfold glex_full in H1. destruct (run_chars _ _ _ _) as [[q m]|e]; discriminate.
Qed.

Theorem lex_semicolon mb (f : nat) s1 s2 t1 t2 : (f < 8)%nat ->
  lex mb f s1 = Ok t1 -> lex mb f s2 = Ok t2 -> ends_in_line_comment mb f s1 = false ->
  lex mb f (s1 ++ 59%N :: s2) = Ok (t1 ++ Leaf [59%N] 0%N :: t2).
Proof.
  unfold lex. intros Hf H1 H2 Hc.
  destruct (lex_full mb f s1) as [T1|e] eqn:E1; [|discriminate]. destruct (lex_full mb f s2) as [T2|e] eqn:E2; [|discriminate].
  inversion H1; inversion H2; subst. rewrite (lex_full_semicolon mb f s1 s2 T1 T2 Hf E1 E2 Hc).
  unfold erase. rewrite flat_map_app. reflexivity.
Qed.
