(* C05: the implementation's lexer (shipped flags) equals the specification lexer on every input whose lock-step
   run avoids the computed list of deviating product cells; the list is shown to be complete by the kernel-checked
   certificate (closed_except) and to consist of documented known-finding families only (devs_known). *)
From Coq Require Import List NArith Bool Arith Lia.
Require Import Base.Common Gen.LexTable Lex.Model Lex.Invariants Lex.ImplFacts Lex.C04Proofs Lex.Spec Lex.Product Lex.C05Defs.
Import ListNotations.
Open Scope N_scope.

Lemma inl_In c l : inl c l = true <-> In c l.
Proof.
  unfold inl. rewrite existsb_exists. split.
  - intros [x [H1 H2]]. apply N.eqb_eq in H2. subst. exact H1.
  - intros H. exists c. split; [exact H|apply N.eqb_refl].
Qed.

Lemma norm_sigma c : In (norm c) sigma_chars.
Proof.
  unfold norm. destruct (inl c sigma_chars) eqn:E.
  - apply inl_In. exact E.
  - apply nodup_In. apply in_or_app. right. apply in_or_app. right. left. reflexivity.
Qed.

Lemma assoc_cls_notin c l : ~ In c (map fst l) -> assoc_cls c l = 0%nat.
Proof.
  induction l as [|[c' k] l IH]; simpl; intros H; [reflexivity|].
  destruct (N.eqb_spec c c'); [subst; exfalso; apply H; auto|apply IH; tauto].
Qed.

Lemma classify_norm c : classify c = classify (norm c).
Proof.
  unfold norm. destruct (inl c sigma_chars) eqn:E; [reflexivity|].
  assert (Hn : ~ In c sigma_chars) by (intros H; apply inl_In in H; congruence).
  assert (H1 : ~ In c (map fst char_classes)).
  { intros H. apply Hn. apply nodup_In. apply in_or_app. left. exact H. }
  unfold classify. rewrite (assoc_cls_notin c char_classes H1). vm_compute. reflexivity.
Qed.

Lemma scls_norm c : scls c = scls (norm c).
Proof.
  unfold norm. destruct (inl c sigma_chars) eqn:E; [reflexivity|].
  assert (Hn : ~ In c sigma_chars) by (intros H; apply inl_In in H; congruence).
  assert (H1 : inl c spec_special = false).
  { destruct (inl c spec_special) eqn:E2; [|reflexivity]. exfalso. apply Hn. apply nodup_In.
    apply in_or_app. right. apply in_or_app. left. apply inl_In. exact E2. }
  unfold scls. rewrite H1. vm_compute. reflexivity.
Qed.

Lemma impl_stepI_norm tbl s c : impl_stepI tbl s (Some c) = impl_stepI tbl s (Some (norm c)).
Proof. unfold impl_stepI. rewrite <- classify_norm. reflexivity. Qed.

Lemma spec_step_norm mb f t c : spec_step mb f t (Some c) = spec_step mb f t (Some (norm c)).
Proof. unfold spec_step. rewrite <- scls_norm. reflexivity. Qed.

Lemma view_ok s es m : J s m -> apply_effs (view s es) m = apply_effs es m.
Proof.
  intros [Hw _]. unfold view. destruct (st_eqb s S_AFTER_B || st_eqb s S_AFTER_X) eqn:E; [|reflexivity].
  destruct es as [|e es]; [reflexivity|]. destruct (is_name_emit e) eqn:En; [|reflexivity].
  destruct e; simpl in En; try discriminate. apply N.eqb_eq in En. subst m0.
  assert (Hm : word_marks (rev (win m)) = MARK_NAME).
  { apply orb_true_iff in E as [E|E]; apply st_eqb_eq in E; subst s; simpl in Hw; destruct Hw as [Hw|Hw]; rewrite Hw;
      vm_compute; reflexivity. }
  simpl. rewrite Hm. reflexivity.
Qed.

(* the model's driver, seen from an arbitrary intermediate configuration *)
Definition glex_tail (tbl : list (list nat)) (s : state) (m : gmem) (cs : str) : res (list ftok) :=
  match run_chars (impl_step tbl) s m cs with
  | Ok (s', m') => finish (impl_step tbl) impl_accept s' m'
  | Err x => Err x
  end.
Definition unstack (r : res gmem) : res (list ftok) :=
  match r with
  | Ok m' => match stack m' with [(_, _, items)] => Ok (rev items) | _ => Err LexErr end
  | Err x => Err x
  end.

Lemma glex_tail_feed tbl : adv_check tbl = true -> ops_check tbl = true -> forall cs s m,
  J s m -> rest m = cs -> over m = 0%nat ->
  glex_tail tbl s m cs = unstack (feed (impl_stepI tbl) s m cs).
Proof.
  intros Hadv Hops. induction cs as [|c cs IH]; intros s m HJ Hrest Hover.
  - unfold glex_tail, finish. simpl. destruct (impl_step tbl s cls_end) as [s' es] eqn:Es.
    destruct (impl_accept s') eqn:Eacc; simpl.
    + rewrite (view_ok s es m HJ). destruct (apply_effs es m); reflexivity.
    + rewrite apply_effs_app, (view_ok s es m HJ). destruct (apply_effs es m); reflexivity.
  - unfold glex_tail. simpl. destruct (impl_step tbl s (classify c)) as [s1 es] eqn:Es.
    rewrite (view_ok s es m HJ). destruct (apply_effs es m) as [m1|x] eqn:Ea; [|reflexivity].
    destruct (adv_check_char tbl Hadv s (classify c) (classify_lt c)) as [Hs|Hs]; rewrite Es in Hs; simpl in Hs.
    + rewrite (apply_effs_stops _ _ _ Ea) in Hs. discriminate.
    + destruct (apply_effs_one_adv _ _ _ _ _ Ea Hs Hrest Hover) as [Hr2 Ho2].
      assert (HJ1 : J s1 m1).
      { pose proof (macro_J tbl s c cs m m1 Hops Hrest HJ) as HH. rewrite Es in HH. apply HH. exact Ea. }
      apply (IH s1 m1 HJ1 Hr2 Ho2).
Qed.

Theorem glex_is_slex tbl text : adv_check tbl = true -> ops_check tbl = true ->
  glex_full (impl_step tbl) impl_accept S_WAIT text = slex_full (impl_stepI tbl) S_WAIT text.
Proof.
  intros Hadv Hops. unfold slex_full.
  change (glex_full (impl_step tbl) impl_accept S_WAIT text) with (glex_tail tbl S_WAIT (init_mem text) text).
  rewrite (glex_tail_feed tbl Hadv Hops text S_WAIT (init_mem text) (J_init text) eq_refl eq_refl).
  reflexivity.
Qed.

(* ---------- decidable equality on specification states ---------- *)
Lemma tclass_eqb_eq a b : tclass_eqb a b = true -> a = b.
Proof. unfold tclass_eqb. intros H. apply Nat.eqb_eq in H. destruct a, b; simpl in H; try reflexivity; discriminate. Qed.
Lemma live_eqb_eq a : forall b, live_eqb a b = true -> a = b.
Proof.
  induction a as [|[t q] a IH]; destruct b as [|[t' q'] b]; simpl; intros H; try discriminate; [reflexivity|].
  apply andb_true_iff in H as [H H3]. apply andb_true_iff in H as [H1 H2].
  apply tclass_eqb_eq in H1. apply N.eqb_eq in H2. apply IH in H3. congruence.
Qed.

Lemma cert_all : forallb (fun f => closed_except st_eqb live_eqb (impl_stepI (tblf f)) (spec_step false f) sigma_chars (devs f) (Rf f)
                                   && pair_mem st_eqb live_eqb (S_WAIT, []) (Rf f)) (seq 0 8) = true.
Proof. vm_compute. reflexivity. Qed.

Lemma cert f : (f < 8)%nat ->
  closed_except st_eqb live_eqb (impl_stepI (tblf f)) (spec_step false f) sigma_chars (devs f) (Rf f) = true /\ In (S_WAIT, []) (Rf f).
Proof.
  intros Hf. pose proof cert_all as H. rewrite forallb_forall in H. specialize (H f ltac:(apply in_seq; lia)).
  apply andb_true_iff in H as [H1 H2]. split; [exact H1|].
  apply (pair_mem_In st_eqb live_eqb st_eqb_eq live_eqb_eq). exact H2.
Qed.

Theorem lex_is_spec_outside_devs f s : (f < 8)%nat ->
  avoids_devs f (preproc s) = true -> lex_full false f s = spec_lex_full false f s.
Proof.
  intros Hf Hav. unfold lex_full, spec_lex_full. change (table false f) with (tblf f).
  rewrite (glex_is_slex (tblf f) (preproc s) (adv_check_cfg false f Hf) (ops_check_cfg f Hf)).
  unfold slex_full. destruct (cert f Hf) as [Hc Hin].
  rewrite (closed_sound st_eqb live_eqb st_eqb_eq live_eqb_eq (impl_stepI (tblf f)) (spec_step false f)
             sigma_chars norm norm_sigma (impl_stepI_norm (tblf f)) (spec_step_norm false f) (devs f) (Rf f) Hc
             (preproc s) S_WAIT [] (init_mem (preproc s)) Hin ltac:(discriminate) Hav).
  reflexivity.
Qed.

(* ---------- the keyword table of the code equals the specification's ---------- *)
Definition spec_word_table : list (str * N) :=
  map (fun k => (k, 0)) spec_keywords ++ map (fun k => (k, MK_LITERAL)) spec_literal_words.

Lemma assoc_agree {B} (t1 t2 : list (str * B)) :
  (forall k, In k (map fst t1 ++ map fst t2) -> assoc k t1 = assoc k t2) -> forall k, assoc k t1 = assoc k t2.
Proof.
  intros H k.
  assert (Hnone : forall (t : list (str * B)), ~ In k (map fst t) -> assoc k t = None).
  { induction t as [|[k' v] t IH]; simpl; intros Hn; [reflexivity|].
    destruct (str_eqb k k') eqn:E; [apply str_eqb_eq in E; subst; exfalso; apply Hn; auto|apply IH; tauto]. }
  destruct (in_dec (list_eq_dec N.eq_dec) k (map fst t1 ++ map fst t2)) as [Hin|Hnin]; [apply H; exact Hin|].
  rewrite (Hnone t1), (Hnone t2); auto; intros Hx; apply Hnin; apply in_or_app; auto.
Qed.

Lemma word_tables_agree : forall k, assoc k word_table = assoc k spec_word_table.
Proof.
  apply assoc_agree. intros k Hk.
  assert (Hall : forallb (fun k => match assoc k word_table, assoc k spec_word_table with
                                   | Some a, Some b => N.eqb a b | None, None => true | _, _ => false end)
                         (map fst word_table ++ map fst spec_word_table) = true) by (vm_compute; reflexivity).
  rewrite forallb_forall in Hall. specialize (Hall k Hk).
  destruct (assoc k word_table), (assoc k spec_word_table); try discriminate; try reflexivity.
  apply N.eqb_eq in Hall. congruence.
Qed.

Lemma assoc_app_l {B} k (a b : list (str * B)) : assoc k (a ++ b) = match assoc k a with Some v => Some v | None => assoc k b end.
Proof. induction a as [|[k' v] a IH]; simpl; [reflexivity|]. destruct (str_eqb k k'); [reflexivity|exact IH]. Qed.

Lemma assoc_const {B} k (l : list str) (v : B) : assoc k (map (fun x => (x, v)) l) = if mem_str k l then Some v else None.
Proof.
  unfold mem_str. induction l as [|x l IH]; simpl; [reflexivity|]. destruct (str_eqb k x); simpl; [reflexivity|exact IH].
Qed.

Theorem word_marks_is_spec src : word_marks src = spec_word_marks src.
Proof.
  unfold word_marks, spec_word_marks. rewrite word_tables_agree. unfold spec_word_table.
  rewrite assoc_app_l, !assoc_const.
  destruct (mem_str (upper src) spec_keywords); [reflexivity|].
  destruct (mem_str (upper src) spec_literal_words); reflexivity.
Qed.

Lemma devs_known : forallb (fun f => forallb known_dev (devs f)) (seq 0 8) = true.
Proof. vm_compute. reflexivity. Qed.

(* refutation witnesses of the full statement, one per family (computed on the faithful model) *)
Definition w_wordterm : str := [97; 38; 98].          (* a&b *)
Definition w_zerox : str := [48; 120; 49; 70].        (* 0x1F *)
Definition w_floatterm : str := [49; 46; 53; 101; 51]. (* 1.5e3 *)
Lemma refuted_wordterm : lex false 7 w_wordterm <> spec_lex false 7 w_wordterm.
Proof. vm_compute. discriminate. Qed.
Lemma refuted_zerox : lex false 7 w_zerox <> spec_lex false 7 w_zerox.
Proof. vm_compute. discriminate. Qed.
Lemma refuted_floatterm : lex false 7 w_floatterm <> spec_lex false 7 w_floatterm.
Proof. vm_compute. discriminate. Qed.
