(* Facts about the implementation's transducer (table + operations), proved once generically from *finite checks*
   on the regenerated table (every check is a vm_compute over all states x all classes of Gen/LexTable.v):
     - adv_check : every macro step moves the position by exactly one character (driver assumption of
                   fsm_machine.py:51-54: "a non-advancing step is followed by an advancing one")
     - ops_check : per cell, the operation is compatible with the window language of its state, so that
                   everything the lexer skips is a blank, a line break or a comment, and groups are opened and
                   closed by the bracket characters of their kind. *)
From Coq Require Import List NArith Bool Arith Lia.
Require Import Base.Common Gen.LexTable Lex.Model Lex.Invariants.
Import ListNotations.
Open Scope N_scope.

(* ---------- classes ---------- *)
Definition members (k : nat) : list N := map fst (filter (fun p => Nat.eqb (snd p) k) char_classes).
Definition memN (c : N) (l : list N) : bool := existsb (N.eqb c) l.
Definition only (k : nat) (l : list N) : bool := negb (Nat.eqb k 0) && forallb (fun c => memN c l) (members k).

Lemma str_eqb_refl a : str_eqb a a = true.
Proof. apply str_eqb_eq. reflexivity. Qed.

Lemma memN_In c l : memN c l = true -> In c l.
Proof. unfold memN. rewrite existsb_exists. intros [x [H1 H2]]. apply N.eqb_eq in H2. subst. exact H1. Qed.

Lemma classify_members c k : classify c = k -> k <> 0%nat -> In c (members k).
Proof.
  unfold classify, members. generalize char_classes. induction l as [|[c' k'] l IH]; simpl; intros H Hk.
  - congruence.
  - destruct (N.eqb_spec c c').
    + subst. rewrite Nat.eqb_refl. simpl. auto.
    + destruct (Nat.eqb k' k); simpl; auto.
Qed.

Lemma only_In c k l : classify c = k -> only k l = true -> In c l.
Proof.
  intros Hc Ho. unfold only in Ho. apply andb_true_iff in Ho as [H1 H2].
  apply negb_true_iff, Nat.eqb_neq in H1. rewrite forallb_forall in H2.
  apply memN_In, H2, classify_members; assumption.
Qed.

Definition not_newline (k : nat) : bool := negb (Nat.eqb k (classify 10)).
Lemma not_newline_ok c k : classify c = k -> not_newline k = true -> c <> 10.
Proof. unfold not_newline. intros Hc H ->. rewrite Hc, Nat.eqb_refl in H. discriminate. Qed.

Lemma forallb_rev_ok {A} (f : A -> bool) l : forallb f l = true -> forallb f (rev l) = true.
Proof. rewrite !forallb_forall. intros H x Hx. apply H. apply in_rev. exact Hx. Qed.

Lemma rev_nil_inv {A} (l : list A) : rev l = [] -> l = [].
Proof. intros H. rewrite <- (rev_involutive l), H. reflexivity. Qed.

(* ---------- what may be skipped ---------- *)
Definition no_nl (b : str) : bool := negb (memN 10 b).
Definition ends_star_slash (b : str) : bool := match rev b with 47 :: 42 :: _ => true | _ => false end.
(* a blank, a line break, "#..." / "--..." up to (not including) the line break, or "/* ... */" *)
Definition is_gapb (w : str) : bool :=
  match w with
  | [32] | [10] => true
  | 35 :: b => no_nl b
  | 45 :: 45 :: b => no_nl b
  | 47 :: 42 :: b => ends_star_slash b
  | _ => false
  end.

Fixpoint node_okb (t : ftok) : bool :=
  match t with
  | FLeaf _ _ => true
  | FSkip w => is_gapb w
  | FGroup o k c ts => str_eqb o [open_ch k] && str_eqb c [close_ch k] && forallb node_okb ts
  end.

(* ---------- window language of the states that matter ---------- *)
Definition wp (s : state) (w : str) : Prop :=
  match s with
  | S_WAIT | S_END => w = []
  | S_AFTER_2D => w = [45]
  | S_AFTER_2F => w = [47]
  | S_CUSTOM_1 => w = [35]
  | S_AFTER_B => w = [98] \/ w = [66]
  | S_AFTER_X => w = [120] \/ w = [88]
  | S_IN_EXPLAIN_1 => exists b, (w = 35 :: b \/ w = 45 :: 45 :: b) /\ no_nl b = true
  | S_IN_EXPLAIN_2 => exists b, w = 47 :: 42 :: b
  | S_IN_EXPLAIN_2_AFTER_2A => exists b, w = 47 :: 42 :: b ++ [42]
  | _ => True
  end.

Definition empty_st (s : state) : bool := st_eqb s S_WAIT || st_eqb s S_END.
Definition tracked (s : state) : bool :=
  match s with
  | S_WAIT | S_END | S_AFTER_2D | S_AFTER_2F | S_CUSTOM_1 | S_AFTER_B | S_AFTER_X
  | S_IN_EXPLAIN_1 | S_IN_EXPLAIN_2 | S_IN_EXPLAIN_2_AFTER_2A => true
  | _ => false
  end.
Definition empty_ok (s : state) : bool := empty_st s || negb (tracked s).

Lemma st_eqb_eq a b : st_eqb a b = true -> a = b.
Proof. unfold st_eqb. intros H. apply Nat.eqb_eq in H. destruct a, b; simpl in H; try reflexivity; discriminate. Qed.

Lemma empty_st_wp s w : empty_st s = true -> wp s w -> w = [].
Proof. unfold empty_st. intros H. apply orb_true_iff in H as [H|H]; apply st_eqb_eq in H; subst; simpl; auto. Qed.

Lemma empty_ok_wp s : empty_ok s = true -> wp s [].
Proof. destruct s; simpl; intros H; try reflexivity; try exact I; discriminate. Qed.

Definition add_ok (s : state) (k : nat) (s' : state) : bool :=
  match s' with
  | S_WAIT | S_END => false
  | S_AFTER_2D => st_eqb s S_WAIT && only k [45]
  | S_AFTER_2F => st_eqb s S_WAIT && only k [47]
  | S_CUSTOM_1 => st_eqb s S_WAIT && only k [35]
  | S_AFTER_B => st_eqb s S_WAIT && only k [98; 66]
  | S_AFTER_X => st_eqb s S_WAIT && only k [120; 88]
  | S_IN_EXPLAIN_1 => (st_eqb s S_WAIT && only k [35]) || (st_eqb s S_AFTER_2D && only k [45])
                      || ((st_eqb s S_IN_EXPLAIN_1 || st_eqb s S_CUSTOM_1) && not_newline k)
  | S_IN_EXPLAIN_2 => (st_eqb s S_AFTER_2F && only k [42]) || st_eqb s S_IN_EXPLAIN_2 || st_eqb s S_IN_EXPLAIN_2_AFTER_2A
  | S_IN_EXPLAIN_2_AFTER_2A => (st_eqb s S_IN_EXPLAIN_2 || st_eqb s S_IN_EXPLAIN_2_AFTER_2A) && only k [42]
  | _ => true
  end.

(* the operation `o` found in cell (s, k), k a character class, is compatible with the window language *)
Definition op_ok (s : state) (k : nat) (o : opk) : bool :=
  match o with
  | AddCache s' => add_ok s k s'
  | MoveClean => st_eqb s S_WAIT && only k [32; 10]
  | MoveCleanWait => st_eqb s S_IN_EXPLAIN_2_AFTER_2A && only k [47]
  | CleanWait | CleanEnd => st_eqb s S_IN_EXPLAIN_1 || st_eqb s S_CUSTOM_1 || empty_st s
  | SetEnd => empty_st s
  | HandleWait _ | HandleEnd _ | WordWait | WordEnd | AddHandleWait _ => true
  | AddHandle _ => empty_ok s
  | StartPar => st_eqb s S_WAIT && only k [40]
  | StartSlice => st_eqb s S_WAIT && only k [91]
  | EndPar => st_eqb s S_WAIT && only k [41]
  | EndSlice => st_eqb s S_WAIT && only k [93]
  | Raise | NoCell => true
  end.

(* at END nothing is consumed; an accepting end must leave an empty window *)
Definition end_ok (s : state) (o : opk) : bool :=
  negb (st_eqb (op_next o s) S_END) || op_stops o ||
  match o with
  | SetEnd => empty_st s
  | CleanEnd => st_eqb s S_IN_EXPLAIN_1 || st_eqb s S_CUSTOM_1 || empty_st s
  | HandleEnd _ | WordEnd => true
  | _ => false
  end.

Definition char_classes_idx : list nat := seq 0 n_classes.

Definition ops_check (tbl : list (list nat)) : bool :=
  forallb (fun s =>
    forallb (fun k =>
      let o1 := cell tbl s k in
      op_ok s k o1 &&
      (if op_ret o1 || op_stops o1 then true else op_ok (op_next o1 s) k (cell tbl (op_next o1 s) k)))
      char_classes_idx
    && end_ok s (cell tbl s cls_end)) all_states.

Definition adv_check (tbl : list (list nat)) : bool :=
  forallb (fun s =>
    forallb (fun k => let es := snd (impl_step tbl s k) in existsb eff_stops es || Nat.eqb (effs_adv es) 1)
      char_classes_idx
    && (let '(s', es) := impl_step tbl s cls_end in
        existsb eff_stops es || negb (impl_accept s') || Nat.eqb (effs_adv es) 0)) all_states.

Lemma all_states_complete s : In s all_states.
Proof. destruct s; vm_compute; tauto. Qed.

Lemma adv_check_char tbl : adv_check tbl = true -> forall s k, (k < n_classes)%nat ->
  existsb eff_stops (snd (impl_step tbl s k)) = true \/ effs_adv (snd (impl_step tbl s k)) = 1%nat.
Proof.
  unfold adv_check. rewrite forallb_forall. intros H s k Hk. specialize (H s (all_states_complete s)).
  apply andb_true_iff in H as [H _]. rewrite forallb_forall in H.
  specialize (H k ltac:(apply in_seq; lia)). apply orb_true_iff in H as [H|H]; [left; exact H|right; apply Nat.eqb_eq; exact H].
Qed.

Lemma adv_check_end tbl : adv_check tbl = true -> forall s,
  existsb eff_stops (snd (impl_step tbl s cls_end)) = true \/ impl_accept (fst (impl_step tbl s cls_end)) = false
  \/ effs_adv (snd (impl_step tbl s cls_end)) = 0%nat.
Proof.
  unfold adv_check. rewrite forallb_forall. intros H s. specialize (H s (all_states_complete s)).
  apply andb_true_iff in H as [_ H]. destruct (impl_step tbl s cls_end) as [s' es]. simpl.
  apply orb_true_iff in H as [H|H]; [apply orb_true_iff in H as [H|H]|].
  - auto.
  - right; left. apply negb_true_iff; exact H.
  - right; right. apply Nat.eqb_eq; exact H.
Qed.

(* ---------- the state invariant and its preservation by every operation ---------- *)
Definition levels_ok (st : list (gkind * str * list ftok)) : Prop :=
  (exists outer k items, st = outer ++ [(k, [], items)] /\
      Forall (fun l => snd (fst l) = [open_ch (fst (fst l))]) outer) /\
  Forall (fun l => forallb node_okb (snd l) = true) st.

Definition J (s : state) (m : gmem) : Prop := wp s (rev (win m)) /\ levels_ok (stack m).

Lemma levels_ok_push t m m' : push_item t m = Ok m' -> node_okb t = true -> levels_ok (stack m) -> levels_ok (stack m').
Proof.
  unfold push_item. destruct (stack m) as [|[[k o] items] st'] eqn:E; [discriminate|].
  intros H Ht [(outer & k0 & it0 & Hst & Hout) Hall]. inversion H; subst; clear H. simpl. split.
  - destruct outer as [|x outer]; simpl in Hst; inversion Hst; subst.
    + exists [], k0, (t :: it0). split; [reflexivity|constructor].
    + exists ((k, o, t :: items) :: outer), k0, it0. split; [reflexivity|].
      inversion Hout; subst. constructor; auto.
  - inversion Hall; subst. constructor; auto. simpl in *. rewrite Ht. simpl. assumption.
Qed.

Lemma push_item_win t m m' : push_item t m = Ok m' -> win m' = [].
Proof. unfold push_item. destruct (stack m) as [|[[k o] items] st']; [discriminate|]. intros H; inversion H; reflexivity. Qed.

Lemma levels_ok_nonempty st : levels_ok st -> exists k o items st', st = (k, o, items) :: st'.
Proof.
  intros [(outer & k0 & it0 & Hst & _) _]. destruct outer as [|[[k o] items] outer]; simpl in Hst; subst; eauto.
Qed.

Lemma push_item_ok t m : levels_ok (stack m) -> exists m', push_item t m = Ok m'.
Proof. intros H. destruct (levels_ok_nonempty _ H) as (k & o & items & st' & E). unfold push_item. rewrite E. eauto. Qed.

Lemma inc_win_cons m c r : rest m = c :: r -> rev (win (inc m)) = rev (win m) ++ [c].
Proof. intros H. unfold inc. rewrite H. reflexivity. Qed.

Lemma no_nl_snoc b c : no_nl b = true -> c <> 10 -> no_nl (b ++ [c]) = true.
Proof.
  unfold no_nl, memN. intros H Hc. apply negb_true_iff in H. apply negb_true_iff.
  rewrite existsb_app, H. cbn [existsb orb]. rewrite orb_false_r. apply N.eqb_neq. congruence.
Qed.

Lemma ends_star_slash_snoc b : ends_star_slash ((b ++ [42]) ++ [47]) = true.
Proof. unfold ends_star_slash. rewrite !rev_app_distr. reflexivity. Qed.

(* effect of a dropped window *)
Lemma drop_J m m' : drop m = Ok m' -> levels_ok (stack m) -> (win m = [] \/ is_gapb (rev (win m)) = true) ->
  win m' = [] /\ levels_ok (stack m') /\ rest m' = rest m.
Proof.
  unfold drop. intros H Hl Hg. destruct (win m) as [|c w] eqn:E.
  - inversion H; subst. auto.
  - destruct Hg as [Hg|Hg]; [discriminate|]. rewrite <- E in H.
    split; [eapply push_item_win; eauto|]. split; [eapply levels_ok_push; [exact H|rewrite E; exact Hg|exact Hl]|].
    unfold push_item in H. destruct (stack m) as [|[[k o] items] st']; [discriminate|]. inversion H; reflexivity.
Qed.

Lemma levels_ok_close k o items k2 o2 items2 st' :
  levels_ok ((k, o, items) :: (k2, o2, items2) :: st') ->
  levels_ok ((k2, o2, FGroup o k [close_ch k] (rev items) :: items2) :: st').
Proof.
  intros [(outer & k0 & it0 & Hst & Hout) Hall].
  destruct outer as [|x outer]; simpl in Hst; [inversion Hst|].
  injection Hst as Hx Hst. subst x.
  apply Forall_cons_iff in Hout as [Ho Hout]. simpl in Ho. subst o.
  apply Forall_cons_iff in Hall as [Hi Hall]. apply Forall_cons_iff in Hall as [Hi2 Hall]. simpl in Hi, Hi2.
  split.
  - destruct outer as [|y outer]; simpl in Hst; injection Hst as Hy Hst.
    + inversion Hy; subst. exists [], k0, (FGroup [open_ch k] k [close_ch k] (rev items) :: it0). split; [reflexivity|constructor].
    + subst y. exists ((k2, o2, FGroup [open_ch k] k [close_ch k] (rev items) :: items2) :: outer), k0, it0.
      split; [simpl; rewrite Hst; reflexivity|].
      apply Forall_cons_iff in Hout as [Ho2 Hout]. constructor; auto.
  - constructor; [|exact Hall]. cbn [snd forallb node_okb].
    assert (E1 : str_eqb [open_ch k] [open_ch k] = true) by apply str_eqb_refl.
    assert (E2 : str_eqb [close_ch k] [close_ch k] = true) by apply str_eqb_refl.
    rewrite E1, E2, (forallb_rev_ok _ _ Hi). exact Hi2.
Qed.

Ltac st_cases H :=
  repeat match type of H with
         | (_ || _) = true => apply orb_true_iff in H as [H|H]
         | (_ && _) = true => let H2 := fresh "Hc" in apply andb_true_iff in H as [H H2]
         end.

(* one operation on a character *)
Lemma op_char_J s k o c r m m' :
  op_ok s k o = true -> classify c = k -> rest m = c :: r -> J s m ->
  apply_effs (op_effs o) m = Ok m' -> J (op_next o s) m'.
Proof.
  intros Hok Hc Hrest [Hw Hl] Ha.
  destruct o; simpl in Ha, Hok |- *.
  - (* MoveClean *)
    apply andb_true_iff in Hok as [Hs Ho]. apply st_eqb_eq in Hs. subst s. simpl in Hw.
    destruct (drop (inc m)) as [m1|x] eqn:Ed; [|discriminate]. inversion Ha; subst m1; clear Ha.
    pose proof (only_In _ _ _ Hc Ho) as Hin.
    destruct (drop_J (inc m) m' Ed) as (A & B & _).
    + rewrite inc_stack; exact Hl.
    + right. rewrite (inc_win_cons _ _ _ Hrest), Hw. simpl. destruct Hin as [<-|[<-|[]]]; reflexivity.
    + split; [simpl; rewrite A; reflexivity|exact B].
  - (* MoveCleanWait *)
    apply andb_true_iff in Hok as [Hs Ho]. apply st_eqb_eq in Hs. subst s. simpl in Hw. destruct Hw as [b Hw].
    destruct (drop (inc m)) as [m1|x] eqn:Ed; [|discriminate]. inversion Ha; subst m1; clear Ha.
    pose proof (only_In _ _ _ Hc Ho) as Hin. destruct Hin as [<-|[]].
    destruct (drop_J (inc m) m' Ed) as (A & B & _).
    + rewrite inc_stack; exact Hl.
    + right. rewrite (inc_win_cons _ _ _ Hrest), Hw. simpl. apply ends_star_slash_snoc.
    + split; [simpl; rewrite A; reflexivity|exact B].
  - (* CleanWait *)
    destruct (drop m) as [m1|x] eqn:Ed; [|discriminate]. inversion Ha; subst m1; clear Ha.
    destruct (drop_J m m' Ed Hl) as (A & B & _).
    + apply orb_true_iff in Hok as [Hs|Hs]; [apply orb_true_iff in Hs as [Hs|Hs]|].
      * apply st_eqb_eq in Hs. subst s. simpl in Hw. destruct Hw as (b & [Hw|Hw] & Hb); right; rewrite Hw; simpl; exact Hb.
      * apply st_eqb_eq in Hs. subst s. simpl in Hw. right. rewrite Hw. reflexivity.
      * left. apply rev_nil_inv. eapply empty_st_wp; eauto.
    + split; [simpl; rewrite A; reflexivity|exact B].
  - (* CleanEnd *)
    destruct (drop m) as [m1|x] eqn:Ed; [|discriminate]. inversion Ha; subst m1; clear Ha.
    destruct (drop_J m m' Ed Hl) as (A & B & _).
    + apply orb_true_iff in Hok as [Hs|Hs]; [apply orb_true_iff in Hs as [Hs|Hs]|].
      * apply st_eqb_eq in Hs. subst s. simpl in Hw. destruct Hw as (b & [Hw|Hw] & Hb); right; rewrite Hw; simpl; exact Hb.
      * apply st_eqb_eq in Hs. subst s. simpl in Hw. right. rewrite Hw. reflexivity.
      * left. apply rev_nil_inv. eapply empty_st_wp; eauto.
    + split; [simpl; rewrite A; reflexivity|exact B].
  - (* AddCache *)
    inversion Ha; subst m'; clear Ha. split; [|rewrite inc_stack; exact Hl].
    rewrite (inc_win_cons _ _ _ Hrest).
    destruct s0; simpl in Hok |- *; try exact I; try discriminate.
    + apply andb_true_iff in Hok as [Hs Ho]. apply st_eqb_eq in Hs; subst s; simpl in Hw; rewrite Hw.
      destruct (only_In _ _ _ Hc Ho) as [<-|[]]. reflexivity.
    + apply andb_true_iff in Hok as [Hs Ho]. apply st_eqb_eq in Hs; subst s; simpl in Hw; rewrite Hw.
      destruct (only_In _ _ _ Hc Ho) as [<-|[]]. reflexivity.
    + apply andb_true_iff in Hok as [Hs Ho]. apply st_eqb_eq in Hs; subst s; simpl in Hw; rewrite Hw.
      destruct (only_In _ _ _ Hc Ho) as [<-|[<-|[]]]; auto.
    + apply andb_true_iff in Hok as [Hs Ho]. apply st_eqb_eq in Hs; subst s; simpl in Hw; rewrite Hw.
      destruct (only_In _ _ _ Hc Ho) as [<-|[<-|[]]]; auto.
    + (* IN_EXPLAIN_1 *)
      apply orb_true_iff in Hok as [Hok|Hok]; [apply orb_true_iff in Hok as [Hok|Hok]|].
      * apply andb_true_iff in Hok as [Hs Ho]. apply st_eqb_eq in Hs; subst s; simpl in Hw; rewrite Hw.
        destruct (only_In _ _ _ Hc Ho) as [<-|[]]. exists []. auto.
      * apply andb_true_iff in Hok as [Hs Ho]. apply st_eqb_eq in Hs; subst s; simpl in Hw; rewrite Hw.
        destruct (only_In _ _ _ Hc Ho) as [<-|[]]. exists []. auto.
      * apply andb_true_iff in Hok as [Hs Ho]. pose proof (not_newline_ok _ _ Hc Ho) as Hn.
        apply orb_true_iff in Hs as [Hs|Hs]; apply st_eqb_eq in Hs; subst s; simpl in Hw.
        -- destruct Hw as (b & [Hw|Hw] & Hb); rewrite Hw; exists (b ++ [c]); simpl; split; auto using no_nl_snoc.
        -- rewrite Hw. exists [c]. split; [left; reflexivity|]. apply (no_nl_snoc [] c); auto.
    + (* IN_EXPLAIN_2 *)
      apply orb_true_iff in Hok as [Hok|Hok]; [apply orb_true_iff in Hok as [Hok|Hok]|].
      * apply andb_true_iff in Hok as [Hs Ho]. apply st_eqb_eq in Hs; subst s; simpl in Hw; rewrite Hw.
        destruct (only_In _ _ _ Hc Ho) as [<-|[]]. exists []. reflexivity.
      * apply st_eqb_eq in Hok; subst s; simpl in Hw. destruct Hw as [b Hw]. rewrite Hw. exists (b ++ [c]). reflexivity.
      * apply st_eqb_eq in Hok; subst s; simpl in Hw. destruct Hw as [b Hw]. rewrite Hw. exists ((b ++ [42]) ++ [c]). reflexivity.
    + (* IN_EXPLAIN_2_AFTER_2A *)
      apply andb_true_iff in Hok as [Hs Ho]. destruct (only_In _ _ _ Hc Ho) as [<-|[]].
      apply orb_true_iff in Hs as [Hs|Hs]; apply st_eqb_eq in Hs; subst s; simpl in Hw; destruct Hw as [b Hw]; rewrite Hw.
      * exists b. reflexivity.
      * exists (b ++ [42]). reflexivity.
    + (* CUSTOM_1 *)
      apply andb_true_iff in Hok as [Hs Ho]. apply st_eqb_eq in Hs; subst s; simpl in Hw; rewrite Hw.
      destruct (only_In _ _ _ Hc Ho) as [<-|[]]. reflexivity.
  - (* SetEnd *)
    inversion Ha; subst m'. split; [|exact Hl]. simpl. eapply empty_st_wp; eauto.
  - (* HandleWait *)
    destruct (push_item (FLeaf (rev (win m)) m0) m) as [m1|x] eqn:Ep; [|discriminate]. inversion Ha; subst m1.
    split; [simpl; rewrite (push_item_win _ _ _ Ep); reflexivity|eapply levels_ok_push; eauto].
  - (* HandleEnd *)
    destruct (push_item (FLeaf (rev (win m)) m0) m) as [m1|x] eqn:Ep; [|discriminate]. inversion Ha; subst m1.
    split; [simpl; rewrite (push_item_win _ _ _ Ep); reflexivity|eapply levels_ok_push; eauto].
  - (* WordWait *)
    destruct (push_item _ m) as [m1|x] eqn:Ep; [|discriminate]. inversion Ha; subst m1.
    split; [simpl; rewrite (push_item_win _ _ _ Ep); reflexivity|eapply levels_ok_push; eauto].
  - (* WordEnd *)
    destruct (push_item _ m) as [m1|x] eqn:Ep; [|discriminate]. inversion Ha; subst m1.
    split; [simpl; rewrite (push_item_win _ _ _ Ep); reflexivity|eapply levels_ok_push; eauto].
  - (* AddHandleWait *)
    destruct (push_item _ (inc m)) as [m1|x] eqn:Ep; [|discriminate]. inversion Ha; subst m1.
    split; [simpl; rewrite (push_item_win _ _ _ Ep); reflexivity|eapply levels_ok_push; eauto; rewrite inc_stack; exact Hl].
  - (* AddHandle *)
    destruct (push_item _ (inc m)) as [m1|x] eqn:Ep; [|discriminate]. inversion Ha; subst m1.
    split; [rewrite (push_item_win _ _ _ Ep); apply empty_ok_wp; exact Hok|eapply levels_ok_push; eauto; rewrite inc_stack; exact Hl].
  - (* StartPar *)
    apply andb_true_iff in Hok as [Hs Ho]. apply st_eqb_eq in Hs; subst s; simpl in Hw.
    destruct (only_In _ _ _ Hc Ho) as [<-|[]]. inversion Ha; subst m'; clear Ha. split; [reflexivity|]. simpl.
    rewrite inc_stack, (inc_win_cons _ _ _ Hrest), Hw. simpl.
    destruct Hl as [(outer & k0 & it0 & Hst & Hout) Hall]. split.
    + exists ((KPar, [40], []) :: outer), k0, it0. rewrite Hst. split; [reflexivity|constructor; auto].
    + constructor; auto.
  - (* EndPar *)
    apply andb_true_iff in Hok as [Hs Ho]. apply st_eqb_eq in Hs; subst s; simpl in Hw.
    destruct (only_In _ _ _ Hc Ho) as [<-|[]].
    destruct (stack m) as [|[[ko o] items] [|[[k2 o2] items2] st']] eqn:E; try discriminate.
    destruct (gkind_eqb ko KPar) eqn:Ek; [|discriminate]. destruct ko; [|discriminate].
    inversion Ha; subst m'; clear Ha. split; [reflexivity|]. cbn [stack].
    rewrite (inc_win_cons _ _ _ Hrest), Hw. apply (levels_ok_close KPar). exact Hl.
  - (* StartSlice *)
    apply andb_true_iff in Hok as [Hs Ho]. apply st_eqb_eq in Hs; subst s; simpl in Hw.
    destruct (only_In _ _ _ Hc Ho) as [<-|[]]. inversion Ha; subst m'; clear Ha. split; [reflexivity|]. simpl.
    rewrite inc_stack, (inc_win_cons _ _ _ Hrest), Hw. simpl.
    destruct Hl as [(outer & k0 & it0 & Hst & Hout) Hall]. split.
    + exists ((KSlice, [91], []) :: outer), k0, it0. rewrite Hst. split; [reflexivity|constructor; auto].
    + constructor; auto.
  - (* EndSlice *)
    apply andb_true_iff in Hok as [Hs Ho]. apply st_eqb_eq in Hs; subst s; simpl in Hw.
    destruct (only_In _ _ _ Hc Ho) as [<-|[]].
    destruct (stack m) as [|[[ko o] items] [|[[k2 o2] items2] st']] eqn:E; try discriminate.
    destruct (gkind_eqb ko KSlice) eqn:Ek; [|discriminate]. destruct ko; [discriminate|].
    inversion Ha; subst m'; clear Ha. split; [reflexivity|]. cbn [stack].
    rewrite (inc_win_cons _ _ _ Hrest), Hw. apply (levels_ok_close KSlice). exact Hl.
  - discriminate.
  - discriminate.
Qed.
