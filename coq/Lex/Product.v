(* Product of two transducers over the finite input alphabet, certificate checking, and the soundness theorem:
   outside the listed deviating cells the two transducers produce the same (canonical) effect streams on EVERY
   input sequence, hence the generic driver returns the same result for both. *)
From Coq Require Import List NArith Bool Arith Lia.
Require Import Base.Common Gen.LexTable Lex.Model Lex.Invariants.
Import ListNotations.
Open Scope N_scope.

(* ---------- canonical form of an effect list ---------- *)
Definition eff_eqb (a b : eff) : bool :=
  match a, b with
  | EInc, EInc | EWord, EWord | EDrop, EDrop | EFail, EFail | ECrash, ECrash => true
  | EEmit m, EEmit m' => N.eqb m m'
  | EOpen k, EOpen k' | EClose k, EClose k' => gkind_eqb k k'
  | _, _ => false
  end.
Fixpoint effs_eqb (a b : list eff) : bool :=
  match a, b with
  | [], [] => true
  | x :: a', y :: b' => eff_eqb x y && effs_eqb a' b'
  | _, _ => false
  end.

Lemma eff_eqb_eq a b : eff_eqb a b = true -> a = b.
Proof.
  destruct a, b; simpl; intros H; try discriminate; try reflexivity.
  - apply N.eqb_eq in H. congruence.
  - destruct k, k0; simpl in H; try discriminate; reflexivity.
  - destruct k, k0; simpl in H; try discriminate; reflexivity.
Qed.
Lemma effs_eqb_eq a : forall b, effs_eqb a b = true -> a = b.
Proof.
  induction a as [|x a IH]; destruct b as [|y b]; simpl; intros H; try discriminate; [reflexivity|].
  apply andb_true_iff in H as [H1 H2]. apply eff_eqb_eq in H1. apply IH in H2. congruence.
Qed.

Definition is_close (e : eff) : bool := match e with EClose _ => true | _ => false end.
(* effects before a raise are unobservable (the whole call fails), unless a bracket closer in front of it may
   fail first with the same error -- then the list is kept as it is *)
Fixpoint first_stop (es : list eff) : option eff :=
  match es with
  | [] => None
  | e :: es' => if eff_stops e then Some e else first_stop es'
  end.
Definition canon (es : list eff) : list eff :=
  match first_stop es with
  | Some EFail => [EFail]
  | Some ECrash => if existsb is_close es then es else [ECrash]
  | _ => es
  end.

Definition stops (es : list eff) : bool := match first_stop es with Some _ => true | None => false end.

(* on a well-formed memory an effect list and its canonical form have the same outcome *)
Definition stack_nonempty (m : gmem) : Prop := stack m <> [].

Lemma apply_eff_nonempty e m m' : apply_eff e m = Ok m' -> stack_nonempty m -> stack_nonempty m'.
Proof.
  unfold stack_nonempty.
  assert (Hpush : forall t m m', push_item t m = Ok m' -> stack m' <> []).
  { intros t m0 m0'. unfold push_item. destruct (stack m0) as [|[[k o] items] st']; [discriminate|].
    intros H; inversion H; simpl; discriminate. }
  destruct e; simpl; intros H Hn.
  - inversion H; subst. rewrite inc_stack. exact Hn.
  - eapply Hpush; eauto.
  - eapply Hpush; eauto.
  - unfold drop in H. destruct (win m); [inversion H; subst; exact Hn|eapply Hpush; eauto].
  - inversion H; simpl; discriminate.
  - destruct (stack m) as [|[[ko o] items] [|[[k2 o2] items2] st']]; try discriminate.
    destruct (gkind_eqb ko k); [|discriminate]. inversion H; simpl; discriminate.
  - discriminate.
  - discriminate.
Qed.

(* result of an effect list, observing only success / the error *)
Definition outcome (es : list eff) (m : gmem) : res gmem := apply_effs es m.

Lemma apply_effs_fail_lex es : forall m, stack_nonempty m -> first_stop es = Some EFail -> apply_effs es m = Err LexErr.
Proof.
  induction es as [|e es IH]; simpl; intros m Hn H; [discriminate|].
  destruct (eff_stops e) eqn:Es.
  - inversion H; subst. reflexivity.
  - destruct (apply_eff e m) as [m1|x] eqn:E.
    + apply IH; auto. eapply apply_eff_nonempty; eauto.
    + destruct e; simpl in E, Es; try discriminate.
      * unfold push_item in E. destruct (stack m) as [|[[k o] items] st'] eqn:Est; [contradiction|discriminate].
      * unfold push_item in E. destruct (stack m) as [|[[k o] items] st'] eqn:Est; [contradiction|discriminate].
      * unfold drop, push_item in E. destruct (win m); [discriminate|].
        destruct (stack m) as [|[[k o] items] st'] eqn:Est; [contradiction|discriminate].
      * destruct (stack m) as [|[[ko o] items] [|[[k2 o2] items2] st']]; try (inversion E; reflexivity).
        destruct (gkind_eqb ko k); [discriminate|inversion E; reflexivity].
Qed.

Lemma apply_effs_crash es : forall m, stack_nonempty m -> first_stop es = Some ECrash -> existsb is_close es = false ->
  apply_effs es m = Err (Crash 4).
Proof.
  induction es as [|e es IH]; simpl; intros m Hn H Hc; [discriminate|].
  apply orb_false_iff in Hc as [Hc1 Hc2].
  destruct (eff_stops e) eqn:Es.
  - inversion H; subst. reflexivity.
  - destruct (apply_eff e m) as [m1|x] eqn:E.
    + apply IH; auto. eapply apply_eff_nonempty; eauto.
    + destruct e; simpl in E, Es, Hc1; try discriminate.
      * unfold push_item in E. destruct (stack m) as [|[[k o] items] st'] eqn:Est; [contradiction|discriminate].
      * unfold push_item in E. destruct (stack m) as [|[[k o] items] st'] eqn:Est; [contradiction|discriminate].
      * unfold drop, push_item in E. destruct (win m); [discriminate|].
        destruct (stack m) as [|[[k o] items] st'] eqn:Est; [contradiction|discriminate].
Qed.

Lemma first_stop_cases es : first_stop es = None \/ first_stop es = Some EFail \/ first_stop es = Some ECrash.
Proof.
  induction es as [|e es IH]; simpl; auto. destruct e; simpl; auto.
Qed.

Lemma canon_outcome es m : stack_nonempty m -> apply_effs (canon es) m = apply_effs es m.
Proof.
  intros Hn. unfold canon. destruct (first_stop_cases es) as [H|[H|H]]; rewrite H; try reflexivity.
  - rewrite (apply_effs_fail_lex es m Hn H). reflexivity.
  - destruct (existsb is_close es) eqn:Ec; [reflexivity|].
    rewrite (apply_effs_crash es m Hn H Ec). reflexivity.
Qed.

Lemma stops_err es m : stack_nonempty m -> stops es = true -> exists x, apply_effs es m = Err x.
Proof.
  unfold stops. revert m. induction es as [|e es IH]; simpl; intros m Hn H; [discriminate|].
  destruct (eff_stops e) eqn:Es.
  - destruct e; simpl in Es; try discriminate; simpl; eauto.
  - destruct (apply_eff e m) as [m1|x] eqn:E; [|eauto].
    apply IH; auto. eapply apply_eff_nonempty; eauto.
Qed.

Lemma apply_effs_nonempty es : forall m m', apply_effs es m = Ok m' -> stack_nonempty m -> stack_nonempty m'.
Proof.
  induction es as [|e es IH]; simpl; intros m m' H Hn.
  - inversion H; subst; exact Hn.
  - destruct (apply_eff e m) as [m1|x] eqn:E; [|discriminate].
    eapply IH; eauto. eapply apply_eff_nonempty; eauto.
Qed.

(* ---------- the driver seen as a fold over the characters, then END (None) ---------- *)
Section Streams.
  Context {S : Type}.
  Variable step : S -> option N -> S * list eff.

  (* acceptance is folded into the effects: a rejecting END step carries EFail *)
  Fixpoint feed (s : S) (m : gmem) (cs : str) : res gmem :=
    match cs with
    | [] => apply_effs (snd (step s None)) m
    | c :: cs' =>
        let '(s', es) := step s (Some c) in
        match apply_effs es m with
        | Ok m' => feed s' m' cs'
        | Err x => Err x
        end
    end.

  Definition slex_full (s0 : S) (text : str) : res (list ftok) :=
    match feed s0 (init_mem text) text with
    | Ok m' => match stack m' with [(_, _, items)] => Ok (rev items) | _ => Err LexErr end
    | Err x => Err x
    end.
End Streams.

Section Product.
  Context {S T : Type}.
  Variable eqS : S -> S -> bool.
  Variable eqT : T -> T -> bool.
  Hypothesis eqS_ok : forall a b, eqS a b = true -> a = b.
  Hypothesis eqT_ok : forall a b, eqT a b = true -> a = b.
  Variable stepS : S -> option N -> S * list eff.
  Variable stepT : T -> option N -> T * list eff.
  Variable sigma : list N.                          (* the finite character alphabet *)
  Variable norm : N -> N.                           (* every character behaves like a member of sigma *)
  Hypothesis norm_sigma : forall c, In (norm c) sigma.
  Hypothesis normS : forall s c, stepS s (Some c) = stepS s (Some (norm c)).
  Hypothesis normT : forall t c, stepT t (Some c) = stepT t (Some (norm c)).

  Definition inp_eqb (a b : option N) : bool :=
    match a, b with Some x, Some y => N.eqb x y | None, None => true | _, _ => false end.
  Definition cell_eqb (a b : S * T * option N) : bool :=
    eqS (fst (fst a)) (fst (fst b)) && eqT (snd (fst a)) (snd (fst b)) && inp_eqb (snd a) (snd b).
  Definition pair_mem (p : S * T) (l : list (S * T)) : bool :=
    existsb (fun q => eqS (fst p) (fst q) && eqT (snd p) (snd q)) l.
  Definition cell_mem (c : S * T * option N) (l : list (S * T * option N)) : bool := existsb (cell_eqb c) l.

  Lemma pair_mem_In p l : pair_mem p l = true -> In p l.
  Proof.
    unfold pair_mem. rewrite existsb_exists. intros [q [Hq H]]. apply andb_true_iff in H as [H1 H2].
    apply eqS_ok in H1. apply eqT_ok in H2. destruct p, q; simpl in *; subst; exact Hq.
  Qed.

  (* is (s, t, i) a cell on which the two sides agree?  *)
  Definition agree_at (s : S) (t : T) (i : option N) : bool :=
    effs_eqb (canon (snd (stepS s i))) (canon (snd (stepT t i))).

  (* certificate check: R is closed under the agreeing, non-stopping character cells, the two sides agree on END in
     every pair of R; every other cell is listed in devs *)
  Definition closed_at (devs : list (S * T * option N)) (R : list (S * T)) (p : S * T) : bool :=
    forallb (fun c =>
      cell_mem (fst p, snd p, Some c) devs ||
      (agree_at (fst p) (snd p) (Some c) &&
       (stops (snd (stepS (fst p) (Some c))) || pair_mem (fst (stepS (fst p) (Some c)), fst (stepT (snd p) (Some c))) R))) sigma
    && (cell_mem (fst p, snd p, None) devs || agree_at (fst p) (snd p) None).
  Definition closed_except (devs : list (S * T * option N)) (R : list (S * T)) : bool := forallb (closed_at devs R) R.

  (* executable region predicate: does the lock-step run on this text stay away from the deviating cells? *)
  Fixpoint avoids (devs : list (S * T * option N)) (s : S) (t : T) (cs : str) : bool :=
    match cs with
    | [] => negb (cell_mem (s, t, None) devs)
    | c :: cs' =>
        negb (cell_mem (s, t, Some (norm c)) devs) &&
        (stops (snd (stepS s (Some c))) || avoids devs (fst (stepS s (Some c))) (fst (stepT t (Some c))) cs')
    end.

  Theorem closed_sound devs R : closed_except devs R = true ->
    forall cs s t m, In (s, t) R -> stack_nonempty m -> avoids devs s t cs = true ->
    feed stepS s m cs = feed stepT t m cs.
  Proof.
    intros HR. unfold closed_except in HR. rewrite forallb_forall in HR.
    induction cs as [|c cs IH]; intros s t m Hin Hn Hav.
    - simpl in Hav |- *. apply negb_true_iff in Hav.
      specialize (HR _ Hin). unfold closed_at in HR. apply andb_true_iff in HR as [_ HR]. simpl in HR.
      rewrite Hav in HR. simpl in HR. unfold agree_at in HR. apply effs_eqb_eq in HR.
      rewrite <- (canon_outcome _ m Hn), HR, (canon_outcome _ m Hn). reflexivity.
    - simpl in Hav |- *. apply andb_true_iff in Hav as [Hd Hav]. apply negb_true_iff in Hd.
      specialize (HR _ Hin). unfold closed_at in HR. apply andb_true_iff in HR as [HR _].
      rewrite forallb_forall in HR.
      specialize (HR (norm c) (norm_sigma c)). simpl in HR. rewrite Hd in HR. simpl in HR.
      apply andb_true_iff in HR as [Hag Hnext]. unfold agree_at in Hag.
      rewrite <- normS, <- normT in Hag, Hnext.
      apply effs_eqb_eq in Hag.
      destruct (stepS s (Some c)) as [s' es1] eqn:E1. destruct (stepT t (Some c)) as [t' es2] eqn:E2. simpl in *.
      rewrite <- (canon_outcome es1 m Hn), <- (canon_outcome es2 m Hn), Hag.
      destruct (apply_effs (canon es2) m) as [m'|x] eqn:Ea; [|reflexivity].
      assert (Hn' : stack_nonempty m') by (eapply apply_effs_nonempty; eauto).
      destruct (stops es1) eqn:Est.
      + exfalso. destruct (stops_err es1 m Hn Est) as [x Hx].
        rewrite <- (canon_outcome es1 m Hn), Hag, Ea in Hx. discriminate.
      + simpl in Hav, Hnext. apply IH; auto. apply pair_mem_In. exact Hnext.
  Qed.

  (* ---------- untrusted exploration (computes R, the deviating cells and a shortest input path to each) ---------- *)
  Fixpoint explore (excl : S -> T -> option N -> bool) (fuel : nat) (todo : list (S * T * str)) (seen : list (S * T))
           (devs : list (S * T * option N * str)) : list (S * T) * list (S * T * option N * str) :=
    match fuel with
    | O => (seen, devs)
    | Datatypes.S fuel' =>
        match todo with
        | [] => (seen, devs)
        | (s, t, path) :: todo' =>
            if pair_mem (s, t) seen then explore excl fuel' todo' seen devs
            else
              let cells := map (fun c => (c, stepS s (Some c), stepT t (Some c))) sigma in
              let succ := flat_map (fun x => let '(c, (s', o1), (t', o2)) := x in
                                             if negb (excl s t (Some c)) && effs_eqb (canon o1) (canon o2) && negb (stops o1)
                                             then [(s', t', path ++ [c])] else []) cells in
              let dv := flat_map (fun x => let '(c, (s', o1), (t', o2)) := x in
                                           if negb (excl s t (Some c)) && effs_eqb (canon o1) (canon o2) then []
                                           else [(s, t, Some c, path ++ [c])]) cells in
              let dvend := if negb (excl s t None) && agree_at s t None then [] else [(s, t, None, path)] in
              explore excl fuel' (todo' ++ succ) ((s, t) :: seen) (devs ++ dv ++ dvend)
        end
    end.
End Product.
