(* Generic invariants of the lexer driver, valid for ANY transducer (implementation tables of every
   configuration, the plug-in, the specification):
     - accounting: every consumed character is in a leaf, a skip, or a bracket text      (flat_stack ...)
     - alignment : if every macro step moves the position by exactly one, the character
                   handed to the table is always the next unconsumed character            (run_chars_aligned) *)
From Coq Require Import List NArith Bool Arith Lia.
Require Import Base.Common Gen.LexTable Lex.Model.
Import ListNotations.
Open Scope N_scope.

(* ---------- accounting ---------- *)
Fixpoint flat_stack (st : list (gkind * str * list ftok)) : str :=
  match st with
  | [] => []
  | (_, o, items) :: outer => flat_stack outer ++ o ++ flatten (rev items)
  end.

Definition consumed (m : gmem) : str := flat_stack (stack m) ++ rev (win m).

Lemma flatten_app a b : flatten (a ++ b) = flatten a ++ flatten b.
Proof. unfold flatten. apply flat_map_app. Qed.

Lemma flatten_snoc items t : flatten (rev (t :: items)) = flatten (rev items) ++ flatten1 t.
Proof. simpl. rewrite flatten_app. simpl. rewrite app_nil_r. reflexivity. Qed.

Lemma inc_consumed m : consumed (inc m) ++ rest (inc m) = consumed m ++ rest m.
Proof.
  unfold consumed, inc. destruct (rest m) as [|c r] eqn:E; simpl; [reflexivity|].
  rewrite <- !app_assoc. simpl. reflexivity.
Qed.

Lemma inc_stack m : stack (inc m) = stack m.
Proof. unfold inc. destruct (rest m); reflexivity. Qed.

Lemma push_item_consumed t m m' :
  push_item t m = Ok m' -> flatten1 t = rev (win m) ->
  consumed m' ++ rest m' = consumed m ++ rest m.
Proof.
  unfold push_item, consumed. destruct (stack m) as [|[[k o] items] st'] eqn:E; [discriminate|].
  intros H Ht. inversion H; subst; clear H. cbn [stack win rest flat_stack].
  rewrite flatten_snoc, Ht. cbn [rev]. rewrite app_nil_r, <- !app_assoc. reflexivity.
Qed.

Lemma apply_eff_consumed e m m' :
  apply_eff e m = Ok m' -> consumed m' ++ rest m' = consumed m ++ rest m.
Proof.
  destruct e; simpl.
  - intros H; inversion H; subst. apply inc_consumed.
  - intros H. eapply push_item_consumed; [exact H|reflexivity].
  - intros H. eapply push_item_consumed; [exact H|reflexivity].
  - unfold drop. destruct (win m) as [|c w] eqn:E.
    + intros H; inversion H; subst. reflexivity.
    + intros H. rewrite <- E in H. eapply push_item_consumed; [exact H|reflexivity].
  - intros H; inversion H; subst; clear H. rewrite <- (inc_consumed m).
    unfold consumed. simpl. rewrite inc_stack, app_nil_r, <- !app_assoc. reflexivity.
  - destruct (stack m) as [|[[ko o] items] [|[[k2 o2] items2] st']] eqn:E; try discriminate.
    destruct (gkind_eqb ko k); [|discriminate].
    intros H; inversion H; subst; clear H. rewrite <- (inc_consumed m).
    unfold consumed. rewrite inc_stack, E. simpl.
    rewrite flatten_app. unfold flatten. cbn [flat_map flatten1]. rewrite !app_nil_r, <- !app_assoc. reflexivity.
  - discriminate.
  - discriminate.
Qed.

Lemma apply_effs_consumed es : forall m m',
  apply_effs es m = Ok m' -> consumed m' ++ rest m' = consumed m ++ rest m.
Proof.
  induction es as [|e es IH]; simpl; intros m m' H.
  - inversion H; reflexivity.
  - destruct (apply_eff e m) as [m1|x] eqn:E; [|discriminate].
    rewrite (IH _ _ H). eapply apply_eff_consumed; eauto.
Qed.

(* the bottom level of the stack never changes its (empty) opener text, and the stack is never empty *)
Definition bottom_ok (st : list (gkind * str * list ftok)) : Prop :=
  exists k items outer, st = outer ++ [(k, [], items)].

Lemma bottom_ok_cons x st : bottom_ok st -> bottom_ok (x :: st).
Proof. intros (k & items & outer & ->). exists k, items, (x :: outer). reflexivity. Qed.

Lemma bottom_ok_nonempty st : bottom_ok st -> st <> [].
Proof. intros (k & items & outer & ->). destruct outer; discriminate. Qed.

Lemma bottom_ok_replace_head k o items items' st :
  bottom_ok ((k, o, items) :: st) -> bottom_ok ((k, o, items') :: st).
Proof.
  intros (k0 & it0 & outer & H). destruct outer as [|y outer]; simpl in H.
  - inversion H; subst. exists k0, items', []. reflexivity.
  - inversion H; subst. exists k0, it0, ((k, o, items') :: outer). reflexivity.
Qed.

Lemma bottom_ok_tail x y st : bottom_ok (x :: y :: st) -> bottom_ok (y :: st).
Proof.
  intros (k0 & it0 & outer & H). destruct outer as [|z outer]; simpl in H.
  - inversion H.
  - inversion H; subst. exists k0, it0, outer. assumption.
Qed.

Lemma apply_eff_bottom e m m' : apply_eff e m = Ok m' -> bottom_ok (stack m) -> bottom_ok (stack m').
Proof.
  assert (Hpush : forall t m m', push_item t m = Ok m' -> bottom_ok (stack m) -> bottom_ok (stack m')).
  { intros t m0 m0'. unfold push_item. destruct (stack m0) as [|[[k o] items] st'] eqn:E; [discriminate|].
    intros H Hb; inversion H; subst; simpl. eapply bottom_ok_replace_head; eauto. }
  destruct e; simpl.
  - intros H Hb; inversion H; subst. rewrite inc_stack. exact Hb.
  - apply Hpush.
  - apply Hpush.
  - unfold drop. destruct (win m); [intros H Hb; inversion H; subst; exact Hb|apply Hpush].
  - intros H Hb; inversion H; subst; simpl. rewrite inc_stack. apply bottom_ok_cons; exact Hb.
  - destruct (stack m) as [|[[ko o] items] [|[[k2 o2] items2] st']] eqn:E; try discriminate.
    destruct (gkind_eqb ko k); [|discriminate].
    intros H Hb; inversion H; subst; simpl.
    apply bottom_ok_tail in Hb. eapply bottom_ok_replace_head; eauto.
  - discriminate.
  - discriminate.
Qed.

Lemma apply_effs_bottom es : forall m m', apply_effs es m = Ok m' -> bottom_ok (stack m) -> bottom_ok (stack m').
Proof.
  induction es as [|e es IH]; simpl; intros m m' H Hb.
  - inversion H; subst; exact Hb.
  - destruct (apply_eff e m) as [m1|x] eqn:E; [|discriminate].
    eapply IH; eauto. eapply apply_eff_bottom; eauto.
Qed.

(* ---------- alignment ---------- *)
(* how far an effect moves pos_now *)
Definition eff_adv (e : eff) : nat :=
  match e with EInc | EOpen _ | EClose _ => 1%nat | _ => 0%nat end.
Definition effs_adv (es : list eff) : nat := fold_right (fun e n => (eff_adv e + n)%nat) 0%nat es.
Definition eff_stops (e : eff) : bool := match e with EFail | ECrash => true | _ => false end.

(* position: number of characters still pending, counted with the overshoot *)
Definition aligned (m : gmem) (pending : str) : Prop := rest m = pending /\ over m = 0%nat.

Lemma apply_eff_rest e m m' :
  apply_eff e m = Ok m' ->
  (eff_adv e = 0%nat /\ rest m' = rest m /\ over m' = over m) \/
  (eff_adv e = 1%nat /\ rest m' = rest (inc m) /\ over m' = over (inc m)).
Proof.
  assert (Hpush : forall t m m', push_item t m = Ok m' -> rest m' = rest m /\ over m' = over m).
  { intros t m0 m0'. unfold push_item. destruct (stack m0) as [|[[k o] items] st']; [discriminate|].
    intros H; inversion H; subst; simpl; auto. }
  destruct e; simpl; intros H.
  - right. inversion H; subst; auto.
  - left. split; [reflexivity|]. eapply Hpush; eauto.
  - left. split; [reflexivity|]. eapply Hpush; eauto.
  - left. split; [reflexivity|]. unfold drop in H. destruct (win m).
    + inversion H; subst; auto.
    + eapply Hpush; eauto.
  - right. inversion H; subst; simpl; auto.
  - right. destruct (stack m) as [|[[ko o] items] [|[[k2 o2] items2] st']]; try discriminate.
    destruct (gkind_eqb ko k); [|discriminate]. inversion H; subst; simpl; auto.
  - discriminate.
  - discriminate.
Qed.

Lemma apply_effs_one_adv es : forall m m' c r,
  apply_effs es m = Ok m' -> effs_adv es = 1%nat -> rest m = c :: r -> over m = 0%nat ->
  rest m' = r /\ over m' = 0%nat.
Proof.
  induction es as [|e es IH]; simpl; intros m m' c r H Hadv Hr Ho; [discriminate|].
  destruct (apply_eff e m) as [m1|x] eqn:E; [|discriminate].
  destruct (apply_eff_rest _ _ _ E) as [(Ha & Hr1 & Ho1)|(Ha & Hr1 & Ho1)].
  - eapply (IH m1 m' c r); [exact H|lia|congruence|congruence].
  - assert (Hz : effs_adv es = 0%nat) by lia.
    unfold inc in Hr1, Ho1. rewrite Hr in Hr1, Ho1. simpl in Hr1, Ho1.
    clear IH Hadv E. revert m1 m' H Hr1 Ho1 Hz.
    induction es as [|e' es IH']; simpl; intros m1 m' H Hr1 Ho1 Hz.
    + inversion H; subst; split; congruence.
    + destruct (apply_eff e' m1) as [m2|x] eqn:E'; [|discriminate].
      destruct (apply_eff_rest _ _ _ E') as [(Ha' & Hr2 & Ho2)|(Ha' & _)]; [|lia].
      eapply (IH' m2 m'); [exact H|congruence|congruence|lia].
Qed.

Lemma apply_effs_zero_adv es : forall m m',
  apply_effs es m = Ok m' -> effs_adv es = 0%nat -> rest m' = rest m /\ over m' = over m.
Proof.
  induction es as [|e es IH]; simpl; intros m m' H Hz.
  - inversion H; subst; auto.
  - destruct (apply_eff e m) as [m1|x] eqn:E; [|discriminate].
    destruct (apply_eff_rest _ _ _ E) as [(Ha & Hr1 & Ho1)|(Ha & _)]; [|lia].
    destruct (IH _ _ H ltac:(lia)) as [H1 H2]. split; congruence.
Qed.

Lemma apply_effs_stops es : forall m m', apply_effs es m = Ok m' -> existsb eff_stops es = false.
Proof.
  induction es as [|e es IH]; simpl; intros m m' H; [reflexivity|].
  destruct (apply_eff e m) as [m1|x] eqn:E; [|discriminate].
  rewrite (IH _ _ H), orb_false_r. destruct e; simpl in *; try reflexivity; discriminate.
Qed.

Lemma classify_lt c : (classify c < n_classes)%nat.
Proof.
  unfold classify.
  assert (H : forallb (fun p => Nat.ltb (snd p) n_classes) char_classes = true) by (vm_compute; reflexivity).
  assert (H0 : (0 < n_classes)%nat) by (vm_compute; lia).
  revert H. generalize char_classes. induction l as [|[c' k] l IH]; simpl; intros H; [exact H0|].
  apply andb_true_iff in H as [H1 H2]. destruct (N.eqb c c'); [apply Nat.ltb_lt; exact H1|apply IH; exact H2].
Qed.

Section Aligned.
  Context {S : Type}.
  Variable step : S -> nat -> S * list eff.
  Variable accept : S -> bool.
  Variable reach : S -> Prop.                     (* an over-approximation of the reachable states *)
  Hypothesis reach_step : forall s k, reach s -> reach (fst (step s k)).
  (* every macro step on a character either stops or moves the position by exactly one *)
  Hypothesis step_adv : forall s k, reach s -> (k < n_classes)%nat ->
    existsb eff_stops (snd (step s k)) = true \/ effs_adv (snd (step s k)) = 1%nat.

  Lemma run_chars_aligned cs : forall s m s' m' pending,
    reach s -> run_chars step s m cs = Ok (s', m') -> rest m = cs ++ pending -> over m = 0%nat ->
    reach s' /\ rest m' = pending /\ over m' = 0%nat /\ consumed m' ++ rest m' = consumed m ++ rest m
    /\ (bottom_ok (stack m) -> bottom_ok (stack m')).
  Proof.
    induction cs as [|c cs IH]; simpl; intros s m s' m' pending Hr H Hrest Hover.
    - inversion H; subst. auto.
    - destruct (step s (classify c)) as [s1 es] eqn:Es.
      destruct (apply_effs es m) as [m1|x] eqn:Ea; [|discriminate].
      pose proof (reach_step s (classify c) Hr) as Hr1. rewrite Es in Hr1. simpl in Hr1.
      destruct (step_adv s (classify c) Hr (classify_lt c)) as [Hs|Hs]; rewrite Es in Hs; simpl in Hs.
      + rewrite (apply_effs_stops _ _ _ Ea) in Hs. discriminate.
      + destruct (apply_effs_one_adv _ _ _ _ _ Ea Hs Hrest Hover) as [Hr2 Ho2].
        destruct (IH _ _ _ _ _ Hr1 H Hr2 Ho2) as (A & B & C & D & E).
        repeat split; auto.
        * rewrite D. eapply apply_effs_consumed; eauto.
        * intros Hb. apply E. eapply apply_effs_bottom; eauto.
  Qed.
End Aligned.
