(* Whitespace is invisible at ANY bracket depth (C09).  Two lexer memories that agree on the window, the remaining text and the bracket kinds,
   and whose items agree after erasing the ghost parts (skipped runs, opener / closer texts), stay so under every effect; hence the token trees of
   two runs that differ only by a ghost are equal.  With the table fact "a blank met in state WAIT is dropped and leaves the state in WAIT" this
   gives: an extra blank wherever the lexer stands between tokens changes nothing - for every continuation, balanced or not, accepted or not. *)
From Coq Require Import List NArith Bool Arith Lia.
Require Import Base.Common Gen.LexTable Lex.Model Lex.Invariants Lex.ImplFacts Lex.C04Proofs Lex.Compose Lex.Layout.
Import ListNotations.
Local Open Scope nat_scope.

Definition lvl_eq (a b : gkind * str * list ftok) : Prop := fst (fst a) = fst (fst b) /\ erase (rev (snd a)) = erase (rev (snd b)).
Definition GE (m m2 : gmem) : Prop :=
  win m2 = win m /\ rest m2 = rest m /\ over m2 = over m /\ Forall2 lvl_eq (stack m) (stack m2).

Lemma erase_app a b : erase (a ++ b) = erase a ++ erase b. Proof. unfold erase. apply flat_map_app. Qed.
Lemma erase_snoc items t : erase (rev (t :: items)) = erase (rev items) ++ erase1 t.
Proof. cbn [rev]. rewrite erase_app. unfold erase at 2. simpl. rewrite app_nil_r. reflexivity. Qed.

Lemma GE_inc m m2 : GE m m2 -> GE (inc m) (inc m2).
Proof. intros (Hw & Hr & Ho & Hs). unfold inc. rewrite Hr, Hw, Ho. destruct (rest m); repeat split; simpl; auto. Qed.

Lemma push_item_GE t t2 m m2 : GE m m2 -> erase1 t = erase1 t2 ->
  match push_item t m with
  | Ok m' => exists m2', push_item t2 m2 = Ok m2' /\ GE m' m2'
  | Err x => push_item t2 m2 = Err x
  end.
Proof.
  intros (Hw & Hr & Ho & Hs) Ht. unfold push_item. inversion Hs as [|[[k o] items] [[k2 o2] items2] st st2 [Hk He] Hrest E1 E2]; subst; [reflexivity|].
  eexists; split; [reflexivity|]. repeat split; simpl; auto. constructor; [|exact Hrest]. split; [exact Hk|]. cbn [snd fst] in *.
  rewrite !erase_snoc, He, Ht. reflexivity.
Qed.

Lemma apply_eff_GE e m m2 : GE m m2 ->
  match apply_eff e m with
  | Ok m' => exists m2', apply_eff e m2 = Ok m2' /\ GE m' m2'
  | Err x => apply_eff e m2 = Err x
  end.
Proof.
  intros HG. pose proof HG as (Hw & Hr & Ho & Hs). destruct e; cbn [apply_eff].
  - eexists; split; [reflexivity|apply GE_inc; exact HG].
  - rewrite Hw. apply push_item_GE; [exact HG|reflexivity].
  - rewrite Hw. apply push_item_GE; [exact HG|reflexivity].
  - unfold drop. rewrite Hw. destruct (win m) as [|c w] eqn:E; [eexists; split; [reflexivity|exact HG]|].
    rewrite <- E. pose proof (push_item_GE (FSkip (rev (win m))) (FSkip (rev (win m))) m m2 HG eq_refl) as P. exact P.
  - pose proof (GE_inc _ _ HG) as (Hw' & Hr' & Ho' & Hs'). eexists; split; [reflexivity|]. repeat split; simpl; auto.
    constructor; [split; reflexivity|exact Hs'].
  - pose proof (GE_inc _ _ HG) as (Hw' & Hr' & Ho' & _).
    inversion Hs as [|[[ka oa] ia] [[ka2 oa2] ia2] st st2 [Hk He] Hrest E1 E2]; subst; [reflexivity|]. cbn [fst snd] in Hk, He. subst ka2.
    inversion Hrest as [|[[kb ob] ib] [[kb2 ob2] ib2] st' st2' [Hkb Heb] Hrest' E3 E4]; subst; [reflexivity|]. cbn [fst snd] in Hkb, Heb. subst kb2.
    destruct (gkind_eqb ka k); [|reflexivity]. eexists; split; [reflexivity|]. repeat split; simpl; auto.
    constructor; [|exact Hrest']. split; [reflexivity|]. cbn [snd]. rewrite !erase_snoc, Heb. f_equal. unfold erase in He. simpl. rewrite He. reflexivity.
  - reflexivity.
  - reflexivity.
Qed.

Lemma apply_effs_GE es : forall m m2, GE m m2 ->
  match apply_effs es m with
  | Ok m' => exists m2', apply_effs es m2 = Ok m2' /\ GE m' m2'
  | Err x => apply_effs es m2 = Err x
  end.
Proof.
  induction es as [|e es IH]; intros m m2 HG; cbn [apply_effs]; [eexists; split; [reflexivity|exact HG]|].
  pose proof (apply_eff_GE e m m2 HG) as P. destruct (apply_eff e m) as [m1|x]; [|rewrite P; reflexivity].
  destruct P as (m21 & E & HG1). rewrite E. apply IH. exact HG1.
Qed.

Section RunG.
  Context {S : Type}.
  Variable step : S -> nat -> S * list eff.
  Variable accept : S -> bool.
  Lemma run_chars_GE : forall cs s m m2, GE m m2 ->
    match run_chars step s m cs with
    | Ok (s', m') => exists m2', run_chars step s m2 cs = Ok (s', m2') /\ GE m' m2'
    | Err x => run_chars step s m2 cs = Err x
    end.
  Proof.
    induction cs as [|c cs IH]; intros s m m2 HG; cbn [run_chars]; [eexists; split; [reflexivity|exact HG]|].
    destruct (step s (classify c)) as [s1 es]. pose proof (apply_effs_GE es m m2 HG) as P.
    destruct (apply_effs es m) as [m1|x]; [|rewrite P; reflexivity]. destruct P as (m21 & E & HG1). rewrite E. apply IH. exact HG1.
  Qed.
  Lemma finish_GE s m m2 : GE m m2 ->
    match finish step accept s m with
    | Ok tr => exists tr2, finish step accept s m2 = Ok tr2 /\ erase tr2 = erase tr
    | Err x => finish step accept s m2 = Err x
    end.
  Proof.
    intros HG. unfold finish. destruct (step s cls_end) as [s' es]. pose proof (apply_effs_GE es m m2 HG) as P.
    destruct (apply_effs es m) as [m'|x]; [|rewrite P; reflexivity]. destruct P as (m2' & E & (_ & _ & _ & Hs)). rewrite E.
    destruct (accept s'); [|reflexivity].
    inversion Hs as [|[[k o] items] [[k2 o2] items2] st st2 [Hk He] Hrest E1 E2]; subst; [reflexivity|].
    inversion Hrest; subst; [|reflexivity]. eexists; split; [reflexivity|]. cbn [snd] in He. symmetry. exact He.
  Qed.
End RunG.

(* ---------- an extra blank where the lexer stands between tokens ---------- *)
Definition erase_res (r : res (list ftok)) : res (list tok) := match r with Ok t => Ok (erase t) | Err e => Err e end.
Definition wait_blank (c : N) (tbl : list (list nat)) : bool :=
  let '(q, es) := impl_step tbl S_WAIT (classify c) in st_eqb q S_WAIT && effs_eqb es [EInc; EDrop].
Lemma wait_blank_7 mb : wait_blank 32 (table mb 7) = true /\ wait_blank 10 (table mb 7) = true.
Proof. destruct mb; vm_compute; split; reflexivity. Qed.

Section Blank.
  Variable tbl : list (list nat).
  Variable c : N.
  Hypothesis Hadv : adv_check tbl = true.
  Hypothesis Hops : ops_check tbl = true.
  Hypothesis Hwb : wait_blank c tbl = true.

  Theorem glex_extra_blank p1 p2 : end_state tbl p1 = Some S_WAIT ->
    erase_res (glex_full (impl_step tbl) impl_accept S_WAIT (p1 ++ c :: p2)) = erase_res (glex_full (impl_step tbl) impl_accept S_WAIT (p1 ++ p2)).
  Proof.
    unfold end_state, glex_full. intros Hq.
    destruct (run_chars (impl_step tbl) S_WAIT (init_mem p1) p1) as [[q1 m1]|e] eqn:R1; [|discriminate]. inversion Hq; subst q1; clear Hq.
    destruct (impl_run tbl Hadv Hops p1 S_WAIT (init_mem p1) S_WAIT m1 [] R1 (eq_sym (app_nil_r _)) eq_refl (J_init p1)) as (Hr1 & Ho1 & [Hw Hl] & _).
    assert (Hwin : win m1 = []) by (apply rev_nil_inv; exact Hw).
    destruct (levels_ok_nonempty _ Hl) as (k & o & items & st & Est).
    change (init_mem (p1 ++ c :: p2)) with (ext (init_mem p1) (c :: p2)). change (init_mem (p1 ++ p2)) with (ext (init_mem p1) p2).
    rewrite !run_chars_app.
    rewrite (run_chars_ext tbl Hadv p1 S_WAIT (init_mem p1) S_WAIT m1 (c :: p2) R1 eq_refl eq_refl).
    rewrite (run_chars_ext tbl Hadv p1 S_WAIT (init_mem p1) S_WAIT m1 p2 R1 eq_refl eq_refl).
    cbn [run_chars]. unfold wait_blank in Hwb. destruct (impl_step tbl S_WAIT (classify c)) as [qb eb]. apply andb_true_iff in Hwb as [H1 H2].
    apply st_eqb_eq in H1. apply effs_eqb_eq in H2. subst qb eb.
    assert (Hb : apply_effs [EInc; EDrop] (ext m1 (c :: p2)) = Ok (mkmem [] p2 0 ((k, o, FSkip [c] :: items) :: st))).
    { unfold ext. rewrite Hr1, Hwin, Ho1, Est. reflexivity. }
    rewrite Hb.
    assert (HG : GE (ext m1 p2) (mkmem [] p2 0 ((k, o, FSkip [c] :: items) :: st))).
    { unfold ext. rewrite Hr1, Hwin, Ho1, Est. repeat split; simpl; auto. constructor.
      - split; [reflexivity|]. cbn [snd]. rewrite erase_snoc. simpl. rewrite app_nil_r. reflexivity.
      - clear. induction st as [|x st IH]; constructor; [split; reflexivity|exact IH]. }
    pose proof (run_chars_GE (impl_step tbl) p2 S_WAIT _ _ HG) as P.
    destruct (run_chars (impl_step tbl) S_WAIT (ext m1 p2) p2) as [[q2 m2]|x].
    - destruct P as (m2' & E & HG2). rewrite E. pose proof (finish_GE (impl_step tbl) impl_accept q2 m2 m2' HG2) as F.
      destruct (finish (impl_step tbl) impl_accept q2 m2) as [tr|x]; [destruct F as (tr2 & E2 & He); rewrite E2; simpl; rewrite He; reflexivity|rewrite F; reflexivity].
    - rewrite P. reflexivity.
  Qed.
End Blank.

(* for the lexer entry point with the shipped flags: an extra blank / line break after a prefix that leaves the lexer between tokens is invisible,
   whatever follows - inside brackets as well, and also when the whole text is rejected (the same error) *)
Theorem lex_extra_blank mb p1 p2 : preproc (p1 ++ 32%N :: p2) = p1 ++ 32%N :: p2 -> preproc (p1 ++ p2) = p1 ++ p2 ->
  end_state (table mb 7) p1 = Some S_WAIT -> lex mb 7 (p1 ++ 32%N :: p2) = lex mb 7 (p1 ++ p2).
Proof.
  intros P1 P2 Hq. unfold lex, lex_full. rewrite P1, P2.
  pose proof (glex_extra_blank (table mb 7) 32 (adv_check_cfg mb 7 ltac:(lia)) (ops_check_cfg_mb mb 7 ltac:(lia)) (proj1 (wait_blank_7 mb)) p1 p2 Hq) as H.
  unfold erase_res in H. destruct (glex_full _ _ _ (p1 ++ 32%N :: p2)), (glex_full _ _ _ (p1 ++ p2)); congruence.
Qed.

Theorem lex_extra_newline mb p1 p2 : preproc (p1 ++ 10%N :: p2) = p1 ++ 10%N :: p2 -> preproc (p1 ++ p2) = p1 ++ p2 ->
  end_state (table mb 7) p1 = Some S_WAIT -> lex mb 7 (p1 ++ 10%N :: p2) = lex mb 7 (p1 ++ p2).
Proof.
  intros P1 P2 Hq. unfold lex, lex_full. rewrite P1, P2.
  pose proof (glex_extra_blank (table mb 7) 10 (adv_check_cfg mb 7 ltac:(lia)) (ops_check_cfg_mb mb 7 ltac:(lia)) (proj2 (wait_blank_7 mb)) p1 p2 Hq) as H.
  unfold erase_res in H. destruct (glex_full _ _ _ (p1 ++ 10%N :: p2)), (glex_full _ _ _ (p1 ++ p2)); congruence.
Qed.
(* texts without CR / TAB / U+3000 are fixed points of the character pre-pass *)
Theorem lex_extra_layout_plain mb (c : N) p1 p2 : (c = 32%N \/ c = 10%N) -> forallb plain_char p1 = true -> forallb plain_char p2 = true ->
  end_state (table mb 7) p1 = Some S_WAIT -> lex mb 7 (p1 ++ c :: p2) = lex mb 7 (p1 ++ p2).
Proof.
  intros Hc H1 H2 Hq.
  assert (Pa : preproc (p1 ++ c :: p2) = p1 ++ c :: p2) by (apply preproc_plain; rewrite forallb_app, H1; cbn [forallb]; rewrite H2; destruct Hc; subst; reflexivity).
  assert (Pb : preproc (p1 ++ p2) = p1 ++ p2) by (apply preproc_plain; rewrite forallb_app, H1, H2; reflexivity).
  destruct Hc; subst; [apply lex_extra_blank|apply lex_extra_newline]; assumption.
Qed.
