(* C20 (lexer half) proofs. *)
From Coq Require Import List NArith Bool Arith Lia.
Require Import Base.Common Gen.LexTable Lex.Model Lex.Invariants Lex.ImplFacts Lex.C04Proofs Lex.Spec Lex.Product Lex.C05Defs Lex.C05Proofs Lex.C20Defs.
Import ListNotations.
Open Scope N_scope.

Lemma sb_eqb_eq a b : sb_eqb a b = true -> a = b.
Proof.
  unfold sb_eqb. intros H. apply andb_true_iff in H as [H1 H2]. apply st_eqb_eq in H1. apply Bool.eqb_prop in H2.
  destruct a, b; simpl in *; congruence.
Qed.

Lemma norm_eqb c x : In x sigma_chars -> x <> other_repr -> N.eqb (norm c) x = N.eqb c x.
Proof.
  intros Hx Hne. unfold norm. destruct (inl c sigma_chars) eqn:E; [reflexivity|].
  destruct (N.eqb_spec c x) as [->|Hn].
  - apply inl_In in Hx. congruence.
  - apply N.eqb_neq. congruence.
Qed.

Lemma in_sigma_35 : In 35 sigma_chars. Proof. apply inl_In. vm_compute. reflexivity. Qed.
Lemma in_sigma_123 : In 123 sigma_chars. Proof. apply inl_In. vm_compute. reflexivity. Qed.

Lemma base_mon_step_norm f tb c : base_mon_step f tb (Some c) = base_mon_step f tb (Some (norm c)).
Proof.
  unfold base_mon_step. rewrite <- impl_stepI_norm. simpl.
  rewrite (norm_eqb c 35 in_sigma_35 ltac:(vm_compute; discriminate)). reflexivity.
Qed.

(* the monitor does not influence the effects *)
Lemma base_mon_step_eq f t b i :
  base_mon_step f (t, b) i = ((fst (impl_stepI (table false f) t i), is_hash i), snd (impl_stepI (table false f) t i)).
Proof. unfold base_mon_step. cbn [fst snd]. destruct (impl_stepI (table false f) t i); reflexivity. Qed.

Lemma feed_mon f : forall cs t b m,
  feed (base_mon_step f) (t, b) m cs = feed (impl_stepI (table false f)) t m cs.
Proof.
  induction cs as [|c cs IH]; intros t b m; cbn [feed].
  - rewrite base_mon_step_eq. reflexivity.
  - rewrite base_mon_step_eq. destruct (impl_stepI (table false f) t (Some c)) as [t' es]. cbn [fst snd].
    destruct (apply_effs es m); [apply IH|reflexivity].
Qed.

Lemma certM_all : forallb (fun f => closed_except st_eqb sb_eqb (impl_stepI (table true f)) (base_mon_step f) sigma_chars (devsM f) (RM f)
                                    && pair_mem st_eqb sb_eqb (S_WAIT, (S_WAIT, false)) (RM f)
                                    && forallb (fun d => ph_open_cell (fst (fst d)) (snd (fst d)) (snd d)) (devsM f)) (seq 0 8) = true.
Proof. vm_compute. reflexivity. Qed.

Lemma certM f : (f < 8)%nat ->
  closed_except st_eqb sb_eqb (impl_stepI (table true f)) (base_mon_step f) sigma_chars (devsM f) (RM f) = true
  /\ In (S_WAIT, (S_WAIT, false)) (RM f)
  /\ forallb (fun d => ph_open_cell (fst (fst d)) (snd (fst d)) (snd d)) (devsM f) = true.
Proof.
  intros Hf. pose proof certM_all as H. rewrite forallb_forall in H. specialize (H f ltac:(apply in_seq; lia)).
  apply andb_true_iff in H as [H H3]. apply andb_true_iff in H as [H1 H2]. split; [exact H1|]. split; [|exact H3].
  apply (pair_mem_In st_eqb sb_eqb st_eqb_eq sb_eqb_eq). exact H2.
Qed.

(* a cell whose monitor bit is off, or whose input is not '{', is not excluded *)
Lemma not_excluded f s t b i :
  forallb (fun d => ph_open_cell (fst (fst d)) (snd (fst d)) (snd d)) (devsM f) = true ->
  ph_open_cell s (t, b) i = false -> cell_mem st_eqb sb_eqb (s, (t, b), i) (devsM f) = false.
Proof.
  intros Hall Hc. unfold cell_mem. apply not_true_is_false. intros H. apply existsb_exists in H as [d [Hd He]].
  rewrite forallb_forall in Hall. specialize (Hall d Hd).
  unfold cell_eqb in He. simpl in He. apply andb_true_iff in He as [He Hi]. apply andb_true_iff in He as [Hs Ht].
  apply sb_eqb_eq in Ht. unfold ph_open_cell in *. rewrite <- Ht in Hall. simpl in Hall, Hc.
  destruct i as [c|], (snd d) as [c'|]; simpl in Hi; try discriminate.
  - apply N.eqb_eq in Hi. subst c'. congruence.
  - rewrite andb_false_r in Hall. discriminate.
Qed.

Lemma no_ph_avoids f : (f < 8)%nat -> forall cs s t b,
  has_ph_open b cs = false ->
  avoids st_eqb sb_eqb (impl_stepI (table true f)) (base_mon_step f) norm (devsM f) s (t, b) cs = true.
Proof.
  intros Hf. destruct (certM f Hf) as (_ & _ & Hall).
  induction cs as [|c cs IH]; intros s t b Hno; cbn [avoids].
  - rewrite (not_excluded f s t b None Hall); [reflexivity|]. unfold ph_open_cell. cbn [snd]. apply andb_false_r.
  - cbn [has_ph_open] in Hno. apply orb_false_iff in Hno as [H1 H2].
    rewrite (not_excluded f s t b (Some (norm c)) Hall).
    + cbn [negb andb]. destruct (stops (snd (impl_stepI (table true f) s (Some c)))); [reflexivity|]. cbn [orb].
      rewrite base_mon_step_eq. cbn [fst snd is_hash]. apply IH. exact H2.
    + unfold ph_open_cell. cbn [snd]. rewrite (norm_eqb c 123 in_sigma_123 ltac:(vm_compute; discriminate)). exact H1.
Qed.

(* the plug-in is a conservative extension of the base lexer *)
Theorem plugin_conservative f s : (f < 8)%nat ->
  has_ph_open false (preproc s) = false -> lex_full true f s = lex_full false f s.
Proof.
  intros Hf Hno. unfold lex_full.
  rewrite (glex_is_slex (table true f) (preproc s) (adv_check_cfg true f Hf) (ops_check_cfg_mb true f Hf)).
  rewrite (glex_is_slex (table false f) (preproc s) (adv_check_cfg false f Hf) (ops_check_cfg_mb false f Hf)).
  unfold slex_full. destruct (certM f Hf) as (Hc & Hin & _).
  rewrite (closed_sound st_eqb sb_eqb st_eqb_eq sb_eqb_eq (impl_stepI (table true f)) (base_mon_step f)
             sigma_chars norm norm_sigma (impl_stepI_norm (table true f)) (base_mon_step_norm f) (devsM f) (RM f) Hc
             (preproc s) S_WAIT (S_WAIT, false) (init_mem (preproc s)) Hin ltac:(discriminate)
             (no_ph_avoids f Hf (preproc s) S_WAIT S_WAIT false Hno)).
  rewrite feed_mon. reflexivity.
Qed.

(* pre-processing cannot create an opening placeholder mark *)
Lemma preproc_cons_other c s : c <> 13 -> preproc (c :: s) = (if N.eqb c 9 || N.eqb c 12288 then 32 else c) :: preproc s.
Proof.
  intros Hn. destruct c as [|p]; [reflexivity|].
  destruct p as [p|p|]; try reflexivity; destruct p as [p|p|]; try reflexivity;
  destruct p as [p|p|]; try reflexivity; destruct p as [p|p|]; try reflexivity.
  exfalso. apply Hn. reflexivity.
Qed.
Lemma preproc_cr_other d s : d <> 10 -> preproc (13 :: d :: s) = 13 :: preproc (d :: s).
Proof.
  intros Hn. destruct d as [|p]; [reflexivity|].
  destruct p as [p|p|]; try reflexivity; destruct p as [p|p|]; try reflexivity;
  destruct p as [p|p|]; try reflexivity; destruct p as [p|p|]; try reflexivity.
  exfalso. apply Hn. reflexivity.
Qed.

Lemma preproc_no_ph_n : forall n s b, (length s <= n)%nat -> has_ph_open b s = false -> has_ph_open b (preproc s) = false.
Proof.
  induction n as [|n IH]; intros s b Hlen H.
  - destruct s; [reflexivity|simpl in Hlen; lia].
  - destruct s as [|c s]; [reflexivity|]. simpl in Hlen.
    cbn [has_ph_open] in H. apply orb_false_iff in H as [H1 H2].
    assert (Hgen : has_ph_open b ((if N.eqb c 9 || N.eqb c 12288 then 32 else c) :: preproc s) = false).
    { cbn [has_ph_open]. destruct (N.eqb c 9 || N.eqb c 12288) eqn:E.
      - assert (Hc : N.eqb c 35 = false).
        { apply orb_true_iff in E as [E|E]; apply N.eqb_eq in E; subst; reflexivity. }
        rewrite Hc in H2. change (N.eqb 32 123) with false. change (N.eqb 32 35) with false.
        rewrite andb_false_r. cbn [orb]. apply IH; [lia|exact H2].
      - rewrite H1. cbn [orb]. apply IH; [lia|exact H2]. }
    destruct (N.eqb_spec c 13) as [->|Hn13].
    + destruct s as [|d s'].
      * exact Hgen.
      * destruct (N.eqb_spec d 10) as [->|Hn10].
        -- change (preproc (13 :: 10 :: s')) with (preproc (10 :: s')).
           apply IH; [simpl in *; lia|]. cbn [has_ph_open] in H2 |- *.
           change (N.eqb 10 123) with false. rewrite andb_false_r. cbn [orb].
           change (N.eqb 13 35) with false in H2. change (N.eqb 10 123) with false in H2. cbn [andb orb] in H2. exact H2.
        -- rewrite (preproc_cr_other d s' Hn10). exact Hgen.
    + rewrite (preproc_cons_other c s Hn13). exact Hgen.
Qed.

Lemma preproc_no_ph s : has_ph_open false s = false -> has_ph_open false (preproc s) = false.
Proof. apply (preproc_no_ph_n (length s)). lia. Qed.

(* ---------- plug-in = MyBatis specification lexer outside the known deviation families ---------- *)
Lemma cert_mb_all : forallb (fun f => closed_except st_eqb live_eqb (impl_stepI (table true f)) (spec_step true f) sigma_chars (devs_mb f) (Rmb f)
                                      && pair_mem st_eqb live_eqb (S_WAIT, []) (Rmb f)
                                      && forallb known_dev (devs_mb f)) (seq 0 8) = true.
Proof. vm_compute. reflexivity. Qed.

Theorem plugin_is_spec_outside_devs f s : (f < 8)%nat ->
  avoids_devs_mb f (preproc s) = true -> lex_full true f s = spec_lex_full true f s.
Proof.
  intros Hf Hav. unfold lex_full, spec_lex_full.
  rewrite (glex_is_slex (table true f) (preproc s) (adv_check_cfg true f Hf) (ops_check_cfg_mb true f Hf)).
  unfold slex_full.
  pose proof cert_mb_all as H. rewrite forallb_forall in H. specialize (H f ltac:(apply in_seq; lia)).
  apply andb_true_iff in H as [H _]. apply andb_true_iff in H as [Hc Hin].
  apply (pair_mem_In st_eqb live_eqb st_eqb_eq live_eqb_eq) in Hin.
  rewrite (closed_sound st_eqb live_eqb st_eqb_eq live_eqb_eq (impl_stepI (table true f)) (spec_step true f)
             sigma_chars norm norm_sigma (impl_stepI_norm (table true f)) (spec_step_norm true f) (devs_mb f) (Rmb f) Hc
             (preproc s) S_WAIT [] (init_mem (preproc s)) Hin ltac:(discriminate) Hav).
  reflexivity.
Qed.
