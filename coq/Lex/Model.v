(* Hand-written executable model of the lexer driver (lexical/fsm_machine.py), of the 17 operation classes
   (lexical/fsm_operate.py), of group rendering (lexical/amt_node.py) and of preproc_sql (common/basic.py).
   The transition tables are NOT here: they are regenerated from /repo into Gen/LexTable.v on every run.

   Definitions only; proofs live in Lex/*Proofs.v so that the model still runs when a proof breaks. *)
From Coq Require Import List NArith Bool Arith.
Require Import Base.Common Gen.LexTable.
Import ListNotations.
Open Scope N_scope.

(* ---------- token trees ---------- *)
Inductive gkind := KPar | KSlice.

(* "full" tokens: what the real lexer returns (FLeaf / FGroup) plus ghost information that the real lexer
   throws away: skipped text (FSkip) and the text dropped when a group was opened / closed. *)
Inductive ftok : Type :=
| FLeaf (src : str) (marks : N)
| FSkip (src : str)
| FGroup (otext : str) (kc : gkind) (ctext : str) (ts : list ftok).

Inductive tok : Type :=
| Leaf (src : str) (marks : N)
| Group (k : gkind) (ts : list tok).

Fixpoint erase1 (t : ftok) : list tok :=
  match t with
  | FLeaf s m => [Leaf s m]
  | FSkip _ => []
  | FGroup _ k _ ts => [Group k (flat_map erase1 ts)]
  end.
Definition erase (ts : list ftok) : list tok := flat_map erase1 ts.

Definition group_marks (k : gkind) : N := match k with KPar => MARK_PARENTHESIS | KSlice => MARK_ARRAY_INDEX end.

(* AMTBase.source : a group is rendered with the brackets of its kind (amt_node.py BRACKET_OPEN / BRACKET_CLOSE) *)
Definition open_ch (k : gkind) : N := match k with KPar => 40 | KSlice => 91 end.
Definition close_ch (k : gkind) : N := match k with KPar => 41 | KSlice => 93 end.
Fixpoint source (t : tok) : str :=
  match t with
  | Leaf s _ => s
  | Group k ts => [open_ch k] ++ flat_map source ts ++ [close_ch k]
  end.

(* every character the lexer consumed, in order (ghost) *)
Fixpoint flatten1 (t : ftok) : str :=
  match t with
  | FLeaf s _ => s
  | FSkip s => s
  | FGroup o _ c ts => o ++ flat_map flatten1 ts ++ c
  end.
Definition flatten (ts : list ftok) : str := flat_map flatten1 ts.

(* ---------- preproc_sql: replace CRLF by LF, TAB and U+3000 by a blank ---------- *)
Fixpoint preproc (s : str) : str :=
  match s with
  | 13 :: ((10 :: _) as s') => preproc s'        (* "\r\n" -> "\n" : drop the CR, continue at the LF *)
  | c :: s' => (if N.eqb c 9 || N.eqb c 12288 then 32 else c) :: preproc s'
  | [] => []
  end.

(* ---------- memory and primitive effects ---------- *)
Record gmem := mkmem {
  win : str;                        (* text[pos_start:pos_now], reversed *)
  rest : str;                       (* text[pos_now:] *)
  over : nat;                       (* how far pos_now ran past the end of the text *)
  stack : list (gkind * str * list ftok)  (* head = innermost level; each level: kind pushed by its opener
                                             (memory.brackets), text dropped by the opener (ghost), items reversed *)
}.

Definition gkind_eqb (a b : gkind) : bool :=
  match a, b with KPar, KPar | KSlice, KSlice => true | _, _ => false end.

Inductive eff : Type :=
| EInc                 (* memory.pos_now += 1 *)
| EEmit (m : N)        (* append AMTSingle(text[pos_start:pos_now], m); pos_start = pos_now *)
| EWord                (* same with marks looked up in HANDLE_WORD_TO_MARK_HASH *)
| EDrop                (* pos_start = pos_now *)
| EOpen (k : gkind)    (* pos_now += 1; pos_start = pos_now; stack.append([]); brackets.append(k) *)
| EClose (k : gkind)   (* if len(stack) <= 1 or brackets.pop() != k: raise; pos_now += 1; pos_start = pos_now; pop; append group *)
| EFail                (* raise LexicalParseError *)
| ECrash.              (* no table cell: KeyError escapes *)

Definition word_marks (src : str) : N :=
  match assoc (upper src) word_table with Some m => m | None => MARK_NAME end.

Definition inc (m : gmem) : gmem :=
  match rest m with
  | c :: r => mkmem (c :: win m) r (over m) (stack m)
  | [] => mkmem (win m) [] (S (over m)) (stack m)
  end.

Definition push_item (t : ftok) (m : gmem) : res gmem :=
  match stack m with
  | (k, o, items) :: st' => Ok (mkmem [] (rest m) (over m) ((k, o, t :: items) :: st'))
  | [] => Err (Crash 1)
  end.

(* a dropped empty window leaves no ghost *)
Definition drop (m : gmem) : res gmem :=
  match win m with
  | [] => Ok m
  | _ => push_item (FSkip (rev (win m))) m
  end.

Definition apply_eff (e : eff) (m : gmem) : res gmem :=
  match e with
  | EInc => Ok (inc m)
  | EEmit mk => push_item (FLeaf (rev (win m)) mk) m
  | EWord => push_item (FLeaf (rev (win m)) (word_marks (rev (win m)))) m
  | EDrop => drop m
  | EOpen k => let m1 := inc m in Ok (mkmem [] (rest m1) (over m1) ((k, rev (win m1), []) :: stack m1))
  | EClose k =>
      match stack m with
      | (ko, o, items) :: (k2, o2, items2) :: st' =>
          if gkind_eqb ko k then
            let m1 := inc m in
            Ok (mkmem [] (rest m1) (over m1) ((k2, o2, FGroup o k (rev (win m1)) (rev items) :: items2) :: st'))
          else Err LexErr
      | _ => Err LexErr
      end
  | EFail => Err LexErr
  | ECrash => Err (Crash 4)
  end.

Fixpoint apply_effs (es : list eff) (m : gmem) : res gmem :=
  match es with
  | [] => Ok m
  | e :: es' => match apply_eff e m with Ok m' => apply_effs es' m' | Err x => Err x end
  end.

Definition init_mem (text : str) : gmem := mkmem [] text 0 [(KPar, [], [])].

(* ---------- the generic driver (fsm_machine.py:47-62), parameterised by a transducer ---------- *)
Section Driver.
  Context {S : Type}.
  Variable step : S -> nat -> S * list eff.   (* state -> input class -> next state, effects of the macro step *)
  Variable accept : S -> bool.

  Fixpoint run_chars (s : S) (m : gmem) (cs : str) : res (S * gmem) :=
    match cs with
    | [] => Ok (s, m)
    | c :: cs' =>
        let '(s', es) := step s (classify c) in
        match apply_effs es m with
        | Ok m' => run_chars s' m' cs'
        | Err x => Err x
        end
    end.

  Definition finish (s : S) (m : gmem) : res (list ftok) :=
    let '(s', es) := step s cls_end in
    match apply_effs es m with
    | Ok m' =>
        if accept s' then
          match stack m' with
          | [(_, _, items)] => Ok (rev items)
          | _ => Err LexErr
          end
        else Err LexErr
    | Err x => Err x
    end.

  Definition glex_full (s0 : S) (text : str) : res (list ftok) :=
    match run_chars s0 (init_mem text) text with
    | Ok (s, m) => finish s m
    | Err x => Err x
    end.
End Driver.

(* ---------- the implementation's transducer: table cell -> operation -> effects ---------- *)
Definition cell (tbl : list (list nat)) (s : state) (k : nat) : opk :=
  nth (nth k (nth (st_idx s) tbl []) (length op_pool)) op_pool NoCell.

Definition op_effs (o : opk) : list eff :=
  match o with
  | MoveClean | MoveCleanWait => [EInc; EDrop]
  | CleanWait | CleanEnd => [EDrop]
  | AddCache _ => [EInc]
  | SetEnd => []
  | HandleWait m | HandleEnd m => [EEmit m]
  | WordWait | WordEnd => [EWord]
  | AddHandleWait m | AddHandle m => [EInc; EEmit m]
  | StartPar => [EOpen KPar]
  | StartSlice => [EOpen KSlice]
  | EndPar => [EClose KPar]
  | EndSlice => [EClose KSlice]
  | Raise => [EFail]
  | NoCell => [ECrash]
  end.

Definition op_next (o : opk) (s : state) : state :=
  match o with
  | MoveCleanWait | CleanWait | HandleWait _ | WordWait | AddHandleWait _ => S_WAIT
  | CleanEnd | SetEnd | HandleEnd _ | WordEnd => S_END
  | AddCache s' => s'
  | _ => s
  end.

(* return value of execute(): True = the character was consumed *)
Definition op_ret (o : opk) : bool :=
  match o with
  | CleanWait | HandleWait _ | WordWait => false
  | _ => true
  end.

Definition op_stops (o : opk) : bool := match o with Raise | NoCell => true | _ => false end.

(* one iteration of the character loop: handle, and a second handle if the first returned False;
   END is handled once *)
Definition impl_step (tbl : list (list nat)) (s : state) (k : nat) : state * list eff :=
  let o1 := cell tbl s k in
  if op_ret o1 || op_stops o1 || Nat.eqb k cls_end then (op_next o1 s, op_effs o1)
  else
    let s1 := op_next o1 s in
    let o2 := cell tbl s1 k in
    (op_next o2 s1, op_effs o1 ++ op_effs o2).

Definition st_eqb (a b : state) : bool := Nat.eqb (st_idx a) (st_idx b).
Definition impl_accept (s : state) : bool := st_eqb s S_END.

(* FSMMachine.parse / FSMMachineMyBatis.parse with the LEXICAL_IGNORE_* flags packed into `flags`
   (bit 0 space, bit 1 line break, bit 2 comment; 7 = shipped default) *)
Definition lex_full (mybatis : bool) (flags : nat) (s : str) : res (list ftok) :=
  glex_full (impl_step (table mybatis flags)) impl_accept S_WAIT (preproc s).

Definition lex (mybatis : bool) (flags : nat) (s : str) : res (list tok) :=
  match lex_full mybatis flags s with Ok ts => Ok (erase ts) | Err e => Err e end.
