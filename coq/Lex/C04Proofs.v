(* C04: tokenisation is lossless and brackets are faithfully nested -- proofs on the lexer model, for every
   input string, from the finite checks adv_check / ops_check / drop_free on the regenerated tables. *)
From Coq Require Import List NArith Bool Arith Lia.
Require Import Base.Common Gen.LexTable Lex.Model Lex.Invariants Lex.ImplFacts.
Import ListNotations.
Open Scope N_scope.

Lemma apply_effs_app es1 es2 m :
  apply_effs (es1 ++ es2) m = match apply_effs es1 m with Ok m1 => apply_effs es2 m1 | Err x => Err x end.
Proof.
  revert m. induction es1 as [|e es1 IH]; simpl; intros m; [reflexivity|].
  destruct (apply_eff e m); [apply IH|reflexivity].
Qed.

Lemma op_ret_false_adv o : op_ret o = false -> effs_adv (op_effs o) = 0%nat.
Proof. destruct o; simpl; intros H; try discriminate; reflexivity. Qed.

Lemma op_stops_effs o m : op_stops o = true -> exists x, apply_effs (op_effs o) m = Err x.
Proof. destruct o; simpl; intros H; try discriminate; eauto. Qed.

Lemma cls_end_is_n : cls_end = n_classes.
Proof. vm_compute. reflexivity. Qed.

Lemma ops_check_char tbl : ops_check tbl = true -> forall s k, (k < n_classes)%nat ->
  let o1 := cell tbl s k in
  op_ok s k o1 = true /\
  (op_ret o1 || op_stops o1 = true \/ op_ok (op_next o1 s) k (cell tbl (op_next o1 s) k) = true).
Proof.
  unfold ops_check. rewrite forallb_forall. intros H s k Hk. specialize (H s (all_states_complete s)).
  apply andb_true_iff in H as [H _]. rewrite forallb_forall in H.
  specialize (H k ltac:(apply in_seq; lia)). cbv zeta in H. apply andb_true_iff in H as [H1 H2].
  split; [exact H1|]. destruct (op_ret (cell tbl s k) || op_stops (cell tbl s k)); auto.
Qed.

Lemma ops_check_end tbl : ops_check tbl = true -> forall s, end_ok s (cell tbl s cls_end) = true.
Proof.
  unfold ops_check. rewrite forallb_forall. intros H s. specialize (H s (all_states_complete s)).
  apply andb_true_iff in H as [_ H]. exact H.
Qed.

(* one iteration of the character loop preserves the invariant *)
Lemma macro_J tbl s c r m m' :
  ops_check tbl = true -> rest m = c :: r -> J s m ->
  apply_effs (snd (impl_step tbl s (classify c))) m = Ok m' ->
  J (fst (impl_step tbl s (classify c))) m'.
Proof.
  intros Hchk Hrest HJ Ha.
  pose proof (classify_lt c) as Hlt.
  destruct (ops_check_char tbl Hchk s (classify c) Hlt) as [Hok1 Hok2].
  unfold impl_step in *. set (k := classify c) in *. set (o1 := cell tbl s k) in *.
  assert (Hne : Nat.eqb k cls_end = false) by (apply Nat.eqb_neq; rewrite cls_end_is_n; lia).
  rewrite Hne, orb_false_r in *.
  destruct (op_ret o1 || op_stops o1) eqn:E1; simpl in Ha |- *.
  - eapply (op_char_J s k o1 c r); eauto.
  - destruct Hok2 as [Hok2|Hok2]; [discriminate|].
    rewrite apply_effs_app in Ha. destruct (apply_effs (op_effs o1) m) as [m1|x] eqn:Ea1; [|discriminate].
    apply orb_false_iff in E1 as [Er _].
    destruct (apply_effs_zero_adv _ _ _ Ea1 (op_ret_false_adv _ Er)) as [Hr1 _].
    eapply (op_char_J (op_next o1 s) k _ c r); [exact Hok2|reflexivity|rewrite Hr1; exact Hrest| |exact Ha].
    eapply (op_char_J s k o1 c r); eauto.
Qed.

Lemma impl_run tbl : adv_check tbl = true -> ops_check tbl = true -> forall cs s m s' m' pending,
  run_chars (impl_step tbl) s m cs = Ok (s', m') -> rest m = cs ++ pending -> over m = 0%nat -> J s m ->
  rest m' = pending /\ over m' = 0%nat /\ J s' m' /\ consumed m' ++ rest m' = consumed m ++ rest m.
Proof.
  intros Hadv Hops. induction cs as [|c cs IH]; simpl; intros s m s' m' pending H Hrest Hover HJ.
  - inversion H; subst. auto.
  - destruct (impl_step tbl s (classify c)) as [s1 es] eqn:Es.
    destruct (apply_effs es m) as [m1|x] eqn:Ea; [|discriminate].
    destruct (adv_check_char tbl Hadv s (classify c) (classify_lt c)) as [Hs|Hs]; rewrite Es in Hs; simpl in Hs.
    + rewrite (apply_effs_stops _ _ _ Ea) in Hs. discriminate.
    + destruct (apply_effs_one_adv _ _ _ _ _ Ea Hs Hrest Hover) as [Hr2 Ho2].
      assert (HJ1 : J s1 m1).
      { pose proof (macro_J tbl s c (cs ++ pending) m m1 Hops Hrest HJ) as HH. rewrite Es in HH. apply HH. exact Ea. }
      destruct (IH _ _ _ _ _ H Hr2 Ho2 HJ1) as (A & B & C & D).
      split; [exact A|]. split; [exact B|]. split; [exact C|]. rewrite D. eapply apply_effs_consumed; eauto.
Qed.

Lemma J_init text : J S_WAIT (init_mem text).
Proof.
  split; [reflexivity|]. simpl. split.
  - exists [], KPar, []. split; [reflexivity|constructor].
  - constructor; [reflexivity|constructor].
Qed.

(* the accepting end *)
Lemma impl_finish tbl s m tr :
  adv_check tbl = true -> ops_check tbl = true -> J s m -> rest m = [] ->
  finish (impl_step tbl) impl_accept s m = Ok tr ->
  flatten tr = consumed m /\ forallb node_okb tr = true.
Proof.
  intros Hadv Hops [Hw Hl] Hrest. unfold finish, impl_step. rewrite Nat.eqb_refl, !orb_true_r.
  pose proof (ops_check_end tbl Hops s) as He. set (o := cell tbl s cls_end) in *.
  destruct (apply_effs (op_effs o) m) as [m'|x] eqn:Ea; [|discriminate].
  destruct (impl_accept (op_next o s)) eqn:Eacc; [|discriminate].
  assert (Hcons : consumed m' ++ rest m' = consumed m ++ rest m) by (eapply apply_effs_consumed; eauto).
  unfold end_ok in He. unfold impl_accept in Eacc. rewrite Eacc in He. simpl in He.
  assert (Hm' : win m' = [] /\ levels_ok (stack m') /\ rest m' = []).
  { destruct o; simpl in He, Ea; try discriminate.
    - (* CleanEnd *)
      destruct (drop m) as [m1|x] eqn:Ed; [|discriminate]. inversion Ea; subst m1.
      destruct (drop_J m m' Ed Hl) as (A & B & C).
      + apply orb_true_iff in He as [Hs|Hs]; [apply orb_true_iff in Hs as [Hs|Hs]|].
        * apply st_eqb_eq in Hs. subst s. simpl in Hw. destruct Hw as (b & [Hw|Hw] & Hb); right; rewrite Hw; simpl; exact Hb.
        * apply st_eqb_eq in Hs. subst s. simpl in Hw. right. rewrite Hw. reflexivity.
        * left. apply rev_nil_inv. eapply empty_st_wp; eauto.
      + split; [exact A|]. split; [exact B|]. rewrite C; exact Hrest.
    - (* SetEnd *)
      inversion Ea; subst m'. split; [apply rev_nil_inv; eapply empty_st_wp; eauto|]. split; [exact Hl|exact Hrest].
    - (* HandleEnd *)
      destruct (push_item _ m) as [m1|x] eqn:Ep; [|discriminate]. inversion Ea; subst m1.
      split; [eapply push_item_win; eauto|]. split; [eapply levels_ok_push; eauto|].
      unfold push_item in Ep. destruct (stack m) as [|[[k o] items] st']; [discriminate|]. inversion Ep; simpl; auto.
    - (* WordEnd *)
      destruct (push_item _ m) as [m1|x] eqn:Ep; [|discriminate]. inversion Ea; subst m1.
      split; [eapply push_item_win; eauto|]. split; [eapply levels_ok_push; eauto|].
      unfold push_item in Ep. destruct (stack m) as [|[[k o] items] st']; [discriminate|]. inversion Ep; simpl; auto. }
  destruct Hm' as (Hwin & Hlev & Hr').
  destruct (stack m') as [|[[k ot] items] [|y st']] eqn:Est; try discriminate.
  intros H; inversion H; subst tr; clear H.
  destruct Hlev as [(outer & k0 & it0 & Hst & Hout) Hall].
  destruct outer as [|z outer]; simpl in Hst.
  - inversion Hst; subst. split.
    + rewrite Hrest, Hr', !app_nil_r in Hcons. rewrite <- Hcons. unfold consumed. rewrite Est, Hwin. simpl.
      rewrite app_nil_r. reflexivity.
    + apply Forall_cons_iff in Hall as [Hi _]. simpl in Hi. apply forallb_rev_ok. exact Hi.
  - inversion Hst. destruct outer; discriminate.
Qed.

Theorem impl_lex_full_ok tbl s tr :
  adv_check tbl = true -> ops_check tbl = true ->
  glex_full (impl_step tbl) impl_accept S_WAIT s = Ok tr ->
  flatten tr = s /\ forallb node_okb tr = true.
Proof.
  intros Hadv Hops. unfold glex_full.
  destruct (run_chars (impl_step tbl) S_WAIT (init_mem s) s) as [[s' m']|x] eqn:Er; [|discriminate].
  intros Hf.
  destruct (impl_run tbl Hadv Hops s S_WAIT (init_mem s) s' m' [] Er) as (A & B & C & D).
  - simpl. rewrite app_nil_r. reflexivity.
  - reflexivity.
  - apply J_init.
  - destruct (impl_finish tbl s' m' tr Hadv Hops C A Hf) as [E F]. split; [|exact F].
    rewrite E. rewrite A, app_nil_r in D. rewrite D. reflexivity.
Qed.

(* lossless accounting alone needs only adv_check (holds for the plug-in tables too) *)
Theorem impl_lex_full_lossless tbl s tr :
  adv_check tbl = true ->
  glex_full (impl_step tbl) impl_accept S_WAIT s = Ok tr ->
  exists w, flatten tr ++ w = s.
Proof.
  intros Hadv. unfold glex_full.
  destruct (run_chars (impl_step tbl) S_WAIT (init_mem s) s) as [[s' m']|x] eqn:Er; [|discriminate].
  intros Hf.
  destruct (run_chars_aligned (impl_step tbl) (fun _ => True) (fun _ _ _ => I)
              (fun s0 k _ Hk => adv_check_char tbl Hadv s0 k Hk) s S_WAIT (init_mem s) s' m' [] I Er) as (_ & A & B & C & D).
  - simpl. rewrite app_nil_r. reflexivity.
  - reflexivity.
  - unfold finish in Hf. destruct (impl_step tbl s' cls_end) as [s2 es] eqn:Es.
    destruct (apply_effs es m') as [m2|x] eqn:Ea; [|discriminate].
    destruct (impl_accept s2); [|discriminate].
    destruct (stack m2) as [|[[k o] items] [|y st']] eqn:Est; try discriminate.
    inversion Hf; subst tr; clear Hf.
    pose proof (apply_effs_consumed _ _ _ Ea) as Hc.
    assert (Hb : bottom_ok (stack m2)).
    { eapply apply_effs_bottom; eauto. apply D. exists KPar, [], []. reflexivity. }
    destruct Hb as (k0 & it0 & outer & Hb). rewrite Est in Hb.
    destruct outer as [|z outer]; simpl in Hb; [|inversion Hb; destruct outer; discriminate].
    inversion Hb; subst.
    exists (rev (win m2) ++ rest m2).
    rewrite C in Hc. simpl in Hc. rewrite <- Hc. unfold consumed. rewrite Est. simpl. rewrite <- !app_assoc. reflexivity.
Qed.

(* ---------- retention: with nothing ignored there is no skipped text ---------- *)
Definition is_drop (e : eff) : bool := match e with EDrop => true | _ => false end.
Definition drop_free (tbl : list (list nat)) : bool :=
  forallb (fun s => forallb (fun k => negb (existsb is_drop (snd (impl_step tbl s k)))) (seq 0 (S n_classes))) all_states.

Fixpoint no_skipb (t : ftok) : bool :=
  match t with
  | FLeaf _ _ => true
  | FSkip _ => false
  | FGroup _ _ _ ts => forallb no_skipb ts
  end.

Definition stack_no_skip (st : list (gkind * str * list ftok)) : Prop :=
  Forall (fun l => forallb no_skipb (snd l) = true) st.

Lemma apply_eff_no_skip e m m' :
  is_drop e = false -> apply_eff e m = Ok m' -> stack_no_skip (stack m) -> stack_no_skip (stack m').
Proof.
  assert (Hpush : forall t m m', no_skipb t = true -> push_item t m = Ok m' ->
                                 stack_no_skip (stack m) -> stack_no_skip (stack m')).
  { intros t m0 m0' Ht. unfold push_item. destruct (stack m0) as [|[[k o] items] st']; [discriminate|].
    intros H Hs; inversion H; subst; simpl. apply Forall_cons_iff in Hs as [H1 H2]. constructor; auto.
    simpl in *. rewrite Ht. exact H1. }
  destruct e; simpl; intros Hd H Hs; try discriminate.
  - inversion H; subst. rewrite inc_stack. exact Hs.
  - eapply Hpush; eauto. reflexivity.
  - eapply Hpush; eauto. reflexivity.
  - inversion H; subst; simpl. rewrite inc_stack. constructor; auto.
  - destruct (stack m) as [|[[ko o] items] [|[[k2 o2] items2] st']] eqn:E; try discriminate.
    destruct (gkind_eqb ko k); [|discriminate]. inversion H; subst; simpl.
    apply Forall_cons_iff in Hs as [H1 Hs]. apply Forall_cons_iff in Hs as [H2 Hs]. simpl in *.
    constructor; auto. simpl. rewrite (forallb_rev_ok _ _ H1). exact H2.
Qed.

Lemma apply_effs_no_skip es : forall m m',
  existsb is_drop es = false -> apply_effs es m = Ok m' -> stack_no_skip (stack m) -> stack_no_skip (stack m').
Proof.
  induction es as [|e es IH]; simpl; intros m m' Hd H Hs.
  - inversion H; subst; exact Hs.
  - apply orb_false_iff in Hd as [Hd1 Hd2].
    destruct (apply_eff e m) as [m1|x] eqn:E; [|discriminate].
    eapply IH; eauto. eapply apply_eff_no_skip; eauto.
Qed.

Lemma drop_free_step tbl : drop_free tbl = true -> forall s k, (k <= n_classes)%nat ->
  existsb is_drop (snd (impl_step tbl s k)) = false.
Proof.
  unfold drop_free. rewrite forallb_forall. intros H s k Hk. specialize (H s (all_states_complete s)).
  rewrite forallb_forall in H. specialize (H k ltac:(apply in_seq; lia)). apply negb_true_iff in H. exact H.
Qed.

Lemma run_no_skip tbl : drop_free tbl = true -> forall cs s m s' m',
  run_chars (impl_step tbl) s m cs = Ok (s', m') -> stack_no_skip (stack m) -> stack_no_skip (stack m').
Proof.
  intros Hd. induction cs as [|c cs IH]; simpl; intros s m s' m' H Hs.
  - inversion H; subst; exact Hs.
  - destruct (impl_step tbl s (classify c)) as [s1 es] eqn:Es.
    destruct (apply_effs es m) as [m1|x] eqn:Ea; [|discriminate].
    eapply IH; eauto. eapply apply_effs_no_skip; eauto.
    pose proof (drop_free_step tbl Hd s (classify c)) as HH. rewrite Es in HH. apply HH.
    pose proof (classify_lt c). lia.
Qed.

Theorem impl_lex_full_no_skip tbl s tr :
  drop_free tbl = true -> glex_full (impl_step tbl) impl_accept S_WAIT s = Ok tr -> forallb no_skipb tr = true.
Proof.
  intros Hd. unfold glex_full.
  destruct (run_chars (impl_step tbl) S_WAIT (init_mem s) s) as [[s' m']|x] eqn:Er; [|discriminate].
  pose proof (run_no_skip tbl Hd _ _ _ _ _ Er) as Hs.
  unfold finish. destruct (impl_step tbl s' cls_end) as [s2 es] eqn:Es.
  destruct (apply_effs es m') as [m2|x] eqn:Ea; [|discriminate].
  destruct (impl_accept s2); [|discriminate].
  destruct (stack m2) as [|[[k o] items] [|y st']] eqn:Est; try discriminate.
  intros H; inversion H; subst tr.
  assert (Hs2 : stack_no_skip (stack m2)).
  { eapply apply_effs_no_skip; eauto.
    - pose proof (drop_free_step tbl Hd s' cls_end) as HH. rewrite Es in HH. apply HH. rewrite cls_end_is_n. lia.
    - apply Hs. constructor; [reflexivity|constructor]. }
  rewrite Est in Hs2. apply Forall_cons_iff in Hs2 as [H1 _]. apply forallb_rev_ok. exact H1.
Qed.

(* without skips and with correct bracket texts, the concatenated token sources are the consumed text *)
Section FtokInd.
  Variable P : ftok -> Prop.
  Hypothesis Hleaf : forall s m, P (FLeaf s m).
  Hypothesis Hskip : forall s, P (FSkip s).
  Hypothesis Hgroup : forall o k c ts, Forall P ts -> P (FGroup o k c ts).
  Fixpoint ftok_ind2 (t : ftok) : P t :=
    match t with
    | FLeaf s m => Hleaf s m
    | FSkip s => Hskip s
    | FGroup o k c ts =>
        Hgroup o k c ts ((fix go (l : list ftok) : Forall P l :=
                            match l with [] => Forall_nil P | x :: l' => Forall_cons x (ftok_ind2 x) (go l') end) ts)
    end.
End FtokInd.

Lemma source_erase1 t : no_skipb t = true -> node_okb t = true -> flat_map source (erase1 t) = flatten1 t.
Proof.
  induction t as [s m|s|o k c ts IH] using ftok_ind2; simpl; intros Hn Hk.
  - apply app_nil_r.
  - discriminate.
  - apply andb_true_iff in Hk as [Hk Hts]. apply andb_true_iff in Hk as [Ho Hc].
    apply str_eqb_eq in Ho. apply str_eqb_eq in Hc. subst o c. rewrite app_nil_r. simpl. f_equal.
    f_equal.
    induction ts as [|t ts IHts]; simpl; [reflexivity|].
    simpl in Hn, Hts. apply andb_true_iff in Hn as [Hn1 Hn2]. apply andb_true_iff in Hts as [Ht1 Ht2].
    apply Forall_cons_iff in IH as [IH1 IH2].
    rewrite flat_map_app, (IH1 Hn1 Ht1), (IHts IH2 Hn2 Ht2). reflexivity.
Qed.

Lemma source_erase ts : forallb no_skipb ts = true -> forallb node_okb ts = true ->
  flat_map source (erase ts) = flatten ts.
Proof.
  unfold erase, flatten. induction ts as [|t ts IH]; simpl; intros Hn Hk; [reflexivity|].
  apply andb_true_iff in Hn as [Hn1 Hn2]. apply andb_true_iff in Hk as [Hk1 Hk2].
  rewrite flat_map_app, (source_erase1 t Hn1 Hk1), (IH Hn2 Hk2). reflexivity.
Qed.

(* ---------- the finite checks on the regenerated tables ---------- *)
Lemma adv_check_all : forallb (fun mb => forallb (fun f => adv_check (table mb f)) (seq 0 8)) [false; true] = true.
Proof. vm_compute. reflexivity. Qed.

Lemma ops_check_all : forallb (fun mb => forallb (fun f => ops_check (table mb f)) (seq 0 8)) [false; true] = true.
Proof. vm_compute. reflexivity. Qed.

Lemma drop_free_retain : drop_free (table false 0) = true.
Proof. vm_compute. reflexivity. Qed.

Lemma adv_check_cfg mb f : (f < 8)%nat -> adv_check (table mb f) = true.
Proof.
  intros Hf. pose proof adv_check_all as H. rewrite forallb_forall in H.
  specialize (H mb ltac:(destruct mb; simpl; auto)). rewrite forallb_forall in H. apply H. apply in_seq. lia.
Qed.

Lemma ops_check_cfg_mb mb f : (f < 8)%nat -> ops_check (table mb f) = true.
Proof.
  intros Hf. pose proof ops_check_all as H. rewrite forallb_forall in H.
  specialize (H mb ltac:(destruct mb; simpl; auto)). rewrite forallb_forall in H. apply H. apply in_seq. lia.
Qed.
Lemma ops_check_cfg f : (f < 8)%nat -> ops_check (table false f) = true.
Proof. apply ops_check_cfg_mb. Qed.
