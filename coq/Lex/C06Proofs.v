(* Lexer part of C06: the inside of a quoted region (string literal, back-quoted name, line / block comment) is opaque.
   While the machine is in a quote state, every character other than that state's few special characters (closing
   delimiter, backslash, line break, '*') only extends the pending window: state, token stack and nesting are untouched,
   whatever the characters are and however many there are. *)
From Coq Require Import List NArith Bool Arith Lia.
Require Import Base.Common Gen.LexTable Lex.Model Lex.Invariants Lex.ImplFacts Lex.C04Proofs.
Import ListNotations.
Open Scope N_scope.

(* quote states and the code points that are special inside them *)
Definition quote_states : list (state * list N) :=
  [ (S_IN_SINGLE_QUOTE, [39; 92]); (S_IN_DOUBLE_QUOTE, [34; 92]); (S_IN_BACK_QUOTE, [96]);
    (S_IN_EXPLAIN_1, [10]); (S_IN_EXPLAIN_2, [42]) ].

Definition eff_is_inc (es : list eff) : bool := match es with [EInc] => true | _ => false end.
Definition selfloop (tbl : list (list nat)) (s : state) (k : nat) : bool :=
  let '(s', es) := impl_step tbl s k in st_eqb s' s && eff_is_inc es.

(* finite check on the regenerated tables: in a quote state every character class that contains none of the special code
   points is a self loop that only moves the position *)
Definition opaque_ok (tbl : list (list nat)) : bool :=
  forallb (fun q => forallb (fun k => only k (snd q) || selfloop tbl (fst q) k) (seq 0 n_classes)) quote_states.
Lemma opaque_all : forallb (fun mb => forallb (fun f => opaque_ok (table mb f)) (seq 0 8)) [false; true] = true.
Proof. vm_compute. reflexivity. Qed.
Lemma opaque_cfg mb f : (f < 8)%nat -> opaque_ok (table mb f) = true.
Proof.
  intros Hf. pose proof opaque_all as H. rewrite forallb_forall in H.
  assert (Hm : In mb [false; true]) by (destruct mb; simpl; auto).
  specialize (H mb Hm). rewrite forallb_forall in H. apply H. apply in_seq. lia.
Qed.

Definition plain_for (specials : list N) (p : str) : Prop := Forall (fun c => ~ In c specials) p.

Lemma opaque_step tbl s specials c : opaque_ok tbl = true -> In (s, specials) quote_states -> ~ In c specials ->
  impl_step tbl s (classify c) = (s, [EInc]).
Proof.
  intros Hok Hq Hc. unfold opaque_ok in Hok. rewrite forallb_forall in Hok. specialize (Hok _ Hq). cbn [fst snd] in Hok.
  rewrite forallb_forall in Hok. specialize (Hok (classify c)). 
  assert (Hin : In (classify c) (seq 0 n_classes)) by (apply in_seq; pose proof (classify_lt c); lia).
  specialize (Hok Hin). apply orb_true_iff in Hok as [Hh|Hs].
  - exfalso. apply Hc. exact (only_In c (classify c) specials eq_refl Hh).
  - unfold selfloop in Hs. destruct (impl_step tbl s (classify c)) as [s' es]. apply andb_true_iff in Hs as [H1 H2].
    apply st_eqb_eq in H1. subst. destruct es as [|[] [|? ?]]; try discriminate. reflexivity.
Qed.

(* the payload only lands in the window *)
Fixpoint feed (m : gmem) (p : str) : gmem := match p with [] => m | _ :: p' => feed (inc m) p' end.
Lemma feed_spec : forall p m r, rest m = p ++ r ->
  rest (feed m p) = r /\ win (feed m p) = rev p ++ win m /\ stack (feed m p) = stack m /\ over (feed m p) = over m.
Proof.
  induction p as [|c p IH]; intros m r Hr; cbn [feed]; [cbn [app rev] in *; auto|].
  assert (Hi : rest (inc m) = p ++ r /\ win (inc m) = c :: win m /\ stack (inc m) = stack m /\ over (inc m) = over m).
  { unfold inc. rewrite Hr. cbn [app]. auto. }
  destruct Hi as (A & B & C & D). destruct (IH (inc m) r A) as (E & F & G & H).
  split; [exact E|]. split; [rewrite F, B; cbn [rev]; rewrite <- app_assoc; reflexivity|]. split; congruence.
Qed.

Theorem payload_run tbl s specials : opaque_ok tbl = true -> In (s, specials) quote_states ->
  forall p m cs, plain_for specials p -> run_chars (impl_step tbl) s m (p ++ cs) = run_chars (impl_step tbl) s (feed m p) cs.
Proof.
  intros Hok Hq. induction p as [|c p IH]; intros m cs Hp; [reflexivity|].
  inversion Hp; subst. cbn [app run_chars feed]. rewrite (opaque_step tbl s specials c Hok Hq H1). cbn [apply_effs apply_eff].
  apply IH. assumption.
Qed.

(* two payloads: same state, same stack, same remaining text afterwards -- only the window differs *)
Theorem payload_opaque tbl s specials : opaque_ok tbl = true -> In (s, specials) quote_states ->
  forall p1 p2 m cs r, plain_for specials p1 -> plain_for specials p2 ->
    let m1 := feed (mkmem (win m) (p1 ++ r) (over m) (stack m)) p1 in
    let m2 := feed (mkmem (win m) (p2 ++ r) (over m) (stack m)) p2 in
    run_chars (impl_step tbl) s (mkmem (win m) (p1 ++ r) (over m) (stack m)) (p1 ++ cs) = run_chars (impl_step tbl) s m1 cs /\
    run_chars (impl_step tbl) s (mkmem (win m) (p2 ++ r) (over m) (stack m)) (p2 ++ cs) = run_chars (impl_step tbl) s m2 cs /\
    stack m1 = stack m2 /\ rest m1 = rest m2 /\ over m1 = over m2 /\
    win m1 = rev p1 ++ win m /\ win m2 = rev p2 ++ win m.
Proof.
  intros Hok Hq p1 p2 m cs r H1 H2. cbv zeta.
  destruct (feed_spec p1 (mkmem (win m) (p1 ++ r) (over m) (stack m)) r eq_refl) as (A1 & B1 & C1 & D1).
  destruct (feed_spec p2 (mkmem (win m) (p2 ++ r) (over m) (stack m)) r eq_refl) as (A2 & B2 & C2 & D2).
  cbn [win stack over] in *.
  split; [apply (payload_run tbl s specials Hok Hq); assumption|].
  split; [apply (payload_run tbl s specials Hok Hq); assumption|].
  repeat split; congruence.
Qed.
