(* C05 definitions (no table-dependent proofs here, so that extraction still works when a certificate breaks):
   finite alphabet, the implementation as a transducer over (Some c | None), exploration of the product with the
   specification for each flag setting, region predicates, known-deviation families. *)
From Coq Require Import List NArith Bool Arith Lia.
Require Import Base.Common Gen.LexTable Lex.Model Lex.Invariants Lex.ImplFacts Lex.Spec Lex.Product.
Import ListNotations.
Open Scope N_scope.

(* ---------- finite alphabet and normalisation of arbitrary code points ---------- *)
Definition other_repr : N := 233.
Definition sigma_chars : list N := nodup N.eq_dec (map fst char_classes ++ spec_special ++ [other_repr]).
Definition norm (c : N) : N := if inl c sigma_chars then c else other_repr.


(* ---------- the implementation as a transducer over (Some c | None), acceptance folded into the effects,
   and the one-letter words b/B/x/X emitted through the keyword table (see view_ok) ---------- *)
Definition is_name_emit (e : eff) : bool := match e with EEmit m => N.eqb m MARK_NAME | _ => false end.
Definition view (s : state) (es : list eff) : list eff :=
  if st_eqb s S_AFTER_B || st_eqb s S_AFTER_X then
    match es with e :: es' => if is_name_emit e then EWord :: es' else es | [] => es end
  else es.

Definition impl_stepI (tbl : list (list nat)) (s : state) (i : option N) : state * list eff :=
  match i with
  | Some c => let '(s', es) := impl_step tbl s (classify c) in (s', view s es)
  | None => let '(s', es) := impl_step tbl s cls_end in (s', if impl_accept s' then view s es else view s es ++ [EFail])
  end.


Definition tclass_eqb (a b : tclass) : bool := Nat.eqb (tc_idx a) (tc_idx b).

Fixpoint live_eqb (a b : live) : bool :=
  match a, b with
  | [], [] => true
  | (t, q) :: a', (t', q') :: b' => tclass_eqb t t' && N.eqb q q' && live_eqb a' b'
  | _, _ => false
  end.

(* ---------- exploration of the product for each of the 8 flag settings, inside Coq ---------- *)
Definition tblf (f : nat) := table false f.
Definition explored_all := Eval vm_compute in
  map (fun f => explore st_eqb live_eqb (impl_stepI (tblf f)) (spec_step false f) sigma_chars (fun _ _ _ => false) 3000 [(S_WAIT, [], [])] [] [])
      (seq 0 8).
Definition explored (f : nat) := nth f explored_all ([], []).
Definition Rf (f : nat) : list (state * live) := fst (explored f).
Definition devs_paths (f : nat) : list (state * live * option N * str) := snd (explored f).
Definition devs (f : nat) : list (state * live * option N) := map fst (devs_paths f).


(* region predicate: the lock-step run of implementation and specification on this text meets no deviating cell *)
Definition avoids_devs (f : nat) (text : str) : bool :=
  avoids st_eqb live_eqb (impl_stepI (tblf f)) (spec_step false f) norm (devs f) S_WAIT [] text.

Definition spec_lex_full (mb : bool) (flags : nat) (s : str) : res (list ftok) :=
  slex_full (spec_step mb flags) [] (preproc s).
Definition spec_lex (mb : bool) (flags : nat) (s : str) : res (list tok) :=
  match spec_lex_full mb flags s with Ok ts => Ok (erase ts) | Err e => Err e end.


(* first deviating cell met by the lock-step run, if any (used by the harness to classify an input) *)
Fixpoint first_dev (f : nat) (s : state) (t : live) (cs : str) : option (state * live * option N) :=
  match cs with
  | [] => if cell_mem st_eqb live_eqb (s, t, None) (devs f) then Some (s, t, None) else None
  | c :: cs' =>
      if cell_mem st_eqb live_eqb (s, t, Some (norm c)) (devs f) then Some (s, t, Some (norm c))
      else if stops (snd (impl_stepI (tblf f) s (Some c))) then None
      else first_dev f (fst (impl_stepI (tblf f) s (Some c))) (fst (spec_step false f t (Some c))) cs'
  end.


(* ---------- every deviating cell belongs to a documented known-finding family ---------- *)
Definition live_has (t : tclass) (q : N) (l : live) : bool := existsb (fun p => tclass_eqb (fst p) t && N.eqb (snd p) q) l.
(* K-WORDTERM: # & ^ | ~ do not end a word / number *)
Definition dev_wordterm (s : state) (i : option N) : bool :=
  (st_eqb s S_IN_WORD || st_eqb s S_IN_INT || st_eqb s S_AFTER_B || st_eqb s S_AFTER_X) &&
  match i with Some c => inl c [35; 38; 94; 124; 126] | None => false end.
(* K-ZEROX: 0x.. / 0b.. are lexed as words: the word state, while the specification has a complete 0x / 0b literal *)
Definition dev_zerox (s : state) (t : live) : bool :=
  st_eqb s S_IN_WORD && (live_has T_HEX0X 3 t || live_has T_BIT0B 3 t).
(* K-FLOATTERM: a decimal literal directly followed by a character that does not end a number is rejected *)
Definition dev_floatterm (s : state) (i : option N) : bool :=
  st_eqb s S_IN_FLOAT && match i with Some c => negb (is_digit c) && negb (inl c [32; 10; 44; 59; 43; 45; 42; 47; 96; 60; 62; 33; 37; 40; 41; 34; 39; 61; 91; 93]) | None => false end.
Definition known_dev (d : state * live * option N) : bool :=
  let '(s, t, i) := d in dev_wordterm s i || dev_zerox s t || dev_floatterm s i.


Definition dev_family (d : state * live * option N) : N :=
  let '(s, t, i) := d in
  if dev_wordterm s i then 1 else if dev_zerox s t then 2 else if dev_floatterm s i then 3 else 0.
Definition classify_input (f : nat) (s : str) : N :=     (* 0 outside every region; 1..3 known family; 99 unknown deviation *)
  match first_dev f S_WAIT [] (preproc s) with
  | None => 0
  | Some d => match dev_family d with 0 => 99 | k => k end
  end.

