(* Dialect delivery: a generic path theorem over the call graph regenerated from core/parser.py (Gen/Flow.v).
   needs f  = f can reach a dialect-sensitive function (one that looks at sql_type itself).
   Checked by computation on the generated graph: (1) sensitive functions own a sql_type parameter, (2) `needs` is closed
   under "caller of", (3) every edge into a function that needs the dialect passes the caller's own sql_type.
   Proved once, for paths of ANY length through the (recursive) graph: along every call path that ends in a function
   that needs the dialect, every edge passes the dialect through unchanged. *)
From Coq Require Import List Bool String Arith Lia.
Require Import Gen.Flow.
Import ListNotations.
Open Scope string_scope.

Definition kind_is_param (k : fkind) : bool := match k with Param => true | _ => false end.
Definition mem (x : string) (l : list string) : bool := existsb (String.eqb x) l.

Section Graph.
  Variable funs : list pfun.
  Variable edges : list pedge.

  Definition sensitive_names : list string := map pf_name (filter pf_sensitive funs).
  Definition step_needs (cur : list string) : list string :=
    fold_left (fun acc e => if mem (pe_callee e) acc && negb (mem (pe_caller e) acc) then pe_caller e :: acc else acc) edges cur.
  Fixpoint iterate (n : nat) (cur : list string) : list string := match n with O => cur | S n' => iterate n' (step_needs cur) end.
  (* 30 rounds are enough on the shipped graph; soundness does not depend on the number: closedness is CHECKED below *)
  Definition needs_set : list string := iterate 30 sensitive_names.
  Definition needs (f : string) : bool := mem f needs_set.

  Definition graph_ok_with (ns : list string) : bool :=
    forallb (fun f => implb (pf_sensitive f) (pf_has_param f)) funs &&
    forallb (fun f => mem f ns) sensitive_names &&
    forallb (fun e => implb (mem (pe_callee e) ns) (mem (pe_caller e) ns)) edges &&
    forallb (fun e => implb (mem (pe_callee e) ns) (kind_is_param (pe_kind e))) edges.
  Definition graph_ok : bool := graph_ok_with needs_set.

  (* a call path: consecutive edges of the graph *)
  Fixpoint chain (p : list pedge) : Prop :=
    match p with
    | [] => True
    | e :: p' => In e edges /\ match p' with [] => True | e' :: _ => pe_callee e = pe_caller e' end /\ chain p'
    end.
  Definition target (p : list pedge) (dflt : string) : string := match rev p with e :: _ => pe_callee e | [] => dflt end.

  Lemma edge_facts : graph_ok = true -> forall e, In e edges -> needs (pe_callee e) = true ->
    needs (pe_caller e) = true /\ pe_kind e = Param.
  Proof.
    unfold graph_ok, graph_ok_with, needs. generalize needs_set as ns. intros ns H e He Hn. apply andb_true_iff in H as [H H4]. apply andb_true_iff in H as [H H3].
    rewrite forallb_forall in H3, H4. specialize (H3 e He). specialize (H4 e He). rewrite Hn in H3, H4. simpl in H3, H4.
    split; [exact H3|]. destruct (pe_kind e); simpl in H4; try discriminate. reflexivity.
  Qed.

  Lemma last_callee e p' d : p' <> [] -> target (e :: p') d = target p' d.
  Proof.
    intros Hp. unfold target. simpl. destruct (rev p') as [|x r] eqn:E.
    - apply (f_equal (@rev pedge)) in E. rewrite rev_involutive in E. simpl in E. contradiction.
    - reflexivity.
  Qed.

  Theorem dialect_delivered : graph_ok = true -> forall p d, p <> [] -> chain p -> needs (target p d) = true ->
    Forall (fun e => pe_kind e = Param) p /\ needs (match p with e :: _ => pe_caller e | [] => d end) = true.
  Proof.
    intros Hok. induction p as [|e p' IH]; intros d Hne Hc Hn; [contradiction|].
    destruct Hc as (He & Hlink & Hc').
    destruct p' as [|e' p''].
    - unfold target in Hn. simpl in Hn. destruct (edge_facts Hok e He Hn) as [A B]. split; [constructor; [exact B|constructor]|exact A].
    - rewrite last_callee in Hn by discriminate.
      destruct (IH d ltac:(discriminate) Hc' Hn) as [F N]. rewrite <- Hlink in N.
      destruct (edge_facts Hok e He N) as [A B]. split; [constructor; assumption|exact A].
  Qed.
End Graph.

(* printers: every call of a printer from a printer passes the dialect on, with the excused exceptions spelled out by the
   translator (receiver is a function-name node; constant inside a method specialised for that dialect) *)
Definition printer_ok : bool := forallb (fun c => pc_excused c) printer_calls.
