From Coq Require Import List Bool String Arith Lia.
Require Import Gen.Flow Flow.Dialect.
Import ListNotations.
Open Scope string_scope.

Lemma parser_graph_ok : graph_ok parser_funs parser_edges = true.
Proof. vm_compute. reflexivity. Qed.
Lemma plugin_graph_ok : graph_ok (parser_funs ++ plugin_funs) (parser_edges ++ plugin_edges) = true.
Proof. vm_compute. reflexivity. Qed.
Lemma printers_ok : printer_ok = true.
Proof. vm_compute. reflexivity. Qed.
(* the functions that look at the dialect themselves, and how many functions need it *)
Lemma sensitive_nonempty : (4 <= List.length (sensitive_names parser_funs))%nat /\ (40 <= List.length (needs_set parser_funs parser_edges))%nat.
Proof. vm_compute. split; repeat constructor. Qed.
Lemma entry_needs : needs parser_funs parser_edges "parse_statements" = true /\ needs parser_funs parser_edges "parse_select_statement" = true.
Proof. vm_compute. split; reflexivity. Qed.
