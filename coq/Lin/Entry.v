(* Entry point of the LINEAGE correspondence request *)
From Coq Require Import List NArith ZArith Bool String.
Require Import Base.Common Gen.LexTable Lex.Model Cur.Model Tree.Value Tree.Canon Gen.Static Parse.Prim Parse.Model Parse.Entry Print.Model Ana.Model Lin.Model.
Import ListNotations.
Open Scope string_scope.

Inductive lin_out := LSelect (l : tlin) | LInsert (l : list (src * list src)).

Definition lineage_text (cat : list (str * str)) (text : str) : res (res lin_out * list str) :=
  let provider := fun n => dlookup n cat in
  match parse_text false "statements" D_DEFAULT text with
  | Err e => Err e
  | Ok (VList [q]) =>
      if String.eqb (cls_of q) "ASTInsertSelectStatement" then
        match insert_lineage provider q init_state with
        | Ok (l, st) => Ok (Ok (LInsert l), st_asked st)
        | Err e => Ok (Err e, [])
        end
      else
        match select_lineage provider (Datatypes.S (Datatypes.S (vdepth q))) q init_state with
        | Ok (l, st) => Ok (Ok (LSelect (tl_all_columns l)), st_asked st)
        | Err e => Ok (Err e, [])
        end
  | Ok _ => Err ParseErr
  end.

(* the provider log alone, also when the analysis fails: run with a logging copy *)
Definition lineage_asked (cat : list (str * str)) (text : str) : list str :=
  match lineage_text cat text with Ok (_, a) => a | Err _ => [] end.
