(* Hand-written executable model of the lineage analyser: analyzer/data_linage/table_lineage.py, table_lineage_storage.py,
   table_lineage_analyzer.py, toolkit/current_level_table_name_analyzer.py, toolkit/current_level_sub_query.py and the
   in-memory part of analyzer/tool.py (CreateTableStatementGetter without a disk path).
   The schema provider is a parameter (name -> CREATE TABLE text); every request made to it is logged, in order. *)
From Coq Require Import List NArith ZArith Bool String Ascii.
Require Import Base.Common Gen.LexTable Lex.Model Cur.Model Tree.Value Tree.Canon Gen.Schema Gen.Static Parse.Prim Parse.Model Parse.Entry
               Print.Model Ana.Model Tree.Helpers.
Import ListNotations.
Open Scope string_scope.
Open Scope list_scope.

(* ---------- values of analyzer/node.py ---------- *)
Record scol := mks { sc_idx : Z; sc_name : str }.                                   (* StandardColumn *)
Record src := mksrc { s_schema : option str; s_table : str; s_column : option str }. (* SourceColumn *)
Definition tlin := list (scol * list src).                                         (* constructor argument of SelectTableLineage *)

(* dict written by a loop: the value of a later equal key wins, the key keeps its first position *)
Fixpoint dlookup {B} (k : str) (l : list (str * B)) : option B :=
  match l with
  | [] => None
  | (k', v) :: l' => match dlookup k l' with Some x => Some x | None => if str_eqb k k' then Some v else None end
  end.
Fixpoint dkeys {B} (l : list (str * B)) (seen : list str) : list str :=
  match l with
  | [] => []
  | (k, _) :: l' => if mem_str k seen then dkeys l' seen else k :: dkeys l' (k :: seen)
  end.
Definition dput {B} (k : str) (v : B) (l : list (str * B)) : list (str * B) := l ++ [(k, v)].

(* ---------- SelectTableLineage ---------- *)
Definition tl_names (t : tlin) : list str := map (fun p => sc_name (fst p)) t.
Definition tl_by_name_tbl (t : tlin) : list (str * list src) := map (fun p => (sc_name (fst p), snd p)) t.
Definition tl_std_tbl (t : tlin) : list (str * scol) := map (fun p => (sc_name (fst p), fst p)) t.
Definition tl_has_column (t : tlin) (n : str) : bool := mem_str n (tl_names t) || str_eqb n (S "*").
Definition tl_all_std (t : tlin) : list scol :=
  flat_map (fun n => match dlookup n (tl_std_tbl t) with Some c => [c] | None => [] end) (tl_names t).
Definition tl_by_name (t : tlin) (n : str) : res (list src) :=
  if str_eqb n (S "*") then
    Ok (flat_map (fun k => match dlookup k (tl_by_name_tbl t) with Some l => l | None => [] end) (dkeys (tl_by_name_tbl t) []))
  else match dlookup n (tl_by_name_tbl t) with Some l => Ok l | None => Err (Crash 4) end.          (* KeyError *)
Fixpoint tl_by_idx (t : tlin) (i : Z) : option (list src) :=
  match t with [] => None | (c, l) :: t' => match tl_by_idx t' i with Some x => Some x | None => if Z.eqb (sc_idx c) i then Some l else None end end.
Definition tl_all_columns (t : tlin) : list (scol * list src) :=
  flat_map (fun n => match dlookup n (tl_std_tbl t), dlookup n (tl_by_name_tbl t) with Some c, Some l => [(c, l)] | _, _ => [] end) (tl_names t).
Definition src_table_eqb (a b : option str * str) : bool :=
  match fst a, fst b with Some x, Some y => str_eqb x y | None, None => true | _, _ => false end && str_eqb (snd a) (snd b).
(* the set of upstream tables (a Python set: the model lists them in first-occurrence order; the harness compares as sets) *)
Definition tl_tables (t : tlin) : list (option str * str) :=
  fold_left (fun acc s => if existsb (src_table_eqb (s_schema s, s_table s)) acc then acc else acc ++ [(s_schema s, s_table s)])
            (flat_map snd t) [].

Definition tl_of_create (ast : value) : tlin :=
  let tn := get "table_name" ast in
  let schema := match get "schema_name" tn with VStr s => s | _ => [] end in
  let table := str_of (get "table_name" tn) in
  (fix go (i : Z) (cols : list value) : tlin :=
     match cols with
     | [] => []
     | c :: cols' => let n := str_of (get "column_name" c) in (mks i n, [mksrc (Some schema) table (Some n)]) :: go (i + 1)%Z cols'
     end) 0%Z (ftuple "columns" ast).

(* ---------- state: the getter's memory cache, the provider log, the storage's two dictionaries ---------- *)
Record lstate := mkst { st_mem : list (str * value); st_asked : list str; st_with : list (str * tlin); st_sub : list (str * tlin) }.
Definition LM (A : Type) := lstate -> res (A * lstate).

Section WithProvider.
  Variable provider : str -> option str.     (* get_sql: None = the provider raises (KeyError in the harness) *)

  (* CreateTableStatementGetter.get_statement without a disk path *)
  Definition get_statement (name : str) : LM value := fun st =>
    match dlookup name (st_mem st) with
    | Some ast => Ok (ast, st)
    | None =>
        let st1 := mkst (st_mem st) (st_asked st ++ [name]) (st_with st) (st_sub st) in
        match provider name with
        | None => Err (Crash 4)
        | Some sql =>
            match parse_text false "create_table_statement" D_DEFAULT sql with
            | Ok ast => Ok (ast, mkst (dput name ast (st_mem st1)) (st_asked st1) (st_with st1) (st_sub st1))
            | Err e => Err e
            end
        end
    end.

  Definition table_source (t : option str * str) : str :=       (* StandardTable.source() *)
    match fst t with Some s => if match s with [] => true | _ => false end then snd t else s ++ S "." ++ snd t | None => snd t end.

  (* TableLineageStorage.get_table_lineage: derived table, then WITH table, then the provider *)
  Definition get_table_lineage (t : option str * str) : LM tlin := fun st =>
    match dlookup (snd t) (st_sub st) with
    | Some l => Ok (l, st)
    | None =>
        match dlookup (snd t) (st_with st) with
        | Some l => Ok (l, st)
        | None => match get_statement (table_source t) st with Ok (ast, st') => Ok (tl_of_create ast, st') | Err e => Err e end
        end
    end.

  (* ---------- CurrentLevelTableNameAnalyzer / CurrentLevelSubQuery: dict-valued folds ---------- *)
  Fixpoint names_fold (fuel : nat) (v : value) : res (list (str * (option str * str))) :=
    match fuel with
    | O => Err OutOfFuel
    | Datatypes.S n =>
        let sub (l : list value) :=
          (fix go (l : list value) := match l with [] => Ok [] | x :: l' =>
             match names_fold n x with Ok a => match go l' with Ok b => Ok (a ++ b) | Err e => Err e end | Err e => Err e end end) l in
        match v with
        | VNode c fs =>
            if String.eqb c "ASTFromTable" then
              let nm := get "name" v in
              if String.eqb (cls_of nm) "ASTTableNameExpression" then
                let t := (opt_of (get "schema_name" nm), str_of (get "table_name" nm)) in
                let alias := match get "alias" v with VNone => snd t | a => str_of (get "name" a) end in
                Ok [(alias, t)]
              else if String.eqb (cls_of nm) "ASTSubQueryExpression" then
                match get "alias" v with
                | VNone => Err (Crash 2)                       (* node.alias.name on None *)
                | a => Ok [(str_of (get "name" a), (None, str_of (get "name" a)))]
                end
              else sub (map snd fs)
            else if String.eqb c "ASTSubQueryExpression" || String.eqb c "ASTWithClause" then Ok []
            else sub (map snd fs)
        | VTuple l | VList l => sub l
        | _ => Ok []
        end
    end.
  Definition table_names (q : value) : res (list (str * (option str * str))) := names_fold (Datatypes.S (vdepth q)) q.

  Fixpoint subq_fold (fuel : nat) (v : value) : res (list (str * value)) :=
    match fuel with
    | O => Err OutOfFuel
    | Datatypes.S n =>
        let sub (l : list value) :=
          (fix go (l : list value) := match l with [] => Ok [] | x :: l' =>
             match subq_fold n x with Ok a => match go l' with Ok b => Ok (a ++ b) | Err e => Err e end | Err e => Err e end end) l in
        match v with
        | VNode c fs =>
            if String.eqb c "ASTFromTable" && negb (match get "alias" v with VNone => true | _ => false end)
               && String.eqb (cls_of (get "name" v)) "ASTSubQueryExpression"
            then Ok [(str_of (get "name" (get "alias" v)), get "statement" (get "name" v))]
            else if String.eqb c "ASTSubQueryExpression" || String.eqb c "ASTWithClause" then Ok []
            else sub (map snd fs)
        | VTuple l | VList l => sub l
        | _ => Ok []
        end
    end.
  Definition sub_queries (q : value) : res (list (str * value)) := subq_fold (Datatypes.S (vdepth q)) q.

  Definition std_table (names : list (str * (option str * str))) (alias : str) : res (option str * str) :=
    match dlookup alias names with Some t => Ok t | None => Err AnalyzerErr end.
  Definition all_std_tables (names : list (str * (option str * str))) : list (option str * str) :=
    flat_map (fun k => match dlookup k names with Some t => [t] | None => [] end) (dkeys names []).

  (* ---------- select items -> (standard column, quoted columns) ---------- *)
  Definition bindM {A B} (m : LM A) (f : A -> LM B) : LM B := fun st => match m st with Ok (a, st') => f a st' | Err e => Err e end.
  Definition retM {A} (a : A) : LM A := fun st => Ok (a, st).
  Definition liftR {A} (r : res A) : LM A := fun st => match r with Ok a => Ok (a, st) | Err e => Err e end.
  Fixpoint mapM {A B} (f : A -> LM B) (l : list A) : LM (list B) :=
    match l with [] => retM [] | x :: l' => bindM (f x) (fun y => bindM (mapM f l') (fun ys => retM (y :: ys))) end.

  Definition wild_cols (alias : str) (names : list (str * (option str * str))) (i0 : Z) : LM (list (scol * list qcol) * Z) :=
    bindM (liftR (std_table names alias)) (fun t =>
    bindM (get_table_lineage t) (fun tl =>
      let cols := tl_all_std tl in
      retM ((fix go (i : Z) (l : list scol) := match l with [] => [] | c :: l' =>
               (mks i (sc_name c), [mkq (Some alias) (Some (sc_name c)) None]) :: go (i + 1)%Z l' end) i0 cols,
            (i0 + Z.of_nat (List.length cols))%Z))).

  Fixpoint items (cols : list value) (names : list (str * (option str * str))) (i : Z) : LM (list (scol * list qcol)) :=
    match cols with
    | [] => retM []
    | c :: cols' =>
        let v := get "value" c in
        let one (name : str) (qs : res (list qcol)) :=
          bindM (liftR qs) (fun q => bindM (items cols' names (i + 1)%Z) (fun r => retM ((mks i name, q) :: r))) in
        match get "alias" c with
        | VNone =>
            if String.eqb (cls_of v) "ASTWildcardExpression" then
              match get "table_name" v with
              | VStr a => bindM (wild_cols a names i) (fun p => bindM (items cols' names (snd p)) (fun r => retM (fst p ++ r)))
              | _ =>
                  (fix go (ks : list str) (i : Z) : LM (list (scol * list qcol)) :=
                     match ks with
                     | [] => items cols' names i
                     | k :: ks' => bindM (wild_cols k names i) (fun p => bindM (go ks' (snd p)) (fun r => retM (fst p ++ r)))
                     end) (dkeys names []) i
              end
            else if String.eqb (cls_of v) "ASTColumnNameExpression" then
              one (str_of (get "column_name" v)) (Ok [mkq (opt_of (get "table_name" v)) (opt_of (get "column_name" v)) None])
            else match src_default v with
                 | Ok s => one s (used_cols v)
                 | Err e => fun _ => Err e
                 end
        | a => one (str_of (get "name" a)) (used_cols v)
        end
    end.

  Definition single_items (s : value) (names : list (str * (option str * str))) : LM (list (scol * list qcol)) :=
    items (ftuple "columns" (get "select_clause" s)) names 1%Z.

  Fixpoint merge_cols (a b : list (scol * list qcol)) : list (scol * list qcol) :=
    match a, b with
    | (c, l) :: a', (_, l') :: b' => (c, l ++ l') :: merge_cols a' b'
    | _, _ => []
    end.

  Definition level_items (q : value) (names : list (str * (option str * str))) : LM (list (scol * list qcol)) :=
    if String.eqb (cls_of q) "ASTSingleSelectStatement" then single_items q names
    else if String.eqb (cls_of q) "ASTUnionSelectStatement" then
      (fix go (els : list value) (acc : option (list (scol * list qcol))) : LM (list (scol * list qcol)) :=
         match els with
         | [] => match acc with Some r => retM r | None => fun _ => Err (Crash 5) end      (* returns None: the caller iterates over it *)
         | e :: els' =>
             if String.eqb (cls_of e) "ASTSingleSelectStatement" then
               bindM (single_items e names) (fun m =>
                 match acc with
                 | None => go els' (Some m)
                 | Some r => if Nat.eqb (List.length m) (List.length r) then go els' (Some (merge_cols r m)) else fun _ => Err AnalyzerErr
                 end)
             else go els' acc
         end) (ftuple "elements" q) None
    else fun _ => Err AnalyzerErr.

  (* LATERAL VIEW: column name -> quoted columns of the generating function *)
  Definition single_lateral (s : value) : res (list (str * list qcol)) :=
    (fix go (l : list value) : res (list (str * list qcol)) :=
       match l with
       | [] => Ok []
       | lv :: l' =>
           match used_cols (get "function" lv), go l' with
           | Ok q, Ok r => Ok (map (fun n => (str_of n, q)) (ftuple "names" (get "alias" lv)) ++ r)
           | Err e, _ => Err e
           | _, Err e => Err e
           end
       end) (ftuple "lateral_view_clauses" s).
  Definition level_lateral (q : value) : res (list (str * list qcol)) :=
    if String.eqb (cls_of q) "ASTSingleSelectStatement" then single_lateral q
    else if String.eqb (cls_of q) "ASTUnionSelectStatement" then
      (fix go (els : list value) (acc : option (list (str * list qcol))) : res (list (str * list qcol)) :=
         match els with
         | [] => match acc with Some r => Ok r | None => Err (Crash 5) end
         | e :: els' =>
             if String.eqb (cls_of e) "ASTSingleSelectStatement" then
               match single_lateral e with
               | Err x => Err x
               | Ok m => match acc with
                         | None => go els' (Some m)
                         | Some r => if Nat.eqb (List.length m) (List.length r)
                                     then go els' (Some (map (fun p => (fst (fst p), snd (fst p) ++ snd (snd p))) (combine r m)))
                                     else Err (Crash 6)                   (* assert *)
                         end
               end
             else go els' acc
         end) (ftuple "elements" q) None
    else Err AnalyzerErr.

  (* _analyze_quote_column *)
  Definition resolve (names : list (str * (option str * str))) (qc : qcol) : LM (list src) :=
    match q_table qc with
    | Some t =>
        bindM (liftR (std_table names t)) (fun st_ =>
        bindM (get_table_lineage st_) (fun tl =>
          match q_column qc with
          | Some c => if tl_has_column tl c then liftR (tl_by_name tl c) else fun _ => Err AnalyzerErr
          | None => fun _ => Err AnalyzerErr          (* has_column(None) is False *)
          end))
    | None =>
        match q_column qc with
        | None =>
            bindM (mapM (fun t => bindM (get_table_lineage t) (fun tl => retM (map (fun x => mksrc (fst x) (snd x) None) (tl_tables tl))))
                        (all_std_tables names)) (fun ls => retM (List.concat ls))
        | Some c =>
            bindM (mapM (fun t => bindM (get_table_lineage t) (fun tl =>
                           if tl_has_column tl c then bindM (liftR (tl_by_name tl c)) (fun l => retM (Some l)) else retM None))
                        (all_std_tables names)) (fun hits =>
              match filter (fun h => match h with Some _ => true | None => false end) hits with
              | [Some l] => retM l
              | [] => fun _ => Err AnalyzerErr
              | _ => fun _ => Err AnalyzerErr
              end)
        end
    end.

  (* get_select_table_lineage *)
  Fixpoint select_lineage (fuel : nat) (q : value) : LM tlin :=
    match fuel with
    | O => fun _ => Err OutOfFuel
    | Datatypes.S n =>
        bindM (mapM (fun wt => bindM (select_lineage n (get "statement" wt)) (fun tl => fun st =>
                       Ok (tt, mkst (st_mem st) (st_asked st) (dput (str_of (get "name" wt)) tl (st_with st)) (st_sub st))))
                    (ftuple "tables" (get "with_clause" q))) (fun _ =>
        bindM (liftR (sub_queries q)) (fun subs =>
        bindM (mapM (fun k => match dlookup k subs with
                              | Some sq => bindM (select_lineage n sq) (fun tl => fun st =>
                                             Ok (tt, mkst (st_mem st) (st_asked st) (st_with st) (dput k tl (st_sub st))))
                              | None => retM tt
                              end) (dkeys subs [])) (fun _ =>
        bindM (liftR (table_names q)) (fun names =>
        bindM (liftR (level_lateral q)) (fun lat =>
        bindM (level_items q names) (fun its =>
          mapM (fun it =>
                  let qs := flat_map (fun qc => match q_table qc, q_column qc with
                                                | None, Some c => match dlookup c lat with Some l => l | None => [qc] end
                                                | _, _ => [qc]
                                                end) (snd it) in
                  bindM (mapM (resolve names) qs) (fun ss => retM (fst it, List.concat ss))) its))))))
    end.

  (* get_insert_table_lineage *)
  Definition insert_lineage (ins : value) : LM (list (src * list src)) :=
    let tn := get "table_name" ins in
    let mk c := mksrc (opt_of (get "schema_name" tn)) (str_of (get "table_name" tn)) (Some (str_of (get "column_name" c))) in
    bindM (match get "columns" ins with
           | VNone => bindM (get_statement (table_source (opt_of (get "schema_name" tn), str_of (get "table_name" tn))))
                            (fun ct => retM (map mk (ftuple "columns" ct)))
           | cols => retM (map mk (match cols with VTuple l | VList l => l | _ => [] end))
           end) (fun targets =>
    let sel := set_field "with_clause" (get "with_clause" ins) (get "select_statement" ins) in
    bindM (select_lineage (Datatypes.S (Datatypes.S (vdepth sel))) sel) (fun tl =>
      if negb (Nat.eqb (List.length targets) (List.length (tl_all_columns tl))) then fun _ => Err AnalyzerErr
      else (fix go (i : Z) (ts : list src) : LM (list (src * list src)) :=
              match ts with
              | [] => retM []
              | t :: ts' => match tl_by_idx tl i with
                            | Some l => bindM (go (i + 1)%Z ts') (fun r => retM ((t, l) :: r))
                            | None => fun _ => Err (Crash 4)
                            end
              end) 1%Z targets)).
End WithProvider.

Definition init_state : lstate := mkst [] [] [] [].
