(* Facts about the lineage and cache models used by Props/C16.v and Props/C17.v *)
From Coq Require Import List NArith ZArith Bool String Ascii Lia.
Require Import Base.Common Gen.LexTable Lex.Model Cur.Model Tree.Value Tree.Canon Tree.Helpers Gen.Schema Gen.Static Parse.Prim Parse.Model Parse.Entry
               Print.Model Ana.Model Lin.Model Lin.Entry Cache.Model Cache.Proofs.
Import ListNotations.
Open Scope string_scope.
Open Scope list_scope.

(* ---------- the provider is asked only when the name is neither a derived table nor a WITH table nor already in memory, and
   always under the one spelling StandardTable.source() ---------- *)
Lemma get_statement_asked provider name st ast st' : get_statement provider name st = Ok (ast, st') ->
  (st_asked st' = st_asked st /\ dlookup name (st_mem st) = Some ast) \/
  (st_asked st' = st_asked st ++ [name] /\ dlookup name (st_mem st) = None).
Proof.
  unfold get_statement. destruct (dlookup name (st_mem st)) as [a|] eqn:E.
  - intros H; inversion H; subst. left; auto.
  - destruct (provider name) as [sql|]; [|discriminate].
    destruct (parse_text false "create_table_statement" D_DEFAULT sql); [|discriminate].
    intros H; inversion H; subst. right; auto.
Qed.

Theorem lookup_minimal provider t st tl st' : get_table_lineage provider t st = Ok (tl, st') ->
  st_asked st' = st_asked st \/
  (st_asked st' = st_asked st ++ [table_source t] /\ dlookup (snd t) (st_sub st) = None /\ dlookup (snd t) (st_with st) = None
   /\ dlookup (table_source t) (st_mem st) = None).
Proof.
  unfold get_table_lineage. destruct (dlookup (snd t) (st_sub st)) eqn:E1; [intros H; inversion H; subst; left; reflexivity|].
  destruct (dlookup (snd t) (st_with st)) eqn:E2; [intros H; inversion H; subst; left; reflexivity|].
  destruct (get_statement provider (table_source t) st) as [[ast st1]|] eqn:G; [|discriminate].
  intros H; inversion H; subst. destruct (get_statement_asked _ _ _ _ _ G) as [[A _]|[A B]]; [left; exact A|right; auto].
Qed.

(* a base table's lineage: every column is its own single source, in declaration order, 0-based *)
Lemma base_lineage_shape ast : Forall (fun p => exists n, snd p = [mksrc (Some (match get "schema_name" (get "table_name" ast) with VStr s => s | _ => [] end))
                                                                        (str_of (get "table_name" (get "table_name" ast))) (Some n)] /\ sc_name (fst p) = n)
                                      (tl_of_create ast).
Proof.
  unfold tl_of_create. generalize 0%Z. induction (ftuple "columns" ast) as [|c cols IH]; intros z; [constructor|].
  constructor; [eexists; split; reflexivity|apply IH].
Qed.

(* ---------- computed instances on the parser + lineage models ---------- *)
Definition cat1 : list (str * str) :=
  [(S "t", S "CREATE TABLE t (a INT, b INT, c INT)"); (S "s.u", S "CREATE TABLE s.u (a INT, x INT)"); (S "tgt", S "CREATE TABLE tgt (p INT, q INT)")].
Definition E (s : string) : str := S s.
Definition sr (sc t c : string) : src := mksrc (Some (S sc)) (S t) (Some (S c)).
Definition src_eqb (a b : src) : bool :=
  match s_schema a, s_schema b with Some x, Some y => str_eqb x y | None, None => true | _, _ => false end && str_eqb (s_table a) (s_table b) &&
  match s_column a, s_column b with Some x, Some y => str_eqb x y | None, None => true | _, _ => false end.
Fixpoint leqb {A} (e : A -> A -> bool) (a b : list A) : bool :=
  match a, b with [], [] => true | x :: a', y :: b' => e x y && leqb e a' b' | _, _ => false end.
Fixpoint leqb2 {A B} (e : A -> B -> bool) (a : list A) (b : list B) : bool :=
  match a, b with [], [] => true | x :: a', y :: b' => e x y && leqb2 e a' b' | _, _ => false end.
Definition sel_is (text : string) (expect : list (string * list src)) (asked : list string) : bool :=
  match lineage_text cat1 (S text) with
  | Ok (Ok (LSelect l), a) =>
      leqb2 (fun p q => str_eqb (sc_name (fst p)) (S (fst q)) && leqb src_eqb (snd p) (snd q)) l expect && leqb str_eqb a (map S asked)
  | _ => false
  end.
Definition fails_with (text : string) (e : err) : bool :=
  match lineage_text cat1 (S text) with
  | Ok (Err x, _) => match x, e with AnalyzerErr, AnalyzerErr => true | _, _ => false end
  | _ => false
  end.

Definition c16_examples_ok : bool :=
  sel_is "SELECT a, b + c AS s FROM t" [("a", [sr "" "t" "a"]); ("s", [sr "" "t" "b"; sr "" "t" "c"])] ["t"]
  && sel_is "SELECT x1.*, u.x FROM t x1 JOIN s.u ON x1.a = u.a"
            [("a", [sr "" "t" "a"]); ("b", [sr "" "t" "b"]); ("c", [sr "" "t" "c"]); ("x", [sr "s" "u" "x"])] ["t"; "s.u"]
  && sel_is "WITH w AS (SELECT a AS k, b FROM t) SELECT d.k, d.b FROM (SELECT k, b FROM w) d" [("k", [sr "" "t" "a"]); ("b", [sr "" "t" "b"])] ["t"]
  && sel_is "SELECT t.a AS o FROM t UNION ALL SELECT u.x FROM s.u" [("o", [sr "" "t" "a"; sr "s" "u" "x"])] ["t"; "s.u"]
  && fails_with "SELECT a FROM t, s.u" AnalyzerErr
  && fails_with "SELECT zz FROM t" AnalyzerErr
  && fails_with "SELECT q.a FROM t" AnalyzerErr
  && fails_with "SELECT a, b FROM t UNION SELECT x FROM s.u" AnalyzerErr
  && fails_with "INSERT INTO tgt SELECT a FROM t" AnalyzerErr
  && fails_with "INSERT INTO tgt (p) SELECT a, b FROM t" AnalyzerErr
  && match lineage_text cat1 (S "INSERT INTO tgt SELECT a, b + c AS s FROM t") with
     | Ok (Ok (LInsert [(t1, [s1]); (t2, [s2; s3])]), asked) =>
         src_eqb t1 (mksrc None (S "tgt") (Some (S "p"))) && src_eqb t2 (mksrc None (S "tgt") (Some (S "q")))
         && src_eqb s1 (sr "" "t" "a") && src_eqb s2 (sr "" "t" "b") && src_eqb s3 (sr "" "t" "c") && leqb str_eqb asked [S "tgt"; S "t"]
     | _ => false
     end.
Lemma c16_examples : c16_examples_ok = true.
Proof. vm_compute. reflexivity. Qed.

(* ---------- the cache: names that the directory listing maps back to themselves ---------- *)
Definition nice (n : str) : bool := str_eqb (replace dot_sql [] (n ++ dot_sql)) n.
Lemma nice_roundtrip n : nice n = true -> replace dot_sql [] (n ++ dot_sql) = n.
Proof. unfold nice. intros H. apply str_eqb_eq. exact H. Qed.
Lemma nice_inj a b : nice a = true -> nice b = true -> a ++ dot_sql = b ++ dot_sql -> a = b.
Proof. intros _ _ H. exact (app_inv_tail _ _ _ H). Qed.

Definition prov1 (n : str) : option str := dlookup n cat1.
Definition cache_refuted_name : bool :=
  (* a table whose name contains ".sql": a second instance lists the file under another name and later fails to open it *)
  let p := fun n => if str_eqb n (S "a.sqlx") then Some (S "CREATE TABLE q (z INT)") else None in
  match snd (crun p empty_world [CNew true; CGet 0 (S "a.sqlx"); CNew true; CGet 1 (S "ax")]) with
  | [RNone; RSql _; RNone; RErr (Crash 7)] => negb (nice (S "a.sqlx"))
  | _ => false
  end.
Definition cache_refuted_crash : bool :=
  (* a save cut short leaves a truncated file that a later instance serves instead of the provider's text *)
  match snd (crun prov1 empty_world [CNew true; CCrashSave 0 (S "t") 12; CNew true; CGet 1 (S "t")]) with
  | [RNone; RNone; RNone; RSql s] => negb (str_eqb s (S "CREATE TABLE t (a INT, b INT, c INT)")) && nice (S "t")
  | _ => false
  end.
Lemma cache_refuted : cache_refuted_name && cache_refuted_crash = true.
Proof. vm_compute. reflexivity. Qed.
Definition cache_example : bool :=
  match snd (crun prov1 empty_world [CNew true; CGet 0 (S "t"); CGet 0 (S "t"); CNew true; CGet 1 (S "t"); CNew false; CGet 2 (S "s.u"); CGet 1 (S "s.u")]),
        w_asked (fst (crun prov1 empty_world [CNew true; CGet 0 (S "t"); CGet 0 (S "t"); CNew true; CGet 1 (S "t"); CNew false; CGet 2 (S "s.u"); CGet 1 (S "s.u")])) with
  | [RNone; RSql a; RSql b; RNone; RSql c; RNone; RSql d; RSql e], asked =>
      str_eqb a b && str_eqb b c && str_eqb d e && leqb str_eqb asked [S "t"; S "s.u"; S "s.u"]
  | _, _ => false
  end.
Lemma cache_example_ok : cache_example = true.
Proof. vm_compute. reflexivity. Qed.
