(* Shared definitions: result type, code-point strings, the model of str.upper() for ASCII keyword tests. *)
From Coq Require Import List NArith Bool Arith.
Require Import Gen.Upper.
Import ListNotations.
Open Scope N_scope.

(* outcome kinds: the library's parse-error family, and "anything else" (an escaped Python exception) *)
Inductive err : Type :=
| LexErr            (* LexicalParseError *)
| ParseErr          (* SqlParseError (base class) *)
| NotSupport        (* NotSupportError *)
| AnalyzerErr       (* AnalyzerError *)
| Crash (kind : N)  (* unrelated exception: 1 IndexError 2 AttributeError 3 ValueError 4 KeyError 5 TypeError 6 AssertionError 7 other *)
| OutOfFuel.        (* model artefact; excluded by the fuel-sufficiency theorems *)

Inductive res (A : Type) : Type := Ok (a : A) | Err (e : err).
Arguments Ok {A} a.
Arguments Err {A} e.

Definition bind {A B} (r : res A) (f : A -> res B) : res B :=
  match r with Ok a => f a | Err e => Err e end.
Notation "'do' x <- r ; k" := (bind r (fun x => k)) (at level 200, x pattern, r at level 100, k at level 200).

Definition str := list N.

Fixpoint str_eqb (a b : str) : bool :=
  match a, b with
  | [], [] => true
  | x :: a', y :: b' => N.eqb x y && str_eqb a' b'
  | _, _ => false
  end.

Lemma str_eqb_eq a b : str_eqb a b = true <-> a = b.
Proof.
  revert b; induction a as [|x a IH]; destruct b as [|y b]; simpl; split; intros H; try congruence; try reflexivity.
  - apply andb_true_iff in H as [H1 H2]. apply N.eqb_eq in H1. apply IH in H2. congruence.
  - inversion H; subst. rewrite N.eqb_refl. simpl. apply IH. reflexivity.
Qed.

Fixpoint assoc {B} (k : str) (l : list (str * B)) : option B :=
  match l with [] => None | (k', v) :: l' => if str_eqb k k' then Some v else assoc k l' end.

Fixpoint assocN {B} (k : N) (l : list (N * B)) : option B :=
  match l with [] => None | (k', v) :: l' => if N.eqb k k' then Some v else assocN k l' end.

(* str.upper() as far as ASCII keyword tests can observe it (see gen/upper.py) *)
Definition upper1 (c : N) : list N :=
  if andb (N.leb 97 c) (N.leb c 122) then [c - 32]
  else match assocN c upper_exotic with Some u => u | None => [c] end.
Definition upper (s : str) : str := flat_map upper1 s.

Definition mem_str (k : str) (l : list str) : bool := existsb (str_eqb k) l.
