(* Threads that only READ a shared component and WRITE only their own local component compute, under EVERY schedule, what they
   compute when run alone.  Generic small-step statement used by C12: the shared component stands for the module-level tables,
   operation objects, class-level nodes and name sets of the library; a step is one call (or one bytecode -- the granularity does not
   matter for the argument) of a thread's program. *)
From Coq Require Import List Arith Lia.
Import ListNotations.

Section ReadOnly.
  Variables G L : Type.
  Definition step := G -> L -> L.                       (* reads the shared state, transforms the thread's own state *)
  Record config := mkcfg { shared : G; locals : nat -> L; progs : nat -> list step }.

  Definition upd {A} (f : nat -> A) (i : nat) (x : A) : nat -> A := fun j => if Nat.eqb j i then x else f j.

  (* one scheduling decision: thread i runs its next step, if it has one *)
  Definition sched_step (c : config) (i : nat) : config :=
    match progs c i with
    | [] => c
    | s :: rest => mkcfg (shared c) (upd (locals c) i (s (shared c) (locals c i))) (upd (progs c) i rest)
    end.
  Definition exec (c : config) (sched : list nat) : config := fold_left sched_step sched c.

  (* thread i alone: its first k steps *)
  Fixpoint alone (g : G) (p : list step) (k : nat) (l : L) : L :=
    match k, p with
    | S k', s :: p' => alone g p' k' (s g l)
    | _, _ => l
    end.
  Fixpoint rest_after (p : list step) (k : nat) : list step := match k, p with S k', _ :: p' => rest_after p' k' | _, _ => p end.

  Lemma shared_const c sched : shared (exec c sched) = shared c.
  Proof.
    revert c. induction sched as [|i s IH]; intros c; [reflexivity|]. simpl. rewrite IH. unfold sched_step. destruct (progs c i); reflexivity.
  Qed.

  Lemma alone_snoc g : forall p k l s rest, rest_after p k = s :: rest -> alone g p (S k) l = s g (alone g p k l) /\ rest_after p (S k) = rest.
  Proof.
    induction p as [|x p IH]; intros k l s rest H.
    - destruct k; simpl in H; discriminate.
    - destruct k as [|k].
      + simpl in H. inversion H; subst. simpl. split; [destruct rest; reflexivity|destruct rest; reflexivity].
      + simpl in H. destruct (IH k (x g l) s rest H) as [A B]. split.
        * change (alone g (x :: p) (S (S k)) l) with (alone g p (S k) (x g l)). rewrite A. reflexivity.
        * exact B.
  Qed.
  Lemma alone_done g : forall p k l, rest_after p k = [] -> alone g p (S k) l = alone g p k l /\ rest_after p (S k) = [].
  Proof.
    induction p as [|x p IH]; intros k l H.
    - destruct k; simpl; auto.
    - destruct k as [|k]; [simpl in H; discriminate|]. simpl in H. destruct (IH k (x g l) H) as [A B].
      split; [change (alone g (x :: p) (S (S k)) l) with (alone g p (S k) (x g l)); rewrite A; reflexivity|exact B].
  Qed.

  (* the invariant: after any schedule, thread i has run exactly (count of i in the schedule) of its steps, alone *)
  Theorem schedule_independent : forall sched c0 i,
    locals (exec c0 sched) i = alone (shared c0) (progs c0 i) (count_occ Nat.eq_dec sched i) (locals c0 i) /\
    progs (exec c0 sched) i = rest_after (progs c0 i) (count_occ Nat.eq_dec sched i).
  Proof.
    intros sched c0 i. 
    assert (G0 : forall sched c,
               shared c = shared c0 ->
               forall k, locals c i = alone (shared c0) (progs c0 i) k (locals c0 i) -> progs c i = rest_after (progs c0 i) k ->
               locals (exec c sched) i = alone (shared c0) (progs c0 i) (k + count_occ Nat.eq_dec sched i) (locals c0 i) /\
               progs (exec c sched) i = rest_after (progs c0 i) (k + count_occ Nat.eq_dec sched i)).
    { induction sched0 as [|j s IH]; intros c Hs k Hl Hp.
      - simpl. rewrite Nat.add_0_r. auto.
      - cbn [exec fold_left count_occ]. destruct (Nat.eq_dec j i) as [->|Hne].
        + replace (k + S (count_occ Nat.eq_dec s i)) with (S k + count_occ Nat.eq_dec s i) by lia.
          apply IH.
          * unfold sched_step. destruct (progs c i); [exact Hs|exact Hs].
          * unfold sched_step. destruct (progs c i) as [|st rest] eqn:E.
            -- rewrite Hl. symmetry in Hp. destruct (alone_done (shared c0) (progs c0 i) k (locals c0 i) Hp) as [A _]. symmetry. exact A.
            -- cbn [locals]. unfold upd. rewrite Nat.eqb_refl. symmetry in Hp.
               destruct (alone_snoc (shared c0) (progs c0 i) k (locals c0 i) st rest Hp) as [A _]. rewrite A, Hs, Hl. reflexivity.
          * unfold sched_step. destruct (progs c i) as [|st rest] eqn:E.
            -- symmetry in Hp. destruct (alone_done (shared c0) (progs c0 i) k (locals c0 i) Hp) as [_ B]. rewrite E. symmetry. exact B.
            -- cbn [progs]. unfold upd. rewrite Nat.eqb_refl. symmetry in Hp.
               destruct (alone_snoc (shared c0) (progs c0 i) k (locals c0 i) st rest Hp) as [_ B]. symmetry. exact B.
        + apply IH.
          * unfold sched_step. destruct (progs c j); exact Hs.
          * unfold sched_step. destruct (progs c j); [exact Hl|]. cbn [locals]. unfold upd.
            destruct (Nat.eqb i j) eqn:E; [apply Nat.eqb_eq in E; congruence|exact Hl].
          * unfold sched_step. destruct (progs c j); [exact Hp|]. cbn [progs]. unfold upd.
            destruct (Nat.eqb i j) eqn:E; [apply Nat.eqb_eq in E; congruence|exact Hp]. }
    apply (G0 sched c0 eq_refl 0); [destruct (progs c0 i); reflexivity|destruct (progs c0 i); reflexivity].
  Qed.

  (* corollary: two schedules that let thread i run equally often leave it in the same state, whatever the other threads did *)
  Corollary schedules_agree : forall s1 s2 c i, count_occ Nat.eq_dec s1 i = count_occ Nat.eq_dec s2 i ->
    locals (exec c s1) i = locals (exec c s2) i.
  Proof. intros s1 s2 c i H. rewrite (proj1 (schedule_independent s1 c i)), (proj1 (schedule_independent s2 c i)), H. reflexivity. Qed.
End ReadOnly.
