(* Extraction of the executable models to OCaml for the behavioural correspondence run.
   Only ExtrOcamlBasic (bool/option/unit/list/prod/sumbool/sumor + andb/orb); nat, N, positive, Z stay
   the extracted Coq datatypes.  No Extract Constant / Extract Inductive of our own. *)
Require Extraction.
Require Import ExtrOcamlBasic.
Require Import Base.Common Gen.LexTable Lex.Model Lex.C07Proofs Lex.Spec Lex.Product Lex.C05Defs Lex.C20Defs Cur.Model Tree.Value Tree.Canon Gen.Static Parse.Prim Parse.Model Parse.Entry Expr.Spec Print.Model Tree.Helpers Stmt.HelperEntry Ana.Model Ana.Entry Lin.Model Lin.Entry Cache.Model Lin.Proofs.
Extraction Language OCaml.
Extraction "modelx.ml" lex lex_full source group_marks flatten spec_lex classify_input devs_paths dev_family classify_input_mb devs_mb_paths has_ph_open run_ops mkcur parse_text all_sqltypes sqltype_name emit embed canon print helpers_text setwith_text no_list lex_handle_calls walk_text lineage_text crun empty_world nice.
