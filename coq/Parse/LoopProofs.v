(* Theorems about the statement loop of parse_statements (model: statements_loop), generic in the statements. *)
From Coq Require Import List NArith ZArith Bool String Ascii Lia.
Require Import Base.Common Gen.LexTable Lex.Model Cur.Model Tree.Value Gen.Static Parse.Prim Parse.Model.
Import ListNotations.
Open Scope string_scope.
Open Scope N_scope.
Open Scope list_scope.

Section Script.
  Variable fuel : nat.
  Variable d : sqltype.

  Definition semi : tok := Leaf (S ";") 0.
  (* a statement stops in front of the separator or at the end, without consuming past it *)
  Definition stops (rest : toks) : Prop := rest = [] \/ exists r, rest = semi :: r.

  Record sitem := mksi { si_val : value; si_block : toks }.
  Definition item_ok (it : sitem) : Prop :=
    si_block it <> [] /\ forall rest, stops rest -> run fuel F_statement d None (si_block it ++ rest) = Ok (si_val it, rest).

  (* s1 ; s2 ; ... ; sn  with or without a final separator *)
  Fixpoint script (items : list sitem) (final : bool) : toks :=
    match items with
    | [] => []
    | [it] => si_block it ++ (if final then [semi] else [])
    | it :: l => si_block it ++ semi :: script l final
    end.

  Lemma take_semi r : take_str (S ";") (semi :: r) = (true, r).
  Proof. reflexivity. Qed.

  Lemma not_finish b rest : b <> [] -> is_finish (b ++ rest) = false.
  Proof. destruct b; [contradiction|reflexivity]. Qed.

  Theorem statements_loop_script : forall items final n acc,
    Forall item_ok items -> (List.length items < n)%nat ->
    statements_loop n fuel d (script items final) acc = Ok (rev acc ++ map si_val items).
  Proof.
    induction items as [|it items IH]; intros final n acc Hall Hn.
    - destruct n; [simpl in Hn; lia|]. simpl. rewrite app_nil_r. reflexivity.
    - apply Forall_cons_iff in Hall as [[Hne Hrun] Hall].
      destruct n as [|n]; [simpl in Hn; lia|]. simpl in Hn.
      destruct items as [|it2 items].
      + cbn [script statements_loop]. rewrite (not_finish _ _ Hne).
        destruct final.
        * rewrite (Hrun [semi]); [|right; exists []; reflexivity]. rewrite take_semi.
          destruct n; [simpl in Hn; lia|]. cbn [statements_loop is_finish rev map]. reflexivity.
        * rewrite (Hrun []); [|left; reflexivity]. cbn [take_str take peek_str].
          destruct n; [simpl in Hn; lia|]. cbn [statements_loop is_finish rev map]. reflexivity.
      + change (script (it :: it2 :: items) final) with (si_block it ++ semi :: script (it2 :: items) final).
        cbn [statements_loop]. rewrite (not_finish _ _ Hne).
        rewrite (Hrun (semi :: script (it2 :: items) final)); [|right; eexists; reflexivity]. rewrite take_semi.
        rewrite (IH final n (si_val it :: acc) Hall); [|simpl in *; lia].
        cbn [rev map]. rewrite <- app_assoc. reflexivity.
  Qed.
End Script.

(* every join / union type of the regenerated enums is recognised as itself when its words are followed by a name
   (the parser tries the enum members in iteration order: an order in which a shorter member shadows a longer one
   would break this) *)
Definition follow_tok : tok := Leaf (S "t") MARK_NAME.
Definition enum_recognised (l : list (string * list str)) : bool :=
  forallb (fun p => match first_enum l (map (fun w => Leaf w 0) (snd p) ++ [follow_tok]) with
                    | Some (n, [t]) => String.eqb n (fst p)
                    | _ => false
                    end) l.
Lemma join_types_recognised : enum_recognised enum_join_type = true.
Proof. vm_compute. reflexivity. Qed.
Lemma union_types_recognised : enum_recognised enum_union_type = true.
Proof. vm_compute. reflexivity. Qed.

(* both LIMIT spellings store the count in `limit` and the offset in `offset` *)
Lemma take_up_hit kw w mk rest : str_eqb (upper w) kw = true -> take_up kw (Leaf w mk :: rest) = (true, rest).
Proof. intros H. unfold take_up, take, peek_up, source_equal_upper. cbn [Lex.Model.source]. rewrite H. reflexivity. Qed.
Lemma take_up_miss kw w mk rest : str_eqb (upper w) kw = false -> take_up kw (Leaf w mk :: rest) = (false, Leaf w mk :: rest).
Proof. intros H. unfold take_up, take, peek_up, source_equal_upper. cbn [Lex.Model.source]. rewrite H. reflexivity. Qed.
Lemma take_str_hit kw mk rest : take_str kw (Leaf kw mk :: rest) = (true, rest).
Proof.
  unfold take_str, take, peek_str, source_equal. cbn [Lex.Model.source].
  assert (H : str_eqb kw kw = true) by (apply str_eqb_eq; reflexivity). rewrite H. reflexivity.
Qed.
Lemma take_str_miss kw w mk rest : str_eqb w kw = false -> take_str kw (Leaf w mk :: rest) = (false, Leaf w mk :: rest).
Proof. intros H. unfold take_str, take, peek_str, source_equal. cbn [Lex.Model.source]. rewrite H. reflexivity. Qed.

Ltac limit_step := cbv beta iota zeta; cbn [negb pop_src Lex.Model.source as_int bind].
Lemma limit_offset_spelling n m zn zm rest : py_int n = Some zn -> py_int m = Some zm ->
  parse_limit (Leaf (S "LIMIT") 0 :: Leaf n 72 :: Leaf (S "OFFSET") 0 :: Leaf m 72 :: rest)
  = Ok (node "ASTLimitClause" [("limit", VInt zn); ("offset", VInt zm)], rest).
Proof.
  intros Hn Hm. unfold parse_limit.
  rewrite take_up_hit by (vm_compute; reflexivity). limit_step. unfold as_int. rewrite Hn. limit_step.
  rewrite take_str_miss by (vm_compute; reflexivity). limit_step.
  rewrite take_up_hit by (vm_compute; reflexivity). limit_step. rewrite Hm. reflexivity.
Qed.

Lemma limit_comma_spelling n m zn zm rest : py_int n = Some zn -> py_int m = Some zm ->
  parse_limit (Leaf (S "limit") 0 :: Leaf m 72 :: Leaf (S ",") 0 :: Leaf n 72 :: rest)
  = Ok (node "ASTLimitClause" [("limit", VInt zn); ("offset", VInt zm)], rest).
Proof.
  intros Hn Hm. unfold parse_limit.
  rewrite take_up_hit by (vm_compute; reflexivity). limit_step. unfold as_int. rewrite Hm. limit_step.
  rewrite take_str_hit. limit_step. rewrite Hn. reflexivity.
Qed.
