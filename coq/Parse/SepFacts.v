(* The separated-list loop `item (sep item)*` (Parse.Prim.sep_list / sep_more: the `while scanner.search_and_move_one_type_str(sep)`
   loops of parser.py) for ANY item parser: it stops only where no separator follows, it keeps what it had collected, in order,
   and it returns one value per item it ran -- a list is read to its end and nothing collected is dropped or re-ordered. *)
From Coq Require Import List NArith Bool Arith Lia.
Require Import Base.Common Gen.LexTable Lex.Model Cur.Model Tree.Value Parse.Prim.
Import ListNotations.
Local Open Scope nat_scope.

Lemma sep_more_shape (item : toks -> PR) sep : forall n ts acc vs rest,
  sep_more n item sep ts acc = Ok (vs, rest) ->
  peek_str sep rest = false /\ exists more, vs = rev acc ++ more.
Proof.
  induction n as [|n IH]; intros ts acc vs rest H; cbn [sep_more] in H; [discriminate H|].
  unfold take_str, take in H. destruct (peek_str sep ts) eqn:Ep.
  - destruct (item (skipn 1 ts)) as [[v ts2]|e] eqn:Ei; cbn in H; [|discriminate H].
    apply IH in H. destruct H as [Hp [more Hm]]. split; [exact Hp|].
    exists (v :: more). rewrite Hm. cbn [rev]. rewrite <- app_assoc. reflexivity.
  - inversion H; subst. split; [exact Ep|]. exists []. rewrite app_nil_r. reflexivity.
Qed.

Theorem sep_list_reads_to_end (item : toks -> PR) sep ts vs rest :
  sep_list item sep ts = Ok (vs, rest) ->
  peek_str sep rest = false /\ exists v ts1 more, item ts = Ok (v, ts1) /\ vs = v :: more.
Proof.
  unfold sep_list. intros H. destruct (item ts) as [[v ts1]|e] eqn:Ei; cbn in H; [|discriminate H].
  change (sep_more (Datatypes.S (List.length ts1)) item sep ts1 [v] = Ok (vs, rest)) in H.
  apply sep_more_shape in H. destruct H as [Hp [more Hm]]. split; [exact Hp|].
  exists v, ts1, more. split; [reflexivity|exact Hm].
Qed.
