(* A structural sweep over the WHOLE parser model (Parse/Model.v): every function, for every token list, dialect and
   fuel, returns either Ok with a result that is free of Python lists at every depth, or an error that is not an
   unrelated exception (Crash).  One induction on the fuel over the open-recursive `body`; every function body is
   discharged by the same tactic, which follows the syntax of the definition (bind, pair destructuring, conditionals). *)
From Coq Require Import List NArith ZArith Bool String Ascii Lia.
Require Import Base.Common Gen.LexTable Lex.Model Cur.Model Tree.Value Tree.Helpers Tree.HelperProofs Gen.Static Parse.Prim Parse.Model.
Import ListNotations.
Open Scope string_scope.
Open Scope list_scope.

Definition good_err (e : err) : bool := match e with Crash _ => false | _ => true end.

Class Good (A : Type) := good : A -> Prop.
#[global] Instance good_any A : Good A | 100 := fun _ => True.
#[global] Instance good_value : Good value | 0 := fun v => no_list v = true.
#[global] Instance good_values : Good (list value) | 0 := fun l => Forall (fun v => no_list v = true) l.
#[global] Instance good_prod A B `{Good A} `{Good B} : Good (A * B) | 0 := fun p => good (fst p) /\ good (snd p).
#[global] Instance good_option A `{Good A} : Good (option A) | 0 := fun o => match o with Some x => good x | None => True end.
#[global] Instance good_mk : Good (value -> value -> value) | 0 := fun f => forall a b, no_list a = true -> no_list b = true -> no_list (f a b) = true.
#[global] Instance good_fields : Good (list (string * value)) | 0 := fun l => Forall (fun p => no_list (snd p) = true) l.

#[global] Instance good_pend : Good (list (value * string)) | 0 := fun l => Forall (fun p => no_list (fst p) = true) l.

Definition RP {A} `{Good A} (r : res A) : Prop := match r with Ok a => good a | Err e => good_err e = true end.

Lemma nl_node c fs : Forall (fun p => no_list (snd p) = true) fs -> no_list (node c fs) = true.
Proof.
  unfold node. intros H. rewrite no_list_node. induction H as [|[k v] fs Hv _ IH]; simpl; auto.
  simpl in Hv. rewrite Hv. exact IH.
Qed.
Lemma nl_vtuple l : Forall (fun v => no_list v = true) l -> no_list (vtuple l) = true.
Proof. unfold vtuple. intros H. rewrite no_list_tuple. apply no_list_all_forall. exact H. Qed.
Lemma nl_vopt_str o : no_list (vopt_str o) = true. Proof. destruct o; reflexivity. Qed.
Lemma nl_vbool b : no_list (vbool b) = true. Proof. reflexivity. Qed.
Lemma nl_venum c n : no_list (venum c n) = true. Proof. reflexivity. Qed.

(* leaves / lists / nodes *)
Ltac nl :=
  lazymatch goal with
  | |- no_list (node _ _) = true => apply nl_node; nlf
  | |- no_list (VNode _ _) = true => apply (nl_node _ _); nlf
  | |- no_list (vtuple _) = true => apply nl_vtuple; nll
  | |- no_list (VTuple _) = true => apply (nl_vtuple _); nll
  | |- no_list (vopt_str _) = true => apply nl_vopt_str
  | |- no_list (match ?o with _ => _ end) = true => destruct o; nl
  | |- no_list (if ?b then _ else _) = true => destruct b; nl
  | |- good _ => unfold good; first [ assumption | nl_unfold ]
  | |- _ => first [ assumption | reflexivity | nl_apply ]
  end
with nl_unfold :=
  lazymatch goal with
  | |- good_value _ => unfold good_value; nl
  | |- good_values _ => unfold good_values; nll
  | |- good_fields _ => unfold good_fields; nlf
  | |- _ => exact I
  end
with nl_apply :=
  match goal with
  | H : good ?f |- no_list (?f _ _) = true => apply H; nl
  | H : good_mk ?f |- no_list (?f _ _) = true => apply H; nl
  | H : forall a b, no_list a = true -> no_list b = true -> no_list (?f a b) = true |- no_list (?f _ _) = true => apply H; nl
  end
with nll :=
  lazymatch goal with
  | |- Forall _ [] => apply Forall_nil
  | |- Forall _ (_ :: _) => first [assumption | apply Forall_cons; [nl | nll]]
  | |- Forall _ (rev _) => apply Forall_rev; nll
  | |- Forall _ (_ ++ _) => apply Forall_app; split; nll
  | |- Forall _ (match ?o with _ => _ end) => destruct o; nll
  | |- Forall _ (if ?b then _ else _) => destruct b; nll
  | |- _ => assumption
  end
with nlf :=
  lazymatch goal with
  | |- Forall _ [] => apply Forall_nil
  | |- Forall _ ((_, _) :: _) => apply Forall_cons; [cbn [snd]; nl | nlf]
  | |- Forall _ (_ ++ _) => apply Forall_app; split; nlf
  | |- Forall _ (match ?o with _ => _ end) => destruct o; nlf
  | |- Forall _ (if ?b then _ else _) => destruct b; nlf
  | |- _ => assumption
  end.

(* split a goodness fact into its atoms *)
Ltac split_good H :=
  unfold good in H;
  lazymatch type of H with
  | good_prod _ _ _ => unfold good_prod in H; cbn [fst snd] in H; let H1 := fresh "G" in let H2 := fresh "G" in destruct H as [H1 H2]; split_good H1; split_good H2
  | _ /\ _ => let H1 := fresh "G" in let H2 := fresh "G" in destruct H as [H1 H2]; split_good H1; split_good H2
  | good_any _ _ => clear H
  | True => clear H
  | good_value _ => unfold good_value in H
  | good_values _ => unfold good_values in H
  | good_fields _ => unfold good_fields in H
  | good_option _ _ => unfold good_option in H
  | _ => idtac
  end.

Ltac good_goal :=
  repeat match goal with
         | |- good (match ?x with _ => _ end) => destruct x
         | |- good (let (_, _) := ?x in _) => destruct x
         end;
  repeat (unfold good, good_prod, good_option, good_any, good_value, good_values, good_fields, good_mk, good_pend; cbn [fst snd]);
  lazymatch goal with
  | |- _ /\ _ => split; good_goal
  | |- True => exact I
  | |- match ?x with _ => _ end => destruct x; good_goal
  | |- no_list _ = true => nl
  | |- Forall (fun v => no_list v = true) _ => nll
  | |- Forall (fun p => no_list (snd p) = true) _ => nlf
  | |- Forall (fun p => no_list (fst p) = true) [] => apply Forall_nil
  | |- forall _, _ => intros; good_goal
  | |- _ => first [assumption | exact I]
  end.
Ltac good_hook := fail.
Ltac ok_goal := unfold RP; first [solve [good_goal] | solve [good_hook] | idtac].

(* ---------- primitives (Parse/Prim.v) ---------- *)
Lemma RP_match_pats ps ts : RP (match_pats ps ts). Proof. unfold match_pats. destruct (peek_pats ps ts); exact I || reflexivity. Qed.
Lemma RP_pop ts : RP (pop ts). Proof. destruct ts; simpl; [reflexivity|split; exact I]. Qed.
Lemma RP_pop_src ts : RP (pop_src ts). Proof. destruct ts; simpl; [reflexivity|split; exact I]. Qed.
Lemma RP_pop_children ts : RP (pop_children ts). Proof. destruct ts as [|t ts]; simpl; [reflexivity|]. destruct (is_group t); [split; exact I|reflexivity]. Qed.
Lemma RP_peek_children ts : RP (peek_children ts). Proof. destruct ts; simpl; [reflexivity|exact I]. Qed.
Lemma RP_pop_split s ts : RP (pop_split s ts). Proof. destruct ts as [|t ts]; simpl; [reflexivity|]. destruct (is_group t); [split; exact I|reflexivity]. Qed.
Lemma RP_close ts : RP (close ts). Proof. destruct ts; simpl; [exact I|reflexivity]. Qed.
Lemma RP_int_of s : RP (int_of s). Proof. unfold int_of. destruct (py_int s); [exact I|reflexivity]. Qed.
Lemma RP_as_int s : RP (as_int s). Proof. unfold as_int. destruct (py_int s); [exact I|reflexivity]. Qed.

(* ---------- the sweep tactic ---------- *)
Create HintDb rp.
#[global] Hint Resolve RP_match_pats RP_pop RP_pop_src RP_pop_children RP_peek_children RP_pop_split RP_close RP_int_of RP_as_int : rp.
#[global] Hint Extern 1 (good _) => (unfold good; first [assumption | exact I | nl_unfold]) : rp.
#[global] Hint Extern 2 (no_list _ = true) => (solve [nl]) : rp.
#[global] Hint Extern 1 (good_option _ _) => (unfold good_option; first [assumption | exact I | nl]) : rp.

Ltac split_all_good :=
  repeat match goal with
         | H : good (_, _) |- _ => split_good H
         | H : good_prod _ _ (_, _) |- _ => split_good H
         | H : good_any _ _ |- _ => clear H
         | H : True |- _ => clear H
         end.

Ltac head_of t := lazymatch t with ?f _ => head_of f | _ => t end.
Ltac callee_ho := fail.
Ltac sweep :=
  cbv beta zeta;
  lazymatch goal with
  | |- RP ?t => tryif (let h := head_of t in is_fix h) then first [assumption | solve [eauto 3 with rp] | idtac] else sweep_core
  end
with sweep_core :=
  lazymatch goal with
  | |- RP (Ok _) => ok_goal
  | |- RP (Err ParseErr) => reflexivity
  | |- RP (Err OutOfFuel) => reflexivity
  | |- RP (Err ?x) => first [reflexivity | assumption]
  | |- RP (match ?e with Ok _ => _ | Err _ => _ end) =>
      let H := fresh "G" in
      assert (H : RP e) by callee;
      destruct e; [ unfold RP in H; split_all_good; sweep | exact H ]
  | |- RP (match ?x with _ => _ end) => destruct x; split_all_good; sweep
  | |- RP _ => first [callee | idtac]
  end
with callee := first [ assumption | solve [eauto 3 with rp] | callee_ho | callee_struct ]
with callee_struct :=
  lazymatch goal with
  | |- RP ?t => tryif (let h := head_of t in is_fix h) then fail else callee_struct2
  end
with callee_struct2 :=
  lazymatch goal with
  | |- RP (match _ with _ => _ end) => solve [sweep]
  | |- RP (Ok _) => solve [sweep]
  | |- RP (Err _) => solve [sweep]
  end.

(* ---------- leaf parsers ---------- *)
Lemma RP_parse_insert_type ts : RP (parse_insert_type ts). Proof. unfold parse_insert_type. sweep. Qed.
Lemma RP_parse_join_type ts : RP (parse_join_type ts). Proof. unfold parse_join_type. sweep. Qed.
Lemma RP_parse_order_type ts : RP (parse_order_type ts). Proof. unfold parse_order_type. sweep. Qed.
Lemma RP_parse_union_type ts : RP (parse_union_type ts). Proof. unfold parse_union_type. sweep. Qed.
Lemma RP_parse_compare_operator ts : RP (parse_compare_operator ts). Proof. unfold parse_compare_operator. sweep. Qed.
Lemma RP_parse_compute_operator ts : RP (parse_compute_operator ts). Proof. unfold parse_compute_operator, compute_op_node. sweep. Qed.
Lemma RP_parse_column_name ts : RP (parse_column_name ts). Proof. unfold parse_column_name, column_node. sweep. Qed.
Lemma RP_parse_column_name_with_table ts : RP (parse_column_name_with_table ts). Proof. unfold parse_column_name_with_table, column_node. sweep. Qed.
Lemma RP_parse_column_name_without_table ts : RP (parse_column_name_without_table ts). Proof. unfold parse_column_name_without_table, column_node. sweep. Qed.
Lemma RP_parse_table_name ts : RP (parse_table_name ts). Proof. unfold parse_table_name, table_node. sweep. Qed.
Lemma RP_parse_function_name ts : RP (parse_function_name ts). Proof. unfold parse_function_name. sweep. Qed.
Lemma RP_parse_literal ts : RP (parse_literal ts). Proof. unfold parse_literal, literal_node. sweep. Qed.
Lemma RP_parse_window_row_item ts : RP (parse_window_row_item ts). Proof. unfold parse_window_row_item, row_item. sweep. Qed.
#[global] Hint Resolve RP_parse_insert_type RP_parse_join_type RP_parse_order_type RP_parse_union_type RP_parse_compare_operator
  RP_parse_compute_operator RP_parse_column_name RP_parse_column_name_with_table RP_parse_column_name_without_table RP_parse_table_name
  RP_parse_function_name RP_parse_literal RP_parse_window_row_item : rp.
Lemma RP_parse_window_row ts : RP (parse_window_row ts). Proof. unfold parse_window_row. sweep. Qed.
Lemma RP_get_alias_name ts : RP (get_alias_name ts). Proof. unfold get_alias_name. sweep. Qed.
#[global] Hint Resolve RP_parse_window_row RP_get_alias_name : rp.
Lemma RP_parse_alias ts : RP (parse_alias ts). Proof. unfold parse_alias, alias_node. sweep. Qed.
Lemma RP_parse_limit ts : RP (parse_limit ts). Proof. unfold parse_limit. sweep. Qed.
#[global] Hint Resolve RP_parse_alias RP_parse_limit : rp.

(* ---------- combinators ---------- *)
Section Combinators.
  Variable item : toks -> PR.
  Hypothesis Hitem : forall t, RP (item t).

  Lemma RP_sep_more sep : forall n ts acc, good acc -> RP (sep_more n item sep ts acc).
  Proof. induction n as [|n IH]; intros ts acc Hacc; cbn [sep_more]; sweep. Qed.
  Hint Resolve RP_sep_more : rp.
  Lemma RP_sep_list sep ts : RP (sep_list item sep ts).
  Proof. unfold sep_list. sweep. Qed.
  Lemma RP_each_closed : forall segs, RP (each_closed item segs).
  Proof. induction segs as [|sg segs IH]; cbn [each_closed]; sweep. Qed.
End Combinators.

Ltac callee_ho ::=
  lazymatch goal with
  | |- RP (sep_list _ _ _) => apply RP_sep_list; intros; sweep
  | |- RP (sep_more _ _ _ _ _) => apply RP_sep_more; [intros; sweep | good_goal]
  | |- RP (each_closed _ _) => apply RP_each_closed; intros; sweep
  end.

Lemma RP_parse_multi_alias ts : RP (parse_multi_alias ts). Proof. unfold parse_multi_alias. sweep. Qed.
Lemma RP_parse_config_string ts : RP (parse_config_string ts).
Proof.
  unfold parse_config_string. sweep.
  all: match goal with |- RP (?F ?n ?a ?t) => generalize n a t end.
  all: induction n as [|n IH]; intros acc t'; lazy beta iota fix; sweep.
Qed.
#[global] Hint Resolve RP_parse_multi_alias RP_parse_config_string : rp.
Lemma RP_parse_config_string_expression ts : RP (parse_config_string_expression ts). Proof. unfold parse_config_string_expression. sweep. Qed.
#[global] Hint Resolve RP_parse_config_string_expression : rp.

(* ---------- operator loops ---------- *)
Lemma nl_compute_node l o r : no_list l = true -> no_list r = true -> no_list (compute_node l o r) = true.
Proof. intros Hl Hr. unfold compute_node, compute_op_node. nl. Qed.
Lemma good_reduce_while n : forall pend top, good pend -> no_list top = true ->
  good (fst (reduce_while n pend top)) /\ no_list (snd (reduce_while n pend top)) = true.
Proof.
  induction pend as [|[e o] rest IH]; intros top Hp Ht; cbn [reduce_while]; [split; [exact Hp|exact Ht]|].
  inversion Hp; subst. cbn [fst] in *. destruct (N.leb (op_level o) n).
  - apply IH; [assumption|]. apply nl_compute_node; assumption.
  - split; [exact Hp|exact Ht].
Qed.
Lemma nl_reduce_all : forall pend top, good pend -> no_list top = true -> no_list (reduce_all pend top) = true.
Proof.
  induction pend as [|[e o] rest IH]; intros top Hp Ht; cbn [reduce_all]; [exact Ht|].
  inversion Hp; subst. cbn [fst] in *. apply IH; [assumption|]. apply nl_compute_node; assumption.
Qed.

Section Loops.
  Variable sub : toks -> PR.
  Hypothesis Hsub : forall t, RP (sub t).

  Lemma RP_compute_loop : forall n pend top ts, good pend -> no_list top = true -> RP (compute_loop n sub pend top ts).
  Proof.
    induction n as [|n IH]; intros pend top ts Hp Ht; cbn [compute_loop]; [reflexivity|].
    destruct (next_compute_op ts) as [o|].
    - pose proof (good_reduce_while (op_level o) pend top Hp Ht) as [H1 H2].
      destruct (reduce_while (op_level o) pend top) as [pend' top']. cbn [fst snd] in H1, H2.
      pose proof (Hsub (skipn 1 ts)) as Hs. destruct (sub (skipn 1 ts)) as [[v ts']|e]; [|exact Hs].
      destruct Hs as [Hv _]. apply IH; [|exact Hv]. constructor; [exact H2|exact H1].
    - split; [|exact I]. apply nl_reduce_all; assumption.
  Qed.

  Variable op : toks -> option (value -> value -> value) * toks.
  Hypothesis Hop : forall t, good (op t).
  Lemma RP_left_loop : forall n acc ts, no_list acc = true -> RP (left_loop n sub op acc ts).
  Proof.
    induction n as [|n IH]; intros acc ts Ha; cbn [left_loop]; [reflexivity|].
    pose proof (Hop ts) as Ho. destruct (op ts) as [[mk|] ts1]; [|split; [exact Ha|exact I]].
    destruct Ho as [Hmk _]. pose proof (Hsub ts1) as Hs. destruct (sub ts1) as [[v ts2]|e]; [|exact Hs].
    destruct Hs as [Hv _]. apply IH. apply Hmk; assumption.
  Qed.
End Loops.

(* ---------- the recursive part: every body function, given a recursion handle that already satisfies the claim ---------- *)
Section BodySweep.
  Variable rec : REC.
  Variable d : sqltype.
  Hypothesis Hrec : forall f d' a ts, good a -> RP (rec f d' a ts).

  Lemma RP_r f ts : RP (r rec d f ts). Proof. unfold r. apply Hrec. exact I. Qed.
  Lemma RP_r1 f a ts : no_list a = true -> RP (r1 rec d f a ts). Proof. intros H. unfold r1. apply Hrec. exact H. Qed.
  Hint Resolve RP_r RP_r1 : rp.

  Lemma RP_args_list item ts : (forall t, RP (item t)) -> RP (args_list item ts).
  Proof. intros Hi. unfold args_list. sweep. Qed.
  Lemma RP_call_args item keep ts : (forall t, RP (item t)) -> RP (call_args item keep ts).
  Proof. intros Hi. unfold call_args. sweep. Qed.
  Lemma RP_opt_list c p ts : (forall t, RP (p t)) -> RP (opt_list c p ts).
  Proof. intros Hp. unfold opt_list. sweep. Qed.

  Ltac callee_ho ::=
    lazymatch goal with
    | |- RP (sep_list _ _ _) => apply RP_sep_list; intros; sweep
    | |- RP (sep_more _ _ _ _ _) => apply RP_sep_more; [intros; sweep | good_goal]
    | |- RP (each_closed _ _) => apply RP_each_closed; intros; sweep
    | |- RP (args_list _ _) => apply RP_args_list; intros; sweep
    | |- RP (call_args _ _ _) => apply RP_call_args; intros; sweep
    | |- RP (opt_list _ _ _) => apply RP_opt_list; intros; sweep
    | |- RP (compute_loop _ _ _ _ _) => apply RP_compute_loop; [intros; sweep | good_goal | good_goal]
    | |- RP (left_loop _ _ _ _ _) => apply RP_left_loop; [intros; sweep | intros; good_goal | good_goal]
    end.

  Lemma RP_b_extract ts : RP (b_extract rec d ts). Proof. unfold b_extract. sweep. Qed.
  Lemma RP_b_cast ts : RP (b_cast rec d ts). Proof. unfold b_cast. sweep. Qed.
  Lemma RP_b_if ts : RP (b_if rec d ts). Proof. unfold b_if, function_name_node. sweep. Qed.
  Hint Resolve RP_b_extract RP_b_cast RP_b_if : rp.
  Lemma RP_b_function ts : RP (b_function rec d ts). Proof. unfold b_function, function_name_node. sweep. Qed.
  Lemma RP_b_array_index b ts : no_list b = true -> RP (b_array_index rec d b ts). Proof. intros Hb. unfold b_array_index. sweep. Qed.
  Lemma RP_b_function_and_index ts : RP (b_function_and_index rec d ts). Proof. unfold b_function_and_index. sweep. Qed.
  Lemma RP_is_select_group ts : RP (is_select_group ts). Proof. unfold is_select_group. sweep. Qed.
  Hint Resolve RP_b_function RP_b_array_index RP_b_function_and_index RP_is_select_group : rp.
  Lemma RP_b_in_parenthesis ts : RP (b_in_parenthesis rec d ts). Proof. unfold b_in_parenthesis. sweep. Qed.
  Lemma RP_b_window ts : RP (b_window rec d ts). Proof. unfold b_window. sweep. Qed.
  Lemma RP_when_loop cls : forall n ts acc, good acc -> RP (when_loop rec d n cls ts acc).
  Proof. induction n as [|n IH]; intros ts acc Ha; cbn [when_loop]; sweep. Qed.
  Hint Resolve RP_b_in_parenthesis RP_b_window RP_when_loop : rp.
  Lemma RP_b_case ts : RP (b_case rec d ts). Proof. unfold b_case. sweep. Qed.
  Lemma RP_b_sub_query ts : RP (b_sub_query rec d ts). Proof. unfold b_sub_query. sweep. Qed.
  Lemma RP_b_sub_value ts : RP (b_sub_value rec d ts). Proof. unfold b_sub_value. sweep. Qed.
  Lemma RP_b_general_parenthesis ts : RP (b_general_parenthesis rec d ts). Proof. unfold b_general_parenthesis. sweep. Qed.
  Lemma RP_b_element ts : RP (b_element rec d ts). Proof. unfold b_element, wildcard_node. sweep. Qed.
  Lemma RP_b_unary ts : RP (b_unary rec d ts). Proof. unfold b_unary. sweep. Qed.
  Lemma RP_b_compute ts : RP (b_compute rec d ts). Proof. unfold b_compute. sweep. Qed.
  Hint Resolve RP_b_case RP_b_sub_query RP_b_sub_value RP_b_general_parenthesis RP_b_element RP_b_unary RP_b_compute : rp.

  Lemma nl_kw_node cls neg l r : no_list l = true -> no_list r = true -> no_list (kw_node cls neg l r) = true.
  Proof. intros. unfold kw_node. nl. Qed.
  Lemma nl_bin_node cls l r : no_list l = true -> no_list r = true -> no_list (bin_node cls l r) = true.
  Proof. intros. unfold bin_node. nl. Qed.
  Lemma RP_b_keyword_condition before ts : good before -> RP (b_keyword_condition rec d before ts).
  Proof. intros Hb. unfold b_keyword_condition, kw_node. destruct before as [b|]; sweep. Qed.
  Lemma RP_b_operator_condition ts : RP (b_operator_condition rec d ts).
  Proof.
    unfold b_operator_condition. sweep. apply RP_left_loop; [intros; sweep | | good_goal].
    intros t0. destruct (peek_set compare_operator_set t0); [|good_goal].
    pose proof (RP_parse_compare_operator t0) as H. destruct (parse_compare_operator t0) as [[o t']|]; [|good_goal].
    destruct H as [Ho _]. good_goal.
  Qed.
  Lemma RP_b_logical_not ts : RP (b_logical_not rec d ts). Proof. unfold b_logical_not. sweep. Qed.
  Lemma RP_layer cls sub kws ts : RP (layer rec d cls sub kws ts). Proof. unfold layer, bin_node. sweep. Qed.
  Hint Resolve RP_b_keyword_condition RP_b_operator_condition RP_b_logical_not RP_layer : rp.
  Lemma RP_b_logical_and ts : RP (b_logical_and rec d ts). Proof. apply RP_layer. Qed.
  Lemma RP_b_logical_xor ts : RP (b_logical_xor rec d ts). Proof. apply RP_layer. Qed.
  Lemma RP_b_logical_or ts : RP (b_logical_or rec d ts). Proof. apply RP_layer. Qed.
  Lemma RP_b_order_by_column ts : RP (b_order_by_column rec d ts). Proof. unfold b_order_by_column. sweep. Qed.
  Lemma RP_b_table_expression ts : RP (b_table_expression rec d ts). Proof. unfold b_table_expression. sweep. Qed.
  Lemma RP_b_from_table ts : RP (b_from_table rec d ts). Proof. unfold b_from_table. sweep. Qed.
  Lemma RP_b_select_column ts : RP (b_select_column rec d ts). Proof. unfold b_select_column. sweep. Qed.
  Hint Resolve RP_b_logical_and RP_b_logical_xor RP_b_logical_or RP_b_order_by_column RP_b_table_expression RP_b_from_table RP_b_select_column : rp.
  Lemma RP_b_select_clause ts : RP (b_select_clause rec d ts). Proof. unfold b_select_clause. sweep. Qed.
  Lemma RP_b_from_clause ts : RP (b_from_clause rec d ts). Proof. unfold b_from_clause. sweep. Qed.
  Lemma RP_b_lateral_view ts : RP (b_lateral_view rec d ts). Proof. unfold b_lateral_view. sweep. Qed.
  Lemma RP_b_join_expression ts : RP (b_join_expression rec d ts). Proof. unfold b_join_expression. sweep. Qed.
  Hint Resolve RP_b_select_clause RP_b_from_clause RP_b_lateral_view RP_b_join_expression : rp.
  Lemma RP_b_join_clause ts : RP (b_join_clause rec d ts). Proof. unfold b_join_clause. sweep. Qed.
  Lemma RP_b_where ts : RP (b_where rec d ts). Proof. unfold b_where. sweep. Qed.
  Lemma RP_b_having ts : RP (b_having rec d ts). Proof. unfold b_having. sweep. Qed.
  Lemma RP_b_grouping_sets ts : RP (b_grouping_sets rec d ts). Proof. unfold b_grouping_sets. sweep. Qed.
  Hint Resolve RP_b_join_clause RP_b_where RP_b_having RP_b_grouping_sets : rp.
  Lemma RP_b_group_by ts : RP (b_group_by rec d ts). Proof. unfold b_group_by. sweep. Qed.
  Lemma RP_by_clause cls k1 k2 item ts : (forall t, RP (item t)) -> RP (by_clause cls k1 k2 item ts).
  Proof. intros Hi. unfold by_clause. sweep. Qed.
  Lemma RP_b_order_by ts : RP (b_order_by rec d ts). Proof. apply RP_by_clause. intros; sweep. Qed.
  Lemma RP_b_sort_by ts : RP (b_sort_by rec d ts). Proof. apply RP_by_clause. intros; sweep. Qed.
  Lemma RP_b_distribute_by ts : RP (b_distribute_by rec d ts). Proof. apply RP_by_clause. intros; sweep. Qed.
  Lemma RP_b_cluster_by ts : RP (b_cluster_by rec d ts). Proof. apply RP_by_clause. intros; sweep. Qed.
  Lemma nl_empty_with : no_list empty_with = true. Proof. reflexivity. Qed.
  Hint Resolve RP_b_group_by RP_b_order_by RP_b_sort_by RP_b_distribute_by RP_b_cluster_by nl_empty_with : rp.
  Lemma RP_b_with_table ts : RP (b_with_table rec d ts). Proof. unfold b_with_table. sweep. Qed.
  Lemma RP_b_with_clause ts : RP (b_with_clause rec d ts). Proof. unfold b_with_clause. sweep. Qed.
  Lemma RP_strip_parens : forall n inner stack, RP (strip_parens n inner stack).
  Proof. induction n as [|n IH]; intros inner stack; cbn [strip_parens]; sweep. Qed.
  Lemma RP_while_clause cond item : (forall t, RP (item t)) -> forall n ts acc, good acc -> RP (while_clause n cond item ts acc).
  Proof. intros Hi. induction n as [|n IH]; intros ts acc Ha; cbn [while_clause]; sweep. Qed.
  Hint Resolve RP_b_with_table RP_b_with_clause RP_strip_parens : rp.

  Ltac callee_ho ::=
    lazymatch goal with
    | |- RP (sep_list _ _ _) => apply RP_sep_list; intros; sweep
    | |- RP (sep_more _ _ _ _ _) => apply RP_sep_more; [intros; sweep | good_goal]
    | |- RP (each_closed _ _) => apply RP_each_closed; intros; sweep
    | |- RP (args_list _ _) => apply RP_args_list; intros; sweep
    | |- RP (call_args _ _ _) => apply RP_call_args; intros; sweep
    | |- RP (opt_list _ _ _) => apply RP_opt_list; intros; sweep
    | |- RP (compute_loop _ _ _ _ _) => apply RP_compute_loop; [intros; sweep | good_goal | good_goal]
    | |- RP (left_loop _ _ _ _ _) => apply RP_left_loop; [intros; sweep | intros; good_goal | good_goal]
    | |- RP (while_clause _ _ _ _ _) => apply RP_while_clause; [intros; sweep | good_goal]
    | |- RP (by_clause _ _ _ _ _) => apply RP_by_clause; intros; sweep
    end.

  Lemma RP_close_stack : forall l, RP (close_stack l).
  Proof. induction l as [|x l IH]; cbn [close_stack]; [sweep|]. destruct l; sweep. Qed.
  Hint Resolve RP_close_stack : rp.
  Lemma RP_b_single_select w ts : good w -> RP (b_single_select rec d w ts).
  Proof.
    intros Hw. unfold b_single_select. destruct w as [w|]; [change (no_list w = true) in Hw|]; sweep.
  Qed.
  Lemma RP_union_loop wc : no_list wc = true -> forall n ts acc, good acc -> RP (union_loop rec d n wc ts acc).
  Proof. intros Hw. induction n as [|n IH]; intros ts acc Ha; cbn [union_loop]; sweep. Qed.
  Hint Resolve RP_b_single_select RP_union_loop : rp.
  Lemma RP_b_select w ts : good w -> RP (b_select rec d w ts).
  Proof. intros Hw. unfold b_select. destruct w as [w|]; [change (no_list w = true) in Hw|]; sweep. Qed.
  Lemma RP_b_column_type ts : RP (b_column_type rec d ts). Proof. unfold b_column_type. sweep. Qed.
  Hint Resolve RP_b_select RP_b_column_type : rp.

  (* ---------- DDL ---------- *)
  Lemma RP_partition_items one : (forall t, RP (one t)) -> forall l acc dy nd, good acc -> RP (partition_items one l acc dy nd).
  Proof. intros Ho. induction l as [|sg l IH]; intros acc dy nd Ha; cbn [partition_items]; sweep. Qed.
  Ltac callee_ho ::=
    lazymatch goal with
    | |- RP (sep_list _ _ _) => apply RP_sep_list; intros; sweep
    | |- RP (sep_more _ _ _ _ _) => apply RP_sep_more; [intros; sweep | good_goal]
    | |- RP (each_closed _ _) => apply RP_each_closed; intros; sweep
    | |- RP (args_list _ _) => apply RP_args_list; intros; sweep
    | |- RP (call_args _ _ _) => apply RP_call_args; intros; sweep
    | |- RP (opt_list _ _ _) => apply RP_opt_list; intros; sweep
    | |- RP (compute_loop _ _ _ _ _) => apply RP_compute_loop; [intros; sweep | good_goal | good_goal]
    | |- RP (left_loop _ _ _ _ _) => apply RP_left_loop; [intros; sweep | intros; good_goal | good_goal]
    | |- RP (while_clause _ _ _ _ _) => apply RP_while_clause; [intros; sweep | good_goal]
    | |- RP (by_clause _ _ _ _ _) => apply RP_by_clause; intros; sweep
    | |- RP (partition_items _ _ _ _ _) => apply RP_partition_items; [intros; sweep | good_goal]
    end.
  Lemma RP_b_partition already ts : RP (b_partition rec d already ts).
  Proof. unfold b_partition. sweep. Qed.
  Lemma RP_fk_action ts : RP (fk_action ts). Proof. unfold fk_action. sweep. Qed.
  Lemma RP_name_list ts : RP (name_list ts). Proof. unfold name_list. sweep. Qed.
  Hint Resolve RP_b_partition RP_fk_action RP_name_list : rp.
  Lemma RP_b_foreign_key ts : RP (b_foreign_key ts). Proof. unfold b_foreign_key. sweep. Qed.
  Lemma RP_index_column ts : RP (index_column ts). Proof. unfold index_column. sweep. Qed.
  Hint Resolve RP_b_foreign_key RP_index_column : rp.
  Lemma RP_index_columns ts : RP (index_columns ts). Proof. unfold index_columns. sweep. Qed.
  Lemma RP_index_tail ts : RP (index_tail ts). Proof. unfold index_tail. sweep. Qed.
  Hint Resolve RP_index_columns RP_index_tail : rp.
  Lemma RP_b_index cls kws named ts : RP (b_index cls kws named ts). Proof. unfold b_index. sweep. Qed.
  Lemma RP_b_generated ts : RP (b_generated rec d ts). Proof. unfold b_generated. sweep. Qed.
  Hint Resolve RP_b_index RP_b_generated : rp.

  Definition good_ca (a : colattrs) : Prop :=
    no_list (ca_comment a) = true /\ no_list (ca_charset a) = true /\ no_list (ca_collate a) = true /\
    no_list (ca_generated a) = true /\ no_list (ca_default a) = true /\ no_list (ca_on_update a) = true.
  #[local] Instance good_colattrs : Good colattrs | 0 := good_ca.
  Definition good_to (o : tblopts) : Prop :=
    Forall (fun v => no_list v = true) (to_partitioned o) /\ no_list (to_comment o) = true /\ no_list (to_engine o) = true /\
    no_list (to_auto_inc o) = true /\ no_list (to_charset o) = true /\ no_list (to_collate o) = true /\ no_list (to_row_format o) = true /\
    no_list (to_stats o) = true /\ no_list (to_serde o) = true /\ no_list (to_delim o) = true /\ no_list (to_inputformat o) = true /\
    no_list (to_outputformat o) = true /\ no_list (to_location o) = true /\ Forall (fun v => no_list v = true) (to_tblprops o).
  #[local] Instance good_tblopts : Good tblopts | 0 := good_to.
  Definition good_td (a : tbldefs) : Prop :=
    Forall (fun v => no_list v = true) (td_columns a) /\ no_list (td_primary a) = true /\ Forall (fun v => no_list v = true) (td_unique a) /\
    Forall (fun v => no_list v = true) (td_key a) /\ Forall (fun v => no_list v = true) (td_fulltext a) /\ Forall (fun v => no_list v = true) (td_foreign a).
  #[local] Instance good_tbldefs : Good tbldefs | 0 := good_td.

  Ltac rec_goal :=
    unfold good, good_prod, good_any, good_colattrs, good_ca, good_tblopts, good_to, good_tbldefs, good_td in *;
    cbv beta iota delta [fst snd ca_comment ca_charset ca_collate ca_generated ca_default ca_on_update
         to_partitioned to_comment to_engine to_auto_inc to_charset to_collate to_row_format to_stats to_serde to_delim to_inputformat
         to_outputformat to_location to_tblprops td_columns td_primary td_unique td_key td_fulltext td_foreign];
    repeat split; first [assumption | reflexivity | exact I | nl | nll | intuition].
  Ltac good_hook ::= rec_goal.
  Hint Extern 1 (good (mkca _ _ _ _ _ _ _ _ _ _ _)) => rec_goal : rp.
  Hint Extern 1 (good (mkto _ _ _ _ _ _ _ _ _ _ _ _ _ _ _)) => rec_goal : rp.
  Hint Extern 1 (good (mktd _ _ _ _ _ _)) => rec_goal : rp.

  Lemma RP_column_attrs : forall n a ts, good a -> RP (column_attrs rec d n a ts).
  Proof.
    induction n as [|n IH]; intros a ts Ha; cbn [column_attrs]; [reflexivity|].
    pose proof Ha as Ha'. unfold good, good_colattrs, good_ca in Ha'. destruct Ha' as (H1 & H2 & H3 & H4 & H5 & H6).
    sweep; try rec_goal.
  Qed.
  Hint Resolve RP_column_attrs : rp.
  Lemma RP_b_define_column ts : RP (b_define_column rec d ts).
  Proof.
    unfold b_define_column. sweep.
    all: match goal with H : good_colattrs _ |- _ => unfold good_colattrs, good_ca in H; destruct H as (H1 & H2 & H3 & H4 & H5 & H6) end.
    all: good_goal.
  Qed.
  Hint Resolve RP_b_define_column : rp.
  Lemma RP_b_column_or_index ts : RP (b_column_or_index rec d ts). Proof. unfold b_column_or_index. sweep. Qed.
  Lemma RP_opt_partition ts : RP (opt_partition rec d ts). Proof. unfold opt_partition. sweep. Qed.
  Lemma RP_values_loop : forall n ts acc, good acc -> RP (values_loop rec d n ts acc).
  Proof. induction n as [|n IH]; intros ts acc Ha; cbn [values_loop]; sweep. Qed.
  Hint Resolve RP_b_column_or_index RP_opt_partition RP_values_loop : rp.
  Lemma RP_b_insert w ts : good w -> RP (b_insert rec d w ts).
  Proof. intros Hw. unfold b_insert. destruct w as [w|]; [change (no_list w = true) in Hw|]; sweep. Qed.
  Lemma RP_b_set ts : RP (b_set ts). Proof. unfold b_set. sweep. Qed.
  Lemma RP_eq_value ts : RP (eq_value ts). Proof. unfold eq_value. sweep. Qed.
  Hint Resolve RP_b_insert RP_b_set RP_eq_value : rp.

  Lemma RP_table_options : forall n o ts, good o -> RP (table_options rec d n o ts).
  Proof.
    induction n as [|n IH]; intros o ts Ho; cbn [table_options]; [reflexivity|].
    pose proof Ho as Ho'. unfold good, good_tblopts, good_to in Ho'.
    destruct Ho' as (H1 & H2 & H3 & H4 & H5 & H6 & H7 & H8 & H9 & H10 & H11 & H12 & H13 & H14).
    sweep; try rec_goal.
  Qed.
  Lemma RP_table_defs : forall segs a, good a -> RP (table_defs rec d segs a).
  Proof.
    induction segs as [|sg segs IH]; intros a Ha; cbn [table_defs]; [exact Ha|].
    pose proof Ha as Ha'. unfold good, good_tbldefs, good_td in Ha'. destruct Ha' as (H1 & H2 & H3 & H4 & H5 & H6).
    sweep; try rec_goal.
  Qed.
  Hint Resolve RP_table_options RP_table_defs : rp.
  Lemma RP_b_create_table ts : RP (b_create_table rec d ts).
  Proof.
    unfold b_create_table. sweep.
    all: repeat match goal with
                | H : good_tblopts _ |- _ => unfold good_tblopts, good_to in H; decompose [and] H; clear H
                | H : good_tbldefs _ |- _ => unfold good_tbldefs, good_td in H; decompose [and] H; clear H
                end.
    all: good_goal.
  Qed.
  Lemma RP_b_drop_table ts : RP (b_drop_table ts). Proof. unfold b_drop_table. sweep. Qed.
  Lemma RP_b_analyze ts : RP (b_analyze rec d ts). Proof. unfold b_analyze. sweep. Qed.
  Lemma RP_b_alter_expression ts : RP (b_alter_expression rec d ts). Proof. unfold b_alter_expression. sweep. Qed.
  Lemma RP_b_alter_table ts : RP (b_alter_table rec d ts). Proof. unfold b_alter_table. sweep. Qed.
  Lemma RP_table_stmt cls kws ts : RP (table_stmt cls kws ts). Proof. unfold table_stmt. sweep. Qed.
  Lemma RP_b_use ts : RP (b_use ts). Proof. unfold b_use. sweep. Qed.
  Lemma RP_update_set_column ts : RP (update_set_column rec d ts). Proof. unfold update_set_column. sweep. Qed.
  Hint Resolve RP_b_create_table RP_b_drop_table RP_b_analyze RP_b_alter_expression RP_b_alter_table RP_table_stmt RP_b_use RP_update_set_column : rp.
  Lemma RP_b_update w ts : good w -> RP (b_update rec d w ts).
  Proof. intros Hw. unfold b_update. destruct w as [w|]; [change (no_list w = true) in Hw|]; sweep. Qed.
  Lemma RP_b_delete ts : RP (b_delete rec d ts). Proof. unfold b_delete. sweep. Qed.
  Lemma RP_b_show_columns ts : RP (b_show_columns rec d ts). Proof. unfold b_show_columns. sweep. Qed.
  Hint Resolve RP_b_update RP_b_delete RP_b_show_columns : rp.
  Lemma RP_b_statement ts : RP (b_statement rec d ts). Proof. unfold b_statement. sweep. Qed.
  Hint Resolve RP_b_statement : rp.

  Theorem RP_body f a ts : good a -> RP (body rec d f a ts).
  Proof.
    intros Ha. unfold body. destruct f; try solve [eauto 3 with rp];
      first [ destruct a as [b|]; [apply RP_b_array_index; exact Ha|reflexivity]
            | apply RP_b_keyword_condition; exact Ha
            | apply RP_b_single_select; exact Ha
            | apply RP_b_select; exact Ha
            | apply RP_b_insert; exact Ha ].
  Qed.
End BodySweep.

(* ---------- closing the recursion: every fuel, every function, every dialect, every token list ---------- *)
Theorem RP_run : forall fuel f d a ts, good a -> RP (run fuel f d a ts).
Proof.
  induction fuel as [|n IH]; intros f d a ts Ha; cbn [run]; [reflexivity|].
  apply RP_body; [|exact Ha]. intros f' d' a' ts' Ha'. apply IH. exact Ha'.
Qed.

Theorem RP_statements_loop : forall n fuel d ts acc, Forall (fun v => no_list v = true) acc ->
  RP (statements_loop n fuel d ts acc).
Proof.
  induction n as [|n IH]; intros fuel d ts acc Ha; cbn [statements_loop]; [reflexivity|].
  destruct (is_finish ts); [apply Forall_rev; exact Ha|].
  pose proof (RP_run fuel F_statement d None ts I) as H. destruct (run fuel F_statement d None ts) as [[v t1]|e]; [|exact H].
  destruct H as [Hv _]. destruct (take_str (S ";") t1) as [b t2]. apply IH. constructor; assumption.
Qed.
