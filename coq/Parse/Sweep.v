(* A structural sweep over the WHOLE parser model (Parse/Model.v): every function, for every token list, dialect and
   fuel, returns either Ok with a result that is free of Python lists at every depth, or an error that is not an
   unrelated exception (Crash).  One induction on the fuel over the open-recursive `body`; every function body is
   discharged by the same tactic, which follows the syntax of the definition (bind, pair destructuring, conditionals). *)
From Coq Require Import List NArith ZArith Bool String Ascii Lia.
Require Import Base.Common Gen.LexTable Lex.Model Cur.Model Tree.Value Tree.Helpers Tree.HelperProofs Gen.Static Parse.Prim Parse.Model.
Import ListNotations.
Open Scope string_scope.
Open Scope list_scope.

Definition good_err (e : err) : bool := match e with Crash _ => false | _ => true end.

Class Good (A : Type) := good : A -> Prop.
#[global] Instance good_any A : Good A | 100 := fun _ => True.
#[global] Instance good_value : Good value | 0 := fun v => no_list v = true.
#[global] Instance good_values : Good (list value) | 0 := fun l => Forall (fun v => no_list v = true) l.
#[global] Instance good_prod A B `{Good A} `{Good B} : Good (A * B) | 0 := fun p => good (fst p) /\ good (snd p).
#[global] Instance good_option A `{Good A} : Good (option A) | 0 := fun o => match o with Some x => good x | None => True end.
#[global] Instance good_mk : Good (value -> value -> value) | 0 := fun f => forall a b, no_list a = true -> no_list b = true -> no_list (f a b) = true.
#[global] Instance good_fields : Good (list (string * value)) | 0 := fun l => Forall (fun p => no_list (snd p) = true) l.

#[global] Instance good_pend : Good (list (value * string)) | 0 := fun l => Forall (fun p => no_list (fst p) = true) l.

Definition RP {A} `{Good A} (r : res A) : Prop := match r with Ok a => good a | Err e => good_err e = true end.

Lemma nl_node c fs : Forall (fun p => no_list (snd p) = true) fs -> no_list (node c fs) = true.
Proof.
  unfold node. intros H. rewrite no_list_node. induction H as [|[k v] fs Hv _ IH]; simpl; auto.
  simpl in Hv. rewrite Hv. exact IH.
Qed.
Lemma nl_vtuple l : Forall (fun v => no_list v = true) l -> no_list (vtuple l) = true.
Proof. unfold vtuple. intros H. rewrite no_list_tuple. apply no_list_all_forall. exact H. Qed.
Lemma nl_vopt_str o : no_list (vopt_str o) = true. Proof. destruct o; reflexivity. Qed.
Lemma nl_vbool b : no_list (vbool b) = true. Proof. reflexivity. Qed.
Lemma nl_venum c n : no_list (venum c n) = true. Proof. reflexivity. Qed.

(* leaves / lists / nodes *)
Ltac nl :=
  lazymatch goal with
  | |- no_list (node _ _) = true => apply nl_node; nlf
  | |- no_list (VNode _ _) = true => apply (nl_node _ _); nlf
  | |- no_list (vtuple _) = true => apply nl_vtuple; nll
  | |- no_list (VTuple _) = true => apply (nl_vtuple _); nll
  | |- no_list (vopt_str _) = true => apply nl_vopt_str
  | |- no_list (match ?o with _ => _ end) = true => destruct o; nl
  | |- no_list (if ?b then _ else _) = true => destruct b; nl
  | |- good _ => unfold good; first [ assumption | nl_unfold ]
  | |- _ => first [ assumption | reflexivity | nl_apply ]
  end
with nl_unfold :=
  lazymatch goal with
  | |- good_value _ => unfold good_value; nl
  | |- good_values _ => unfold good_values; nll
  | |- good_fields _ => unfold good_fields; nlf
  | |- _ => exact I
  end
with nl_apply :=
  match goal with
  | H : good ?f |- no_list (?f _ _) = true => apply H; nl
  | H : good_mk ?f |- no_list (?f _ _) = true => apply H; nl
  | H : forall a b, no_list a = true -> no_list b = true -> no_list (?f a b) = true |- no_list (?f _ _) = true => apply H; nl
  end
with nll :=
  lazymatch goal with
  | |- Forall _ [] => apply Forall_nil
  | |- Forall _ (_ :: _) => apply Forall_cons; [nl | nll]
  | |- Forall _ (rev _) => apply Forall_rev; nll
  | |- Forall _ (_ ++ _) => apply Forall_app; split; nll
  | |- Forall _ (match ?o with _ => _ end) => destruct o; nll
  | |- Forall _ (if ?b then _ else _) => destruct b; nll
  | |- _ => assumption
  end
with nlf :=
  lazymatch goal with
  | |- Forall _ [] => apply Forall_nil
  | |- Forall _ ((_, _) :: _) => apply Forall_cons; [cbn [snd]; nl | nlf]
  | |- Forall _ (_ ++ _) => apply Forall_app; split; nlf
  | |- Forall _ (match ?o with _ => _ end) => destruct o; nlf
  | |- Forall _ (if ?b then _ else _) => destruct b; nlf
  | |- _ => assumption
  end.

(* split a goodness fact into its atoms *)
Ltac split_good H :=
  unfold good in H;
  lazymatch type of H with
  | good_prod _ _ _ => unfold good_prod in H; cbn [fst snd] in H; let H1 := fresh "G" in let H2 := fresh "G" in destruct H as [H1 H2]; split_good H1; split_good H2
  | _ /\ _ => let H1 := fresh "G" in let H2 := fresh "G" in destruct H as [H1 H2]; split_good H1; split_good H2
  | good_any _ _ => clear H
  | True => clear H
  | good_value _ => unfold good_value in H
  | good_values _ => unfold good_values in H
  | good_fields _ => unfold good_fields in H
  | good_option _ _ => unfold good_option in H
  | _ => idtac
  end.

Ltac good_goal :=
  repeat (unfold good, good_prod, good_option, good_any, good_value, good_values, good_fields, good_mk, good_pend; cbn [fst snd]);
  lazymatch goal with
  | |- _ /\ _ => split; good_goal
  | |- True => exact I
  | |- match ?x with _ => _ end => destruct x; good_goal
  | |- no_list _ = true => nl
  | |- Forall (fun v => no_list v = true) _ => nll
  | |- Forall (fun p => no_list (snd p) = true) _ => nlf
  | |- Forall (fun p => no_list (fst p) = true) [] => apply Forall_nil
  | |- forall _, _ => intros; good_goal
  | |- _ => first [assumption | exact I]
  end.
Ltac ok_goal := unfold RP; good_goal.

(* ---------- primitives (Parse/Prim.v) ---------- *)
Lemma RP_match_pats ps ts : RP (match_pats ps ts). Proof. unfold match_pats. destruct (peek_pats ps ts); exact I || reflexivity. Qed.
Lemma RP_pop ts : RP (pop ts). Proof. destruct ts; simpl; [reflexivity|split; exact I]. Qed.
Lemma RP_pop_src ts : RP (pop_src ts). Proof. destruct ts; simpl; [reflexivity|split; exact I]. Qed.
Lemma RP_pop_children ts : RP (pop_children ts). Proof. destruct ts; simpl; [reflexivity|split; exact I]. Qed.
Lemma RP_peek_children ts : RP (peek_children ts). Proof. destruct ts; simpl; [reflexivity|exact I]. Qed.
Lemma RP_pop_split s ts : RP (pop_split s ts). Proof. destruct ts; simpl; [reflexivity|split; exact I]. Qed.
Lemma RP_close ts : RP (close ts). Proof. destruct ts; simpl; [exact I|reflexivity]. Qed.
Lemma RP_int_of s : RP (int_of s). Proof. unfold int_of. destruct (py_int s); [exact I|reflexivity]. Qed.
Lemma RP_as_int s : RP (as_int s). Proof. unfold as_int. destruct (py_int s); [exact I|reflexivity]. Qed.

(* ---------- the sweep tactic ---------- *)
Create HintDb rp.
#[global] Hint Resolve RP_match_pats RP_pop RP_pop_src RP_pop_children RP_peek_children RP_pop_split RP_close RP_int_of RP_as_int : rp.
#[global] Hint Extern 1 (good _) => (unfold good; first [assumption | exact I | nl_unfold]) : rp.
#[global] Hint Extern 1 (good_option _ _) => (unfold good_option; first [assumption | exact I | nl]) : rp.

Ltac split_all_good :=
  repeat match goal with
         | H : good (_, _) |- _ => split_good H
         | H : good_prod _ _ (_, _) |- _ => split_good H
         | H : good_any _ _ |- _ => clear H
         | H : True |- _ => clear H
         end.

Ltac callee_ho := fail.
Ltac sweep :=
  cbv zeta;
  lazymatch goal with
  | |- RP (Ok _) => ok_goal
  | |- RP (Err ParseErr) => reflexivity
  | |- RP (Err OutOfFuel) => reflexivity
  | |- RP (Err ?x) => first [reflexivity | assumption]
  | |- RP (match ?e with Ok _ => _ | Err _ => _ end) =>
      let H := fresh "G" in
      assert (H : RP e) by callee;
      destruct e; [ unfold RP in H; split_all_good; sweep | exact H ]
  | |- RP (match ?x with _ => _ end) => destruct x; split_all_good; sweep
  | |- RP _ => first [callee | idtac]
  end
with callee := first [ assumption | solve [eauto 3 with rp] | callee_ho | callee_struct ]
with callee_struct :=
  lazymatch goal with
  | |- RP (match _ with _ => _ end) => solve [sweep]
  | |- RP (Ok _) => solve [sweep]
  | |- RP (Err _) => solve [sweep]
  end.

(* ---------- leaf parsers ---------- *)
Lemma RP_parse_insert_type ts : RP (parse_insert_type ts). Proof. unfold parse_insert_type. sweep. Qed.
Lemma RP_parse_join_type ts : RP (parse_join_type ts). Proof. unfold parse_join_type. sweep. Qed.
Lemma RP_parse_order_type ts : RP (parse_order_type ts). Proof. unfold parse_order_type. sweep. Qed.
Lemma RP_parse_union_type ts : RP (parse_union_type ts). Proof. unfold parse_union_type. sweep. Qed.
Lemma RP_parse_compare_operator ts : RP (parse_compare_operator ts). Proof. unfold parse_compare_operator. sweep. Qed.
Lemma RP_parse_compute_operator ts : RP (parse_compute_operator ts). Proof. unfold parse_compute_operator, compute_op_node. sweep. Qed.
Lemma RP_parse_column_name ts : RP (parse_column_name ts). Proof. unfold parse_column_name, column_node. sweep. Qed.
Lemma RP_parse_column_name_with_table ts : RP (parse_column_name_with_table ts). Proof. unfold parse_column_name_with_table, column_node. sweep. Qed.
Lemma RP_parse_column_name_without_table ts : RP (parse_column_name_without_table ts). Proof. unfold parse_column_name_without_table, column_node. sweep. Qed.
Lemma RP_parse_table_name ts : RP (parse_table_name ts). Proof. unfold parse_table_name, table_node. sweep. Qed.
Lemma RP_parse_function_name ts : RP (parse_function_name ts). Proof. unfold parse_function_name. sweep. Qed.
Lemma RP_parse_literal ts : RP (parse_literal ts). Proof. unfold parse_literal, literal_node. sweep. Qed.
Lemma RP_parse_window_row_item ts : RP (parse_window_row_item ts). Proof. unfold parse_window_row_item, row_item. sweep. Qed.
#[global] Hint Resolve RP_parse_insert_type RP_parse_join_type RP_parse_order_type RP_parse_union_type RP_parse_compare_operator
  RP_parse_compute_operator RP_parse_column_name RP_parse_column_name_with_table RP_parse_column_name_without_table RP_parse_table_name
  RP_parse_function_name RP_parse_literal RP_parse_window_row_item : rp.
Lemma RP_parse_window_row ts : RP (parse_window_row ts). Proof. unfold parse_window_row. sweep. Qed.
Lemma RP_get_alias_name ts : RP (get_alias_name ts). Proof. unfold get_alias_name. sweep. Qed.
#[global] Hint Resolve RP_parse_window_row RP_get_alias_name : rp.
Lemma RP_parse_alias ts : RP (parse_alias ts). Proof. unfold parse_alias, alias_node. sweep. Qed.
Lemma RP_parse_limit ts : RP (parse_limit ts). Proof. unfold parse_limit. sweep. Qed.
#[global] Hint Resolve RP_parse_alias RP_parse_limit : rp.

(* ---------- combinators ---------- *)
Section Combinators.
  Variable item : toks -> PR.
  Hypothesis Hitem : forall t, RP (item t).

  Lemma RP_sep_more sep : forall n ts acc, good acc -> RP (sep_more n item sep ts acc).
  Proof. induction n as [|n IH]; intros ts acc Hacc; cbn [sep_more]; sweep. Qed.
  Hint Resolve RP_sep_more : rp.
  Lemma RP_sep_list sep ts : RP (sep_list item sep ts).
  Proof. unfold sep_list. sweep. Qed.
  Lemma RP_each_closed : forall segs, RP (each_closed item segs).
  Proof. induction segs as [|sg segs IH]; cbn [each_closed]; sweep. Qed.
End Combinators.

Ltac callee_ho ::=
  lazymatch goal with
  | |- RP (sep_list _ _ _) => apply RP_sep_list; intros; sweep
  | |- RP (sep_more _ _ _ _ _) => apply RP_sep_more; [intros; sweep | good_goal]
  | |- RP (each_closed _ _) => apply RP_each_closed; intros; sweep
  end.

Lemma RP_parse_multi_alias ts : RP (parse_multi_alias ts). Proof. unfold parse_multi_alias. sweep. Qed.
Lemma RP_parse_config_string ts : RP (parse_config_string ts).
Proof.
  unfold parse_config_string. sweep.
  all: match goal with |- RP (?F ?n ?a ?t) => generalize n a t end.
  all: induction n as [|n IH]; intros acc t'; lazy beta iota fix; sweep.
Qed.
#[global] Hint Resolve RP_parse_multi_alias RP_parse_config_string : rp.
Lemma RP_parse_config_string_expression ts : RP (parse_config_string_expression ts). Proof. unfold parse_config_string_expression. sweep. Qed.
#[global] Hint Resolve RP_parse_config_string_expression : rp.

(* ---------- operator loops ---------- *)
Lemma nl_compute_node l o r : no_list l = true -> no_list r = true -> no_list (compute_node l o r) = true.
Proof. intros Hl Hr. unfold compute_node, compute_op_node. nl. Qed.
Lemma good_reduce_while n : forall pend top, good pend -> no_list top = true ->
  good (fst (reduce_while n pend top)) /\ no_list (snd (reduce_while n pend top)) = true.
Proof.
  induction pend as [|[e o] rest IH]; intros top Hp Ht; cbn [reduce_while]; [split; [exact Hp|exact Ht]|].
  inversion Hp; subst. cbn [fst] in *. destruct (N.leb (op_level o) n).
  - apply IH; [assumption|]. apply nl_compute_node; assumption.
  - split; [exact Hp|exact Ht].
Qed.
Lemma nl_reduce_all : forall pend top, good pend -> no_list top = true -> no_list (reduce_all pend top) = true.
Proof.
  induction pend as [|[e o] rest IH]; intros top Hp Ht; cbn [reduce_all]; [exact Ht|].
  inversion Hp; subst. cbn [fst] in *. apply IH; [assumption|]. apply nl_compute_node; assumption.
Qed.

Section Loops.
  Variable sub : toks -> PR.
  Hypothesis Hsub : forall t, RP (sub t).

  Lemma RP_compute_loop : forall n pend top ts, good pend -> no_list top = true -> RP (compute_loop n sub pend top ts).
  Proof.
    induction n as [|n IH]; intros pend top ts Hp Ht; cbn [compute_loop]; [reflexivity|].
    destruct (next_compute_op ts) as [o|].
    - pose proof (good_reduce_while (op_level o) pend top Hp Ht) as [H1 H2].
      destruct (reduce_while (op_level o) pend top) as [pend' top']. cbn [fst snd] in H1, H2.
      pose proof (Hsub (skipn 1 ts)) as Hs. destruct (sub (skipn 1 ts)) as [[v ts']|e]; [|exact Hs].
      destruct Hs as [Hv _]. apply IH; [|exact Hv]. constructor; [exact H2|exact H1].
    - split; [|exact I]. apply nl_reduce_all; assumption.
  Qed.

  Variable op : toks -> option (value -> value -> value) * toks.
  Hypothesis Hop : forall t, good (op t).
  Lemma RP_left_loop : forall n acc ts, no_list acc = true -> RP (left_loop n sub op acc ts).
  Proof.
    induction n as [|n IH]; intros acc ts Ha; cbn [left_loop]; [reflexivity|].
    pose proof (Hop ts) as Ho. destruct (op ts) as [[mk|] ts1]; [|split; [exact Ha|exact I]].
    destruct Ho as [Hmk _]. pose proof (Hsub ts1) as Hs. destruct (sub ts1) as [[v ts2]|e]; [|exact Hs].
    destruct Hs as [Hv _]. apply IH. apply Hmk; assumption.
  Qed.
End Loops.

(* ---------- the recursive part: every body function, given a recursion handle that already satisfies the claim ---------- *)
Section BodySweep.
  Variable rec : REC.
  Variable d : sqltype.
  Hypothesis Hrec : forall f d' a ts, good a -> RP (rec f d' a ts).

  Lemma RP_r f ts : RP (r rec d f ts). Proof. unfold r. apply Hrec. exact I. Qed.
  Lemma RP_r1 f a ts : no_list a = true -> RP (r1 rec d f a ts). Proof. intros H. unfold r1. apply Hrec. exact H. Qed.
  Hint Resolve RP_r RP_r1 : rp.

  Lemma RP_args_list item ts : (forall t, RP (item t)) -> RP (args_list item ts).
  Proof. intros Hi. unfold args_list. sweep. Qed.
  Lemma RP_call_args item keep ts : (forall t, RP (item t)) -> RP (call_args item keep ts).
  Proof. intros Hi. unfold call_args. sweep. Qed.
  Lemma RP_opt_list c p ts : (forall t, RP (p t)) -> RP (opt_list c p ts).
  Proof. intros Hp. unfold opt_list. sweep. Qed.

  Ltac callee_ho ::=
    lazymatch goal with
    | |- RP (sep_list _ _ _) => apply RP_sep_list; intros; sweep
    | |- RP (sep_more _ _ _ _ _) => apply RP_sep_more; [intros; sweep | good_goal]
    | |- RP (each_closed _ _) => apply RP_each_closed; intros; sweep
    | |- RP (args_list _ _) => apply RP_args_list; intros; sweep
    | |- RP (call_args _ _ _) => apply RP_call_args; intros; sweep
    | |- RP (opt_list _ _ _) => apply RP_opt_list; intros; sweep
    | |- RP (compute_loop _ _ _ _ _) => apply RP_compute_loop; [intros; sweep | good_goal | good_goal]
    | |- RP (left_loop _ _ _ _ _) => apply RP_left_loop; [intros; sweep | intros; good_goal | good_goal]
    end.

  Lemma RP_b_extract ts : RP (b_extract rec d ts). Proof. unfold b_extract. sweep. Qed.
  Lemma RP_b_cast ts : RP (b_cast rec d ts). Proof. unfold b_cast. sweep. Qed.
  Lemma RP_b_if ts : RP (b_if rec d ts). Proof. unfold b_if, function_name_node. sweep. Qed.
  Hint Resolve RP_b_extract RP_b_cast RP_b_if : rp.
  Lemma RP_b_function ts : RP (b_function rec d ts). Proof. unfold b_function, function_name_node. sweep. Qed.
  Lemma RP_b_array_index b ts : no_list b = true -> RP (b_array_index rec d b ts). Proof. intros Hb. unfold b_array_index. sweep. Qed.
  Lemma RP_b_function_and_index ts : RP (b_function_and_index rec d ts). Proof. unfold b_function_and_index. sweep. Qed.
  Lemma RP_is_select_group ts : RP (is_select_group ts). Proof. unfold is_select_group. sweep. Qed.
  Hint Resolve RP_b_function RP_b_array_index RP_b_function_and_index RP_is_select_group : rp.
  Lemma RP_b_in_parenthesis ts : RP (b_in_parenthesis rec d ts). Proof. unfold b_in_parenthesis. sweep. Qed.
  Lemma RP_b_window ts : RP (b_window rec d ts). Proof. unfold b_window. sweep. Qed.
  Lemma RP_when_loop cls : forall n ts acc, good acc -> RP (when_loop rec d n cls ts acc).
  Proof. induction n as [|n IH]; intros ts acc Ha; cbn [when_loop]; sweep. Qed.
  Hint Resolve RP_b_in_parenthesis RP_b_window RP_when_loop : rp.
  Lemma RP_b_case ts : RP (b_case rec d ts). Proof. unfold b_case. sweep. Qed.
  Lemma RP_b_sub_query ts : RP (b_sub_query rec d ts). Proof. unfold b_sub_query. sweep. Qed.
  Lemma RP_b_sub_value ts : RP (b_sub_value rec d ts). Proof. unfold b_sub_value. sweep. Qed.
  Lemma RP_b_general_parenthesis ts : RP (b_general_parenthesis rec d ts). Proof. unfold b_general_parenthesis. sweep. Qed.
  Lemma RP_b_element ts : RP (b_element rec d ts). Proof. unfold b_element, wildcard_node. sweep. Qed.
  Lemma RP_b_unary ts : RP (b_unary rec d ts). Proof. unfold b_unary. sweep. Qed.
  Lemma RP_b_compute ts : RP (b_compute rec d ts). Proof. unfold b_compute. sweep. Qed.
  Hint Resolve RP_b_case RP_b_sub_query RP_b_sub_value RP_b_general_parenthesis RP_b_element RP_b_unary RP_b_compute : rp.
End BodySweep.
