(* Fourth whole-model result: the parser does not look past a statement separator.  If a parse function, given the tokens ts, returns (v, R), then
   given ts ++ F -- where F starts with the separator token ';' -- it returns (v, R ++ F): the same tree, the same number of tokens consumed,
   whatever follows the separator.  (A parse that succeeds never reads a token it does not consume except through keyword / mark tests, and no
   such test is satisfied by ';'.)  CREATE TABLE is the one statement that swallows a ';' itself; it is treated at the statement level.
   With the script theorem of Parse/LoopProofs.v this removes the hypothesis of C10: a script parses to the concatenation of the stand-alone
   parses of its statements. *)
From Coq Require Import List NArith ZArith Bool String Ascii Lia Arith.
Require Import Base.Common Gen.LexTable Lex.Model Cur.Model Tree.Value Gen.Static Parse.Prim Parse.Model Parse.Suffix Parse.LoopProofs.
Import ListNotations.
Open Scope string_scope.
Open Scope list_scope.
Local Open Scope nat_scope.


(* what "the same result with F appended to the remaining tokens" means for each result type *)
Class Lift (A : Type) := lift : toks -> A -> A.
#[global] Instance lift_any A : Lift A | 100 := fun _ a => a.
#[global] Instance lift_toks : Lift toks | 0 := fun F r => r ++ F.
#[global] Instance lift_pair A : Lift (A * toks) | 0 := fun F p => (fst p, snd p ++ F).
#[global] Instance lift_opt A `{Lift A} : Lift (option A) | 0 := fun F o => option_map (lift F) o.
Definition EXR {A} `{Lift A} (F : toks) (x y : res A) : Prop := match x with Ok a => y = Ok (lift F a) | Err _ => True end.
Ltac lift_unfold := cbv beta iota delta [lift lift_any lift_toks lift_pair lift_opt option_map fst snd].
Ltac lift_unfold_in H := cbv beta iota delta [lift lift_any lift_toks lift_pair lift_opt option_map fst snd] in H.

Section Prims.
  Variable E : toks.
  Notation F := (semi :: E).

  (* ---------- peeks do not see the extension ---------- *)
  Lemma peek_mark_ext m ts : peek_mark m (ts ++ F) = peek_mark m ts.
  Proof. destruct ts as [|t ts]; [|reflexivity]. cbn. unfold has_mark. cbn. reflexivity. Qed.
  Lemma peek_str_ext s ts : str_eqb (S ";") s = false -> peek_str s (ts ++ F) = peek_str s ts.
  Proof. intros H. destruct ts as [|t ts]; [|reflexivity]. cbn [app peek_str]. unfold source_equal, semi. cbn [Lex.Model.source]. exact H. Qed.
  Lemma peek_up_ext s ts : str_eqb (upper (S ";")) s = false -> peek_up s (ts ++ F) = peek_up s ts.
  Proof. intros H. destruct ts as [|t ts]; [|reflexivity]. cbn [app peek_up]. unfold source_equal_upper, semi. cbn [Lex.Model.source]. exact H. Qed.
  Lemma peek_up2_ext a b ts : str_eqb (upper (S ";")) a = false -> str_eqb (upper (S ";")) b = false -> peek_up2 a b (ts ++ F) = peek_up2 a b ts.
  Proof.
    intros Ha Hb. destruct ts as [|t [|t' ts]]; [| |reflexivity]; cbn [app peek_up2]; unfold source_equal_upper, semi; cbn [Lex.Model.source].
    - destruct E; [reflexivity|]. rewrite Ha. reflexivity.
    - rewrite Hb. apply andb_false_r.
  Qed.
  Lemma peek_up3_ext a b c ts : str_eqb (upper (S ";")) a = false -> str_eqb (upper (S ";")) b = false -> str_eqb (upper (S ";")) c = false ->
    peek_up3 a b c (ts ++ F) = peek_up3 a b c ts.
  Proof.
    intros Ha Hb Hc. destruct ts as [|t [|t' [|t'' ts]]]; [| | |reflexivity]; cbn [app peek_up3]; unfold source_equal_upper, semi; cbn [Lex.Model.source].
    - destruct E as [|e1 [|e2 E']]; try reflexivity. rewrite Ha. reflexivity.
    - destruct E as [|e1 E']; [reflexivity|]. rewrite Hb. rewrite andb_false_r. reflexivity.
    - rewrite Hc. apply andb_false_r.
  Qed.
  Lemma peek_set_ext l ts : mem_str (S ";") l = false -> peek_set l (ts ++ F) = peek_set l ts.
  Proof. intros H. destruct ts as [|t ts]; [|reflexivity]. cbn [app peek_set]. unfold semi. cbn [Lex.Model.source]. exact H. Qed.
  Lemma peek_set_up_ext l ts : mem_str (upper (S ";")) l = false -> peek_set_up l (ts ++ F) = peek_set_up l ts.
  Proof. intros H. destruct ts as [|t ts]; [|reflexivity]. cbn [app peek_set_up]. unfold semi. cbn [Lex.Model.source]. exact H. Qed.
  Definition pat_ok (p : pat) : bool := negb (tok_equals semi p).
  Lemma search_from_ext : forall ps ts, forallb pat_ok ps = true -> search_from (ts ++ F) ps = search_from ts ps.
  Proof.
    induction ps as [|p ps IH]; intros ts H; [destruct ts; reflexivity|]. cbn [forallb] in H. apply andb_true_iff in H as [Hp Hps].
    destruct ts as [|t ts]; cbn [app search_from].
    - unfold pat_ok in Hp. apply negb_true_iff in Hp. rewrite Hp. reflexivity.
    - rewrite (IH ts Hps). reflexivity.
  Qed.
  Lemma peek_pats_ext ps ts : forallb pat_ok ps = true -> peek_pats ps (ts ++ F) = peek_pats ps ts.
  Proof. apply search_from_ext. Qed.
  Lemma hd_src_ext ts : ts <> [] -> hd_src (ts ++ F) = hd_src ts. Proof. destruct ts; [congruence|reflexivity]. Qed.
  Lemma next_op_ext ts : next_compute_op (ts ++ F) = next_compute_op ts.
  Proof. destruct ts as [|t ts]; [|reflexivity]. vm_compute. reflexivity. Qed.
  Lemma finish_or_semi_ext ts : (is_finish (ts ++ F) || peek_str (S ";") (ts ++ F)) = (is_finish ts || peek_str (S ";") ts).
  Proof. destruct ts as [|t ts]; [|reflexivity]. vm_compute. reflexivity. Qed.

  (* ---------- moves ---------- *)
  Lemma skipn_ext k ts : k <= List.length ts -> skipn k (ts ++ F) = skipn k ts ++ F.
  Proof. revert ts. induction k as [|k IH]; intros ts H; [reflexivity|]. destruct ts as [|t ts]; [simpl in H; lia|]. cbn [app skipn]. apply IH. simpl in H. lia. Qed.
  Lemma take_ext b k ts : (b = true -> k <= List.length ts) -> take b k (ts ++ F) = lift F (take b k ts).
  Proof. intros H. unfold take. destruct b; lift_unfold; [rewrite (skipn_ext k ts (H eq_refl)); reflexivity|reflexivity]. Qed.
End Prims.

Create HintDb ex.
#[global] Hint Extern 1 (str_eqb _ _ = false) => (vm_compute; reflexivity) : ex.
#[global] Hint Extern 1 (mem_str _ _ = false) => (vm_compute; reflexivity) : ex.
#[global] Hint Extern 1 (forallb pat_ok _ = true) => (vm_compute; reflexivity) : ex.

Section Ext.
  Variable E : toks.
  Notation F := (semi :: E).

  Lemma X_take_str s ts : str_eqb (S ";") s = false -> take_str s (ts ++ F) = lift F (take_str s ts).
  Proof. intros H. unfold take_str. rewrite (peek_str_ext E s ts H). apply take_ext. unfold peek_str. destruct ts; [discriminate|simpl; lia]. Qed.
  Lemma X_take_up s ts : str_eqb (upper (S ";")) s = false -> take_up s (ts ++ F) = lift F (take_up s ts).
  Proof. intros H. unfold take_up. rewrite (peek_up_ext E s ts H). apply take_ext. unfold peek_up. destruct ts; [discriminate|simpl; lia]. Qed.
  Lemma X_take_up2 a b ts : str_eqb (upper (S ";")) a = false -> str_eqb (upper (S ";")) b = false -> take_up2 a b (ts ++ F) = lift F (take_up2 a b ts).
  Proof. intros Ha Hb. unfold take_up2. rewrite (peek_up2_ext E a b ts Ha Hb). apply take_ext. unfold peek_up2. destruct ts as [|x [|y l]]; try discriminate. simpl; lia. Qed.
  Lemma X_take_up3 a b c ts : str_eqb (upper (S ";")) a = false -> str_eqb (upper (S ";")) b = false -> str_eqb (upper (S ";")) c = false ->
    take_up3 a b c (ts ++ F) = lift F (take_up3 a b c ts).
  Proof. intros Ha Hb Hc. unfold take_up3. rewrite (peek_up3_ext E a b c ts Ha Hb Hc). apply take_ext. unfold peek_up3. destruct ts as [|x [|y [|z l]]]; try discriminate. simpl; lia. Qed.
  Lemma X_take_set_up l ts : mem_str (upper (S ";")) l = false -> take_set_up l (ts ++ F) = lift F (take_set_up l ts).
  Proof. intros H. unfold take_set_up. rewrite (peek_set_up_ext E l ts H). apply take_ext. unfold peek_set_up. destruct ts; [discriminate|simpl; lia]. Qed.
  Lemma search_from_len : forall ps l, search_from l ps = true -> List.length ps <= List.length l.
  Proof. induction ps as [|p ps IH]; intros l H; [simpl; lia|]. destruct l as [|t l]; [discriminate|]. simpl in H. apply andb_true_iff in H as [_ H]. apply IH in H. simpl. lia. Qed.
  Lemma X_take_pats ps ts : forallb pat_ok ps = true -> take_pats ps (ts ++ F) = lift F (take_pats ps ts).
  Proof. intros H. unfold take_pats. rewrite (peek_pats_ext E ps ts H). apply take_ext. apply search_from_len. Qed.
  Lemma X_match_pats ps ts : forallb pat_ok ps = true -> EXR F (match_pats ps ts) (match_pats ps (ts ++ F)).
  Proof.
    intros H. unfold match_pats. rewrite (peek_pats_ext E ps ts H). destruct (peek_pats ps ts) eqn:Q; [|exact I]. unfold EXR. lift_unfold.
    rewrite (skipn_ext E _ ts (search_from_len _ _ Q)). reflexivity.
  Qed.
  Lemma X_pop ts : EXR F (pop ts) (pop (ts ++ F)). Proof. destruct ts; [exact I|reflexivity]. Qed.
  Lemma X_pop_src ts : EXR F (pop_src ts) (pop_src (ts ++ F)). Proof. destruct ts; [exact I|reflexivity]. Qed.
  Lemma X_pop_children ts : EXR F (pop_children ts) (pop_children (ts ++ F)).
  Proof. destruct ts as [|t ts]; [exact I|]. cbn [app pop_children]. destruct (is_group t); [reflexivity|exact I]. Qed.
  Lemma X_pop_split s ts : EXR F (pop_split s ts) (pop_split s (ts ++ F)).
  Proof. destruct ts as [|t ts]; [exact I|]. cbn [app pop_split]. destruct (is_group t); [reflexivity|exact I]. Qed.
  Definition enum_ok (l : list (string * list str)) : bool := forallb (fun p => forallb pat_ok (map PStr (snd p))) l.
  Lemma X_first_enum l : enum_ok l = true -> forall ts, first_enum l (ts ++ F) = lift F (first_enum l ts).
  Proof.
    induction l as [|[n ws] l IH]; intros H ts; [reflexivity|]. cbn [enum_ok forallb snd] in H. apply andb_true_iff in H as [Hw Hl]. cbn [first_enum].
    rewrite (X_take_pats _ ts Hw). destruct (take_pats (map PStr ws) ts) as [b t']. lift_unfold. destruct b; [reflexivity|apply IH; exact Hl].
  Qed.
  Definition cast_ok (l : list (string * str)) : bool := forallb (fun p => pat_ok (PStr (snd p))) l.
  Lemma X_first_cast_type l : cast_ok l = true -> forall ts, first_cast_type l (ts ++ F) = lift F (first_cast_type l ts).
  Proof.
    induction l as [|[n w] l IH]; intros H ts; [reflexivity|]. cbn [cast_ok forallb snd] in H. apply andb_true_iff in H as [Hw Hl]. cbn [first_cast_type].
    assert (Hp : forallb pat_ok [PStr w] = true) by (cbn [forallb]; rewrite Hw; reflexivity).
    rewrite (X_take_pats _ ts Hp). destruct (take_pats [PStr w] ts) as [b t']. lift_unfold. destruct b; [reflexivity|apply IH; exact Hl].
  Qed.
End Ext.

#[global] Hint Resolve X_take_str X_take_up X_take_up2 X_take_up3 X_take_set_up X_take_pats X_match_pats X_pop X_pop_src X_pop_children X_pop_split
  peek_mark_ext peek_str_ext peek_up_ext peek_up2_ext peek_up3_ext peek_set_ext peek_set_up_ext peek_pats_ext next_op_ext finish_or_semi_ext : ex.

Ltac inner_scrut_e t := lazymatch t with match ?w with _ => _ end => inner_scrut_e w | negb ?b => inner_scrut_e b | ?a && ?b => inner_scrut_e a | _ => t end.
Ltac ecallee := first [ eassumption | solve [eauto 3 with ex] ].
Ltac ehook := fail.
Ltac esweep :=
  cbv beta iota zeta; cbn [negb fst snd andb orb];
  lazymatch goal with
  | |- EXR _ (Err _) _ => exact I
  | |- EXR _ (Ok _) (Ok _) => unfold EXR; lift_unfold; first [ reflexivity | idtac ]
  | |- EXR ?FF ?X ?Y =>
      let w := inner_scrut_e X in
      let w' := inner_scrut_e Y in
      tryif constr_eq w X then first [ ecallee | ehook | idtac ]
      else tryif is_var w then (destruct w; cbn [fst snd]; esweep)
      else tryif constr_eq w w' then (destruct w; esweep)
      else
        (let T := type of w in
         lazymatch T with
         | bool => first [ (let H := fresh "Hb" in assert (H : w' = w) by ecallee; rewrite H; clear H; destruct w; esweep) | idtac ]
         | res _ => first [ (let H := fresh "Hx" in assert (H : EXR FF w w') by first [ ecallee | ehook ];
                            destruct w; [ unfold EXR in H; rewrite H; clear H; lift_unfold; esweep | esweep ]) | idtac ]
         | PR => first [ (let H := fresh "Hx" in assert (H : EXR FF w w') by first [ ecallee | ehook ];
                         destruct w; [ unfold EXR in H; rewrite H; clear H; lift_unfold; esweep | esweep ]) | idtac ]
         | _ => first [ (let H := fresh "Hx" in assert (H : w' = lift FF w) by ecallee; rewrite H; clear H; destruct w; lift_unfold; esweep) | idtac ]
         end)
  end.

Ltac len_solve := rewrite ?app_length; cbn [List.length]; lia.
Section Leaves.
  Variable E : toks.
  Notation F := (semi :: E).
  Lemma enum_join_ok : enum_ok enum_join_type = true. Proof. vm_compute. reflexivity. Qed.
  Lemma enum_union_ok : enum_ok enum_union_type = true. Proof. vm_compute. reflexivity. Qed.
  Lemma cast_types_ok : cast_ok enum_cast_data_type = true. Proof. vm_compute. reflexivity. Qed.
  Lemma X_first_enum_join ts : first_enum enum_join_type (ts ++ F) = lift F (first_enum enum_join_type ts). Proof. apply X_first_enum. exact enum_join_ok. Qed.
  Lemma X_first_enum_union ts : first_enum enum_union_type (ts ++ F) = lift F (first_enum enum_union_type ts). Proof. apply X_first_enum. exact enum_union_ok. Qed.
  Lemma X_first_cast ts : first_cast_type enum_cast_data_type (ts ++ F) = lift F (first_cast_type enum_cast_data_type ts). Proof. apply X_first_cast_type. exact cast_types_ok. Qed.
  Hint Resolve X_first_enum_join X_first_enum_union X_first_cast : ex.
  Lemma X_parse_insert_type ts : EXR F (parse_insert_type ts) (parse_insert_type (ts ++ F)). Proof. unfold parse_insert_type. esweep. Qed.
  Lemma X_parse_join_type ts : EXR F (parse_join_type ts) (parse_join_type (ts ++ F)). Proof. unfold parse_join_type. esweep. Qed.
  Lemma X_parse_order_type ts : EXR F (parse_order_type ts) (parse_order_type (ts ++ F)). Proof. unfold parse_order_type. esweep. Qed.
  Lemma X_parse_union_type ts : EXR F (parse_union_type ts) (parse_union_type (ts ++ F)). Proof. unfold parse_union_type. esweep. Qed.
  Lemma X_parse_compare_operator ts : EXR F (parse_compare_operator ts) (parse_compare_operator (ts ++ F)). Proof. unfold parse_compare_operator. esweep. Qed.
  Lemma X_parse_compute_operator ts : EXR F (parse_compute_operator ts) (parse_compute_operator (ts ++ F)). Proof. unfold parse_compute_operator. esweep. Qed.
  Lemma X_parse_column_name ts : EXR F (parse_column_name ts) (parse_column_name (ts ++ F)). Proof. unfold parse_column_name. esweep. Qed.
  Lemma X_parse_column_name_with_table ts : EXR F (parse_column_name_with_table ts) (parse_column_name_with_table (ts ++ F)). Proof. unfold parse_column_name_with_table. esweep. Qed.
  Lemma X_parse_column_name_without_table ts : EXR F (parse_column_name_without_table ts) (parse_column_name_without_table (ts ++ F)). Proof. unfold parse_column_name_without_table. esweep. Qed.
  Lemma X_parse_table_name ts : EXR F (parse_table_name ts) (parse_table_name (ts ++ F)). Proof. unfold parse_table_name. esweep. Qed.
  Lemma X_parse_function_name ts : EXR F (parse_function_name ts) (parse_function_name (ts ++ F)). Proof.
    unfold parse_function_name. rewrite (peek_pats_ext E _ ts) by (vm_compute; reflexivity).
    destruct (peek_pats [PMark M_NAME; PStr (S "."); PMark M_NAME] ts) eqn:Q; [|esweep].
    apply search_from_len in Q. destruct ts as [|a [|b [|c l]]]; simpl in Q; try lia. cbn [app pop_src skipn]. esweep.
  Qed.
  Lemma X_parse_literal ts : EXR F (parse_literal ts) (parse_literal (ts ++ F)). Proof. unfold parse_literal. esweep. Qed.
  Lemma X_parse_window_row_item ts : EXR F (parse_window_row_item ts) (parse_window_row_item (ts ++ F)). Proof. unfold parse_window_row_item. esweep. Qed.
  Hint Resolve X_parse_window_row_item : ex.
  Lemma X_parse_window_row ts : EXR F (parse_window_row ts) (parse_window_row (ts ++ F)). Proof. unfold parse_window_row. esweep. Qed.
  Lemma X_get_alias_name ts : EXR F (get_alias_name ts) (get_alias_name (ts ++ F)). Proof. unfold get_alias_name. esweep. Qed.
  Hint Resolve X_get_alias_name : ex.
  Lemma X_parse_alias ts : EXR F (parse_alias ts) (parse_alias (ts ++ F)). Proof. unfold parse_alias. esweep. Qed.
  Lemma X_parse_limit ts : EXR F (parse_limit ts) (parse_limit (ts ++ F)). Proof. unfold parse_limit. esweep. Qed.
End Leaves.
#[global] Hint Resolve X_first_enum_join X_first_enum_union X_first_cast X_parse_insert_type X_parse_join_type X_parse_order_type X_parse_union_type
  X_parse_compare_operator X_parse_compute_operator X_parse_column_name X_parse_column_name_with_table X_parse_column_name_without_table
  X_parse_table_name X_parse_function_name X_parse_literal X_parse_window_row_item X_parse_window_row X_get_alias_name X_parse_alias X_parse_limit : ex.

(* ---------- combinators; the fuel of a loop is computed from the number of tokens, so the extended run has more of it ---------- *)
Section Combinators.
  Variable E : toks.
  Notation F := (semi :: E).
  Variable item : toks -> PR.
  Hypothesis Hitem : forall t, EXR F (item t) (item (t ++ F)).

  Lemma X_sep_more sep : str_eqb (S ";") sep = false ->
    forall n m ts acc, n <= m -> EXR F (sep_more n item sep ts acc) (sep_more m item sep (ts ++ F) acc).
  Proof.
    intros Hs. induction n as [|n IH]; intros m ts acc Hle; [exact I|]. destruct m as [|m]; [lia|]. cbn [sep_more].
    assert (IH' := fun ts acc => IH m ts acc (le_S_n _ _ Hle)).
    esweep.
  Qed.
  Lemma X_sep_list sep ts : str_eqb (S ";") sep = false -> EXR F (sep_list item sep ts) (sep_list item sep (ts ++ F)).
  Proof.
    intros Hs. unfold sep_list. pose proof (Hitem ts) as H. destruct (item ts) as [[v t1]|e]; [|exact I]. unfold EXR in H. rewrite H. lift_unfold.
    apply X_sep_more; [exact Hs|len_solve].
  Qed.
End Combinators.

Ltac ehook ::=
  lazymatch goal with
  | |- EXR _ (sep_list _ _ _) _ => apply X_sep_list; [intros; esweep|vm_compute; reflexivity]
  | |- EXR _ (sep_more _ _ _ _ _) _ => apply X_sep_more; [intros; esweep|vm_compute; reflexivity|len_solve]
  end.

Section Leaves2.
  Variable E : toks.
  Notation F := (semi :: E).
  Lemma X_parse_multi_alias ts : EXR F (parse_multi_alias ts) (parse_multi_alias (ts ++ F)). Proof. unfold parse_multi_alias. esweep. Qed.
  Fixpoint cfg_go (n : nat) (acc : str) (t : toks) : res (str * toks) :=
    match n with
    | O => Err OutOfFuel
    | Datatypes.S n' =>
        let '(b, t2) := take_str (S ".") t in
        if b then let* (s, t3) := pop_src t2 in cfg_go n' (acc ++ S "." ++ s)%list t3 else
        let '(b, t2) := take_str (S "-") t in
        if b then let* (s, t3) := pop_src t2 in cfg_go n' (acc ++ S "-" ++ s)%list t3 else Ok (acc, t)
    end.
  Lemma parse_config_string_eq ts : parse_config_string ts = let* (s0, t1) := pop_src ts in cfg_go (Datatypes.S (List.length t1)) s0 t1.
  Proof. reflexivity. Qed.
  Lemma X_cfg_go : forall n m a t, n <= m -> EXR F (cfg_go n a t) (cfg_go m a (t ++ F)).
  Proof.
    induction n as [|n IH]; intros m a t Hle; [exact I|]. destruct m as [|m]; [lia|]. cbn [cfg_go].
    assert (IH' := fun a t => IH m a t (le_S_n _ _ Hle)). esweep.
  Qed.
  Lemma X_parse_config_string ts : EXR F (parse_config_string ts) (parse_config_string (ts ++ F)).
  Proof.
    rewrite !parse_config_string_eq. pose proof (X_pop_src E ts) as H. destruct (pop_src ts) as [[s0 t1]|e]; [|exact I].
    unfold EXR in H; rewrite H; clear H. lift_unfold. apply X_cfg_go. len_solve.
  Qed.
  Hint Resolve X_parse_config_string : ex.
  Lemma X_parse_config_string_expression ts : EXR F (parse_config_string_expression ts) (parse_config_string_expression (ts ++ F)).
  Proof. unfold parse_config_string_expression. esweep. Qed.
End Leaves2.
#[global] Hint Resolve X_parse_multi_alias X_parse_config_string X_parse_config_string_expression : ex.

Lemma unary_set_ok d : mem_str (S ";") (unary_operator_set d) = false. Proof. destruct d; vm_compute; reflexivity. Qed.
Lemma not_set_ok d : mem_str (upper (S ";")) (not_operator_set d) = false. Proof. destruct d; vm_compute; reflexivity. Qed.
#[global] Hint Resolve unary_set_ok not_set_ok : ex.

Section Loops.
  Variable E : toks.
  Notation F := (semi :: E).
  Variable sub : toks -> PR.
  Hypothesis Hsub : forall t, EXR F (sub t) (sub (t ++ F)).

  Lemma X_compute_loop : forall n m pend top ts, n <= m -> EXR F (compute_loop n sub pend top ts) (compute_loop m sub pend top (ts ++ F)).
  Proof.
    induction n as [|n IH]; intros m pend top ts Hle; [exact I|]. destruct m as [|m]; [lia|]. cbn [compute_loop]. rewrite next_op_ext.
    destruct (next_compute_op ts) as [o|] eqn:Q; [|reflexivity].
    destruct ts as [|t0 ts]; [discriminate|]. cbn [app skipn].
    destruct (reduce_while (op_level o) pend top) as [pend' top'].
    pose proof (Hsub ts) as Hs. destruct (sub ts) as [[v ts']|e]; [|exact I]. unfold EXR in Hs. rewrite Hs. lift_unfold. apply IH. lia.
  Qed.

  Variable op : toks -> option (value -> value -> value) * toks.
  Hypothesis Hop : forall t, op (t ++ F) = lift F (op t).
  Lemma X_left_loop : forall n m acc ts, n <= m -> EXR F (left_loop n sub op acc ts) (left_loop m sub op acc (ts ++ F)).
  Proof.
    induction n as [|n IH]; intros m acc ts Hle; [exact I|]. destruct m as [|m]; [lia|]. cbn [left_loop]. rewrite Hop.
    destruct (op ts) as [[mk|] ts1]; lift_unfold; [|reflexivity].
    pose proof (Hsub ts1) as Hs. destruct (sub ts1) as [[v ts2]|e]; [|exact I]. unfold EXR in Hs. rewrite Hs. lift_unfold. apply IH. lia.
  Qed.
End Loops.

(* the loose form for CREATE TABLE, which swallows one separator itself *)
Definition EXL (E : toks) (x y : PR) : Prop :=
  match x with
  | Ok (v, R) => y = Ok (v, R ++ semi :: E) \/ (R = [] /\ y = Ok (v, E))
  | Err _ => True
  end.
Lemma EXR_EXL E x y : EXR (semi :: E) x y -> EXL E x y.
Proof. unfold EXR, EXL. destruct x as [[v R]|e]; [|trivial]. intros ->. left. reflexivity. Qed.

Definition strict (f : fn) : bool := match f with F_statement | F_create_table => false | _ => true end.
#[global] Hint Extern 1 (strict _ = true) => reflexivity : ex.

(* ---------- the recursive part ---------- *)
Section BodyExt.
  Variable E : toks.
  Notation F := (semi :: E).
  Variable rec : REC.
  Variable d : sqltype.
  Hypothesis Hrec : forall f d' a ts, strict f = true -> EXR F (rec f d' a ts) (rec f d' a (ts ++ F)).
  Hypothesis Hrec2 : forall d' a ts, EXL E (rec F_create_table d' a ts) (rec F_create_table d' a (ts ++ F)).

  Lemma X_r f ts : strict f = true -> EXR F (r rec d f ts) (r rec d f (ts ++ F)). Proof. unfold r. apply Hrec. Qed.
  Lemma X_r1 f a ts : strict f = true -> EXR F (r1 rec d f a ts) (r1 rec d f a (ts ++ F)). Proof. unfold r1. apply Hrec. Qed.
  Hint Resolve X_r X_r1 : ex.

  Lemma X_opt_list c p ts : (forall t, EXR F (p t) (p (t ++ F))) -> EXR F (opt_list c p ts) (opt_list c p (ts ++ F)).
  Proof. intros Hp. unfold opt_list. destruct c; [apply Hp|reflexivity]. Qed.
  Lemma X_is_select_group ts : EXR F (is_select_group ts) (is_select_group (ts ++ F)).
  Proof. destruct ts as [|t ts]; [exact I|]. unfold is_select_group. reflexivity. Qed.
  Hint Resolve X_is_select_group : ex.

  Ltac ehook ::=
    lazymatch goal with
    | |- EXR _ (sep_list _ _ _) _ => apply X_sep_list; [intros; esweep|vm_compute; reflexivity]
    | |- EXR _ (sep_more _ _ _ _ _) _ => apply X_sep_more; [intros; esweep|vm_compute; reflexivity|len_solve]
    | |- EXR _ (opt_list _ _ _) _ => apply X_opt_list; intros; esweep
    | |- EXR _ (compute_loop _ _ _ _ _) _ => apply X_compute_loop; [intros; esweep|len_solve]
    end.

  Lemma X_b_extract ts : EXR F (b_extract rec d ts) (b_extract rec d (ts ++ F)). Proof. unfold b_extract. esweep. Qed.
  Lemma X_b_cast ts : EXR F (b_cast rec d ts) (b_cast rec d (ts ++ F)). Proof. unfold b_cast. esweep. Qed.
  Lemma X_b_if ts : EXR F (b_if rec d ts) (b_if rec d (ts ++ F)). Proof. unfold b_if. esweep. Qed.
  Hint Resolve X_b_extract X_b_cast X_b_if : ex.
  Lemma X_b_function ts : EXR F (b_function rec d ts) (b_function rec d (ts ++ F)). Proof. unfold b_function. esweep. Qed.
  Lemma X_b_array_index b ts : EXR F (b_array_index rec d b ts) (b_array_index rec d b (ts ++ F)). Proof. unfold b_array_index. esweep. Qed.
  Lemma X_b_function_and_index ts : EXR F (b_function_and_index rec d ts) (b_function_and_index rec d (ts ++ F)). Proof. unfold b_function_and_index. esweep. Qed.
  Lemma X_b_in_parenthesis ts : EXR F (b_in_parenthesis rec d ts) (b_in_parenthesis rec d (ts ++ F)). Proof. unfold b_in_parenthesis. esweep. Qed.
  Lemma X_b_window ts : EXR F (b_window rec d ts) (b_window rec d (ts ++ F)). Proof. unfold b_window. esweep. Qed.
  Lemma X_when_loop cls : forall n m ts acc, n <= m -> EXR F (when_loop rec d n cls ts acc) (when_loop rec d m cls (ts ++ F) acc).
  Proof.
    induction n as [|n IH]; intros m ts acc Hle; [exact I|]. destruct m as [|m]; [lia|]. cbn [when_loop].
    assert (IH' := fun ts acc => IH m ts acc (le_S_n _ _ Hle)). esweep.
  Qed.
  Hint Resolve X_b_function X_b_array_index X_b_function_and_index X_b_in_parenthesis X_b_window : ex.
  Ltac ehook ::=
    lazymatch goal with
    | |- EXR _ (sep_list _ _ _) _ => apply X_sep_list; [intros; esweep|vm_compute; reflexivity]
    | |- EXR _ (sep_more _ _ _ _ _) _ => apply X_sep_more; [intros; esweep|vm_compute; reflexivity|len_solve]
    | |- EXR _ (opt_list _ _ _) _ => apply X_opt_list; intros; esweep
    | |- EXR _ (compute_loop _ _ _ _ _) _ => apply X_compute_loop; [intros; esweep|len_solve]
    | |- EXR _ (when_loop _ _ _ _ _ _) _ => apply X_when_loop; len_solve
    end.
  Lemma X_b_case ts : EXR F (b_case rec d ts) (b_case rec d (ts ++ F)). Proof. unfold b_case. esweep. Qed.
  Lemma X_b_sub_query ts : EXR F (b_sub_query rec d ts) (b_sub_query rec d (ts ++ F)). Proof. unfold b_sub_query. esweep. Qed.
  Lemma X_b_sub_value ts : EXR F (b_sub_value rec d ts) (b_sub_value rec d (ts ++ F)). Proof. unfold b_sub_value. esweep. Qed.
  Lemma X_b_general_parenthesis ts : EXR F (b_general_parenthesis rec d ts) (b_general_parenthesis rec d (ts ++ F)). Proof. unfold b_general_parenthesis. esweep. Qed.
  Lemma X_b_unary ts : EXR F (b_unary rec d ts) (b_unary rec d (ts ++ F)). Proof. unfold b_unary. esweep. Qed.
  Lemma X_b_compute ts : EXR F (b_compute rec d ts) (b_compute rec d (ts ++ F)). Proof. unfold b_compute. esweep. Qed.
  Hint Resolve X_b_case X_b_sub_query X_b_sub_value X_b_general_parenthesis X_b_unary X_b_compute : ex.
  Ltac semi_facts :=
    try change (has_mark semi M_PAREN) with false; try change (has_mark semi M_NAME) with false;
    try change (source_equal semi (S ".")) with false; try change (source_equal semi (S "*")) with false;
    try change (source_equal_upper semi (S "OVER")) with false; cbv beta iota zeta.
  Lemma X_b_element ts : EXR F (b_element rec d ts) (b_element rec d (ts ++ F)).
  Proof.
    unfold b_element. destruct ts as [|n0 [|a1 [|a2 [|a3 l]]]]; [exact I| | | |]; cbn [app nth_error skipn]; semi_facts.
    - change (n0 :: F) with ([n0] ++ F). esweep.
    - change (n0 :: a1 :: F) with ([n0; a1] ++ F). esweep.
    - change (n0 :: a1 :: a2 :: F) with ([n0; a1; a2] ++ F). esweep.
    - change (n0 :: a1 :: a2 :: a3 :: l ++ F) with ((n0 :: a1 :: a2 :: a3 :: l) ++ F). esweep.
  Qed.
  Hint Resolve X_b_element : ex.
  (* the keyword level, with its two end-of-input tests named *)
  Definition kw_chain (res_v : value) (t : toks) : PR :=
    match hd_src t with
    | Some s => if mem_str (upper s) KW_CHAIN then r1 rec d F_keyword_condition res_v t else Ok (res_v, t)
    | None => Ok (res_v, t)
    end.
  Definition kw_tail (bv : value) (is_not : bool) (t2 : toks) : PR :=
    match t2 with
    | [] => if is_not then Err ParseErr else Ok (bv, t2)
    | nx :: t3 =>
        let k := upper (source nx) in
        if str_eqb k (S "BETWEEN") then
          let* (lo, t4) := r rec d F_compute t3 in
          let* t5 := match_pats (PS ["AND"]) t4 in
          let* (hi, t6) := r rec d F_compute t5 in
          kw_chain (node "ASTBetweenExpression" [("is_not", vbool is_not); ("before_value", bv); ("from_value", lo); ("to_value", hi)]) t6
        else if str_eqb k (S "IS") then
          let '(neg, t4) := if is_not then (true, t3) else take_up (S "NOT") t3 in
          let* (a, t5) := r rec d F_compute t4 in kw_chain (kw_node "ASTIsExpression" neg bv a) t5
        else if str_eqb k (S "IN") then
          let* (a, t4) := r rec d F_in_parenthesis t3 in kw_chain (kw_node "ASTInExpression" is_not bv a) t4
        else if str_eqb k (S "LIKE") then
          let* (a, t4) := r rec d F_compute t3 in kw_chain (kw_node "ASTLikeExpression" is_not bv a) t4
        else if str_eqb k (S "RLIKE") then
          let* (a, t4) := r rec d F_compute t3 in kw_chain (kw_node "ASTRlikeExpression" is_not bv a) t4
        else if str_eqb k (S "REGEXP") then
          let* (a, t4) := r rec d F_compute t3 in kw_chain (kw_node "ASTRegexpExpression" is_not bv a) t4
        else if is_not then Err ParseErr else Ok (bv, t2)
    end.
  Lemma b_keyword_condition_eq before ts : b_keyword_condition rec d before ts =
    let first_exists := match before with None => take_up (S "EXISTS") ts | Some _ => (false, ts) end in
    if fst first_exists then
      let* (q, t2) := r rec d F_sub_query (snd first_exists) in kw_chain (node "ASTExistsExpression" [("value", q)]) t2
    else
      let* (bv, t1) := (match before with Some b => Ok (b, ts) | None => r rec d F_compute ts end) in
      let '(is_not, t2) := take_set_up (not_operator_set d) t1 in kw_tail bv is_not t2.
  Proof. reflexivity. Qed.
  Lemma X_kw_chain v t : EXR F (kw_chain v t) (kw_chain v (t ++ F)).
  Proof.
    unfold kw_chain. destruct t as [|t0 t]; [reflexivity|]. cbn [app hd_src]. change (t0 :: t ++ F) with ((t0 :: t) ++ F). esweep.
  Qed.
  Hint Resolve X_kw_chain : ex.
  Lemma X_kw_tail bv n t : EXR F (kw_tail bv n t) (kw_tail bv n (t ++ F)).
  Proof.
    destruct t as [|nx t3].
    - destruct n; [exact I|]. vm_compute. reflexivity.
    - unfold kw_tail. cbn [app]. esweep.
  Qed.
  Hint Resolve X_kw_tail : ex.
  Lemma X_b_keyword_condition before ts : EXR F (b_keyword_condition rec d before ts) (b_keyword_condition rec d before (ts ++ F)).
  Proof.
    rewrite !b_keyword_condition_eq. destruct before as [b|]; cbv zeta; cbn [fst snd]; [esweep|].
    rewrite (X_take_up E (S "EXISTS") ts) by (vm_compute; reflexivity). destruct (take_up (S "EXISTS") ts) as [b t']. lift_unfold. esweep.
  Qed.
  Hint Resolve X_b_keyword_condition : ex.
  Lemma X_cmp_op t :
    (if peek_set compare_operator_set (t ++ F) then
       match parse_compare_operator (t ++ F) with
       | Ok (o, t') => (Some (fun l rr => node "ASTOperatorConditionExpression" [("before_value", l); ("operator", o); ("after_value", rr)]), t')
       | Err _ => (None, t ++ F)
       end
     else (None, t ++ F)) =
    lift F (if peek_set compare_operator_set t then
       match parse_compare_operator t with
       | Ok (o, t') => (Some (fun l rr => node "ASTOperatorConditionExpression" [("before_value", l); ("operator", o); ("after_value", rr)]), t')
       | Err _ => (None, t)
       end
     else (None, t)).
  Proof.
    rewrite (peek_set_ext E compare_operator_set t) by (vm_compute; reflexivity).
    destruct t as [|t0 t]; [reflexivity|]. destruct (peek_set compare_operator_set (t0 :: t)); [|reflexivity].
    unfold parse_compare_operator. cbn [app pop_src]. destruct (assoc_str (source t0) compare_operator_hash); reflexivity.
  Qed.
  Ltac ehook ::=
    lazymatch goal with
    | |- EXR _ (sep_list _ _ _) _ => apply X_sep_list; [intros; esweep|vm_compute; reflexivity]
    | |- EXR _ (sep_more _ _ _ _ _) _ => apply X_sep_more; [intros; esweep|vm_compute; reflexivity|len_solve]
    | |- EXR _ (opt_list _ _ _) _ => apply X_opt_list; intros; esweep
    | |- EXR _ (compute_loop _ _ _ _ _) _ => apply X_compute_loop; [intros; esweep|len_solve]
    | |- EXR _ (when_loop _ _ _ _ _ _) _ => apply X_when_loop; len_solve
    | |- EXR _ (left_loop _ _ _ _ _) _ => apply X_left_loop; [intros; esweep| |len_solve]
    end.
  Lemma X_b_operator_condition ts : EXR F (b_operator_condition rec d ts) (b_operator_condition rec d (ts ++ F)).
  Proof. unfold b_operator_condition. esweep. intros tt. apply X_cmp_op. Qed.
  Lemma X_b_logical_not ts : EXR F (b_logical_not rec d ts) (b_logical_not rec d (ts ++ F)). Proof. unfold b_logical_not. esweep. Qed.
  Lemma X_layer cls sub kws ts : strict sub = true -> mem_str (upper (S ";")) kws = false -> EXR F (layer rec d cls sub kws ts) (layer rec d cls sub kws (ts ++ F)).
  Proof.
    intros Hs Hk. unfold layer. esweep. intros tt. rewrite (X_take_set_up E kws tt Hk). destruct (take_set_up kws tt) as [b t']. lift_unfold. destruct b; reflexivity.
  Qed.
  Lemma X_b_logical_and ts : EXR F (b_logical_and rec d ts) (b_logical_and rec d (ts ++ F)). Proof. apply X_layer; reflexivity. Qed.
  Lemma X_b_logical_xor ts : EXR F (b_logical_xor rec d ts) (b_logical_xor rec d (ts ++ F)). Proof. apply X_layer; reflexivity. Qed.
  Lemma X_b_logical_or ts : EXR F (b_logical_or rec d ts) (b_logical_or rec d (ts ++ F)). Proof. apply X_layer; reflexivity. Qed.
  Hint Resolve X_b_operator_condition X_b_logical_not X_b_logical_and X_b_logical_xor X_b_logical_or : ex.
  Lemma X_b_order_by_column ts : EXR F (b_order_by_column rec d ts) (b_order_by_column rec d (ts ++ F)). Proof. unfold b_order_by_column. esweep. Qed.
  Lemma X_b_table_expression ts : EXR F (b_table_expression rec d ts) (b_table_expression rec d (ts ++ F)). Proof. unfold b_table_expression. esweep. Qed.
  Lemma X_b_from_table ts : EXR F (b_from_table rec d ts) (b_from_table rec d (ts ++ F)). Proof. unfold b_from_table. esweep. Qed.
  Lemma X_b_select_column ts : EXR F (b_select_column rec d ts) (b_select_column rec d (ts ++ F)). Proof. unfold b_select_column. esweep. Qed.
  Hint Resolve X_b_order_by_column X_b_table_expression X_b_from_table X_b_select_column : ex.
  Lemma X_b_select_clause ts : EXR F (b_select_clause rec d ts) (b_select_clause rec d (ts ++ F)). Proof. unfold b_select_clause. esweep. Qed.
  Lemma X_b_from_clause ts : EXR F (b_from_clause rec d ts) (b_from_clause rec d (ts ++ F)). Proof. unfold b_from_clause. esweep. Qed.
  Lemma X_b_lateral_view ts : EXR F (b_lateral_view rec d ts) (b_lateral_view rec d (ts ++ F)). Proof. unfold b_lateral_view. esweep. Qed.
  Lemma X_b_join_expression ts : EXR F (b_join_expression rec d ts) (b_join_expression rec d (ts ++ F)). Proof. unfold b_join_expression. esweep. Qed.
  Hint Resolve X_b_select_clause X_b_from_clause X_b_lateral_view X_b_join_expression : ex.
  Lemma X_b_join_clause ts : EXR F (b_join_clause rec d ts) (b_join_clause rec d (ts ++ F)). Proof. unfold b_join_clause. esweep. Qed.
  Lemma X_b_where ts : EXR F (b_where rec d ts) (b_where rec d (ts ++ F)). Proof. unfold b_where. esweep. Qed.
  Lemma X_b_having ts : EXR F (b_having rec d ts) (b_having rec d (ts ++ F)). Proof. unfold b_having. esweep. Qed.
  Lemma X_b_grouping_sets ts : EXR F (b_grouping_sets rec d ts) (b_grouping_sets rec d (ts ++ F)). Proof. unfold b_grouping_sets. esweep. Qed.
  Hint Resolve X_b_join_clause X_b_where X_b_having X_b_grouping_sets : ex.
  Lemma X_b_group_by ts : EXR F (b_group_by rec d ts) (b_group_by rec d (ts ++ F)). Proof. unfold b_group_by. esweep. Qed.
  Lemma X_by_clause cls k1 k2 item ts : str_eqb (upper (S ";")) (S k1) = false -> str_eqb (upper (S ";")) (S k2) = false ->
    (forall t, EXR F (item t) (item (t ++ F))) -> EXR F (by_clause cls k1 k2 item ts) (by_clause cls k1 k2 item (ts ++ F)).
  Proof. intros H1 H2 Hi. unfold by_clause. esweep. Qed.
  Lemma X_b_order_by ts : EXR F (b_order_by rec d ts) (b_order_by rec d (ts ++ F)). Proof. apply X_by_clause; [reflexivity|reflexivity|intros; esweep]. Qed.
  Lemma X_b_sort_by ts : EXR F (b_sort_by rec d ts) (b_sort_by rec d (ts ++ F)). Proof. apply X_by_clause; [reflexivity|reflexivity|intros; esweep]. Qed.
  Lemma X_b_distribute_by ts : EXR F (b_distribute_by rec d ts) (b_distribute_by rec d (ts ++ F)). Proof. apply X_by_clause; [reflexivity|reflexivity|intros; esweep]. Qed.
  Lemma X_b_cluster_by ts : EXR F (b_cluster_by rec d ts) (b_cluster_by rec d (ts ++ F)). Proof. apply X_by_clause; [reflexivity|reflexivity|intros; esweep]. Qed.
  Hint Resolve X_b_group_by X_b_order_by X_b_sort_by X_b_distribute_by X_b_cluster_by : ex.
  Lemma X_b_with_table ts : EXR F (b_with_table rec d ts) (b_with_table rec d (ts ++ F)). Proof. unfold b_with_table. esweep. Qed.
  Lemma X_b_with_clause ts : EXR F (b_with_clause rec d ts) (b_with_clause rec d (ts ++ F)). Proof. unfold b_with_clause. esweep. Qed.
  Hint Resolve X_b_with_table X_b_with_clause : ex.
  Lemma X_while_clause cond item : (forall t, cond (t ++ F) = cond t) -> (forall t, EXR F (item t) (item (t ++ F))) ->
    forall n m ts acc, n <= m -> EXR F (while_clause n cond item ts acc) (while_clause m cond item (ts ++ F) acc).
  Proof.
    intros Hc Hi. induction n as [|n IH]; intros m ts acc Hle; [exact I|]. destruct m as [|m]; [lia|]. cbn [while_clause].
    assert (IH' := fun ts acc => IH m ts acc (le_S_n _ _ Hle)). rewrite Hc. destruct (cond ts); esweep.
  Qed.
  Ltac ehook ::=
    lazymatch goal with
    | |- EXR _ (sep_list _ _ _) _ => apply X_sep_list; [intros; esweep|vm_compute; reflexivity]
    | |- EXR _ (sep_more _ _ _ _ _) _ => apply X_sep_more; [intros; esweep|vm_compute; reflexivity|len_solve]
    | |- EXR _ (opt_list _ _ _) _ => apply X_opt_list; intros; esweep
    | |- EXR _ (compute_loop _ _ _ _ _) _ => apply X_compute_loop; [intros; esweep|len_solve]
    | |- EXR _ (when_loop _ _ _ _ _ _) _ => apply X_when_loop; len_solve
    | |- EXR _ (left_loop _ _ _ _ _) _ => apply X_left_loop; [intros; esweep| |len_solve]
    | |- EXR _ (while_clause _ _ _ _ _) _ => apply X_while_clause; [intros; eauto 3 with ex|intros; esweep|len_solve]
    | |- EXR _ (by_clause _ _ _ _ _) _ => apply X_by_clause; [vm_compute; reflexivity|vm_compute; reflexivity|intros; esweep]
    end.

  (* the bracket stack of _parse_single_select_statement: only the outermost remainder sees the extension *)
  Lemma strip_stack_ext : forall n inner pre x,
    match strip_parens n inner (pre ++ [x]) with
    | Ok (i, s) => exists pre', s = pre' ++ [x] /\ strip_parens n inner (pre ++ [x ++ F]) = Ok (i, pre' ++ [x ++ F])
    | Err _ => True
    end.
  Proof.
    induction n as [|n IH]; intros inner pre x; cbn [strip_parens]; [exact I|].
    destruct (peek_mark M_PAREN inner); [|exists pre; split; reflexivity].
    destruct (pop_children inner) as [[ch rest]|e]; [|exact I]. apply (IH ch (rest :: pre) x).
  Qed.
  Lemma X_close_stack : forall pre x, EXR F (close_stack (pre ++ [x])) (close_stack (pre ++ [x ++ F])).
  Proof.
    induction pre as [|y pre IH]; intros x; [reflexivity|].
    assert (Hc : forall z, close_stack (y :: pre ++ [z]) = let* _ := close y in close_stack (pre ++ [z])) by (intros z; destruct pre; reflexivity).
    cbn [app]. rewrite !Hc. destruct (close y); [apply IH|exact I].
  Qed.
  Definition single_core (wc : value) (inner : toks) (k : toks -> res toks) : PR :=
    let* (sel, i1) := b_select_clause rec d inner in
    let* (frm, i2) := if peek_up (S "FROM") i1 then b_from_clause rec d i1 else Ok (VNone, i1) in
    let* (lats, i3) := while_clause (Datatypes.S (List.length i2)) (peek_up2 (S "LATERAL") (S "VIEW")) (b_lateral_view rec d) i2 [] in
    let* (joins, i4) := while_clause (Datatypes.S (List.length i3))
                          (peek_set_up [S "JOIN"; S "INNER"; S "LEFT"; S "RIGHT"; S "FULL"; S "CROSS"]) (b_join_clause rec d) i3 [] in
    let* (wh, i5) := b_where rec d i4 in
    let* (gb, i6) := b_group_by rec d i5 in
    let* (hv, i7) := b_having rec d i6 in
    let* (ob, i8) := b_order_by rec d i7 in
    let* (sb, i9) := b_sort_by rec d i8 in
    let* (db, i10) := b_distribute_by rec d i9 in
    let* (cb, i11) := b_cluster_by rec d i10 in
    let* (lm, i12) := parse_limit i11 in
    let* rest := k i12 in
    Ok (node "ASTSingleSelectStatement"
          [("with_clause", wc); ("select_clause", sel); ("from_clause", frm); ("lateral_view_clauses", vtuple lats);
           ("join_clauses", vtuple joins); ("where_clause", wh); ("group_by_clause", gb); ("having_clause", hv);
           ("order_by_clause", ob); ("sort_by_clause", sb); ("distribute_by_clause", db); ("cluster_by_clause", cb);
           ("limit_clause", lm)], rest).
  Lemma b_single_select_eq w ts : b_single_select rec d w ts =
    let* (wc, t0) := match w with Some x => Ok (x, ts) | None => b_with_clause rec d ts end in
    let* (inner, stack) := strip_parens (Datatypes.S (Datatypes.S (match t0 with t :: _ => tok_depth t | [] => O end))) t0 [] in
    single_core wc inner (fun i12 => match stack with [] => Ok i12 | _ => let* _ := close i12 in close_stack stack end).
  Proof. reflexivity. Qed.
  Lemma X_single_core_open wc t0 : EXR F (single_core wc t0 (fun i => Ok i)) (single_core wc (t0 ++ F) (fun i => Ok i)).
  Proof. unfold single_core. esweep. Qed.
  Lemma X_single_core_closed wc inner k k' : (forall i, EXR F (k i) (k' i)) -> EXR F (single_core wc inner k) (single_core wc inner k').
  Proof. intros Hk. unfold single_core. esweep. Qed.
  Lemma X_b_single_select w ts : EXR F (b_single_select rec d w ts) (b_single_select rec d w (ts ++ F)).
  Proof.
    rewrite (b_single_select_eq w ts), (b_single_select_eq w (ts ++ F)).
    assert (Main : forall wc t0,
      EXR F (let* (inner, stack) := strip_parens (Datatypes.S (Datatypes.S (match t0 with t :: _ => tok_depth t | [] => O end))) t0 [] in
             single_core wc inner (fun i12 => match stack with [] => Ok i12 | _ => let* _ := close i12 in close_stack stack end))
            (let* (inner, stack) := strip_parens (Datatypes.S (Datatypes.S (match t0 ++ F with t :: _ => tok_depth t | [] => O end))) (t0 ++ F) [] in
             single_core wc inner (fun i12 => match stack with [] => Ok i12 | _ => let* _ := close i12 in close_stack stack end))).
    { intros wc t0.
      replace (match t0 ++ F with t :: _ => tok_depth t | [] => O end) with (match t0 with t :: _ => tok_depth t | [] => O end) by (destruct t0; reflexivity).
      generalize (Datatypes.S (match t0 with t :: _ => tok_depth t | [] => O end)). intros n. cbn [strip_parens]. rewrite peek_mark_ext.
      destruct (peek_mark M_PAREN t0); [|apply X_single_core_open].
      pose proof (X_pop_children E t0) as Hp. destruct (pop_children t0) as [[ch rest]|e]; [|exact I]. unfold EXR in Hp. rewrite Hp. clear Hp. lift_unfold.
      pose proof (strip_stack_ext n ch [] rest) as Hs. cbn [app] in Hs. destruct (strip_parens n ch [rest]) as [[i s]|e]; [|exact I].
      destruct Hs as (pre' & -> & Hs2).
      match goal with |- EXR _ _ (match ?X with _ => _ end) => replace X with (Ok (i, pre' ++ [rest ++ F]) : res (toks * list toks)) by (symmetry; exact Hs2) end.
      apply X_single_core_closed. intros i12.
      destruct pre' as [|y pre'']; cbn [app].
      - destruct (close i12); [reflexivity|exact I].
      - destruct (close i12); [|exact I]. apply (X_close_stack (y :: pre'') rest). }
    destruct w as [x|]; [apply Main|].
    pose proof (X_b_with_clause ts) as H. destruct (b_with_clause rec d ts) as [[wc t0]|e]; [|exact I].
    unfold EXR in H. rewrite H. lift_unfold. apply Main.
  Qed.
  Hint Resolve X_b_single_select : ex.
  Lemma X_union_loop wc : forall n m ts acc, n <= m -> EXR F (union_loop rec d n wc ts acc) (union_loop rec d m wc (ts ++ F) acc).
  Proof.
    induction n as [|n IH]; intros m ts acc Hle; [exact I|]. destruct m as [|m]; [lia|]. cbn [union_loop].
    assert (IH' := fun ts acc => IH m ts acc (le_S_n _ _ Hle)). esweep.
  Qed.
  Lemma X_values_loop : forall n m ts acc, n <= m -> EXR F (values_loop rec d n ts acc) (values_loop rec d m (ts ++ F) acc).
  Proof.
    induction n as [|n IH]; intros m ts acc Hle; [exact I|]. destruct m as [|m]; [lia|]. cbn [values_loop].
    assert (IH' := fun ts acc => IH m ts acc (le_S_n _ _ Hle)). esweep.
  Qed.
  Lemma X_b_partition already ts : EXR F (b_partition rec d already ts) (b_partition rec d already (ts ++ F)). Proof. unfold b_partition. esweep. Qed.
  Lemma X_fk_action ts : EXR F (fk_action ts) (fk_action (ts ++ F)). Proof. unfold fk_action. esweep. Qed.
  Lemma X_name_list ts : EXR F (name_list ts) (name_list (ts ++ F)). Proof. unfold name_list. esweep. Qed.
  Hint Resolve X_b_partition X_fk_action X_name_list : ex.
  Lemma X_b_foreign_key ts : EXR F (b_foreign_key ts) (b_foreign_key (ts ++ F)). Proof. unfold b_foreign_key. esweep. Qed.
  Lemma X_index_column ts : EXR F (index_column ts) (index_column (ts ++ F)). Proof. unfold index_column. esweep. Qed.
  Hint Resolve X_b_foreign_key X_index_column : ex.
  Lemma X_index_columns ts : EXR F (index_columns ts) (index_columns (ts ++ F)). Proof. unfold index_columns. esweep. Qed.
  Lemma X_index_tail ts : EXR F (index_tail ts) (index_tail (ts ++ F)). Proof. unfold index_tail. esweep. Qed.
  Hint Resolve X_index_columns X_index_tail : ex.
  Lemma X_b_index cls kws named ts : forallb pat_ok (PS kws) = true -> EXR F (b_index cls kws named ts) (b_index cls kws named (ts ++ F)). Proof. intros Hk. unfold b_index. esweep. Qed.
  Lemma X_b_generated ts : EXR F (b_generated rec d ts) (b_generated rec d (ts ++ F)). Proof. unfold b_generated. esweep. Qed.
  Hint Resolve X_b_index X_b_generated : ex.
  Lemma X_column_attrs : forall n m a ts, n <= m -> EXR F (column_attrs rec d n a ts) (column_attrs rec d m a (ts ++ F)).
  Proof.
    induction n as [|n IH]; intros m a ts Hle; [exact I|]. destruct m as [|m]; [lia|]. cbn [column_attrs].
    assert (IH' := fun a ts => IH m a ts (le_S_n _ _ Hle)). rewrite finish_or_semi_ext. destruct (is_finish ts || peek_str (S ";") ts); esweep.
  Qed.
  Ltac ehook ::=
    lazymatch goal with
    | |- EXR _ (sep_list _ _ _) _ => apply X_sep_list; [intros; esweep|vm_compute; reflexivity]
    | |- EXR _ (sep_more _ _ _ _ _) _ => apply X_sep_more; [intros; esweep|vm_compute; reflexivity|len_solve]
    | |- EXR _ (opt_list _ _ _) _ => apply X_opt_list; intros; esweep
    | |- EXR _ (compute_loop _ _ _ _ _) _ => apply X_compute_loop; [intros; esweep|len_solve]
    | |- EXR _ (when_loop _ _ _ _ _ _) _ => apply X_when_loop; len_solve
    | |- EXR _ (left_loop _ _ _ _ _) _ => apply X_left_loop; [intros; esweep| |len_solve]
    | |- EXR _ (while_clause _ _ _ _ _) _ => apply X_while_clause; [intros; eauto 3 with ex|intros; esweep|len_solve]
    | |- EXR _ (by_clause _ _ _ _ _) _ => apply X_by_clause; [vm_compute; reflexivity|vm_compute; reflexivity|intros; esweep]
    | |- EXR _ (union_loop _ _ _ _ _ _) _ => apply X_union_loop; len_solve
    | |- EXR _ (values_loop _ _ _ _ _) _ => apply X_values_loop; len_solve
    | |- EXR _ (column_attrs _ _ _ _ _) _ => apply X_column_attrs; len_solve
    end.
  Lemma X_b_select w ts : EXR F (b_select rec d w ts) (b_select rec d w (ts ++ F)). Proof. unfold b_select. destruct w; esweep. Qed.
  Lemma X_b_column_type ts : EXR F (b_column_type rec d ts) (b_column_type rec d (ts ++ F)). Proof. unfold b_column_type. esweep. Qed.
  Lemma X_b_define_column ts : EXR F (b_define_column rec d ts) (b_define_column rec d (ts ++ F)). Proof. unfold b_define_column. esweep. Qed.
  Hint Resolve X_b_select X_b_column_type X_b_define_column : ex.
  Lemma X_b_column_or_index ts : EXR F (b_column_or_index rec d ts) (b_column_or_index rec d (ts ++ F)). Proof. unfold b_column_or_index. esweep. Qed.
  Lemma X_opt_partition ts : EXR F (opt_partition rec d ts) (opt_partition rec d (ts ++ F)). Proof. unfold opt_partition. esweep. Qed.
  Hint Resolve X_b_column_or_index X_opt_partition : ex.
  Lemma X_b_insert w ts : EXR F (b_insert rec d w ts) (b_insert rec d w (ts ++ F)). Proof. unfold b_insert. destruct w; esweep. Qed.
  Lemma X_b_set ts : EXR F (b_set ts) (b_set (ts ++ F)). Proof. unfold b_set. esweep. Qed.
  Lemma X_eq_value ts : EXR F (eq_value ts) (eq_value (ts ++ F)). Proof. unfold eq_value. esweep. Qed.
  Hint Resolve X_b_insert X_b_set X_eq_value : ex.
  Lemma X_table_options : forall n m o ts, n <= m -> EXR F (table_options rec d n o ts) (table_options rec d m o (ts ++ F)).
  Proof.
    induction n as [|n IH]; intros m o ts Hle; [exact I|]. destruct m as [|m]; [lia|]. cbn [table_options].
    assert (IH' := fun o ts => IH m o ts (le_S_n _ _ Hle)). rewrite finish_or_semi_ext. destruct (is_finish ts || peek_str (S ";") ts); esweep.
  Qed.
  Ltac ehook ::=
    lazymatch goal with
    | |- EXR _ (sep_list _ _ _) _ => apply X_sep_list; [intros; esweep|vm_compute; reflexivity]
    | |- EXR _ (sep_more _ _ _ _ _) _ => apply X_sep_more; [intros; esweep|vm_compute; reflexivity|len_solve]
    | |- EXR _ (opt_list _ _ _) _ => apply X_opt_list; intros; esweep
    | |- EXR _ (compute_loop _ _ _ _ _) _ => apply X_compute_loop; [intros; esweep|len_solve]
    | |- EXR _ (when_loop _ _ _ _ _ _) _ => apply X_when_loop; len_solve
    | |- EXR _ (left_loop _ _ _ _ _) _ => apply X_left_loop; [intros; esweep| |len_solve]
    | |- EXR _ (while_clause _ _ _ _ _) _ => apply X_while_clause; [intros; eauto 3 with ex|intros; esweep|len_solve]
    | |- EXR _ (by_clause _ _ _ _ _) _ => apply X_by_clause; [vm_compute; reflexivity|vm_compute; reflexivity|intros; esweep]
    | |- EXR _ (union_loop _ _ _ _ _ _) _ => apply X_union_loop; len_solve
    | |- EXR _ (values_loop _ _ _ _ _) _ => apply X_values_loop; len_solve
    | |- EXR _ (column_attrs _ _ _ _ _) _ => apply X_column_attrs; len_solve
    | |- EXR _ (table_options _ _ _ _ _) _ => apply X_table_options; len_solve
    end.
  Lemma X_b_drop_table ts : EXR F (b_drop_table ts) (b_drop_table (ts ++ F)). Proof. unfold b_drop_table. esweep. Qed.
  Lemma X_b_analyze ts : EXR F (b_analyze rec d ts) (b_analyze rec d (ts ++ F)). Proof. unfold b_analyze. esweep. Qed.
  Lemma X_b_alter_expression ts : EXR F (b_alter_expression rec d ts) (b_alter_expression rec d (ts ++ F)). Proof. unfold b_alter_expression. esweep. Qed.
  Hint Resolve X_b_drop_table X_b_analyze X_b_alter_expression : ex.
  Lemma X_b_alter_table ts : EXR F (b_alter_table rec d ts) (b_alter_table rec d (ts ++ F)). Proof. unfold b_alter_table. esweep. Qed.
  Lemma X_table_stmt cls kws ts : forallb pat_ok (PS kws) = true -> EXR F (table_stmt cls kws ts) (table_stmt cls kws (ts ++ F)). Proof. intros Hk. unfold table_stmt. esweep. Qed.
  Lemma X_b_use ts : EXR F (b_use ts) (b_use (ts ++ F)). Proof. unfold b_use. esweep. Qed.
  Lemma X_update_set_column ts : EXR F (update_set_column rec d ts) (update_set_column rec d (ts ++ F)). Proof. unfold update_set_column. esweep. Qed.
  Hint Resolve X_b_alter_table X_table_stmt X_b_use X_update_set_column : ex.
  Lemma X_b_update w ts : EXR F (b_update rec d w ts) (b_update rec d w (ts ++ F)). Proof. unfold b_update. esweep. Qed.
  Lemma X_b_delete ts : EXR F (b_delete rec d ts) (b_delete rec d (ts ++ F)). Proof. unfold b_delete. esweep. Qed.
  Lemma X_b_show_columns ts : EXR F (b_show_columns rec d ts) (b_show_columns rec d (ts ++ F)). Proof. unfold b_show_columns. esweep. Qed.
  Hint Resolve X_b_update X_b_delete X_b_show_columns : ex.

  (* CREATE TABLE: the option loop only stops at the end or in front of a ';', and the statement then swallows one ';' itself *)
  Definition stop_at (x : res (tblopts * toks)) : Prop := match x with Ok (_, t) => is_finish t || peek_str (S ";") t = true | Err _ => True end.
  Ltac tosweep :=
    cbv beta zeta;
    lazymatch goal with
    | |- stop_at (Err _) => exact I
    | |- stop_at (Ok _) => assumption
    | |- stop_at (match ?e with _ => _ end) => let w := inner_scrut_e e in destruct w eqn:?; tosweep
    | |- stop_at _ => first [ solve [eauto] | idtac ]
    end.
  Lemma table_options_stop : forall n o ts, stop_at (table_options rec d n o ts).
  Proof. induction n as [|n IH]; intros o ts; cbn [table_options]; [exact I|]. tosweep. Qed.
  Lemma XL_b_create_table ts : EXL E (b_create_table rec d ts) (b_create_table rec d (ts ++ F)).
  Proof.
    unfold b_create_table.
    pose proof (X_match_pats E (PS ["CREATE"; "TABLE"]) ts eq_refl) as H1. destruct (match_pats (PS ["CREATE"; "TABLE"]) ts) as [t1|e]; [|exact I].
    unfold EXR in H1. rewrite H1. clear H1. lift_unfold.
    rewrite (X_take_up3 E (S "IF") (S "NOT") (S "EXISTS") t1) by reflexivity. destruct (take_up3 (S "IF") (S "NOT") (S "EXISTS") t1) as [ine t2]. lift_unfold.
    pose proof (X_parse_table_name E t2) as H3. destruct (parse_table_name t2) as [[tn t3]|e]; [|exact I]. unfold EXR in H3. rewrite H3. clear H3. lift_unfold.
    rewrite (X_take_up E (S "AS") t3) by reflexivity. destruct (take_up (S "AS") t3) as [b t4]. lift_unfold.
    destruct b.
    - apply EXR_EXL. esweep.
    - pose proof (X_pop_split E (S ",") t3) as H5. destruct (pop_split (S ",") t3) as [[segs t5]|e]; [|exact I]. unfold EXR in H5. rewrite H5. clear H5. lift_unfold.
      destruct (table_defs rec d segs _) as [td|e]; [|exact I].
      match goal with |- EXL _ (match table_options _ _ ?n ?o t5 with _ => _ end) _ =>
        pose proof (X_table_options n (Datatypes.S (List.length (t5 ++ F))) o t5 ltac:(len_solve)) as H6;
        pose proof (table_options_stop n o t5) as H7; destruct (table_options rec d n o t5) as [[o' t6]|e]; [|exact I] end.
      unfold EXR in H6. rewrite H6. clear H6. lift_unfold. unfold stop_at in H7.
      destruct t6 as [|x t6].
      + change (take_str (S ";") ([] ++ F)) with (true, E). change (take_str (S ";") []) with (false, @nil tok). cbv beta iota. right. split; reflexivity.
      + cbn [is_finish orb] in H7. unfold take_str. cbn [app peek_str] in *. rewrite H7. cbn [take skipn]. cbv beta iota. left. reflexivity.
  Qed.
  Lemma XL_b_statement ts : EXL E (b_statement rec d ts) (b_statement rec d (ts ++ F)).
  Proof.
    unfold b_statement.
    rewrite !(peek_up_ext E _ ts), !(peek_up2_ext E _ _ ts), !(peek_up3_ext E _ _ _ ts) by (vm_compute; reflexivity).
    repeat match goal with
    | |- EXL _ (if ?c then _ else _) (if ?c then _ else _) =>
        destruct c; [first [unfold r; apply Hrec2 | apply EXR_EXL; solve [eauto 3 with ex] | apply EXR_EXL; apply X_table_stmt; vm_compute; reflexivity]|]
    end.
    apply EXR_EXL. esweep.
  Qed.

  Theorem X_body f a ts : strict f = true -> EXR F (body rec d f a ts) (body rec d f a (ts ++ F)).
  Proof.
    intros Hs. unfold body. destruct f; try discriminate Hs; try solve [eauto 3 with ex].
    destruct a as [b|]; [apply X_b_array_index|exact I].
  Qed.
  Theorem XL_body f a ts : EXL E (body rec d f a ts) (body rec d f a (ts ++ F)).
  Proof.
    destruct (strict f) eqn:Hs; [apply EXR_EXL, X_body, Hs|].
    destruct f; try discriminate Hs; unfold body; [apply XL_b_create_table|apply XL_b_statement].
  Qed.
End BodyExt.

(* ---------- closing the recursion ---------- *)
Theorem X_run E : forall fuel,
  (forall f d a ts, strict f = true -> EXR (semi :: E) (run fuel f d a ts) (run fuel f d a (ts ++ semi :: E))) /\
  (forall f d a ts, EXL E (run fuel f d a ts) (run fuel f d a (ts ++ semi :: E))).
Proof.
  induction fuel as [|n [IH1 IH2]]; [split; intros; exact I|].
  split; intros f d a ts; cbn [run].
  - intros Hs. apply X_body; first [exact IH1 | exact Hs | intros; apply IH2].
  - apply XL_body; first [exact IH1 | intros; apply IH2].
Qed.

(* readable corollaries *)
Corollary run_extend fuel f d a ts v R E :
  strict f = true -> run fuel f d a ts = Ok (v, R) -> run fuel f d a (ts ++ semi :: E) = Ok (v, R ++ semi :: E).
Proof. intros Hs H. pose proof (proj1 (X_run E fuel) f d a ts Hs) as X. rewrite H in X. exact X. Qed.
Corollary statement_extend fuel d ts v R E :
  run fuel F_statement d None ts = Ok (v, R) ->
  run fuel F_statement d None (ts ++ semi :: E) = Ok (v, R ++ semi :: E) \/ (R = [] /\ run fuel F_statement d None (ts ++ semi :: E) = Ok (v, E)).
Proof. intros H. pose proof (proj2 (X_run E fuel) F_statement d None ts) as X. rewrite H in X. exact X. Qed.

(* ---------- no statement begins with a ';' ---------- *)
Section SemiHead.
  Variable t : tok.
  Variable b' : toks.
  Hypothesis Hs : source t = S ";".
  Lemma peek_up_semi k : str_eqb (upper (S ";")) k = false -> peek_up k (t :: b') = false.
  Proof. intros H. unfold peek_up, source_equal_upper. rewrite Hs. exact H. Qed.
  Lemma peek_up2_semi a b : str_eqb (upper (S ";")) a = false -> peek_up2 a b (t :: b') = false.
  Proof. intros H. unfold peek_up2, source_equal_upper. destruct b'; [reflexivity|]. rewrite Hs, H. reflexivity. Qed.
  Lemma peek_up3_semi a b c : str_eqb (upper (S ";")) a = false -> peek_up3 a b c (t :: b') = false.
  Proof. intros H. unfold peek_up3, source_equal_upper. destruct b' as [|y [|z l]]; [reflexivity|reflexivity|]. rewrite Hs, H. reflexivity. Qed.
  Lemma stmt_semi_head rec d : b_statement rec d (t :: b') = Err ParseErr.
  Proof.
    unfold b_statement, b_with_clause, take_up2, take_up.
    rewrite !peek_up_semi, !peek_up2_semi, !peek_up3_semi by (vm_compute; reflexivity). cbn [take negb].
    rewrite !peek_up_semi by (vm_compute; reflexivity). reflexivity.
  Qed.
End SemiHead.
Lemma statement_head fuel d b v R : run fuel F_statement d None b = Ok (v, R) -> b <> [] /\ peek_str (S ";") b = false.
Proof.
  intros H. destruct fuel as [|n]; [discriminate|]. cbn [run body] in H.
  destruct b as [|t b']; [vm_compute in H; discriminate|]. split; [discriminate|].
  destruct (peek_str (S ";") (t :: b')) eqn:P; [|reflexivity]. unfold peek_str, source_equal in P. apply str_eqb_eq in P.
  rewrite (stmt_semi_head t b' P) in H. discriminate.
Qed.

(* ---------- C10 without a hypothesis on how each statement stops ---------- *)
Section ScriptOfStandalone.
  Variable fuel : nat.
  Variable d : sqltype.
  (* a statement that parses on its own, completely *)
  Definition standalone (it : sitem) : Prop := run fuel F_statement d None (si_block it) = Ok (si_val it, []).

  Lemma take_semi_block b rest : b <> [] -> peek_str (S ";") b = false -> take_str (S ";") (b ++ rest) = (false, b ++ rest).
  Proof. intros Hne Hp. destruct b as [|x b]; [contradiction|]. unfold take_str. cbn [app peek_str] in *. rewrite Hp. reflexivity. Qed.
  Lemma script_starts it items final : exists rest, script (it :: items) final = si_block it ++ rest.
  Proof. destruct items; cbn [script]; eexists; reflexivity. Qed.

  Theorem script_of_standalone : forall items final n acc,
    Forall standalone items -> (List.length items < n)%nat ->
    statements_loop n fuel d (script items final) acc = Ok (rev acc ++ map si_val items).
  Proof.
    induction items as [|it items IH]; intros final n acc Hall Hn.
    - destruct n; [simpl in Hn; lia|]. simpl. rewrite app_nil_r. reflexivity.
    - apply Forall_cons_iff in Hall as [Hrun Hall]. unfold standalone in Hrun.
      destruct (statement_head _ _ _ _ _ Hrun) as [Hne Hp].
      destruct n as [|n]; [simpl in Hn; lia|]. simpl in Hn.
      destruct items as [|it2 items].
      + cbn [script statements_loop]. rewrite (not_finish _ _ Hne).
        destruct final.
        * destruct (statement_extend fuel d _ _ _ [] Hrun) as [Hx|[_ Hx]]; rewrite Hx.
          -- cbn [app]. rewrite take_semi. destruct n; [simpl in Hn; lia|]. cbn [statements_loop is_finish rev map]. reflexivity.
          -- cbn [take_str take peek_str]. destruct n; [simpl in Hn; lia|]. cbn [statements_loop is_finish rev map]. reflexivity.
        * rewrite app_nil_r, Hrun. cbn [take_str take peek_str].
          destruct n; [simpl in Hn; lia|]. cbn [statements_loop is_finish rev map]. reflexivity.
      + change (script (it :: it2 :: items) final) with (si_block it ++ semi :: script (it2 :: items) final).
        cbn [statements_loop]. rewrite (not_finish _ _ Hne).
        assert (Hnext : statements_loop n fuel d (script (it2 :: items) final) (si_val it :: acc) = Ok (rev acc ++ map si_val (it :: it2 :: items))).
        { rewrite (IH final n (si_val it :: acc) Hall); [|simpl in *; lia]. cbn [rev map]. rewrite <- app_assoc. reflexivity. }
        destruct (statement_extend fuel d _ _ _ (script (it2 :: items) final) Hrun) as [Hx|[_ Hx]]; rewrite Hx.
        * cbn [app]. rewrite take_semi. exact Hnext.
        * apply Forall_cons_iff in Hall as [Hrun2 _]. unfold standalone in Hrun2. destruct (statement_head _ _ _ _ _ Hrun2) as [Hne2 Hp2].
          destruct (script_starts it2 items final) as [rest Hsc]. rewrite Hsc at 1. rewrite (take_semi_block _ rest Hne2 Hp2). rewrite <- Hsc. exact Hnext.
  Qed.
End ScriptOfStandalone.
