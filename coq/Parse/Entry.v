(* Public entry points: text -> (dialect pre-pass) -> lexer model -> parser model -> canonical value. *)
From Coq Require Import List NArith ZArith Bool String.
Require Import Base.Common Gen.LexTable Lex.Model Cur.Model Tree.Value Tree.Canon Gen.Static Parse.Prim Parse.Model.
Import ListNotations.
Open Scope string_scope.

Definition one (f : fn) (a : option value) (d : sqltype) (ts : toks) : res value :=
  let* (v, _) := run (fuel_for ts) f d a ts in Ok v.
Definition leaf (p : toks -> PR) (ts : toks) : res value := let* (v, _) := p ts in Ok v.

Definition parse_tokens (entry : string) (d : sqltype) (ts : toks) : res value :=
  let r :=
    if String.eqb entry "statements" then
      let* vs := statements_loop (Datatypes.S (List.length ts)) (fuel_for ts) d ts [] in Ok (VList vs)
    else if String.eqb entry "logical_or_level_expression" then one F_logical_or None d ts
    else if String.eqb entry "logical_xor_level_expression" then one F_logical_xor None d ts
    else if String.eqb entry "logical_and_level_expression" then one F_logical_and None d ts
    else if String.eqb entry "logical_not_level_expression" then one F_logical_not None d ts
    else if String.eqb entry "operator_condition_level_expression" then one F_operator_condition None d ts
    else if String.eqb entry "keyword_condition_level_expression" then one F_keyword_condition None d ts
    else if String.eqb entry "compute_expression" then one F_compute None d ts
    else if String.eqb entry "unary_level_expression" then one F_unary None d ts
    else if String.eqb entry "element_level_expression" then one F_element None d ts
    else if String.eqb entry "function_expression" then one F_function None d ts
    else if String.eqb entry "window_expression" then one F_window None d ts
    else if String.eqb entry "case_expression" then one F_case None d ts
    else if String.eqb entry "select_statement" then one F_select None d ts
    else if String.eqb entry "single_select_statement" then one F_single_select None d ts
    else if String.eqb entry "from_table" then one F_from_table None d ts
    else if String.eqb entry "create_table_statement" then one F_create_table None d ts
    else if String.eqb entry "define_column_expression" then one F_define_column None d ts
    else if String.eqb entry "alter_expression" then one F_alter_expression None d ts
    else if String.eqb entry "column_name_expression" then leaf parse_column_name ts
    else if String.eqb entry "table_name_expression" then leaf parse_table_name ts
    else if String.eqb entry "limit_clause" then leaf parse_limit ts
    else if String.eqb entry "alias_expression" then leaf parse_alias ts
    else if String.eqb entry "join_type" then leaf parse_join_type ts
    else if String.eqb entry "insert_type" then leaf parse_insert_type ts
    else if String.eqb entry "window_row" then leaf parse_window_row ts
    else if String.eqb entry "config_string_expression" then leaf parse_config_string_expression ts
    else Err (Crash 7) in
  match r with Ok v => Ok (canon v) | Err e => Err e end.

Definition parse_text (mybatis : bool) (entry : string) (d : sqltype) (text : str) : res value :=
  let* ts := lex mybatis 7 (dialect_prepass d text) in parse_tokens entry d ts.
