(* Consumption facts about the parser model *)
From Coq Require Import List NArith ZArith Bool String Ascii Lia.
Require Import Base.Common Gen.LexTable Lex.Model Cur.Model Tree.Value Tree.Canon Gen.Static Parse.Prim Parse.Model Parse.Entry.
Import ListNotations.
Open Scope string_scope.
Open Scope list_scope.

Lemma close_ok_iff ts : close ts = Ok tt <-> ts = [].
Proof. destruct ts; simpl; split; intros H; try reflexivity; discriminate. Qed.

Lemma each_closed_consumes (item : toks -> PR) : forall segs vs, each_closed item segs = Ok vs ->
  Forall2 (fun sg v => item sg = Ok (v, [])) segs vs.
Proof.
  induction segs as [|sg segs IH]; intros vs H; cbn [each_closed] in H.
  - inversion H; subst. constructor.
  - destruct (item sg) as [[v r]|e] eqn:E; [|discriminate].
    destruct (close r) eqn:Ec; [|discriminate]. destruct (each_closed item segs) as [vs'|e] eqn:E2; [|discriminate].
    inversion H; subst. constructor; [|apply IH; reflexivity].
    destruct r; [exact E|simpl in Ec; discriminate].
  Qed.

(* the remainder the statement loop ends with *)
Fixpoint loop_rest (n : nat) (fuel : nat) (d : sqltype) (ts : toks) : option toks :=
  match n with
  | O => None
  | Datatypes.S n' =>
      if is_finish ts then Some ts else
      match run fuel F_statement d None ts with
      | Ok (_, t1) => loop_rest n' fuel d (snd (take_str (S ";") t1))
      | Err _ => None
      end
  end.
Definition loop_consumed (n fuel : nat) (d : sqltype) (ts : toks) : bool :=
  match loop_rest n fuel d ts with Some [] => true | _ => false end.

Lemma statements_loop_consumed : forall n fuel d ts acc vs, statements_loop n fuel d ts acc = Ok vs -> loop_consumed n fuel d ts = true.
Proof.
  unfold loop_consumed. induction n as [|n IH]; intros fuel d ts acc vs H; cbn [statements_loop] in H; [discriminate|].
  cbn [loop_rest]. destruct (is_finish ts) eqn:Ef.
  - destruct ts; [reflexivity|discriminate].
  - destruct (run fuel F_statement d None ts) as [[v t1]|e]; [|discriminate].
    destruct (take_str (S ";") t1) as [b t2] eqn:Et. cbn [snd]. exact (IH fuel d t2 (v :: acc) vs H).
Qed.

Definition rejects (text : string) : bool := match parse_text false "statements" D_DEFAULT (S text) with Err ParseErr => true | _ => false end.
Definition accepts (text : string) : bool := match parse_text false "statements" D_DEFAULT (S text) with Ok _ => true | _ => false end.
Definition c08_example_ok : bool :=
  accepts "SELECT f(a, 1) FROM t WHERE b IN (1, 2) LIMIT 3" &&
  rejects "SELECT f(a, 1 zq9) FROM t WHERE b IN (1, 2) LIMIT 3" &&
  rejects "SELECT f(a, 1) FROM t WHERE b IN (1, 2 zq9) LIMIT 3" &&
  rejects "SELECT f(a, 1) FROM t WHERE b IN (1, 2) LIMIT 3 zq9" &&
  rejects "SELECT f(a, 1) FROM t WHERE b IN (1, 2) 'zq9' LIMIT 3" &&
  rejects "SELECT CAST(a AS DECIMAL(10, 2 zq9)) FROM t" &&
  rejects "INSERT INTO t (a, b zq9) VALUES (1, 2)" &&
  rejects "CREATE TABLE t (a INT(11 zq9))".
