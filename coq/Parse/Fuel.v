(* Termination of the parser model: the recursion budget of Parse/Model.v is ADEQUATE.  Every function of the model, on every
   token list, ends in a tree or a parse error -- never in the model's own OutOfFuel -- as soon as the budget exceeds a linear
   bound in the size of the token tree:  run fuel f d a ts <> Err OutOfFuel  whenever  fuel > RK * toks_size ts + rank f.
   `rank` orders the functions along the calls that pass the SAME tokens on (statement > select > ... > element > ...); every
   other recursive call is made on fewer tokens (a token was consumed first) or on the children of a bracket group.  The inner
   loops (separated lists, operator loops, attribute / option loops, bracket stripping) carry their own budgets, derived from
   the number of tokens left; each is shown adequate because every iteration consumes a token.
   Third whole-model sweep, same structure as Parse/Sweep.v and Parse/Suffix.v (whose suffix facts it re-uses). *)
From Coq Require Import List NArith ZArith Bool String Ascii Lia Arith.
Require Import Base.Common Gen.LexTable Lex.Model Cur.Model Tree.Value Tree.Helpers Gen.Static Parse.Prim Parse.Model Parse.Sweep Parse.Suffix.
Import ListNotations.
Open Scope string_scope.
Open Scope list_scope.
Local Open Scope nat_scope.

Definition NF {A} (r : res A) : Prop := r <> Err OutOfFuel.
Lemma NF_ok {A} (a : A) : NF (Ok a). Proof. discriminate. Qed.
Lemma NF_parse {A} : NF (@Err A ParseErr). Proof. discriminate. Qed.

(* ---------- sizes ---------- *)
Notation sz := toks_size.
Lemma sz_app a b : sz (a ++ b) = sz a + sz b.
Proof. unfold toks_size. induction a as [|x a IH]; simpl; [reflexivity|]. rewrite IH. lia. Qed.
Lemma sz_cons t ts : sz (t :: ts) = tok_size t + sz ts. Proof. reflexivity. Qed.
Lemma tok_size_pos t : 1 <= tok_size t. Proof. destruct t; simpl; lia. Qed.
Lemma tok_size_group t : is_group t = true -> tok_size t = 1 + sz (tok_children t).
Proof. destruct t as [s m|k ts]; simpl; [discriminate|]. reflexivity. Qed.
Lemma sfx_sz r ts : sfx r ts -> sz r <= sz ts. Proof. intros [p ->]. rewrite sz_app. lia. Qed.
Lemma sfx_len r ts : sfx r ts -> List.length r <= List.length ts. Proof. apply sfx_length. Qed.
Lemma len_le_sz ts : List.length ts <= sz ts.
Proof. induction ts as [|t ts IH]; [simpl; lia|]. rewrite sz_cons. pose proof (tok_size_pos t). simpl. lia. Qed.
Lemma skipn_sz k ts : sz (skipn k ts) <= sz ts. Proof. apply sfx_sz, sfx_skipn. Qed.
Lemma skipn1_lt ts : ts <> [] -> sz (skipn 1 ts) < sz ts /\ List.length (skipn 1 ts) < List.length ts.
Proof. destruct ts as [|t ts]; [congruence|]. intros _. cbn [skipn]. rewrite sz_cons. pose proof (tok_size_pos t). simpl. lia. Qed.

(* split_by only re-groups the children *)
Lemma sz_rev a : sz (rev a) = sz a.
Proof. induction a as [|x a IH]; [reflexivity|]. cbn [rev]. rewrite sz_app, IH, !sz_cons. simpl. lia. Qed.
Lemma split_by_sz s : forall l cur sg, In sg (split_by l s cur) -> sz sg <= sz l + sz cur.
Proof.
  induction l as [|t l IH]; intros cur sg; cbn [split_by].
  - destruct cur as [|c cur']; cbn [In]; [tauto|]. intros [<-|[]]. rewrite sz_rev. simpl. lia.
  - destruct (tok_equals t (PStr s)).
    + destruct cur as [|c cur'].
      * intros H. apply IH in H. rewrite sz_cons. simpl in *. lia.
      * cbn [In]. intros [<-|H]; [rewrite sz_rev, sz_cons; lia|]. apply IH in H. rewrite sz_cons. simpl in *. lia.
    + intros H. apply IH in H. rewrite !sz_cons in *. lia.
Qed.

Lemma sz_map_le (g : tok -> tok) : (forall t, tok_size (g t) <= tok_size t) -> forall l, sz (map g l) <= sz l.
Proof. intros Hg. induction l as [|t l IH]; [simpl; lia|]. cbn [map]. rewrite !sz_cons. pose proof (Hg t). lia. Qed.
Lemma sz_if_map_le (c : bool) (g : tok -> tok) l : (forall t, tok_size (g t) <= tok_size t) -> sz (if c then map g l else l) <= sz l.
Proof. intros Hg. destruct c; [apply sz_map_le; exact Hg|lia]. Qed.

(* ---------- the measure ---------- *)
Definition RK : nat := 40.
Definition rank (f : fn) : nat :=
  match f with
  | F_statement => 33 | F_insert => 32 | F_create_table => 31 | F_alter_expression => 30 | F_column_or_index => 29
  | F_define_column => 28 | F_column_type => 27 | F_partition => 26 | F_select => 25 | F_single_select => 24
  | F_with_clause => 23 | F_with_table => 22 | F_from_table => 21 | F_table_expression => 20 | F_order_by_column => 19
  | F_logical_or => 18 | F_logical_xor => 17 | F_logical_and => 16 | F_logical_not => 15 | F_operator_condition => 14
  | F_keyword_condition => 13 | F_compute => 12 | F_unary => 11 | F_element => 10 | F_window => 9
  | F_function_and_index => 8 | F_function => 7 | F_array_index => 6 | F_case => 5 | F_general_parenthesis => 4
  | F_in_parenthesis => 3 | F_sub_query => 2 | F_sub_value => 1
  end.
Lemma rank_lt_RK f : rank f < RK. Proof. destruct f; unfold RK; simpl; lia. Qed.

(* ---------- progress facts: what a successful primitive has consumed ---------- *)
Class Prog (A : Type) := prog : A -> toks -> Prop.
#[global] Instance prog_any A : Prog A | 100 := fun _ _ => True.
#[global] Instance prog_toks : Prog toks | 0 := fun r ts => sz r < sz ts /\ List.length r < List.length ts.
#[global] Instance prog_pair A : Prog (A * toks) | 5 := fun p ts => sz (snd p) < sz ts /\ List.length (snd p) < List.length ts.
#[global] Instance prog_children : Prog (toks * toks) | 0 := fun p ts => sz (fst p) + sz (snd p) < sz ts /\ List.length (snd p) < List.length ts.
#[global] Instance prog_split : Prog (list toks * toks) | 0 :=
  fun p ts => (forall sg, In sg (fst p) -> sz sg + sz (snd p) < sz ts) /\ sz (snd p) < sz ts /\ List.length (snd p) < List.length ts.
#[global] Instance prog_bool : Prog (bool * toks) | 0 := fun p ts => fst p = true -> sz (snd p) < sz ts /\ List.length (snd p) < List.length ts.
#[global] Instance prog_res A `{Prog A} : Prog (res A) | 0 := fun x ts => match x with Ok a => prog a ts | Err _ => True end.
#[global] Instance prog_opt A `{Prog A} : Prog (option A) | 0 := fun x ts => match x with Some a => prog a ts | None => True end.
Definition PG {A} `{Prog A} (x : A) (ts : toks) : Prop := prog x ts.
Ltac pg_unfold := cbv beta iota delta [PG prog prog_any prog_toks prog_pair prog_children prog_split prog_bool prog_res prog_opt snd fst].
Ltac pg_unfold_in H := cbv beta iota delta [PG prog prog_any prog_toks prog_pair prog_children prog_split prog_bool prog_res prog_opt snd fst] in H.

Lemma skipn_lt k ts : 1 <= k -> k <= List.length ts -> sz (skipn k ts) < sz ts /\ List.length (skipn k ts) < List.length ts.
Proof.
  intros Hk Hl. destruct k as [|k]; [lia|]. destruct ts as [|t ts]; [simpl in Hl; lia|].
  cbn [skipn]. pose proof (skipn_sz k ts). pose proof (tok_size_pos t). rewrite sz_cons. rewrite skipn_length. simpl. lia.
Qed.
Lemma search_from_len : forall ps l, search_from l ps = true -> List.length ps <= List.length l.
Proof.
  induction ps as [|p ps IH]; intros l H; [simpl; lia|]. destruct l as [|t l]; [discriminate|]. simpl in H.
  apply andb_true_iff in H as [_ H]. apply IH in H. simpl. lia.
Qed.
Lemma PG_take b k ts : 1 <= k -> (b = true -> k <= List.length ts) -> PG (take b k ts) ts.
Proof. intros Hk Hb. unfold take. destruct b; pg_unfold; [intros _; apply skipn_lt; auto|discriminate]. Qed.
Lemma peek_ne (f : tok -> bool) ts : match ts with t :: _ => f t | [] => false end = true -> 1 <= List.length ts.
Proof. destruct ts; [discriminate|simpl; lia]. Qed.
Lemma PG_take_str s ts : PG (take_str s ts) ts.
Proof. apply PG_take; [lia|]. unfold peek_str. apply peek_ne. Qed.
Lemma PG_take_up s ts : PG (take_up s ts) ts.
Proof. apply PG_take; [lia|]. unfold peek_up. apply peek_ne. Qed.
Lemma PG_take_set_up l ts : PG (take_set_up l ts) ts.
Proof. apply PG_take; [lia|]. unfold peek_set_up. apply (peek_ne (fun t => mem_str (upper (source t)) l)). Qed.
Lemma PG_take_up2 a b ts : PG (take_up2 a b ts) ts.
Proof. apply PG_take; [lia|]. unfold peek_up2. destruct ts as [|x [|y l]]; try discriminate. simpl. lia. Qed.
Lemma PG_take_up3 a b c ts : PG (take_up3 a b c ts) ts.
Proof. apply PG_take; [lia|]. unfold peek_up3. destruct ts as [|x [|y [|z l]]]; try discriminate. simpl. lia. Qed.
Lemma PG_take_pats ps ts : ps <> [] -> PG (take_pats ps ts) ts.
Proof. intros Hp. apply PG_take; [destruct ps; [congruence|simpl; lia]|]. unfold peek_pats. apply search_from_len. Qed.
Lemma PG_match_pats ps ts : ps <> [] -> PG (match_pats ps ts) ts.
Proof.
  intros Hp. unfold match_pats. destruct (peek_pats ps ts) eqn:E; pg_unfold; [|exact I].
  apply skipn_lt; [destruct ps; [congruence|simpl; lia]|]. apply search_from_len. exact E.
Qed.
Lemma PG_pop ts : PG (pop ts) ts.
Proof. destruct ts as [|t ts]; pg_unfold; [exact I|]. rewrite sz_cons. pose proof (tok_size_pos t). simpl. lia. Qed.
Lemma PG_pop_src ts : PG (pop_src ts) ts.
Proof. destruct ts as [|t ts]; pg_unfold; [exact I|]. rewrite sz_cons. pose proof (tok_size_pos t). simpl. lia. Qed.
Lemma PG_pop_children ts : PG (pop_children ts) ts.
Proof.
  destruct ts as [|t ts]; cbn [pop_children]; [exact I|]. destruct (is_group t) eqn:G; pg_unfold; [|exact I].
  rewrite sz_cons, (tok_size_group t G). simpl. lia.
Qed.
Lemma PG_pop_split s ts : PG (pop_split s ts) ts.
Proof.
  destruct ts as [|t ts]; cbn [pop_split]; [exact I|]. destruct (is_group t) eqn:G; pg_unfold; [|exact I].
  rewrite sz_cons, (tok_size_group t G). split; [|simpl; lia]. intros sg H. apply split_by_sz in H. simpl in H. lia.
Qed.
Create HintDb pg.
#[global] Hint Resolve PG_take_str PG_take_up PG_take_set_up PG_take_up2 PG_take_up3 PG_pop PG_pop_src PG_pop_children PG_pop_split : pg.
#[global] Hint Extern 1 (PG (take_pats _ _) _) => (apply PG_take_pats; discriminate) : pg.
#[global] Hint Extern 1 (PG (match_pats _ _) _) => (apply PG_match_pats; discriminate) : pg.

(* primitives never run out of fuel *)
Lemma NF_match_pats ps ts : NF (match_pats ps ts). Proof. unfold match_pats. destruct (peek_pats ps ts); discriminate. Qed.
Lemma NF_pop ts : NF (pop ts). Proof. destruct ts; discriminate. Qed.
Lemma NF_pop_src ts : NF (pop_src ts). Proof. destruct ts; discriminate. Qed.
Lemma NF_pop_children ts : NF (pop_children ts). Proof. destruct ts as [|t ts]; cbn [pop_children]; [discriminate|]. destruct (is_group t); discriminate. Qed.
Lemma NF_peek_children ts : NF (peek_children ts). Proof. destruct ts; discriminate. Qed.
Lemma NF_pop_split s ts : NF (pop_split s ts). Proof. destruct ts as [|t ts]; cbn [pop_split]; [discriminate|]. destruct (is_group t); discriminate. Qed.
Lemma NF_close ts : NF (close ts). Proof. destruct ts; discriminate. Qed.
Lemma NF_int_of s : NF (int_of s). Proof. unfold int_of. destruct (py_int s); discriminate. Qed.
Lemma NF_as_int s : NF (as_int s). Proof. unfold as_int. destruct (py_int s); discriminate. Qed.
Create HintDb nf.
#[global] Hint Resolve NF_match_pats NF_pop NF_pop_src NF_pop_children NF_peek_children NF_pop_split NF_close NF_int_of NF_as_int NF_ok NF_parse : nf.

(* the suffix facts of Parse/Suffix.v, usable for any recursion handle that has the suffix property *)
Create HintDb sfg.
#[global] Hint Resolve SF_r SF_r1 SF_args_list SF_call_args SF_opt_list SF_b_extract SF_b_cast SF_b_if SF_b_function SF_b_array_index SF_b_function_and_index
  SF_b_in_parenthesis SF_b_window SF_when_loop SF_b_case SF_b_sub_query SF_b_sub_value SF_b_general_parenthesis SF_b_element SF_b_unary SF_b_compute
  SF_b_keyword_condition SF_b_operator_condition SF_b_logical_not SF_layer SF_b_logical_and SF_b_logical_xor SF_b_logical_or SF_b_order_by_column
  SF_b_table_expression SF_b_from_table SF_b_select_column SF_b_select_clause SF_b_from_clause SF_b_lateral_view SF_b_join_expression SF_b_join_clause
  SF_b_where SF_b_having SF_b_grouping_sets SF_b_group_by SF_by_clause SF_b_order_by SF_b_sort_by SF_b_distribute_by SF_b_cluster_by SF_b_with_table
  SF_b_with_clause SF_while_clause SF_b_single_select SF_union_loop SF_b_select SF_b_column_type SF_b_partition SF_fk_action SF_name_list SF_b_foreign_key
  SF_index_column SF_index_columns SF_index_tail SF_b_index SF_b_generated SF_column_attrs SF_b_define_column SF_b_column_or_index SF_opt_partition
  SF_values_loop SF_b_insert SF_b_set SF_eq_value SF_table_options SF_b_create_table SF_b_drop_table SF_b_analyze SF_b_alter_expression SF_b_alter_table
  SF_table_stmt SF_b_use SF_update_set_column SF_b_update SF_b_delete SF_b_show_columns SF_b_statement SF_sep_list SF_sep_more SF_compute_loop SF_left_loop
  SF_parse_multi_alias SF_parse_config_string SF_parse_config_string_expression : sfg sf.

Lemma sfx_both a b : sfx a b -> sz a <= sz b /\ List.length a <= List.length b.
Proof. intros H. split; [apply sfx_sz|apply sfx_len]; exact H. Qed.
Lemma NF_err_cast {A B} e : @NF A (Err e) -> @NF B (Err e).
Proof. unfold NF. intros H Q. apply H. inversion Q. reflexivity. Qed.

Ltac norm2 :=
  repeat match goal with
         | H : SF _ _ |- _ => sf_unfold_in H
         | H : PG _ _ |- _ => pg_unfold_in H
         | H : True |- _ => clear H
         | H : sfx _ _ |- _ => apply sfx_both in H
         | H : _ /\ _ |- _ => destruct H
         | H : true = true -> _ |- _ => specialize (H eq_refl)
         | H : false = true -> _ |- _ => clear H
         | H : ?r = last _ _ |- _ => subst r
         | H : forall sg, In sg ?l -> _, Hin : In ?x ?l |- _ => pose proof (H x Hin); clear Hin
         end.
Ltac pos_facts :=
  repeat match goal with
         | |- context [tok_size ?t] => lazymatch goal with _ : 1 <= tok_size t |- _ => fail | _ => pose proof (tok_size_pos t) end
         | _ : context [tok_size ?t] |- _ => lazymatch goal with _ : 1 <= tok_size t |- _ => fail | _ => pose proof (tok_size_pos t) end
         end.
Ltac msolve :=
  norm2; unfold RK in *; cbn [rank List.length] in *; rewrite ?sz_cons in *; pos_facts; lia.

(* the innermost scrutinee, looking through negb (the model writes `if negb b then ... else ...`) *)
Ltac inner_scrut2 t := lazymatch t with match ?w with _ => _ end => inner_scrut2 w | negb ?b => inner_scrut2 b | _ => t end.
Ltac sfact e := try (let H := fresh "F" in eassert (H : SF e _) by (first [ eassumption | solve [eauto 3 with sf sfg] ])).
Ltac pfact e := try (let H := fresh "P" in eassert (H : PG e _) by (solve [eauto 2 with pg])).
Ltac is_res e := let T := type of e in lazymatch T with res _ => idtac | PR => idtac end.
Ltac nhook := fail.
Ltac nfact_hook w := idtac.
Ltac ncall := first [ assumption | solve [eauto 2 with nf] | nhook ].
Ltac nneed w := tryif is_res w then (let H := fresh "N" in assert (H : NF w) by ncall) else idtac.
Ltac nsweep :=
  cbv beta zeta; cbn [negb fst snd];
  lazymatch goal with
  | |- NF ?t => tryif (let h := head_of t in is_fix h) then first [ncall | idtac] else nsweep_core
  end
with nsweep_core :=
  lazymatch goal with
  | |- NF (Ok _) => apply NF_ok
  | |- NF (Err ParseErr) => apply NF_parse
  | |- NF (Err ?x) => first [ discriminate | match goal with H : NF (Err x) |- _ => exact (NF_err_cast x H) end | idtac ]
  | |- NF (match ?e with _ => _ end) =>
      let w := inner_scrut2 e in
      first [ (nneed w; sfact w; pfact w; nfact_hook w; destruct w; norm2; nsweep) | idtac ]
  | |- NF _ => first [ncall | idtac]
  end.

#[global] Hint Extern 6 (_ <= _) => msolve : nf.
#[global] Hint Extern 6 (_ < _) => msolve : nf.

(* ---------- leaf parsers ---------- *)
Lemma NF_parse_insert_type ts : NF (parse_insert_type ts). Proof. unfold parse_insert_type. nsweep. Qed.
Lemma NF_parse_join_type ts : NF (parse_join_type ts). Proof. unfold parse_join_type. nsweep. Qed.
Lemma NF_parse_order_type ts : NF (parse_order_type ts). Proof. unfold parse_order_type. nsweep. Qed.
Lemma NF_parse_union_type ts : NF (parse_union_type ts). Proof. unfold parse_union_type. nsweep. Qed.
Lemma NF_parse_compare_operator ts : NF (parse_compare_operator ts). Proof. unfold parse_compare_operator. nsweep. Qed.
Lemma NF_parse_compute_operator ts : NF (parse_compute_operator ts). Proof. unfold parse_compute_operator. nsweep. Qed.
Lemma NF_parse_column_name ts : NF (parse_column_name ts). Proof. unfold parse_column_name. nsweep. Qed.
Lemma NF_parse_column_name_with_table ts : NF (parse_column_name_with_table ts). Proof. unfold parse_column_name_with_table. nsweep. Qed.
Lemma NF_parse_column_name_without_table ts : NF (parse_column_name_without_table ts). Proof. unfold parse_column_name_without_table. nsweep. Qed.
Lemma NF_parse_table_name ts : NF (parse_table_name ts). Proof. unfold parse_table_name. nsweep. Qed.
Lemma NF_parse_function_name ts : NF (parse_function_name ts). Proof. unfold parse_function_name. nsweep. Qed.
Lemma NF_parse_literal ts : NF (parse_literal ts). Proof. unfold parse_literal. nsweep. Qed.
Lemma NF_parse_window_row_item ts : NF (parse_window_row_item ts). Proof. unfold parse_window_row_item. nsweep. Qed.
#[global] Hint Resolve NF_parse_insert_type NF_parse_join_type NF_parse_order_type NF_parse_union_type NF_parse_compare_operator NF_parse_compute_operator
  NF_parse_column_name NF_parse_column_name_with_table NF_parse_column_name_without_table NF_parse_table_name NF_parse_function_name NF_parse_literal
  NF_parse_window_row_item : nf.
Lemma NF_parse_window_row ts : NF (parse_window_row ts). Proof. unfold parse_window_row. nsweep. Qed.
Lemma NF_get_alias_name ts : NF (get_alias_name ts). Proof. unfold get_alias_name. nsweep. Qed.
#[global] Hint Resolve NF_parse_window_row NF_get_alias_name : nf.
Lemma NF_parse_alias ts : NF (parse_alias ts). Proof. unfold parse_alias. nsweep. Qed.
Lemma NF_parse_limit ts : NF (parse_limit ts). Proof. unfold parse_limit. nsweep. Qed.
#[global] Hint Resolve NF_parse_alias NF_parse_limit : nf.

(* progress of the leaf parsers that always consume *)
Lemma PG_parse_compute_operator ts : PG (parse_compute_operator ts) ts.
Proof. unfold parse_compute_operator. pose proof (PG_pop_src ts) as P. destruct (pop_src ts) as [[s t1]|]; [|exact I]. destruct (assoc_str s compute_operator_hash); [exact P|exact I]. Qed.
Lemma PG_parse_compare_operator ts : PG (parse_compare_operator ts) ts.
Proof. unfold parse_compare_operator. pose proof (PG_pop_src ts) as P. destruct (pop_src ts) as [[s t1]|]; [|exact I]. destruct (assoc_str s compare_operator_hash); [exact P|exact I]. Qed.
Lemma PG_first_enum l : forall ts, Forall (fun p => snd p <> []) l -> PG (first_enum l ts) ts.
Proof.
  induction l as [|[n ws] l IH]; intros ts Hl; cbn [first_enum]; [exact I|]. inversion Hl as [|? ? Hw Hl']; subst. cbn [snd] in Hw.
  assert (P : PG (take_pats (map PStr ws) ts) ts) by (apply PG_take_pats; destruct ws; [congruence|discriminate]).
  destruct (take_pats (map PStr ws) ts) as [b t']. pg_unfold_in P. destruct b; [pg_unfold; apply P; reflexivity|apply IH; exact Hl'].
Qed.
Lemma enum_union_nonempty : forallb (fun p => negb (match snd p with [] => true | _ => false end)) enum_union_type = true.
Proof. vm_compute. reflexivity. Qed.
Lemma PG_parse_union_type ts : PG (parse_union_type ts) ts.
Proof.
  unfold parse_union_type.
  assert (P : PG (first_enum enum_union_type ts) ts).
  { apply PG_first_enum. apply Forall_forall. intros p Hp. pose proof enum_union_nonempty as E. rewrite forallb_forall in E. specialize (E p Hp).
    destruct (snd p); [discriminate|discriminate]. }
  destruct (first_enum enum_union_type ts) as [[n t']|]; [exact P|exact I].
Qed.
#[global] Hint Resolve PG_parse_compute_operator PG_parse_compare_operator PG_parse_union_type : pg.

Lemma NF_each_closed (item : toks -> PR) : forall segs, (forall sg, In sg segs -> NF (item sg)) -> NF (each_closed item segs).
Proof.
  induction segs as [|sg segs IH]; intros Hb; cbn [each_closed]; [apply NF_ok|].
  assert (Hsg : NF (item sg)) by (apply Hb; left; reflexivity).
  assert (IH' : NF (each_closed item segs)) by (apply IH; intros x Hx; apply Hb; right; exact Hx).
  destruct (item sg) as [[v r0]|e]; [|exact (NF_err_cast e Hsg)].
  destruct (close r0) as [u|e] eqn:E; [|intros Q; inversion Q; subst; destruct r0; discriminate].
  destruct (each_closed item segs) as [vs|e]; [apply NF_ok|exact (NF_err_cast e IH')].
Qed.

(* ---------- combinators: budgets derived from the number of tokens left are adequate ---------- *)
Ltac loop_start n IH := induction n as [|n IH]; intros; [exfalso; msolve|].
Section Combinators.
  Variable item : toks -> PR.
  Variable bound : nat.
  Hypothesis Hn : forall t, sz t <= bound -> NF (item t).
  Hypothesis Hs : forall t, SF (item t) t.

  Lemma NF_sep_more sep : forall n ts acc, List.length ts < n -> sz ts <= bound -> NF (sep_more n item sep ts acc).
  Proof. loop_start n IH. cbn [sep_more]. nsweep. Qed.
  Hint Resolve NF_sep_more : nf.
  Lemma NF_sep_list sep ts : sz ts <= bound -> NF (sep_list item sep ts).
  Proof. intros Hb. unfold sep_list. nsweep. Qed.
End Combinators.

Section Loops.
  Variable sub : toks -> PR.
  Variable bound : nat.
  Hypothesis Hn : forall t, sz t <= bound -> NF (sub t).
  Hypothesis Hs : forall t, SF (sub t) t.

  Lemma next_op_progress ts : match next_compute_op ts with
                              | Some _ => sz (skipn 1 ts) < sz ts /\ List.length (skipn 1 ts) < List.length ts
                              | None => True end.
  Proof. unfold next_compute_op, hd_src. destruct ts as [|t ts]; [exact I|]. destruct (assoc_str _ _); [|exact I]. apply skipn1_lt. discriminate. Qed.

  Lemma NF_compute_loop : forall n pend top ts, List.length ts < n -> sz ts <= bound -> NF (compute_loop n sub pend top ts).
  Proof.
    loop_start n IH. cbn [compute_loop]. pose proof (next_op_progress ts) as Q.
    destruct (next_compute_op ts) as [o|]; [|apply NF_ok]. destruct Q as [Q1 Q2].
    destruct (reduce_while (op_level o) pend top) as [pend' top'].
    assert (N : NF (sub (skipn 1 ts))) by (apply Hn; lia). pose proof (Hs (skipn 1 ts)) as S.
    destruct (sub (skipn 1 ts)) as [[v ts']|e]; [|exact (NF_err_cast e N)]. norm2. apply IH; lia.
  Qed.

  Variable op : toks -> option (value -> value -> value) * toks.
  Hypothesis Hop : forall t, SF (op t) t.
  Hypothesis Hop_pg : forall t, match op t with (Some _, t1) => List.length t1 < List.length t | (None, _) => True end.
  Lemma NF_left_loop : forall n acc ts, List.length ts < n -> sz ts <= bound -> NF (left_loop n sub op acc ts).
  Proof.
    loop_start n IH. cbn [left_loop]. pose proof (Hop ts) as S1. pose proof (Hop_pg ts) as Q.
    destruct (op ts) as [[mk|] ts1]; [|apply NF_ok]. norm2.
    assert (N : NF (sub ts1)) by (apply Hn; lia). pose proof (Hs ts1) as S.
    destruct (sub ts1) as [[v ts2]|e]; [|exact (NF_err_cast e N)]. norm2. apply IH; lia.
  Qed.
End Loops.

Ltac nhook ::=
  lazymatch goal with
  | |- NF (sep_list _ _ ?x) => apply (NF_sep_list _ (sz x)); [intros; nsweep | intros; ssweep | lia]
  | |- NF (sep_more _ _ _ ?x _) => apply (NF_sep_more _ (sz x)); [intros; nsweep | intros; ssweep | msolve | lia]
  end.
Lemma NF_parse_multi_alias ts : NF (parse_multi_alias ts).
Proof. unfold parse_multi_alias. nsweep. Qed.
Lemma NF_parse_config_string ts : NF (parse_config_string ts).
Proof.
  unfold parse_config_string. nsweep.
  all: match goal with |- NF (?F _ _ _) => assert (Hgo : forall k a t, List.length t < k -> NF (F k a t)) end.
  all: try solve [induction k as [|k IH]; intros acc t' Hk; [exfalso; lia|]; lazy beta iota fix; nsweep].
  all: apply Hgo; msolve.
Qed.
#[global] Hint Resolve NF_parse_multi_alias NF_parse_config_string : nf.
Lemma NF_parse_config_string_expression ts : NF (parse_config_string_expression ts). Proof. unfold parse_config_string_expression. nsweep. Qed.
#[global] Hint Resolve NF_parse_config_string_expression : nf.

(* ---------- the recursive part ---------- *)
Section BodyNF.
  Variable rec : REC.
  Variable d : sqltype.
  Variable M : nat.
  Hypothesis HSF : forall f d' a ts, SF (rec f d' a ts) ts.
  Hypothesis HNF : forall f d' a ts, RK * sz ts + rank f < M -> NF (rec f d' a ts).
  Hypothesis HPGV : forall d' a ts, PG (rec F_sub_value d' a ts) ts.       (* a value list consumes its bracket group *)

  Lemma N_r f ts : RK * sz ts + rank f < M -> NF (r rec d f ts). Proof. intros H. unfold r. apply HNF. exact H. Qed.
  Lemma N_r1 f a ts : RK * sz ts + rank f < M -> NF (r1 rec d f a ts). Proof. intros H. unfold r1. apply HNF. exact H. Qed.
  Hint Resolve N_r N_r1 : nf.

  Lemma N_args_list item ts : (forall t, sz t <= sz ts -> NF (item t)) -> (forall t, SF (item t) t) -> NF (args_list item ts).
  Proof. intros Hi Hs. unfold args_list. nsweep. Qed.
  Lemma N_call_args item keep ts : (forall t, sz t <= sz ts -> NF (item t)) -> (forall t, SF (item t) t) -> NF (call_args item keep ts).
  Proof.
    intros Hi Hs. unfold call_args. nsweep.
  Qed.
  Lemma N_opt_list c p ts : NF (p ts) -> NF (opt_list c p ts).
  Proof. intros Hp. unfold opt_list. destruct c; [exact Hp|apply NF_ok]. Qed.

  Ltac nhook ::=
    lazymatch goal with
    | |- NF (sep_list _ _ ?x) => apply (NF_sep_list _ (sz x)); [intros; nsweep | intros; ssweep | lia]
    | |- NF (sep_more _ _ _ ?x _) => apply (NF_sep_more _ (sz x)); [intros; nsweep | intros; ssweep | msolve | lia]
    | |- NF (args_list _ ?x) => apply N_args_list; [intros; nsweep | intros; ssweep]
    | |- NF (call_args _ _ ?x) => apply N_call_args; [intros; nsweep | intros; ssweep]
    | |- NF (opt_list _ _ _) => apply N_opt_list; nsweep
    | |- NF (each_closed _ _) => apply NF_each_closed; intros; nsweep
    end.

  Lemma N_b_extract ts : RK * sz ts <= M -> NF (b_extract rec d ts). Proof. intros B. unfold b_extract. nsweep. Qed.
  Lemma N_b_cast ts : RK * sz ts <= M -> NF (b_cast rec d ts). Proof. intros B. unfold b_cast. nsweep. Qed.
  Lemma N_b_if ts : RK * sz ts <= M -> NF (b_if rec d ts). Proof. intros B. unfold b_if. nsweep. Qed.
  Hint Resolve N_b_extract N_b_cast N_b_if : nf.
  Lemma N_b_function ts : RK * sz ts <= M -> NF (b_function rec d ts).
  Proof.
    intros B. unfold b_function. nsweep.
    all: repeat match goal with
         | |- context [call_args _ _ ?X] =>
             lazymatch X with
             | if _ then map _ ?l else ?l =>
                 lazymatch goal with
                 | _ : sz X <= sz l |- _ => fail
                 | _ => assert (sz X <= sz l)
                          by (apply sz_if_map_le; intros x; destruct (mem_str _ _); [pose proof (tok_size_pos x); simpl; lia|lia])
                 end
             end
         | H : _ <= sz ?X |- _ =>
             lazymatch X with
             | if _ then map _ ?l else ?l =>
                 lazymatch goal with
                 | _ : sz X <= sz l |- _ => fail
                 | _ => assert (sz X <= sz l)
                          by (apply sz_if_map_le; intros x; destruct (mem_str _ _); [pose proof (tok_size_pos x); simpl; lia|lia])
                 end
             end
         end.
    all: nsweep.
  Qed.
  Lemma N_b_array_index b ts : RK * sz ts <= M -> NF (b_array_index rec d b ts). Proof. intros B. unfold b_array_index. nsweep. Qed.
  Lemma N_b_function_and_index ts : RK * sz ts + 8 <= M -> NF (b_function_and_index rec d ts). Proof. intros B. unfold b_function_and_index. nsweep. Qed.
  Lemma N_is_select_group ts : NF (is_select_group ts). Proof. unfold is_select_group. nsweep. Qed.
  Hint Resolve N_b_function N_b_array_index N_b_function_and_index N_is_select_group : nf.
  Lemma N_b_in_parenthesis ts : RK * sz ts + 3 <= M -> NF (b_in_parenthesis rec d ts). Proof. intros B. unfold b_in_parenthesis. nsweep. Qed.
  Lemma N_b_window ts : RK * sz ts + 9 <= M -> NF (b_window rec d ts). Proof. intros B. unfold b_window. nsweep. Qed.
  Lemma N_when_loop cls : forall n ts acc, List.length ts < n -> RK * sz ts <= M -> NF (when_loop rec d n cls ts acc).
  Proof. loop_start n IH. cbn [when_loop]. nsweep. Qed.
  Hint Resolve N_b_in_parenthesis N_b_window N_when_loop : nf.
  Lemma N_b_case ts : RK * sz ts <= M -> NF (b_case rec d ts). Proof. intros B. unfold b_case. nsweep. Qed.
  Lemma N_b_sub_query ts : RK * sz ts <= M -> NF (b_sub_query rec d ts). Proof. intros B. unfold b_sub_query. nsweep. Qed.
  Lemma N_b_sub_value ts : RK * sz ts <= M -> NF (b_sub_value rec d ts). Proof. intros B. unfold b_sub_value. nsweep. Qed.
  Lemma N_b_general_parenthesis ts : RK * sz ts + 3 <= M -> NF (b_general_parenthesis rec d ts). Proof. intros B. unfold b_general_parenthesis. nsweep. Qed.
  Lemma N_b_element ts : RK * sz ts + 10 <= M -> NF (b_element rec d ts). Proof. intros B. unfold b_element. nsweep. Qed.
  Lemma N_b_unary ts : RK * sz ts + 11 <= M -> NF (b_unary rec d ts). Proof. intros B. unfold b_unary. nsweep. Qed.
  Hint Resolve N_b_case N_b_sub_query N_b_sub_value N_b_general_parenthesis N_b_element N_b_unary : nf.

  Ltac nhook ::=
    lazymatch goal with
    | |- NF (sep_list _ _ ?x) => apply (NF_sep_list _ (sz x)); [intros; nsweep | intros; ssweep | lia]
    | |- NF (sep_more _ _ _ ?x _) => apply (NF_sep_more _ (sz x)); [intros; nsweep | intros; ssweep | msolve | lia]
    | |- NF (args_list _ ?x) => apply N_args_list; [intros; nsweep | intros; ssweep]
    | |- NF (call_args _ _ ?x) => apply N_call_args; [intros; nsweep | intros; ssweep]
    | |- NF (opt_list _ _ _) => apply N_opt_list; nsweep
    | |- NF (each_closed _ _) => apply NF_each_closed; intros; nsweep
    | |- NF (compute_loop _ _ _ _ ?x) => apply (NF_compute_loop _ (sz x)); [intros; nsweep | intros; ssweep | msolve | lia]
    end.
  Lemma N_b_compute ts : RK * sz ts + 12 <= M -> NF (b_compute rec d ts). Proof. intros B. unfold b_compute. nsweep. Qed.
  Hint Resolve N_b_compute : nf.
  Lemma N_b_keyword_condition before ts : RK * sz ts + 13 <= M -> NF (b_keyword_condition rec d before ts).
  Proof.
    intros B. unfold b_keyword_condition.
    pose proof (SF_take_up (S "EXISTS") ts) as HE. pose proof (PG_take_up (S "EXISTS") ts) as HP.
    destruct before as [b|]; [clear HE HP|destruct (take_up (S "EXISTS") ts) as [ex te]; cbn [fst snd]; norm2]; nsweep.
  Qed.
  Lemma op_cmp_progress t :
    match (if peek_set compare_operator_set t
           then match parse_compare_operator t with
                | Ok (o, t') => (Some (fun l rr => node "ASTOperatorConditionExpression" [("before_value", l); ("operator", o); ("after_value", rr)]), t')
                | Err _ => (None, t)
                end
           else (None, t)) with
    | (Some _, t1) => List.length t1 < List.length t
    | (None, _) => True
    end.
  Proof.
    destruct (peek_set compare_operator_set t); [|exact I]. pose proof (PG_parse_compare_operator t) as P.
    destruct (parse_compare_operator t) as [[o t']|e]; [|exact I]. pg_unfold_in P. lia.
  Qed.
  Lemma N_b_operator_condition ts : RK * sz ts + 14 <= M -> NF (b_operator_condition rec d ts).
  Proof.
    intros B. unfold b_operator_condition. nsweep.
    match goal with |- NF (left_loop _ _ _ _ ?x) => apply (NF_left_loop _ (sz x)); [intros; nsweep | intros; ssweep | intros; ssweep | intros; apply op_cmp_progress | msolve | lia] end.
  Qed.
  Lemma N_b_logical_not ts : RK * sz ts + 15 <= M -> NF (b_logical_not rec d ts). Proof. intros B. unfold b_logical_not. nsweep. Qed.
  Lemma N_layer cls sub kws ts : RK * sz ts + rank sub + 1 <= M -> NF (layer rec d cls sub kws ts).
  Proof.
    intros B. unfold layer. nsweep.
    match goal with |- NF (left_loop _ _ _ _ ?x) => apply (NF_left_loop _ (sz x)); [intros; nsweep | intros; ssweep | intros; ssweep | | msolve | lia] end.
    intros t0. pose proof (PG_take_set_up kws t0) as P. destruct (take_set_up kws t0) as [b t']. pg_unfold_in P. destruct b; [destruct (P eq_refl); lia|exact I].
  Qed.
  Hint Resolve N_b_keyword_condition N_b_operator_condition N_b_logical_not N_layer : nf.
  Lemma N_b_logical_and ts : RK * sz ts + 16 <= M -> NF (b_logical_and rec d ts). Proof. intros B. apply N_layer. cbn [rank]. lia. Qed.
  Lemma N_b_logical_xor ts : RK * sz ts + 17 <= M -> NF (b_logical_xor rec d ts). Proof. intros B. apply N_layer. cbn [rank]. lia. Qed.
  Lemma N_b_logical_or ts : RK * sz ts + 18 <= M -> NF (b_logical_or rec d ts). Proof. intros B. apply N_layer. cbn [rank]. lia. Qed.
  Lemma N_b_order_by_column ts : RK * sz ts + 13 <= M -> NF (b_order_by_column rec d ts). Proof. intros B. unfold b_order_by_column. nsweep. Qed.
  Lemma N_b_table_expression ts : RK * sz ts + 3 <= M -> NF (b_table_expression rec d ts). Proof. intros B. unfold b_table_expression. nsweep. Qed.
  Lemma N_b_from_table ts : RK * sz ts + 21 <= M -> NF (b_from_table rec d ts). Proof. intros B. unfold b_from_table. nsweep. Qed.
  Lemma N_b_select_column ts : RK * sz ts + 19 <= M -> NF (b_select_column rec d ts). Proof. intros B. unfold b_select_column. nsweep. Qed.
  Hint Resolve N_b_logical_and N_b_logical_xor N_b_logical_or N_b_order_by_column N_b_table_expression N_b_from_table N_b_select_column : nf.

  (* ---------- clauses ---------- *)
  Lemma N_b_select_clause ts : RK * sz ts + 19 <= M -> NF (b_select_clause rec d ts). Proof. intros B. unfold b_select_clause. nsweep. Qed.
  Lemma N_b_from_clause ts : RK * sz ts + 22 <= M -> NF (b_from_clause rec d ts). Proof. intros B. unfold b_from_clause. nsweep. Qed.
  Lemma N_b_lateral_view ts : RK * sz ts + 8 <= M -> NF (b_lateral_view rec d ts). Proof. intros B. unfold b_lateral_view. nsweep. Qed.
  Lemma N_b_join_expression ts : RK * sz ts + 19 <= M -> NF (b_join_expression rec d ts). Proof. intros B. unfold b_join_expression. nsweep. Qed.
  Hint Resolve N_b_select_clause N_b_from_clause N_b_lateral_view N_b_join_expression : nf.
  Lemma N_b_join_clause ts : RK * sz ts + 22 <= M -> NF (b_join_clause rec d ts). Proof. intros B. unfold b_join_clause. nsweep. Qed.
  Lemma N_b_where ts : RK * sz ts + 19 <= M -> NF (b_where rec d ts). Proof. intros B. unfold b_where. nsweep. Qed.
  Lemma N_b_having ts : RK * sz ts + 19 <= M -> NF (b_having rec d ts). Proof. intros B. unfold b_having. nsweep. Qed.
  Lemma N_b_grouping_sets ts : RK * sz ts <= M -> NF (b_grouping_sets rec d ts). Proof. intros B. unfold b_grouping_sets. nsweep. Qed.
  Hint Resolve N_b_join_clause N_b_where N_b_having N_b_grouping_sets : nf.
  Lemma N_b_group_by ts : RK * sz ts + 13 <= M -> NF (b_group_by rec d ts). Proof. intros B. unfold b_group_by. nsweep. Qed.
  Lemma N_by_clause cls k1 k2 item ts : (forall t, sz t <= sz ts -> NF (item t)) -> (forall t, SF (item t) t) -> NF (by_clause cls k1 k2 item ts).
  Proof. intros Hi Hs. unfold by_clause. nsweep. Qed.
  Lemma N_b_order_by ts : RK * sz ts + 20 <= M -> NF (b_order_by rec d ts). Proof. intros B. apply N_by_clause; [intros; nsweep|intros; ssweep]. Qed.
  Lemma N_b_sort_by ts : RK * sz ts + 20 <= M -> NF (b_sort_by rec d ts). Proof. intros B. apply N_by_clause; [intros; nsweep|intros; ssweep]. Qed.
  Lemma N_b_distribute_by ts : RK * sz ts + 13 <= M -> NF (b_distribute_by rec d ts). Proof. intros B. apply N_by_clause; [intros; nsweep|intros; ssweep]. Qed.
  Lemma N_b_cluster_by ts : RK * sz ts + 13 <= M -> NF (b_cluster_by rec d ts). Proof. intros B. apply N_by_clause; [intros; nsweep|intros; ssweep]. Qed.
  Hint Resolve N_b_group_by N_b_order_by N_b_sort_by N_b_distribute_by N_b_cluster_by : nf.
  Lemma N_b_with_table ts : RK * sz ts <= M -> NF (b_with_table rec d ts). Proof. intros B. unfold b_with_table. nsweep. Qed.
  Lemma N_b_with_clause ts : RK * sz ts + 23 <= M -> NF (b_with_clause rec d ts). Proof. intros B. unfold b_with_clause. nsweep. Qed.
  Hint Resolve N_b_with_table N_b_with_clause : nf.

  (* loops of the SELECT statement *)
  Lemma N_while_clause cond item (bound : nat) :
    (forall t, sz t <= bound -> NF (item t)) -> (forall t, SF (item t) t) -> (forall t, PG (item t) t) ->
    forall n ts acc, List.length ts < n -> sz ts <= bound -> NF (while_clause n cond item ts acc).
  Proof.
    intros Hi Hs Hp. induction n as [|n IH]; intros ts acc Hl Hb; [exfalso; lia|]. cbn [while_clause].
    destruct (cond ts); [|apply NF_ok].
    assert (N : NF (item ts)) by (apply Hi; exact Hb). pose proof (Hs ts) as S1. pose proof (Hp ts) as P1.
    destruct (item ts) as [[v t1]|e]; [|exact (NF_err_cast e N)]. norm2. apply IH; lia.
  Qed.
  Lemma PG_b_lateral_view ts : PG (b_lateral_view rec d ts) ts.
  Proof.
    unfold b_lateral_view. assert (P : PG (match_pats (PS ["LATERAL"; "VIEW"]) ts) ts) by (apply PG_match_pats; discriminate).
    destruct (match_pats (PS ["LATERAL"; "VIEW"]) ts) as [t1|]; [|exact I]. pg_unfold_in P.
    assert (S0 : SF (let '(outer, t2) := take_up (S "OUTER") t1 in
                     let* (f, t3) := r rec d F_function t2 in let* (vn, t4) := pop_src t3 in let* (a, t5) := parse_multi_alias t4 in
                     Ok (node "ASTLateralViewClause" [("outer", vbool outer); ("function", f); ("view_name", VStr (unify_name vn)); ("alias", a)], t5)) t1) by ssweep.
    match goal with |- PG ?x _ => match type of S0 with SF ?y _ => change y with x in S0 end end.
    match goal with |- PG ?x _ => destruct x as [[v t5]|]; [|exact I] end. sf_unfold_in S0. apply sfx_both in S0. pg_unfold. lia.
  Qed.
  Lemma enum_join_nonempty : forallb (fun p => negb (match snd p with [] => true | _ => false end)) enum_join_type = true.
  Proof. vm_compute. reflexivity. Qed.
  Lemma PG_parse_join_type ts : PG (parse_join_type ts) ts.
  Proof.
    unfold parse_join_type.
    assert (P : PG (first_enum enum_join_type ts) ts).
    { apply PG_first_enum. apply Forall_forall. intros p Hp. pose proof enum_join_nonempty as E. rewrite forallb_forall in E. specialize (E p Hp).
      destruct (snd p); [discriminate|discriminate]. }
    destruct (first_enum enum_join_type ts) as [[n t']|]; [exact P|exact I].
  Qed.
  Lemma PG_b_join_clause ts : PG (b_join_clause rec d ts) ts.
  Proof.
    unfold b_join_clause. pose proof (PG_parse_join_type ts) as P. destruct (parse_join_type ts) as [[jt t1]|]; [|exact I]. pg_unfold_in P.
    assert (S0 : SF (let* (tb, t2) := r rec d F_from_table t1 in
                     let* (rule, t3) := if peek_set_up [S "ON"; S "USING"] t2 then b_join_expression rec d t2 else Ok (VNone, t2) in
                     Ok (node "ASTJoinClause" [("type", jt); ("table", tb); ("rule", rule)], t3)) t1) by ssweep.
    match goal with |- PG ?x _ => match type of S0 with SF ?y _ => change y with x in S0 end end.
    match goal with |- PG ?x _ => destruct x as [[v t5]|]; [|exact I] end. sf_unfold_in S0. apply sfx_both in S0. pg_unfold. lia.
  Qed.
  Definition depth_of (ts : toks) : nat := match ts with t :: _ => tok_depth t | [] => 0 end.
  Lemma N_strip_parens : forall n inner stack, depth_of inner < n -> NF (strip_parens n inner stack).
  Proof.
    induction n as [|n IH]; intros inner stack Hd; [exfalso; lia|]. cbn [strip_parens].
    destruct (peek_mark M_PAREN inner); [|apply NF_ok].
    destruct inner as [|t rest]; [discriminate|]. cbn [pop_children]. destruct t as [s m|k ch]; cbn [is_group]; [discriminate|].
    cbn [tok_children]. apply IH. cbn [depth_of tok_depth] in Hd. destruct ch as [|c ch']; cbn [depth_of]; [lia|].
    cbn [fold_right] in Hd. lia.
  Qed.
  Lemma strip_parens_sz : forall n inner stack, match strip_parens n inner stack with Ok (i', _) => sz i' <= sz inner | Err _ => True end.
  Proof.
    induction n as [|n IH]; intros inner stack; cbn [strip_parens]; [exact I|].
    destruct (peek_mark M_PAREN inner); [|lia].
    pose proof (PG_pop_children inner) as P. destruct (pop_children inner) as [[ch rest]|e]; [|exact I]. pg_unfold_in P.
    specialize (IH ch (rest :: stack)). destruct (strip_parens n ch (rest :: stack)) as [[i' s']|e]; [|exact I]. lia.
  Qed.
  Ltac nfact_hook w ::=
    lazymatch w with
    | strip_parens ?n ?i ?s => let H := fresh "SP" in pose proof (strip_parens_sz n i s) as H
    | _ => idtac
    end.
  Lemma N_close_stack l : NF (close_stack l).
  Proof.
    induction l as [|x l IH]; [apply NF_ok|]. destruct l as [|y l']; [apply NF_ok|].
    change (close_stack (x :: y :: l')) with (let* _ := close x in close_stack (y :: l')).
    destruct x; cbn [close]; [exact IH|apply NF_parse].
  Qed.
  Hint Resolve N_close_stack : nf.
  Ltac nhook ::=
    lazymatch goal with
    | |- NF (sep_list _ _ ?x) => apply (NF_sep_list _ (sz x)); [intros; nsweep | intros; ssweep | lia]
    | |- NF (sep_more _ _ _ ?x _) => apply (NF_sep_more _ (sz x)); [intros; nsweep | intros; ssweep | msolve | lia]
    | |- NF (args_list _ ?x) => apply N_args_list; [intros; nsweep | intros; ssweep]
    | |- NF (call_args _ _ ?x) => apply N_call_args; [intros; nsweep | intros; ssweep]
    | |- NF (opt_list _ _ _) => apply N_opt_list; nsweep
    | |- NF (each_closed _ _) => apply NF_each_closed; intros; nsweep
    | |- NF (compute_loop _ _ _ _ ?x) => apply (NF_compute_loop _ (sz x)); [intros; nsweep | intros; ssweep | msolve | lia]
    | |- NF (while_clause _ _ (b_lateral_view _ _) ?x _) => apply (N_while_clause _ _ (sz x)); [intros; nsweep | intros; ssweep | apply PG_b_lateral_view | msolve | lia]
    | |- NF (while_clause _ _ (b_join_clause _ _) ?x _) => apply (N_while_clause _ _ (sz x)); [intros; nsweep | intros; ssweep | apply PG_b_join_clause | msolve | lia]
    | |- NF (strip_parens _ _ _) => apply N_strip_parens; unfold depth_of; lia
    end.
  Lemma N_b_single_select w ts : RK * sz ts + 24 <= M -> NF (b_single_select rec d w ts).
  Proof. intros B. unfold b_single_select. destruct w as [w|]; nsweep. Qed.
  Lemma N_union_loop wc : forall n ts acc, List.length ts < n -> RK * sz ts + 25 <= M -> NF (union_loop rec d n wc ts acc).
  Proof. loop_start n IH. cbn [union_loop]. nsweep. Qed.
  Hint Resolve N_b_single_select N_union_loop : nf.
  Lemma N_b_select w ts : RK * sz ts + 25 <= M -> NF (b_select rec d w ts).
  Proof. intros B. unfold b_select. destruct w as [w|]; nsweep. Qed.
  Lemma N_b_column_type ts : RK * sz ts <= M -> NF (b_column_type rec d ts). Proof. intros B. unfold b_column_type. nsweep. Qed.
  Hint Resolve N_b_select N_b_column_type : nf.

  (* ---------- DDL ---------- *)
  Lemma N_partition_items one : forall l acc dy nd, (forall sg, In sg l -> NF (one sg)) -> NF (partition_items one l acc dy nd).
  Proof.
    induction l as [|sg l IH]; intros acc dy nd Hb; cbn [partition_items]; [apply NF_ok|].
    assert (Hsg : NF (one sg)) by (apply Hb; left; reflexivity).
    destruct (one sg) as [[[v isdyn] s']|e]; [|exact (NF_err_cast e Hsg)].
    destruct (close s') as [u|e] eqn:E; [|intros Q; inversion Q; subst; destruct s'; discriminate].
    apply IH. intros x Hx. apply Hb. right. exact Hx.
  Qed.
  Ltac nhook ::=
    lazymatch goal with
    | |- NF (sep_list _ _ ?x) => apply (NF_sep_list _ (sz x)); [intros; nsweep | intros; ssweep | lia]
    | |- NF (sep_more _ _ _ ?x _) => apply (NF_sep_more _ (sz x)); [intros; nsweep | intros; ssweep | msolve | lia]
    | |- NF (args_list _ ?x) => apply N_args_list; [intros; nsweep | intros; ssweep]
    | |- NF (call_args _ _ ?x) => apply N_call_args; [intros; nsweep | intros; ssweep]
    | |- NF (opt_list _ _ _) => apply N_opt_list; nsweep
    | |- NF (each_closed _ _) => apply NF_each_closed; intros; nsweep
    | |- NF (compute_loop _ _ _ _ ?x) => apply (NF_compute_loop _ (sz x)); [intros; nsweep | intros; ssweep | msolve | lia]
    | |- NF (partition_items _ _ _ _ _) => apply N_partition_items; intros; nsweep
    end.
  Lemma N_b_partition already ts : RK * sz ts <= M -> NF (b_partition rec d already ts).
  Proof. intros B. unfold b_partition. nsweep. Qed.
  Lemma N_fk_action ts : NF (fk_action ts). Proof. unfold fk_action. nsweep. Qed.
  Lemma N_name_list ts : NF (name_list ts). Proof. unfold name_list. nsweep. Qed.
  Hint Resolve N_b_partition N_fk_action N_name_list : nf.
  Lemma N_b_foreign_key ts : NF (b_foreign_key ts). Proof. unfold b_foreign_key. nsweep. Qed.
  Lemma N_index_column ts : NF (index_column ts). Proof. unfold index_column. nsweep. Qed.
  Hint Resolve N_b_foreign_key N_index_column : nf.
  Lemma N_index_columns ts : NF (index_columns ts). Proof. unfold index_columns. nsweep. Qed.
  Lemma N_index_tail ts : NF (index_tail ts). Proof. unfold index_tail. nsweep. Qed.
  Hint Resolve N_index_columns N_index_tail : nf.
  Lemma N_b_index cls kws named ts : NF (b_index cls kws named ts). Proof. unfold b_index. nsweep. Qed.
  Lemma N_b_generated ts : RK * sz ts <= M -> NF (b_generated rec d ts). Proof. intros B. unfold b_generated. nsweep. Qed.
  Hint Resolve N_b_index N_b_generated : nf.
  Lemma b_generated_progress ts :
    match b_generated rec d ts with Ok (VNone, _) => True | Ok (_, t2) => List.length t2 < List.length ts | Err _ => True end.
  Proof.
    unfold b_generated. pose proof (PG_take_up3 (S "GENERATED") (S "ALWAYS") (S "AS") ts) as P.
    destruct (take_up3 (S "GENERATED") (S "ALWAYS") (S "AS") ts) as [b t1]. pg_unfold_in P. destruct b; cbn [negb]; [|exact I].
    destruct (P eq_refl) as [_ P2].
    match goal with |- match ?x with _ => _ end => assert (S0 : SF x t1) by ssweep end.
    match goal with |- match ?x with _ => _ end => destruct x as [[v t5]|]; [|exact I] end.
    sf_unfold_in S0. apply sfx_both in S0. destruct v; try exact I; lia.
  Qed.
  Ltac nfact_hook w ::=
    lazymatch w with
    | strip_parens ?n ?i ?s => let H := fresh "SP" in pose proof (strip_parens_sz n i s) as H
    | b_generated _ _ ?t => let H := fresh "GP" in pose proof (b_generated_progress t) as H
    | _ => idtac
    end.
  Lemma N_column_attrs : forall n a ts, List.length ts < n -> RK * sz ts + 13 <= M -> NF (column_attrs rec d n a ts).
  Proof. loop_start n IH. cbn [column_attrs]. nsweep. Qed.
  Hint Resolve N_column_attrs : nf.
  Lemma N_b_define_column ts : RK * sz ts + 28 <= M -> NF (b_define_column rec d ts). Proof. intros B. unfold b_define_column. nsweep. Qed.
  Hint Resolve N_b_define_column : nf.
  Lemma N_b_column_or_index ts : RK * sz ts + 29 <= M -> NF (b_column_or_index rec d ts). Proof. intros B. unfold b_column_or_index. nsweep. Qed.
  Lemma N_opt_partition ts : RK * sz ts <= M -> NF (opt_partition rec d ts). Proof. intros B. unfold opt_partition. nsweep. Qed.
  Hint Resolve N_b_column_or_index N_opt_partition : nf.
  Lemma PG_r_sub_value ts : PG (r rec d F_sub_value ts) ts. Proof. unfold r. apply HPGV. Qed.
  Hint Resolve PG_r_sub_value : pg.
  Lemma N_values_loop : forall n ts acc, List.length ts < n -> RK * sz ts + 2 <= M -> NF (values_loop rec d n ts acc).
  Proof. loop_start n IH. cbn [values_loop]. nsweep. Qed.
  Hint Resolve N_values_loop : nf.
  Lemma N_b_insert w ts : RK * sz ts + 32 <= M -> NF (b_insert rec d w ts).
  Proof. intros B. unfold b_insert. destruct w as [w|]; nsweep. Qed.
  Lemma N_b_set ts : NF (b_set ts). Proof. unfold b_set. nsweep. Qed.
  Lemma N_eq_value ts : NF (eq_value ts). Proof. unfold eq_value. nsweep. Qed.
  Hint Resolve N_b_insert N_b_set N_eq_value : nf.
  Lemma PG_eq_value ts : PG (eq_value ts) ts.
  Proof.
    unfold eq_value. pose proof (SF_take_str (S "=") ts) as S0. destruct (take_str (S "=") ts) as [b t1]. sf_unfold_in S0. apply sfx_both in S0.
    pose proof (PG_pop_src t1) as P. destruct (pop_src t1) as [[s t2]|]; [|exact I]. pg_unfold_in P. pg_unfold. lia.
  Qed.
  Hint Resolve PG_eq_value : pg.
  Lemma N_table_options : forall n o ts, List.length ts < n -> RK * sz ts + 29 <= M -> NF (table_options rec d n o ts).
  Proof. loop_start n IH. cbn [table_options]. nsweep. Qed.
  Lemma N_table_defs : forall segs a, (forall sg, In sg segs -> RK * sz sg + 29 <= M) -> NF (table_defs rec d segs a).
  Proof.
    induction segs as [|sg segs IH]; intros a Hb; cbn [table_defs]; [apply NF_ok|].
    assert (Hsg : RK * sz sg + 29 <= M) by (apply Hb; left; reflexivity).
    assert (IH' : forall a', NF (table_defs rec d segs a')) by (intros a'; apply IH; intros x Hx; apply Hb; right; exact Hx).
    nsweep.
  Qed.
  Hint Resolve N_table_options : nf.
  Lemma N_b_create_table ts : RK * sz ts + 31 <= M -> NF (b_create_table rec d ts).
  Proof.
    intros B. unfold b_create_table. nsweep.
    all: match goal with |- NF (match table_defs _ _ ?l _ with _ => _ end) =>
           assert (TD : forall a, NF (table_defs rec d l a)) by (intros a0; apply N_table_defs; intros; msolve) end.
    all: nsweep.
  Qed.
  Lemma N_b_drop_table ts : NF (b_drop_table ts). Proof. unfold b_drop_table. nsweep. Qed.
  Lemma N_b_analyze ts : RK * sz ts <= M -> NF (b_analyze rec d ts). Proof. intros B. unfold b_analyze. nsweep. Qed.
  Lemma N_b_alter_expression ts : RK * sz ts + 30 <= M -> NF (b_alter_expression rec d ts). Proof. intros B. unfold b_alter_expression. nsweep. Qed.
  Lemma N_b_alter_table ts : RK * sz ts + 31 <= M -> NF (b_alter_table rec d ts). Proof. intros B. unfold b_alter_table. nsweep. Qed.
  Lemma N_table_stmt cls kws ts : NF (table_stmt cls kws ts). Proof. unfold table_stmt. nsweep. Qed.
  Lemma N_b_use ts : NF (b_use ts). Proof. unfold b_use. nsweep. Qed.
  Lemma N_update_set_column ts : RK * sz ts + 19 <= M -> NF (update_set_column rec d ts). Proof. intros B. unfold update_set_column. nsweep. Qed.
  Hint Resolve N_b_create_table N_b_drop_table N_b_analyze N_b_alter_expression N_b_alter_table N_table_stmt N_b_use N_update_set_column : nf.
  Lemma N_b_update w ts : RK * sz ts + 21 <= M -> NF (b_update rec d w ts). Proof. intros B. unfold b_update. nsweep. Qed.
  Lemma N_b_delete ts : RK * sz ts + 21 <= M -> NF (b_delete rec d ts). Proof. intros B. unfold b_delete. nsweep. Qed.
  Lemma N_b_show_columns ts : RK * sz ts + 23 <= M -> NF (b_show_columns rec d ts). Proof. intros B. unfold b_show_columns. nsweep. Qed.
  Hint Resolve N_b_update N_b_delete N_b_show_columns : nf.
  Lemma N_b_statement ts : RK * sz ts + 33 <= M -> NF (b_statement rec d ts). Proof. intros B. unfold b_statement. nsweep. Qed.
  Hint Resolve N_b_statement : nf.

  Theorem N_body f a ts : RK * sz ts + rank f <= M -> NF (body rec d f a ts).
  Proof.
    intros B. unfold body. destruct f; cbn [rank] in B; try solve [eauto 2 with nf].
    destruct a as [b|]; [apply N_b_array_index; lia|apply NF_parse].
  Qed.
End BodyNF.

(* ---------- closing the recursion ---------- *)
Lemma PG_run_sub_value : forall fuel d a ts, PG (run fuel F_sub_value d a ts) ts.
Proof.
  intros [|n] d a ts; cbn [run]; [exact I|]. unfold body, b_sub_value.
  pose proof (PG_pop_split (S ",") ts) as P. destruct (pop_split (S ",") ts) as [[segs rest]|]; [|exact I]. pg_unfold_in P.
  destruct (each_closed _ segs); [|exact I]. pg_unfold. lia.
Qed.

Theorem NF_run : forall fuel f d a ts, RK * sz ts + rank f < fuel -> NF (run fuel f d a ts).
Proof.
  induction fuel as [|n IH]; intros f d a ts B; [exfalso; lia|]. cbn [run].
  apply (N_body (run n) d n); [intros; apply SF_run|intros; apply IH; assumption|intros; apply PG_run_sub_value|lia].
Qed.

(* the budget the entry points use is adequate: no parse function, on any tokens, in any dialect, ends in OutOfFuel *)
Corollary fuel_for_adequate f d a ts : run (fuel_for ts) f d a ts <> Err OutOfFuel.
Proof. apply NF_run. pose proof (rank_lt_RK f). unfold fuel_for, RK in *. lia. Qed.

(* ---------- the statement loop: a statement that is accepted has consumed at least one token ---------- *)
Definition stmt_like (f : fn) : bool :=
  match f with F_statement | F_select | F_single_select | F_insert | F_create_table => true | _ => false end.
Lemma PG_of_SF_PR (x : PR) t1 ts : SF x t1 -> sz t1 < sz ts -> List.length t1 < List.length ts -> PG x ts.
Proof. destruct x as [[v r0]|e]; [|intros; exact I]. sf_unfold. pg_unfold. intros H. apply sfx_both in H. lia. Qed.
Lemma PG_of_SF_PR_le (x : PR) t1 ts : PG x t1 -> sz t1 <= sz ts -> List.length t1 <= List.length ts -> PG x ts.
Proof. destruct x as [[v r0]|e]; [|intros; exact I]. pg_unfold. lia. Qed.
Ltac pg_mp :=
  lazymatch goal with
  | |- PG (match match_pats ?ps ?ts with _ => _ end) _ =>
      let P := fresh "P" in assert (P : PG (match_pats ps ts) ts) by (apply PG_match_pats; discriminate);
      let t1 := fresh "t1" in destruct (match_pats ps ts) as [t1|]; [pg_unfold_in P; destruct P; apply (PG_of_SF_PR _ t1); [ssweep | lia | lia] | exact I]
  end.
Lemma PG_parse_insert_type ts : PG (parse_insert_type ts) ts.
Proof.
  unfold parse_insert_type.
  pose proof (PG_take_up2 (S "INSERT") (S "INTO") ts) as P1. destruct (take_up2 (S "INSERT") (S "INTO") ts) as [b1 t1]. pg_unfold_in P1. destruct b1; [exact (P1 eq_refl)|].
  pose proof (PG_take_up3 (S "INSERT") (S "IGNORE") (S "INTO") ts) as P2. destruct (take_up3 (S "INSERT") (S "IGNORE") (S "INTO") ts) as [b2 t2]. pg_unfold_in P2. destruct b2; [exact (P2 eq_refl)|].
  pose proof (PG_take_up2 (S "INSERT") (S "OVERWRITE") ts) as P3. destruct (take_up2 (S "INSERT") (S "OVERWRITE") ts) as [b3 t3]. pg_unfold_in P3. destruct b3; [exact (P3 eq_refl)|exact I].
Qed.

Section BodyPG.
  Variable rec : REC.
  Variable d : sqltype.
  Hypothesis HSF : forall f d' a ts, SF (rec f d' a ts) ts.
  Hypothesis HPG : forall f d' a ts, stmt_like f = true -> PG (rec f d' a ts) ts.

  Lemma PG_b_set ts : PG (b_set ts) ts. Proof. unfold b_set. pg_mp. Qed.
  Lemma PG_b_use ts : PG (b_use ts) ts. Proof. unfold b_use. pg_mp. Qed.
  Lemma PG_table_stmt cls kws ts : kws <> [] -> PG (table_stmt cls kws ts) ts.
  Proof.
    intros Hk. unfold table_stmt. assert (P : PG (match_pats (PS kws) ts) ts) by (apply PG_match_pats; destruct kws; [congruence|discriminate]).
    destruct (match_pats (PS kws) ts) as [t1|]; [|exact I]. pg_unfold_in P. destruct P. apply (PG_of_SF_PR _ t1); [ssweep|lia|lia].
  Qed.
  Lemma PG_b_drop_table ts : PG (b_drop_table ts) ts. Proof. unfold b_drop_table. pg_mp. Qed.
  Lemma PG_b_delete ts : PG (b_delete rec d ts) ts. Proof. unfold b_delete. pg_mp. Qed.
  Lemma PG_b_analyze ts : PG (b_analyze rec d ts) ts. Proof. unfold b_analyze. pg_mp. Qed.
  Lemma PG_b_alter_table ts : PG (b_alter_table rec d ts) ts. Proof. unfold b_alter_table. pg_mp. Qed.
  Lemma PG_b_show_columns ts : PG (b_show_columns rec d ts) ts. Proof. unfold b_show_columns. pg_mp. Qed.
  Lemma PG_b_update w ts : PG (b_update rec d w ts) ts. Proof. unfold b_update. pg_mp. Qed.
  Lemma PG_b_create_table ts : PG (b_create_table rec d ts) ts. Proof. unfold b_create_table. pg_mp. Qed.
  Lemma PG_b_insert w ts : PG (b_insert rec d w ts) ts.
  Proof.
    unfold b_insert.
    assert (W : forall (x : res (value * toks)), SF x ts -> match x with Ok (_, t0) => sz t0 <= sz ts /\ List.length t0 <= List.length ts | Err _ => True end).
    { intros [[v0 t0]|e0]; [|intros; exact I]. sf_unfold. apply sfx_both. }
    match goal with |- PG (match ?e with _ => _ end) _ => assert (S0 : SF e ts) by (destruct w; ssweep); specialize (W e S0); destruct e as [[wc t0]|]; [|exact I] end.
    pose proof (PG_parse_insert_type t0) as P. destruct (parse_insert_type t0) as [[it t1]|]; [|exact I]. pg_unfold_in P.
    apply (PG_of_SF_PR _ t1); [ssweep|lia|lia].
  Qed.
  Lemma PG_b_select w ts : PG (b_select rec d w ts) ts.
  Proof.
    unfold b_select.
    assert (W : forall (x : res (value * toks)), SF x ts -> match x with Ok (_, t0) => sz t0 <= sz ts /\ List.length t0 <= List.length ts | Err _ => True end).
    { intros [[v0 t0]|e0]; [|intros; exact I]. sf_unfold. apply sfx_both. }
    match goal with |- PG (match ?e with _ => _ end) _ => assert (S0 : SF e ts) by (destruct w; ssweep); specialize (W e S0); destruct e as [[wc t0]|]; [|exact I] end.
    assert (P : PG (r1 rec d F_single_select wc t0) t0) by (unfold r1; apply HPG; reflexivity).
    destruct (r1 rec d F_single_select wc t0) as [[q t1]|]; [|exact I]. pg_unfold_in P.
    apply (PG_of_SF_PR _ t1); [ssweep|lia|lia].
  Qed.

  Lemma PG_b_select_clause ts : PG (b_select_clause rec d ts) ts. Proof. unfold b_select_clause. pg_mp. Qed.

  (* the bracket stack: with an empty stack to start from, either nothing was stripped or the outermost remainder is strictly shorter *)
  Lemma strip_parens_shape : forall n inner stack,
    match strip_parens n inner stack with
    | Ok (i', s') =>
        (stack = [] -> (s' = [] /\ i' = inner) \/ (s' <> [] /\ sz (last s' []) < sz inner /\ List.length (last s' []) < List.length inner)) /\
        (stack <> [] -> s' <> [] /\ last s' [] = last stack [])
    | Err _ => True
    end.
  Proof.
    induction n as [|n IH]; intros inner stack; cbn [strip_parens]; [exact I|].
    destruct (peek_mark M_PAREN inner).
    - pose proof (PG_pop_children inner) as P. destruct (pop_children inner) as [[ch rest]|e]; [|exact I]. pg_unfold_in P.
      specialize (IH ch (rest :: stack)). destruct (strip_parens n ch (rest :: stack)) as [[i' s']|e]; [|exact I].
      destruct IH as [_ IH]. destruct (IH ltac:(discriminate)) as [Hne Hl]. split.
      + intros ->. right. split; [exact Hne|]. rewrite Hl. cbn [last]. lia.
      + intros Hs. split; [exact Hne|]. rewrite Hl. destruct stack; [congruence|reflexivity].
    - split; [intros ->; left; split; reflexivity|intros Hs; split; [exact Hs|reflexivity]].
  Qed.

  Ltac bind_step E :=
    match type of E with
    | ?X = Ok _ =>
        let w := inner_scrut X in
        lazymatch w with
        | Ok _ => fail
        | _ => let Q := fresh "Q" in destruct w eqn:Q; try discriminate E
        end
    end.
  Lemma PG_b_single_select w ts : PG (b_single_select rec d w ts) ts.
  Proof.
    unfold b_single_select.
    assert (W : forall (x : res (value * toks)), SF x ts -> match x with Ok (_, t0) => sz t0 <= sz ts /\ List.length t0 <= List.length ts | Err _ => True end).
    { intros [[v0 t0]|e0]; [|intros; exact I]. sf_unfold. apply sfx_both. }
    match goal with |- PG (match ?e with _ => _ end) _ => assert (S0 : SF e ts) by (destruct w; ssweep); specialize (W e S0); destruct e as [[wc t0]|]; [|exact I] end.
    match goal with |- context [strip_parens ?n t0 []] => pose proof (strip_parens_shape n t0 []) as SH; destruct (strip_parens n t0 []) as [[inner stack]|]; [|exact I] end.
    destruct SH as [SH _]. destruct (SH eq_refl) as [[-> ->]|(Hne & H1 & H2)].
    - (* no brackets: the statement's own cursor; SELECT is consumed *)
      pose proof (PG_b_select_clause t0) as P. destruct (b_select_clause rec d t0) as [[sel i1]|]; [|exact I]. pg_unfold_in P.
      apply (PG_of_SF_PR _ i1); [ssweep|lia|lia].
    - (* brackets: the cursor handed back is the outermost remainder *)
      destruct stack as [|x l]; [exfalso; apply Hne; reflexivity|].
      pose proof (close_stack_last l x) as CS. destruct (close_stack (x :: l)) as [r1|e1]; [subst r1|].
      + match goal with |- PG ?X ts => destruct X as [[v r0]|] eqn:E; [|exact I] end.
        repeat bind_step E. all: injection E as _ <-. all: destruct W as [W1 W2]; pg_unfold; cbn [last] in *; lia.
      + match goal with |- PG ?X ts => destruct X as [[v r0]|] eqn:E; [|exact I] end.
        repeat bind_step E.
  Qed.

  Lemma PG_b_statement ts : PG (b_statement rec d ts) ts.
  Proof.
    unfold b_statement.
    repeat match goal with
           | |- PG (if ?c then _ else _) _ =>
               destruct c; [first [ apply PG_b_set | apply PG_b_delete | apply PG_b_drop_table | apply PG_b_analyze | apply PG_b_alter_table | apply PG_b_use
                                  | apply PG_b_show_columns | (apply PG_table_stmt; discriminate) | (unfold r; apply HPG; reflexivity) ]|]
           | |- PG (let '(_, _) := ?p in _) _ =>
               let P := fresh "P" in let b := fresh "b" in let tt := fresh "tt" in
               assert (P : PG p ts) by eauto 2 with pg; destruct p as [b tt]; pg_unfold_in P;
               destruct b; [pg_unfold; exact (P eq_refl)|clear P]
           end.
    pose proof (SF_b_with_clause rec d HSF ts) as S0. destruct (b_with_clause rec d ts) as [[wc t1]|]; [|exact I]. sf_unfold_in S0. apply sfx_both in S0. destruct S0.
    destruct (peek_up (S "SELECT") t1); [apply (PG_of_SF_PR_le _ t1); [unfold r1; apply HPG; reflexivity|lia|lia]|].
    destruct (peek_up (S "INSERT") t1); [apply (PG_of_SF_PR_le _ t1); [unfold r1; apply HPG; reflexivity|lia|lia]|].
    destruct (peek_up (S "UPDATE") t1); [apply (PG_of_SF_PR_le _ t1); [apply PG_b_update|lia|lia]|exact I].
  Qed.

  Theorem PG_body f a ts : stmt_like f = true -> PG (body rec d f a ts) ts.
  Proof.
    intros Hf. destruct f; try discriminate Hf; unfold body.
    - apply PG_b_single_select.
    - apply PG_b_select.
    - apply PG_b_insert.
    - apply PG_b_create_table.
    - apply PG_b_statement.
  Qed.
End BodyPG.

Theorem PG_run : forall fuel f d a ts, stmt_like f = true -> PG (run fuel f d a ts) ts.
Proof.
  induction fuel as [|n IH]; intros f d a ts Hf; cbn [run]; [exact I|].
  apply PG_body; [intros; apply SF_run|intros; apply IH; assumption|exact Hf].
Qed.

(* parse_statements: the loop budget (one more than the number of tokens) and the recursion budget of the whole text are adequate
   for every statement of the script *)
Lemma fuel_for_mono t ts : sz t <= sz ts -> fuel_for t <= fuel_for ts. Proof. unfold fuel_for. lia. Qed.
Theorem NF_statements_loop : forall n fuel d ts acc, List.length ts < n -> RK * sz ts + rank F_statement < fuel ->
  NF (statements_loop n fuel d ts acc).
Proof.
  induction n as [|n IH]; intros fuel d ts acc Hl Hf; [exfalso; lia|]. cbn [statements_loop].
  destruct (is_finish ts); [apply NF_ok|].
  pose proof (NF_run fuel F_statement d None ts Hf) as N. pose proof (PG_run fuel F_statement d None ts eq_refl) as P.
  destruct (run fuel F_statement d None ts) as [[v t1]|e]; [|exact (NF_err_cast e N)]. pg_unfold_in P.
  pose proof (SF_take_str (S ";") t1) as S1. destruct (take_str (S ";") t1) as [b t2]. sf_unfold_in S1. apply sfx_both in S1.
  apply IH; [lia|]. cbn [rank] in *. unfold RK in *. lia.
Qed.
Corollary script_budget_adequate d ts : statements_loop (Datatypes.S (List.length ts)) (fuel_for ts) d ts [] <> Err OutOfFuel.
Proof. apply NF_statements_loop; [lia|]. unfold fuel_for, RK. cbn [rank]. lia. Qed.

(* together with Parse/Sweep.v: every entry point ends in a tree or in one of the library's own errors *)
Definition lib_err (e : err) : bool := match e with Crash _ | OutOfFuel => false | _ => true end.
Theorem parser_total : forall f d ts, match run (fuel_for ts) f d None ts with Ok _ => True | Err e => lib_err e = true end.
Proof.
  intros f d ts. pose proof (RP_run (fuel_for ts) f d None ts I) as R. pose proof (fuel_for_adequate f d None ts) as N.
  destruct (run (fuel_for ts) f d None ts) as [x|e]; [exact I|]. destruct e; try reflexivity; [discriminate R|exfalso; apply N; reflexivity].
Qed.
Theorem script_total : forall d ts,
  match statements_loop (Datatypes.S (List.length ts)) (fuel_for ts) d ts [] with Ok _ => True | Err e => lib_err e = true end.
Proof.
  intros d ts. pose proof (RP_statements_loop (Datatypes.S (List.length ts)) (fuel_for ts) d ts [] (Forall_nil _)) as R.
  pose proof (script_budget_adequate d ts) as N.
  destruct (statements_loop _ _ d ts []) as [x|e]; [exact I|]. destruct e; try reflexivity; [discriminate R|exfalso; apply N; reflexivity].
Qed.

