(* The dialect pre-passes (str.replace of "==" for Hive, of the two-word CURRENT DATE / TIME / TIMESTAMP for DB2) commute with the split of a
   text at a ';' : no pattern contains a ';'.  This extends the text-level script theorem to every dialect. *)
From Coq Require Import List NArith ZArith Bool String Ascii Lia Arith.
Require Import Base.Common Gen.LexTable Lex.Model Lex.Compose Cur.Model Tree.Value Tree.Canon Gen.Static Parse.Prim Parse.Model Parse.Entry
               Parse.Suffix Parse.Fuel Parse.LoopProofs Parse.Extend Parse.Mono Parse.TextScript.
Import ListNotations.
Open Scope list_scope.
Local Open Scope nat_scope.

Lemma prefix_nil (p : str) : p <> [] -> prefix p [] = None. Proof. destruct p; [congruence|reflexivity]. Qed.

Section Replace.
  Variables pat rep : str.
  Variable c : N.
  Hypothesis Hpat : pat <> [].
  Hypothesis Hc : forallb (fun x => negb (N.eqb x c)) pat = true.

  Lemma prefix_len : forall p s r, prefix p s = Some r -> List.length r + List.length p = List.length s.
  Proof.
    induction p as [|x p IH]; intros s r H; simpl in H; [inversion H; simpl; lia|].
    destruct s as [|y s]; [discriminate|]. destruct (N.eqb x y); [|discriminate]. apply IH in H. simpl. lia.
  Qed.
  Lemma prefix_app_sep : forall p a b, forallb (fun x => negb (N.eqb x c)) p = true ->
    prefix p (a ++ c :: b) = match prefix p a with Some r => Some (r ++ c :: b) | None => None end.
  Proof.
    induction p as [|x p IH]; intros a b Hp; [reflexivity|]. cbn [forallb] in Hp. apply andb_true_iff in Hp as [Hx Hp].
    destruct a as [|y a]; cbn [app prefix].
    - apply negb_true_iff in Hx. rewrite Hx. reflexivity.
    - destruct (N.eqb x y); [|reflexivity]. apply (IH a b Hp).
  Qed.
  Lemma fuel_indep : forall f f' s, List.length s < f -> List.length s < f' -> replace_all f pat rep s = replace_all f' pat rep s.
  Proof.
    induction f as [|f IH]; intros f' s Hf Hf'; [lia|]. destruct f' as [|f']; [lia|]. cbn [replace_all].
    destruct s as [|x r]; [reflexivity|]. destruct (prefix pat (x :: r)) as [rest|] eqn:P.
    - apply prefix_len in P. assert (1 <= List.length pat) by (destruct pat; [congruence|simpl; lia]). f_equal. apply IH; simpl in *; lia.
    - f_equal. apply IH; simpl in *; lia.
  Qed.
  Lemma replace_all_sep : forall f a b, List.length (a ++ c :: b) < f ->
    replace_all f pat rep (a ++ c :: b) = replace_all f pat rep a ++ c :: replace_all f pat rep b.
  Proof.
    induction f as [|f IH]; intros a b Hf; [lia|].
    destruct a as [|x a].
    - cbn [app]. change (replace_all (Datatypes.S f) pat rep (c :: b)) with
        (match prefix pat (c :: b) with Some rest => rep ++ replace_all f pat rep rest | None => c :: replace_all f pat rep b end).
      change (replace_all (Datatypes.S f) pat rep []) with (@nil N).
      pose proof (prefix_app_sep pat [] b Hc) as P. cbn [app] in P. rewrite P. rewrite (prefix_nil pat Hpat). cbn [app].
      f_equal. apply fuel_indep; simpl in *; lia.
    - cbn [app]. change (replace_all (Datatypes.S f) pat rep (x :: a ++ c :: b)) with
        (match prefix pat (x :: a ++ c :: b) with Some rest => rep ++ replace_all f pat rep rest | None => x :: replace_all f pat rep (a ++ c :: b) end).
      change (replace_all (Datatypes.S f) pat rep (x :: a)) with
        (match prefix pat (x :: a) with Some rest => rep ++ replace_all f pat rep rest | None => x :: replace_all f pat rep a end).
      pose proof (prefix_app_sep pat (x :: a) b Hc) as P. cbn [app] in P. rewrite P.
      destruct (prefix pat (x :: a)) as [r|] eqn:Q.
      + apply prefix_len in Q. assert (1 <= List.length pat) by (destruct pat; [congruence|simpl; lia]).
        rewrite IH by (rewrite app_length in *; simpl in *; lia). rewrite <- app_assoc.
        do 3 f_equal. apply fuel_indep; rewrite ?app_length in *; simpl in *; lia.
      + rewrite IH by (simpl in *; lia). cbn [app]. do 3 f_equal. apply fuel_indep; rewrite ?app_length in *; simpl in *; lia.
  Qed.
  Lemma replace_sep a b : replace pat rep (a ++ c :: b) = replace pat rep a ++ c :: replace pat rep b.
  Proof.
    unfold replace. rewrite replace_all_sep by lia. f_equal; [|f_equal]; apply fuel_indep; rewrite ?app_length; simpl; lia.
  Qed.
End Replace.

Lemma prepass_sep d a b : dialect_prepass d (a ++ 59%N :: b) = dialect_prepass d a ++ 59%N :: dialect_prepass d b.
Proof.
  destruct d; try reflexivity.
  - unfold dialect_prepass. apply replace_sep; [discriminate|vm_compute; reflexivity].
  - unfold dialect_prepass. rewrite (replace_sep (S "CURRENT DATE")) by (try discriminate; vm_compute; reflexivity).
    rewrite (replace_sep (S "CURRENT TIME")) by (try discriminate; vm_compute; reflexivity).
    apply replace_sep; [discriminate|vm_compute; reflexivity].
Qed.
Lemma prepass_nil d : dialect_prepass d [] = []. Proof. destruct d; reflexivity. Qed.
Lemma prepass_script d : forall txts final, dialect_prepass d (script_text txts final) = script_text (map (dialect_prepass d) txts) final.
Proof.
  induction txts as [|s txts IH]; intros final; [apply prepass_nil|]. destruct txts as [|s2 txts].
  - cbn [script_text map]. destruct final; [|rewrite !app_nil_r; reflexivity]. rewrite (prepass_sep d s []). rewrite prepass_nil. reflexivity.
  - change (script_text (s :: s2 :: txts) final) with (s ++ 59%N :: script_text (s2 :: txts) final). rewrite prepass_sep. rewrite (IH final). reflexivity.
Qed.

(* the statement text as the lexer sees it *)
Definition pre_item (d : sqltype) (it : titem) : titem := mkti (dialect_prepass d (ti_text it)) (ti_toks it) (ti_val it).

Theorem text_script_any_dialect d items final :
  Forall (fun it => text_ok d (pre_item d it)) items ->
  parse_text false "statements" d (script_text (map ti_text items) final) = Ok (canon (VList (map ti_val items))).
Proof.
  intros Hall.
  assert (Hall' : Forall (text_ok d) (map (pre_item d) items)) by (apply Forall_forall; intros x Hin; apply in_map_iff in Hin as (it & <- & Hin); rewrite Forall_forall in Hall; apply Hall; exact Hin).
  pose proof (text_script_tokens d (map (pre_item d) items) final Hall') as H.
  unfold parse_text. rewrite prepass_script. rewrite map_map in H. rewrite map_map in H.
  replace (map (fun x => ti_text (pre_item d x)) items) with (map (dialect_prepass d) (map ti_text items)) in H by (rewrite map_map; reflexivity).
  exact H.
Qed.
