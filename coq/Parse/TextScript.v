(* C10 at the level of TEXTS: statements written one after the other with ';' between them (and possibly one at the end) parse to the
   stand-alone trees of the statements.  Lexer composition (Lex/Compose.v) + the parser does not look past a separator (Parse/Extend.v)
   + the answer does not depend on the fuel (Parse/Mono.v, Parse/Fuel.v). *)
From Coq Require Import List NArith ZArith Bool String Ascii Lia Arith.
Require Import Base.Common Gen.LexTable Lex.Model Lex.Compose Cur.Model Tree.Value Tree.Canon Gen.Static Parse.Prim Parse.Model Parse.Entry
               Parse.Suffix Parse.Fuel Parse.LoopProofs Parse.Extend Parse.Mono.
Import ListNotations.
Open Scope list_scope.
Local Open Scope nat_scope.

Fixpoint script_text (txts : list str) (final : bool) : str :=
  match txts with
  | [] => []
  | [s] => s ++ (if final then [59%N] else [])
  | s :: l => s ++ 59%N :: script_text l final
  end.

(* a statement text: its tokens, its tree; it parses completely on its own and does not end inside a line comment *)
Record titem := mkti { ti_text : str; ti_toks : toks; ti_val : value }.
Definition text_ok (d : sqltype) (it : titem) : Prop :=
  lex false 7 (ti_text it) = Ok (ti_toks it) /\ ends_in_line_comment false 7 (ti_text it) = false /\
  run (fuel_for (ti_toks it)) F_statement d None (ti_toks it) = Ok (ti_val it, []).
Definition to_sitem (it : titem) : sitem := mksi (ti_val it) (ti_toks it).

Lemma lex_nil : lex false 7 [] = Ok []. Proof. vm_compute. reflexivity. Qed.
Lemma semi_is_semi : Leaf [59%N] 0%N = semi. Proof. reflexivity. Qed.

Lemma lex_script d : forall items final, Forall (text_ok d) items ->
  lex false 7 (script_text (map ti_text items) final) = Ok (script (map to_sitem items) final).
Proof.
  induction items as [|it items IH]; intros final Hall; [apply lex_nil|].
  apply Forall_cons_iff in Hall as [(Hl & Hc & _) Hall].
  destruct items as [|it2 items].
  - cbn [map script_text script to_sitem si_block]. destruct final; [|rewrite !app_nil_r; exact Hl].
    rewrite (lex_semicolon false 7 _ [] _ [] ltac:(lia) Hl lex_nil Hc). rewrite semi_is_semi. reflexivity.
  - change (script_text (map ti_text (it :: it2 :: items)) final) with (ti_text it ++ 59%N :: script_text (map ti_text (it2 :: items)) final).
    change (script (map to_sitem (it :: it2 :: items)) final) with (ti_toks it ++ semi :: script (map to_sitem (it2 :: items)) final).
    rewrite (lex_semicolon false 7 _ _ _ _ ltac:(lia) Hl (IH final Hall) Hc). rewrite semi_is_semi. reflexivity.
Qed.

Lemma toks_size_app a b : toks_size (a ++ b) = toks_size a + toks_size b.
Proof. unfold toks_size. induction a as [|x a IH]; simpl; [reflexivity|]. rewrite IH. lia. Qed.
Lemma script_size : forall items final it, In it items -> toks_size (si_block it) <= toks_size (script items final).
Proof.
  induction items as [|x items IH]; intros final it Hin; [contradiction|].
  destruct items as [|y items].
  - destruct Hin as [->|[]]. cbn [script]. rewrite toks_size_app. lia.
  - change (script (x :: y :: items) final) with (si_block x ++ semi :: script (y :: items) final). rewrite toks_size_app.
    destruct Hin as [->|Hin]; [lia|]. specialize (IH final it Hin). change (toks_size (semi :: script (y :: items) final)) with (1 + toks_size (script (y :: items) final)). lia.
Qed.
Lemma script_length : forall items final, Forall (fun it => si_block it <> []) items -> List.length items <= List.length (script items final).
Proof.
  induction items as [|x items IH]; intros final Hall; [simpl; lia|]. apply Forall_cons_iff in Hall as [Hx Hall].
  assert (Hlx : 1 <= List.length (si_block x)) by (destruct (si_block x); [congruence|simpl; lia]).
  destruct items as [|y items].
  - cbn [script]. rewrite app_length. simpl. lia.
  - change (script (x :: y :: items) final) with (si_block x ++ semi :: script (y :: items) final). rewrite app_length. specialize (IH final Hall). simpl in *. lia.
Qed.

(* on the text that the lexer is given (after the dialect's text pre-pass) *)
Theorem text_script_tokens d items final : Forall (text_ok d) items ->
  (let* ts := lex false 7 (script_text (map ti_text items) final) in parse_tokens "statements" d ts) = Ok (canon (VList (map ti_val items))).
Proof.
  intros Hall. rewrite (lex_script d items final Hall). cbv beta iota.
  unfold parse_tokens. change (String.eqb "statements" "statements") with true. cbv beta iota.
  set (ts := script (map to_sitem items) final).
  assert (Hst : Forall (standalone (fuel_for ts) d) (map to_sitem items)).
  { apply Forall_forall. intros si Hin. apply in_map_iff in Hin as (it & <- & Hin). rewrite Forall_forall in Hall. destruct (Hall it Hin) as (_ & _ & Hrun).
    unfold standalone. cbn [to_sitem si_block si_val]. rewrite run_fuel_independent; [exact Hrun|].
    unfold fuel_for. pose proof (script_size (map to_sitem items) final (to_sitem it) (in_map to_sitem _ _ Hin)) as Hs. cbn [to_sitem si_block] in Hs. fold ts in Hs. lia. }
  assert (Hne : Forall (fun it => si_block it <> []) (map to_sitem items)).
  { apply Forall_forall. intros si Hin. rewrite Forall_forall in Hst. specialize (Hst si Hin). unfold standalone in Hst. apply statement_head in Hst. tauto. }
  assert (Hlen : List.length (map to_sitem items) < Datatypes.S (List.length ts)) by (pose proof (script_length _ final Hne) as H; fold ts in H; lia).
  pose proof (script_of_standalone (fuel_for ts) d (map to_sitem items) final (Datatypes.S (List.length ts)) [] Hst Hlen) as Hs. fold ts in Hs. rewrite Hs.
  cbn [rev app]. rewrite map_map. reflexivity.
Qed.

Theorem text_script d items final :
  (forall s, dialect_prepass d s = s) -> Forall (text_ok d) items ->
  parse_text false "statements" d (script_text (map ti_text items) final) = Ok (canon (VList (map ti_val items))).
Proof. intros Hpre Hall. unfold parse_text. rewrite Hpre. apply text_script_tokens. exact Hall. Qed.
