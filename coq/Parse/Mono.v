(* Fifth whole-model result: the answer of the fuelled parser model does not depend on the fuel.  If a parse function ends with anything other
   than the model's own "out of fuel" at some fuel, it ends with exactly the same result at every larger fuel (LEQ_run).  Together with the
   termination theorem of Parse/Fuel.v (fuel_for ts is enough) this makes `run` a well-defined total function of the tokens:
   run_fuel_independent : fuel_for ts <= n -> run n f d a ts = run (fuel_for ts) f d a ts. *)
From Coq Require Import List NArith ZArith Bool String Ascii Lia Arith.
Require Import Base.Common Gen.LexTable Lex.Model Cur.Model Tree.Value Gen.Static Parse.Prim Parse.Model Parse.Suffix Parse.Fuel.
Import ListNotations.
Open Scope string_scope.
Open Scope list_scope.
Local Open Scope nat_scope.

Definition LEQ {A} (x y : res A) : Prop := match x with Err OutOfFuel => True | _ => y = x end.
Lemma LEQ_refl {A} (x : res A) : LEQ x x. Proof. destruct x as [a|[]]; simpl; trivial. Qed.
#[global] Hint Resolve LEQ_refl : mo.

Ltac inner_scrut_m t := lazymatch t with match ?w with _ => _ end => inner_scrut_m w | negb ?b => inner_scrut_m b | ?a && ?b => inner_scrut_m a | _ => t end.
Ltac mcallee := first [ eassumption | solve [eauto 3 with mo] ].
Ltac mhook := fail.
Ltac msweep :=
  cbv beta iota zeta; cbn [negb fst snd andb orb];
  lazymatch goal with
  | |- LEQ (Err OutOfFuel) _ => exact I
  | |- LEQ (Err _) (Err _) => apply LEQ_refl
  | |- LEQ (Ok _) (Ok _) => apply LEQ_refl
  | |- LEQ ?X ?Y =>
      let w := inner_scrut_m X in
      let w' := inner_scrut_m Y in
      tryif constr_eq w X then first [ mcallee | mhook | idtac ]
      else tryif constr_eq w w' then (destruct w; msweep)
      else first [ (let H := fresh "Hx" in assert (H : LEQ w w') by first [ mcallee | mhook ];
                    let e := fresh "e" in destruct w as [?|e]; [ unfold LEQ in H; rewrite H; clear H; msweep
                                                               | destruct e; try exact I; unfold LEQ in H; rewrite H; clear H; msweep ]) | idtac ]
  end.

Section Combinators.
  Variables item item' : toks -> PR.
  Hypothesis Hitem : forall t, LEQ (item t) (item' t).
  Lemma M_sep_more sep : forall n ts acc, LEQ (sep_more n item sep ts acc) (sep_more n item' sep ts acc).
  Proof. induction n as [|n IH]; intros ts acc; cbn [sep_more]; msweep. Qed.
  Lemma M_sep_list sep ts : LEQ (sep_list item sep ts) (sep_list item' sep ts).
  Proof. unfold sep_list. pose proof M_sep_more. msweep. Qed.
  Lemma M_each_closed : forall segs, LEQ (each_closed item segs) (each_closed item' segs).
  Proof. induction segs as [|sg segs IH]; cbn [each_closed]; msweep. Qed.
  Lemma M_opt_list_item c sep ts : LEQ (opt_list c (sep_list item sep) ts) (opt_list c (sep_list item' sep) ts).
  Proof. unfold opt_list. destruct c; [apply M_sep_list|exact eq_refl]. Qed.
  Lemma M_compute_loop : forall n pend top ts, LEQ (compute_loop n item pend top ts) (compute_loop n item' pend top ts).
  Proof. induction n as [|n IH]; intros pend top ts; cbn [compute_loop]; msweep. Qed.
  Lemma M_left_loop op : forall n acc ts, LEQ (left_loop n item op acc ts) (left_loop n item' op acc ts).
  Proof. induction n as [|n IH]; intros acc ts; cbn [left_loop]; msweep. Qed.
  Lemma M_while_clause cond : forall n ts acc, LEQ (while_clause n cond item ts acc) (while_clause n cond item' ts acc).
  Proof. induction n as [|n IH]; intros ts acc; cbn [while_clause]; msweep. Qed.
  Lemma M_by_clause cls k1 k2 ts : LEQ (by_clause cls k1 k2 item ts) (by_clause cls k1 k2 item' ts).
  Proof. unfold by_clause. pose proof M_sep_list. msweep. Qed.
End Combinators.

Section Combinators2.
  Variables item item' : toks -> PR.
  Hypothesis Hitem : forall t, LEQ (item t) (item' t).
  Lemma M_args_list ts : LEQ (args_list item ts) (args_list item' ts).
  Proof. unfold args_list. destruct (is_finish ts); [apply LEQ_refl|apply M_sep_list; exact Hitem]. Qed.
  Lemma M_call_args keep ts : LEQ (call_args item keep ts) (call_args item' keep ts).
  Proof. unfold call_args. pose proof (M_sep_more item item' Hitem). msweep. Qed.
End Combinators2.

Section BodyMono.
  Variables rec rec' : REC.
  Variable d : sqltype.
  Hypothesis Hrec : forall f d' a ts, LEQ (rec f d' a ts) (rec' f d' a ts).
  Lemma M_r f ts : LEQ (r rec d f ts) (r rec' d f ts). Proof. unfold r. apply Hrec. Qed.
  Lemma M_r1 f a ts : LEQ (r1 rec d f a ts) (r1 rec' d f a ts). Proof. unfold r1. apply Hrec. Qed.
  Hint Resolve M_r M_r1 : mo.
  Ltac mhook ::=
    lazymatch goal with
    | |- LEQ (sep_list _ _ _) _ => apply M_sep_list; intros; msweep
    | |- LEQ (sep_more _ _ _ _ _) _ => apply M_sep_more; intros; msweep
    | |- LEQ (each_closed _ _) _ => apply M_each_closed; intros; msweep
    | |- LEQ (opt_list _ (sep_list _ _) _) _ => apply M_opt_list_item; intros; msweep
    | |- LEQ (compute_loop _ _ _ _ _) _ => apply M_compute_loop; intros; msweep
    | |- LEQ (left_loop _ _ _ _ _) _ => apply M_left_loop; intros; msweep
    | |- LEQ (while_clause _ _ _ _ _) _ => apply M_while_clause; intros; msweep
    | |- LEQ (by_clause _ _ _ _ _) _ => apply M_by_clause; intros; msweep
    | |- LEQ (args_list _ _) _ => apply M_args_list; intros; msweep
    | |- LEQ (call_args _ _ _) _ => apply M_call_args; intros; msweep
    end.
  Lemma M_b_extract ts : LEQ (b_extract rec d ts) (b_extract rec' d ts). Proof. unfold b_extract. msweep. Qed.
  Lemma M_b_cast ts : LEQ (b_cast rec d ts) (b_cast rec' d ts). Proof. unfold b_cast. msweep. Qed.
  Lemma M_b_if ts : LEQ (b_if rec d ts) (b_if rec' d ts). Proof. unfold b_if. msweep. Qed.
  Hint Resolve M_b_extract M_b_cast M_b_if : mo.
  Lemma M_b_function ts : LEQ (b_function rec d ts) (b_function rec' d ts). Proof. unfold b_function. msweep. Qed.
  Lemma M_b_array_index b ts : LEQ (b_array_index rec d b ts) (b_array_index rec' d b ts). Proof. unfold b_array_index. msweep. Qed.
  Lemma M_b_function_and_index ts : LEQ (b_function_and_index rec d ts) (b_function_and_index rec' d ts). Proof. unfold b_function_and_index. msweep. Qed.
  Lemma M_b_in_parenthesis ts : LEQ (b_in_parenthesis rec d ts) (b_in_parenthesis rec' d ts). Proof. unfold b_in_parenthesis. msweep. Qed.
  Lemma M_b_window ts : LEQ (b_window rec d ts) (b_window rec' d ts). Proof. unfold b_window. msweep. Qed.
  Lemma M_when_loop cls : forall n ts acc, LEQ (when_loop rec d n cls ts acc) (when_loop rec' d n cls ts acc).
  Proof. induction n as [|n IH]; intros ts acc; cbn [when_loop]; msweep. Qed.
  Hint Resolve M_b_function M_b_array_index M_b_function_and_index M_b_in_parenthesis M_b_window M_when_loop : mo.
  Lemma M_b_case ts : LEQ (b_case rec d ts) (b_case rec' d ts). Proof. unfold b_case. msweep. Qed.
  Lemma M_b_sub_query ts : LEQ (b_sub_query rec d ts) (b_sub_query rec' d ts). Proof. unfold b_sub_query. msweep. Qed.
  Lemma M_b_sub_value ts : LEQ (b_sub_value rec d ts) (b_sub_value rec' d ts). Proof. unfold b_sub_value. msweep. Qed.
  Lemma M_b_general_parenthesis ts : LEQ (b_general_parenthesis rec d ts) (b_general_parenthesis rec' d ts). Proof. unfold b_general_parenthesis. msweep. Qed.
  Lemma M_b_element ts : LEQ (b_element rec d ts) (b_element rec' d ts). Proof. unfold b_element. msweep. Qed.
  Lemma M_b_unary ts : LEQ (b_unary rec d ts) (b_unary rec' d ts). Proof. unfold b_unary. msweep. Qed.
  Lemma M_b_compute ts : LEQ (b_compute rec d ts) (b_compute rec' d ts). Proof. unfold b_compute. msweep. Qed.
  Hint Resolve M_b_case M_b_sub_query M_b_sub_value M_b_general_parenthesis M_b_element M_b_unary M_b_compute : mo.
  Lemma M_b_keyword_condition before ts : LEQ (b_keyword_condition rec d before ts) (b_keyword_condition rec' d before ts). Proof. unfold b_keyword_condition. destruct before; msweep. Qed.
  Lemma M_b_operator_condition ts : LEQ (b_operator_condition rec d ts) (b_operator_condition rec' d ts). Proof. unfold b_operator_condition. msweep. Qed.
  Lemma M_b_logical_not ts : LEQ (b_logical_not rec d ts) (b_logical_not rec' d ts). Proof. unfold b_logical_not. msweep. Qed.
  Lemma M_layer cls sub kws ts : LEQ (layer rec d cls sub kws ts) (layer rec' d cls sub kws ts). Proof. unfold layer. msweep. Qed.
  Hint Resolve M_b_keyword_condition M_b_operator_condition M_b_logical_not M_layer : mo.
  Lemma M_b_logical_and ts : LEQ (b_logical_and rec d ts) (b_logical_and rec' d ts). Proof. apply M_layer. Qed.
  Lemma M_b_logical_xor ts : LEQ (b_logical_xor rec d ts) (b_logical_xor rec' d ts). Proof. apply M_layer. Qed.
  Lemma M_b_logical_or ts : LEQ (b_logical_or rec d ts) (b_logical_or rec' d ts). Proof. apply M_layer. Qed.
  Lemma M_b_order_by_column ts : LEQ (b_order_by_column rec d ts) (b_order_by_column rec' d ts). Proof. unfold b_order_by_column. msweep. Qed.
  Lemma M_b_table_expression ts : LEQ (b_table_expression rec d ts) (b_table_expression rec' d ts). Proof. unfold b_table_expression. msweep. Qed.
  Lemma M_b_from_table ts : LEQ (b_from_table rec d ts) (b_from_table rec' d ts). Proof. unfold b_from_table. msweep. Qed.
  Lemma M_b_select_column ts : LEQ (b_select_column rec d ts) (b_select_column rec' d ts). Proof. unfold b_select_column. msweep. Qed.
  Hint Resolve M_b_logical_and M_b_logical_xor M_b_logical_or M_b_order_by_column M_b_table_expression M_b_from_table M_b_select_column : mo.
  Lemma M_b_select_clause ts : LEQ (b_select_clause rec d ts) (b_select_clause rec' d ts). Proof. unfold b_select_clause. msweep. Qed.
  Lemma M_b_from_clause ts : LEQ (b_from_clause rec d ts) (b_from_clause rec' d ts). Proof. unfold b_from_clause. msweep. Qed.
  Lemma M_b_lateral_view ts : LEQ (b_lateral_view rec d ts) (b_lateral_view rec' d ts). Proof. unfold b_lateral_view. msweep. Qed.
  Lemma M_b_join_expression ts : LEQ (b_join_expression rec d ts) (b_join_expression rec' d ts). Proof. unfold b_join_expression. msweep. Qed.
  Hint Resolve M_b_select_clause M_b_from_clause M_b_lateral_view M_b_join_expression : mo.
  Lemma M_b_join_clause ts : LEQ (b_join_clause rec d ts) (b_join_clause rec' d ts). Proof. unfold b_join_clause. msweep. Qed.
  Lemma M_b_where ts : LEQ (b_where rec d ts) (b_where rec' d ts). Proof. unfold b_where. msweep. Qed.
  Lemma M_b_having ts : LEQ (b_having rec d ts) (b_having rec' d ts). Proof. unfold b_having. msweep. Qed.
  Lemma M_b_grouping_sets ts : LEQ (b_grouping_sets rec d ts) (b_grouping_sets rec' d ts). Proof. unfold b_grouping_sets. msweep. Qed.
  Hint Resolve M_b_join_clause M_b_where M_b_having M_b_grouping_sets : mo.
  Lemma M_b_group_by ts : LEQ (b_group_by rec d ts) (b_group_by rec' d ts). Proof. unfold b_group_by. msweep. Qed.
  Lemma M_b_order_by ts : LEQ (b_order_by rec d ts) (b_order_by rec' d ts). Proof. apply M_by_clause. intros; msweep. Qed.
  Lemma M_b_sort_by ts : LEQ (b_sort_by rec d ts) (b_sort_by rec' d ts). Proof. apply M_by_clause. intros; msweep. Qed.
  Lemma M_b_distribute_by ts : LEQ (b_distribute_by rec d ts) (b_distribute_by rec' d ts). Proof. apply M_by_clause. intros; msweep. Qed.
  Lemma M_b_cluster_by ts : LEQ (b_cluster_by rec d ts) (b_cluster_by rec' d ts). Proof. apply M_by_clause. intros; msweep. Qed.
  Hint Resolve M_b_group_by M_b_order_by M_b_sort_by M_b_distribute_by M_b_cluster_by : mo.
  Lemma M_b_with_table ts : LEQ (b_with_table rec d ts) (b_with_table rec' d ts). Proof. unfold b_with_table. msweep. Qed.
  Lemma M_b_with_clause ts : LEQ (b_with_clause rec d ts) (b_with_clause rec' d ts). Proof. unfold b_with_clause. msweep. Qed.
  Hint Resolve M_b_with_table M_b_with_clause : mo.
  Lemma M_b_single_select w ts : LEQ (b_single_select rec d w ts) (b_single_select rec' d w ts). Proof. unfold b_single_select. destruct w; msweep. Qed.
  Lemma M_union_loop wc : forall n ts acc, LEQ (union_loop rec d n wc ts acc) (union_loop rec' d n wc ts acc).
  Proof. induction n as [|n IH]; intros ts acc; cbn [union_loop]; msweep. Qed.
  Hint Resolve M_b_single_select M_union_loop : mo.
  Lemma M_b_select w ts : LEQ (b_select rec d w ts) (b_select rec' d w ts). Proof. unfold b_select. destruct w; msweep. Qed.
  Lemma M_b_column_type ts : LEQ (b_column_type rec d ts) (b_column_type rec' d ts). Proof. unfold b_column_type. msweep. Qed.
  Hint Resolve M_b_select M_b_column_type : mo.
  Lemma M_partition_items one one' : (forall sg, LEQ (one sg) (one' sg)) -> forall l acc dy nd, LEQ (partition_items one l acc dy nd) (partition_items one' l acc dy nd).
  Proof. intros Ho. induction l as [|sg l IH]; intros acc dy nd; cbn [partition_items]; msweep. Qed.
  Ltac mhook ::=
    lazymatch goal with
    | |- LEQ (sep_list _ _ _) _ => apply M_sep_list; intros; msweep
    | |- LEQ (sep_more _ _ _ _ _) _ => apply M_sep_more; intros; msweep
    | |- LEQ (each_closed _ _) _ => apply M_each_closed; intros; msweep
    | |- LEQ (opt_list _ (sep_list _ _) _) _ => apply M_opt_list_item; intros; msweep
    | |- LEQ (compute_loop _ _ _ _ _) _ => apply M_compute_loop; intros; msweep
    | |- LEQ (left_loop _ _ _ _ _) _ => apply M_left_loop; intros; msweep
    | |- LEQ (while_clause _ _ _ _ _) _ => apply M_while_clause; intros; msweep
    | |- LEQ (by_clause _ _ _ _ _) _ => apply M_by_clause; intros; msweep
    | |- LEQ (args_list _ _) _ => apply M_args_list; intros; msweep
    | |- LEQ (call_args _ _ _) _ => apply M_call_args; intros; msweep
    | |- LEQ (partition_items _ _ _ _ _) _ => apply M_partition_items; intros; msweep
    end.
  Lemma M_b_partition already ts : LEQ (b_partition rec d already ts) (b_partition rec' d already ts). Proof. unfold b_partition. msweep. Qed.
  Hint Resolve M_b_partition : mo.
  Lemma M_b_generated ts : LEQ (b_generated rec d ts) (b_generated rec' d ts). Proof. unfold b_generated. msweep. Qed.
  Hint Resolve M_b_generated : mo.
  Lemma M_column_attrs : forall n a ts, LEQ (column_attrs rec d n a ts) (column_attrs rec' d n a ts).
  Proof. induction n as [|n IH]; intros a ts; cbn [column_attrs]; msweep. Qed.
  Hint Resolve M_column_attrs : mo.
  Lemma M_b_define_column ts : LEQ (b_define_column rec d ts) (b_define_column rec' d ts). Proof. unfold b_define_column. msweep. Qed.
  Hint Resolve M_b_define_column : mo.
  Lemma M_b_column_or_index ts : LEQ (b_column_or_index rec d ts) (b_column_or_index rec' d ts). Proof. unfold b_column_or_index. msweep. Qed.
  Lemma M_opt_partition ts : LEQ (opt_partition rec d ts) (opt_partition rec' d ts). Proof. unfold opt_partition. msweep. Qed.
  Lemma M_values_loop : forall n ts acc, LEQ (values_loop rec d n ts acc) (values_loop rec' d n ts acc).
  Proof. induction n as [|n IH]; intros ts acc; cbn [values_loop]; msweep. Qed.
  Hint Resolve M_b_column_or_index M_opt_partition M_values_loop : mo.
  Lemma M_b_insert w ts : LEQ (b_insert rec d w ts) (b_insert rec' d w ts). Proof. unfold b_insert. destruct w; msweep. Qed.
  Hint Resolve M_b_insert : mo.
  Lemma M_table_options : forall n o ts, LEQ (table_options rec d n o ts) (table_options rec' d n o ts).
  Proof. induction n as [|n IH]; intros o ts; cbn [table_options]; msweep. Qed.
  Lemma M_table_defs : forall segs a, LEQ (table_defs rec d segs a) (table_defs rec' d segs a).
  Proof. induction segs as [|sg segs IH]; intros a; cbn [table_defs]; msweep. Qed.
  Hint Resolve M_table_options M_table_defs : mo.
  Lemma M_b_create_table ts : LEQ (b_create_table rec d ts) (b_create_table rec' d ts). Proof. unfold b_create_table. msweep. Qed.
  Lemma M_b_analyze ts : LEQ (b_analyze rec d ts) (b_analyze rec' d ts). Proof. unfold b_analyze. msweep. Qed.
  Lemma M_b_alter_expression ts : LEQ (b_alter_expression rec d ts) (b_alter_expression rec' d ts). Proof. unfold b_alter_expression. msweep. Qed.
  Hint Resolve M_b_create_table M_b_analyze M_b_alter_expression : mo.
  Lemma M_b_alter_table ts : LEQ (b_alter_table rec d ts) (b_alter_table rec' d ts). Proof. unfold b_alter_table. msweep. Qed.
  Lemma M_update_set_column ts : LEQ (update_set_column rec d ts) (update_set_column rec' d ts). Proof. unfold update_set_column. msweep. Qed.
  Hint Resolve M_b_alter_table M_update_set_column : mo.
  Lemma M_b_update w ts : LEQ (b_update rec d w ts) (b_update rec' d w ts). Proof. unfold b_update. msweep. Qed.
  Lemma M_b_delete ts : LEQ (b_delete rec d ts) (b_delete rec' d ts). Proof. unfold b_delete. msweep. Qed.
  Lemma M_b_show_columns ts : LEQ (b_show_columns rec d ts) (b_show_columns rec' d ts). Proof. unfold b_show_columns. msweep. Qed.
  Hint Resolve M_b_update M_b_delete M_b_show_columns : mo.
  Lemma M_b_statement ts : LEQ (b_statement rec d ts) (b_statement rec' d ts). Proof. unfold b_statement. msweep. Qed.
  Hint Resolve M_b_statement : mo.
  Theorem M_body f a ts : LEQ (body rec d f a ts) (body rec' d f a ts).
  Proof. unfold body. destruct f; try solve [eauto 3 with mo]. destruct a; [apply M_b_array_index|apply LEQ_refl]. Qed.
End BodyMono.

Theorem LEQ_run : forall n m f d a ts, n <= m -> LEQ (run n f d a ts) (run m f d a ts).
Proof.
  induction n as [|n IH]; intros m f d a ts Hle; [exact I|]. destruct m as [|m]; [lia|]. cbn [run].
  apply M_body. intros f' d' a' ts'. apply IH. lia.
Qed.

Corollary run_fuel_stable n m f d a ts : n <= m -> run n f d a ts <> Err OutOfFuel -> run m f d a ts = run n f d a ts.
Proof. intros Hle Hne. pose proof (LEQ_run n m f d a ts Hle) as H. unfold LEQ in H. destruct (run n f d a ts) as [x|[]]; try exact H. contradiction. Qed.

(* with the termination theorem: beyond fuel_for the answer no longer changes *)
Theorem run_fuel_independent n f d a ts : fuel_for ts <= n -> run n f d a ts = run (fuel_for ts) f d a ts.
Proof. intros Hle. apply run_fuel_stable; [exact Hle|apply fuel_for_adequate]. Qed.

Lemma LEQ_statements_loop : forall n n' fuel fuel' d ts acc, n <= n' -> fuel <= fuel' ->
  LEQ (statements_loop n fuel d ts acc) (statements_loop n' fuel' d ts acc).
Proof.
  induction n as [|n IH]; intros n' fuel fuel' d ts acc Hn Hf; [exact I|]. destruct n' as [|n']; [lia|]. cbn [statements_loop].
  destruct (is_finish ts); [apply LEQ_refl|].
  pose proof (LEQ_run fuel fuel' F_statement d None ts Hf) as H. destruct (run fuel F_statement d None ts) as [[v t1]|e].
  - unfold LEQ in H. rewrite H. destruct (take_str (S ";") t1) as [b t2]. apply IH; lia.
  - destruct e; try exact I; unfold LEQ in H; rewrite H; apply LEQ_refl.
Qed.
Theorem script_fuel_independent n fuel d ts : Datatypes.S (List.length ts) <= n -> fuel_for ts <= fuel ->
  statements_loop n fuel d ts [] = statements_loop (Datatypes.S (List.length ts)) (fuel_for ts) d ts [].
Proof.
  intros Hn Hf. pose proof (LEQ_statements_loop _ n _ fuel d ts [] Hn Hf) as H. pose proof (script_budget_adequate d ts) as N.
  unfold LEQ in H. destruct (statements_loop (Datatypes.S (List.length ts)) (fuel_for ts) d ts []) as [x|[]]; try exact H. contradiction.
Qed.
