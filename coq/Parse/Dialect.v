(* Sixth whole-model result (a frame theorem for C13): the dialect reaches the parser model ONLY through its two operator sets (the unary
   operators and the spellings of NOT).  Two dialects with the same sets are parsed identically by every parse function, at every depth:
   the dialect argument is passed on unchanged by every call and nothing else looks at it.  With the shipped tables, MYSQL, ORACLE, DB2, POSTGRE_SQL,
   SQL_SERVER and DEFAULT differ in nothing but their text pre-pass, and HIVE differs from them exactly by '!' meaning NOT instead of a unary operator. *)
From Coq Require Import List NArith ZArith Bool String Ascii Lia Arith.
Require Import Base.Common Gen.LexTable Lex.Model Cur.Model Tree.Value Gen.Static Parse.Prim Parse.Model Parse.Suffix Parse.Fuel Parse.Mono.
Import ListNotations.
Open Scope string_scope.
Open Scope list_scope.
Local Open Scope nat_scope.

Create HintDb dl.
#[global] Hint Resolve LEQ_refl : dl.
Ltac mcallee ::= first [ eassumption | solve [eauto 3 with dl] ].
Section BodyDialect.
  Variables rec rec' : REC.
  Variables d d' : sqltype.
  Hypothesis Hu : unary_operator_set d' = unary_operator_set d.
  Hypothesis Hn : not_operator_set d' = not_operator_set d.
  Hypothesis Hrec : forall f a ts, LEQ (rec f d a ts) (rec' f d' a ts).
  Lemma D_r f ts : LEQ (r rec d f ts) (r rec' d' f ts). Proof. unfold r. rewrite ?Hu, ?Hn. apply Hrec. Qed.
  Lemma D_r1 f a ts : LEQ (r1 rec d f a ts) (r1 rec' d' f a ts). Proof. unfold r1. rewrite ?Hu, ?Hn. apply Hrec. Qed.
  Hint Resolve D_r D_r1 : dl.
  Ltac mhook ::=
    lazymatch goal with
    | |- LEQ (sep_list _ _ _) _ => apply M_sep_list; intros; msweep
    | |- LEQ (sep_more _ _ _ _ _) _ => apply M_sep_more; intros; msweep
    | |- LEQ (each_closed _ _) _ => apply M_each_closed; intros; msweep
    | |- LEQ (opt_list _ (sep_list _ _) _) _ => apply M_opt_list_item; intros; msweep
    | |- LEQ (compute_loop _ _ _ _ _) _ => apply M_compute_loop; intros; msweep
    | |- LEQ (left_loop _ _ _ _ _) _ => apply M_left_loop; intros; msweep
    | |- LEQ (while_clause _ _ _ _ _) _ => apply M_while_clause; intros; msweep
    | |- LEQ (by_clause _ _ _ _ _) _ => apply M_by_clause; intros; msweep
    | |- LEQ (args_list _ _) _ => apply M_args_list; intros; msweep
    | |- LEQ (call_args _ _ _) _ => apply M_call_args; intros; msweep
    end.
  Lemma D_b_extract ts : LEQ (b_extract rec d ts) (b_extract rec' d' ts). Proof. unfold b_extract. rewrite ?Hu, ?Hn. msweep. Qed.
  Lemma D_b_cast ts : LEQ (b_cast rec d ts) (b_cast rec' d' ts). Proof. unfold b_cast. rewrite ?Hu, ?Hn. msweep. Qed.
  Lemma D_b_if ts : LEQ (b_if rec d ts) (b_if rec' d' ts). Proof. unfold b_if. rewrite ?Hu, ?Hn. msweep. Qed.
  Hint Resolve D_b_extract D_b_cast D_b_if : dl.
  Lemma D_b_function ts : LEQ (b_function rec d ts) (b_function rec' d' ts). Proof. unfold b_function. rewrite ?Hu, ?Hn. msweep. Qed.
  Lemma D_b_array_index b ts : LEQ (b_array_index rec d b ts) (b_array_index rec' d' b ts). Proof. unfold b_array_index. rewrite ?Hu, ?Hn. msweep. Qed.
  Lemma D_b_function_and_index ts : LEQ (b_function_and_index rec d ts) (b_function_and_index rec' d' ts). Proof. unfold b_function_and_index. rewrite ?Hu, ?Hn. msweep. Qed.
  Lemma D_b_in_parenthesis ts : LEQ (b_in_parenthesis rec d ts) (b_in_parenthesis rec' d' ts). Proof. unfold b_in_parenthesis. rewrite ?Hu, ?Hn. msweep. Qed.
  Lemma D_b_window ts : LEQ (b_window rec d ts) (b_window rec' d' ts). Proof. unfold b_window. rewrite ?Hu, ?Hn. msweep. Qed.
  Lemma D_when_loop cls : forall n ts acc, LEQ (when_loop rec d n cls ts acc) (when_loop rec' d' n cls ts acc).
  Proof. induction n as [|n IH]; intros ts acc; cbn [when_loop]; rewrite ?Hu, ?Hn; msweep. Qed.
  Hint Resolve D_b_function D_b_array_index D_b_function_and_index D_b_in_parenthesis D_b_window D_when_loop : dl.
  Lemma D_b_case ts : LEQ (b_case rec d ts) (b_case rec' d' ts). Proof. unfold b_case. rewrite ?Hu, ?Hn. msweep. Qed.
  Lemma D_b_sub_query ts : LEQ (b_sub_query rec d ts) (b_sub_query rec' d' ts). Proof. unfold b_sub_query. rewrite ?Hu, ?Hn. msweep. Qed.
  Lemma D_b_sub_value ts : LEQ (b_sub_value rec d ts) (b_sub_value rec' d' ts). Proof. unfold b_sub_value. rewrite ?Hu, ?Hn. msweep. Qed.
  Lemma D_b_general_parenthesis ts : LEQ (b_general_parenthesis rec d ts) (b_general_parenthesis rec' d' ts). Proof. unfold b_general_parenthesis. rewrite ?Hu, ?Hn. msweep. Qed.
  Lemma D_b_element ts : LEQ (b_element rec d ts) (b_element rec' d' ts). Proof. unfold b_element. rewrite ?Hu, ?Hn. msweep. Qed.
  Lemma D_b_unary ts : LEQ (b_unary rec d ts) (b_unary rec' d' ts). Proof. unfold b_unary. rewrite ?Hu, ?Hn. msweep. Qed.
  Lemma D_b_compute ts : LEQ (b_compute rec d ts) (b_compute rec' d' ts). Proof. unfold b_compute. rewrite ?Hu, ?Hn. msweep. Qed.
  Hint Resolve D_b_case D_b_sub_query D_b_sub_value D_b_general_parenthesis D_b_element D_b_unary D_b_compute : dl.
  Lemma D_b_keyword_condition before ts : LEQ (b_keyword_condition rec d before ts) (b_keyword_condition rec' d' before ts). Proof. unfold b_keyword_condition. rewrite ?Hu, ?Hn. destruct before; msweep. Qed.
  Lemma D_b_operator_condition ts : LEQ (b_operator_condition rec d ts) (b_operator_condition rec' d' ts). Proof. unfold b_operator_condition. rewrite ?Hu, ?Hn. msweep. Qed.
  Lemma D_b_logical_not ts : LEQ (b_logical_not rec d ts) (b_logical_not rec' d' ts). Proof. unfold b_logical_not. rewrite ?Hu, ?Hn. msweep. Qed.
  Lemma D_layer cls sub kws ts : LEQ (layer rec d cls sub kws ts) (layer rec' d' cls sub kws ts). Proof. unfold layer. rewrite ?Hu, ?Hn. msweep. Qed.
  Hint Resolve D_b_keyword_condition D_b_operator_condition D_b_logical_not D_layer : dl.
  Lemma D_b_logical_and ts : LEQ (b_logical_and rec d ts) (b_logical_and rec' d' ts). Proof. apply D_layer. Qed.
  Lemma D_b_logical_xor ts : LEQ (b_logical_xor rec d ts) (b_logical_xor rec' d' ts). Proof. apply D_layer. Qed.
  Lemma D_b_logical_or ts : LEQ (b_logical_or rec d ts) (b_logical_or rec' d' ts). Proof. apply D_layer. Qed.
  Lemma D_b_order_by_column ts : LEQ (b_order_by_column rec d ts) (b_order_by_column rec' d' ts). Proof. unfold b_order_by_column. rewrite ?Hu, ?Hn. msweep. Qed.
  Lemma D_b_table_expression ts : LEQ (b_table_expression rec d ts) (b_table_expression rec' d' ts). Proof. unfold b_table_expression. rewrite ?Hu, ?Hn. msweep. Qed.
  Lemma D_b_from_table ts : LEQ (b_from_table rec d ts) (b_from_table rec' d' ts). Proof. unfold b_from_table. rewrite ?Hu, ?Hn. msweep. Qed.
  Lemma D_b_select_column ts : LEQ (b_select_column rec d ts) (b_select_column rec' d' ts). Proof. unfold b_select_column. rewrite ?Hu, ?Hn. msweep. Qed.
  Hint Resolve D_b_logical_and D_b_logical_xor D_b_logical_or D_b_order_by_column D_b_table_expression D_b_from_table D_b_select_column : dl.
  Lemma D_b_select_clause ts : LEQ (b_select_clause rec d ts) (b_select_clause rec' d' ts). Proof. unfold b_select_clause. rewrite ?Hu, ?Hn. msweep. Qed.
  Lemma D_b_from_clause ts : LEQ (b_from_clause rec d ts) (b_from_clause rec' d' ts). Proof. unfold b_from_clause. rewrite ?Hu, ?Hn. msweep. Qed.
  Lemma D_b_lateral_view ts : LEQ (b_lateral_view rec d ts) (b_lateral_view rec' d' ts). Proof. unfold b_lateral_view. rewrite ?Hu, ?Hn. msweep. Qed.
  Lemma D_b_join_expression ts : LEQ (b_join_expression rec d ts) (b_join_expression rec' d' ts). Proof. unfold b_join_expression. rewrite ?Hu, ?Hn. msweep. Qed.
  Hint Resolve D_b_select_clause D_b_from_clause D_b_lateral_view D_b_join_expression : dl.
  Lemma D_b_join_clause ts : LEQ (b_join_clause rec d ts) (b_join_clause rec' d' ts). Proof. unfold b_join_clause. rewrite ?Hu, ?Hn. msweep. Qed.
  Lemma D_b_where ts : LEQ (b_where rec d ts) (b_where rec' d' ts). Proof. unfold b_where. rewrite ?Hu, ?Hn. msweep. Qed.
  Lemma D_b_having ts : LEQ (b_having rec d ts) (b_having rec' d' ts). Proof. unfold b_having. rewrite ?Hu, ?Hn. msweep. Qed.
  Lemma D_b_grouping_sets ts : LEQ (b_grouping_sets rec d ts) (b_grouping_sets rec' d' ts). Proof. unfold b_grouping_sets. rewrite ?Hu, ?Hn. msweep. Qed.
  Hint Resolve D_b_join_clause D_b_where D_b_having D_b_grouping_sets : dl.
  Lemma D_b_group_by ts : LEQ (b_group_by rec d ts) (b_group_by rec' d' ts). Proof. unfold b_group_by. rewrite ?Hu, ?Hn. msweep. Qed.
  Lemma D_b_order_by ts : LEQ (b_order_by rec d ts) (b_order_by rec' d' ts). Proof. apply M_by_clause. intros; msweep. Qed.
  Lemma D_b_sort_by ts : LEQ (b_sort_by rec d ts) (b_sort_by rec' d' ts). Proof. apply M_by_clause. intros; msweep. Qed.
  Lemma D_b_distribute_by ts : LEQ (b_distribute_by rec d ts) (b_distribute_by rec' d' ts). Proof. apply M_by_clause. intros; msweep. Qed.
  Lemma D_b_cluster_by ts : LEQ (b_cluster_by rec d ts) (b_cluster_by rec' d' ts). Proof. apply M_by_clause. intros; msweep. Qed.
  Hint Resolve D_b_group_by D_b_order_by D_b_sort_by D_b_distribute_by D_b_cluster_by : dl.
  Lemma D_b_with_table ts : LEQ (b_with_table rec d ts) (b_with_table rec' d' ts). Proof. unfold b_with_table. rewrite ?Hu, ?Hn. msweep. Qed.
  Lemma D_b_with_clause ts : LEQ (b_with_clause rec d ts) (b_with_clause rec' d' ts). Proof. unfold b_with_clause. rewrite ?Hu, ?Hn. msweep. Qed.
  Hint Resolve D_b_with_table D_b_with_clause : dl.
  Lemma D_b_single_select w ts : LEQ (b_single_select rec d w ts) (b_single_select rec' d' w ts). Proof. unfold b_single_select. rewrite ?Hu, ?Hn. destruct w; msweep. Qed.
  Lemma D_union_loop wc : forall n ts acc, LEQ (union_loop rec d n wc ts acc) (union_loop rec' d' n wc ts acc).
  Proof. induction n as [|n IH]; intros ts acc; cbn [union_loop]; rewrite ?Hu, ?Hn; msweep. Qed.
  Hint Resolve D_b_single_select D_union_loop : dl.
  Lemma D_b_select w ts : LEQ (b_select rec d w ts) (b_select rec' d' w ts). Proof. unfold b_select. rewrite ?Hu, ?Hn. destruct w; msweep. Qed.
  Lemma D_b_column_type ts : LEQ (b_column_type rec d ts) (b_column_type rec' d' ts). Proof. unfold b_column_type. rewrite ?Hu, ?Hn. msweep. Qed.
  Hint Resolve D_b_select D_b_column_type : dl.
  Lemma D_partition_items one one' : (forall sg, LEQ (one sg) (one' sg)) -> forall l acc dy nd, LEQ (partition_items one l acc dy nd) (partition_items one' l acc dy nd).
  Proof. intros Ho. induction l as [|sg l IH]; intros acc dy nd; cbn [partition_items]; rewrite ?Hu, ?Hn; msweep. Qed.
  Ltac mhook ::=
    lazymatch goal with
    | |- LEQ (sep_list _ _ _) _ => apply M_sep_list; intros; msweep
    | |- LEQ (sep_more _ _ _ _ _) _ => apply M_sep_more; intros; msweep
    | |- LEQ (each_closed _ _) _ => apply M_each_closed; intros; msweep
    | |- LEQ (opt_list _ (sep_list _ _) _) _ => apply M_opt_list_item; intros; msweep
    | |- LEQ (compute_loop _ _ _ _ _) _ => apply M_compute_loop; intros; msweep
    | |- LEQ (left_loop _ _ _ _ _) _ => apply M_left_loop; intros; msweep
    | |- LEQ (while_clause _ _ _ _ _) _ => apply M_while_clause; intros; msweep
    | |- LEQ (by_clause _ _ _ _ _) _ => apply M_by_clause; intros; msweep
    | |- LEQ (args_list _ _) _ => apply M_args_list; intros; msweep
    | |- LEQ (call_args _ _ _) _ => apply M_call_args; intros; msweep
    | |- LEQ (partition_items _ _ _ _ _) _ => apply D_partition_items; intros; msweep
    end.
  Lemma D_b_partition already ts : LEQ (b_partition rec d already ts) (b_partition rec' d' already ts). Proof. unfold b_partition. rewrite ?Hu, ?Hn. msweep. Qed.
  Hint Resolve D_b_partition : dl.
  Lemma D_b_generated ts : LEQ (b_generated rec d ts) (b_generated rec' d' ts). Proof. unfold b_generated. rewrite ?Hu, ?Hn. msweep. Qed.
  Hint Resolve D_b_generated : dl.
  Lemma D_column_attrs : forall n a ts, LEQ (column_attrs rec d n a ts) (column_attrs rec' d' n a ts).
  Proof. induction n as [|n IH]; intros a ts; cbn [column_attrs]; rewrite ?Hu, ?Hn; msweep. Qed.
  Hint Resolve D_column_attrs : dl.
  Lemma D_b_define_column ts : LEQ (b_define_column rec d ts) (b_define_column rec' d' ts). Proof. unfold b_define_column. rewrite ?Hu, ?Hn. msweep. Qed.
  Hint Resolve D_b_define_column : dl.
  Lemma D_b_column_or_index ts : LEQ (b_column_or_index rec d ts) (b_column_or_index rec' d' ts). Proof. unfold b_column_or_index. rewrite ?Hu, ?Hn. msweep. Qed.
  Lemma D_opt_partition ts : LEQ (opt_partition rec d ts) (opt_partition rec' d' ts). Proof. unfold opt_partition. rewrite ?Hu, ?Hn. msweep. Qed.
  Lemma D_values_loop : forall n ts acc, LEQ (values_loop rec d n ts acc) (values_loop rec' d' n ts acc).
  Proof. induction n as [|n IH]; intros ts acc; cbn [values_loop]; rewrite ?Hu, ?Hn; msweep. Qed.
  Hint Resolve D_b_column_or_index D_opt_partition D_values_loop : dl.
  Lemma D_b_insert w ts : LEQ (b_insert rec d w ts) (b_insert rec' d' w ts). Proof. unfold b_insert. rewrite ?Hu, ?Hn. destruct w; msweep. Qed.
  Hint Resolve D_b_insert : dl.
  Lemma D_table_options : forall n o ts, LEQ (table_options rec d n o ts) (table_options rec' d' n o ts).
  Proof. induction n as [|n IH]; intros o ts; cbn [table_options]; rewrite ?Hu, ?Hn; msweep. Qed.
  Lemma D_table_defs : forall segs a, LEQ (table_defs rec d segs a) (table_defs rec' d' segs a).
  Proof. induction segs as [|sg segs IH]; intros a; cbn [table_defs]; rewrite ?Hu, ?Hn; msweep. Qed.
  Hint Resolve D_table_options D_table_defs : dl.
  Lemma D_b_create_table ts : LEQ (b_create_table rec d ts) (b_create_table rec' d' ts). Proof. unfold b_create_table. rewrite ?Hu, ?Hn. msweep. Qed.
  Lemma D_b_analyze ts : LEQ (b_analyze rec d ts) (b_analyze rec' d' ts). Proof. unfold b_analyze. rewrite ?Hu, ?Hn. msweep. Qed.
  Lemma D_b_alter_expression ts : LEQ (b_alter_expression rec d ts) (b_alter_expression rec' d' ts). Proof. unfold b_alter_expression. rewrite ?Hu, ?Hn. msweep. Qed.
  Hint Resolve D_b_create_table D_b_analyze D_b_alter_expression : dl.
  Lemma D_b_alter_table ts : LEQ (b_alter_table rec d ts) (b_alter_table rec' d' ts). Proof. unfold b_alter_table. rewrite ?Hu, ?Hn. msweep. Qed.
  Lemma D_update_set_column ts : LEQ (update_set_column rec d ts) (update_set_column rec' d' ts). Proof. unfold update_set_column. rewrite ?Hu, ?Hn. msweep. Qed.
  Hint Resolve D_b_alter_table D_update_set_column : dl.
  Lemma D_b_update w ts : LEQ (b_update rec d w ts) (b_update rec' d' w ts). Proof. unfold b_update. rewrite ?Hu, ?Hn. msweep. Qed.
  Lemma D_b_delete ts : LEQ (b_delete rec d ts) (b_delete rec' d' ts). Proof. unfold b_delete. rewrite ?Hu, ?Hn. msweep. Qed.
  Lemma D_b_show_columns ts : LEQ (b_show_columns rec d ts) (b_show_columns rec' d' ts). Proof. unfold b_show_columns. rewrite ?Hu, ?Hn. msweep. Qed.
  Hint Resolve D_b_update D_b_delete D_b_show_columns : dl.
  Lemma D_b_statement ts : LEQ (b_statement rec d ts) (b_statement rec' d' ts). Proof. unfold b_statement. rewrite ?Hu, ?Hn. msweep. Qed.
  Hint Resolve D_b_statement : dl.
  Theorem D_body f a ts : LEQ (body rec d f a ts) (body rec' d' f a ts).
  Proof. unfold body. rewrite ?Hu, ?Hn. destruct f; try solve [eauto 3 with dl]. destruct a; [apply D_b_array_index|apply LEQ_refl]. Qed.
End BodyDialect.


Lemma LEQ_antisym {A} (x y : res A) : LEQ x y -> LEQ y x -> x = y.
Proof. unfold LEQ. destruct x as [a|[]], y as [b|[]]; intros H1 H2; try congruence; try (symmetry; exact H2). Qed.

Theorem LEQ_dialect d d' : unary_operator_set d' = unary_operator_set d -> not_operator_set d' = not_operator_set d ->
  forall fuel f a ts, LEQ (run fuel f d a ts) (run fuel f d' a ts).
Proof.
  intros Hu Hn. induction fuel as [|n IH]; intros f a ts; [exact I|]. cbn [run]. apply D_body; assumption.
Qed.
Theorem dialect_frame d d' : unary_operator_set d' = unary_operator_set d -> not_operator_set d' = not_operator_set d ->
  forall fuel f a ts, run fuel f d a ts = run fuel f d' a ts.
Proof. intros Hu Hn fuel f a ts. apply LEQ_antisym; [apply LEQ_dialect; assumption|apply LEQ_dialect; symmetry; assumption]. Qed.

Definition same_sets (d d' : sqltype) : Prop := unary_operator_set d' = unary_operator_set d /\ not_operator_set d' = not_operator_set d.
Corollary same_sets_parse_alike d d' : same_sets d d' -> forall fuel f a ts, run fuel f d a ts = run fuel f d' a ts.
Proof. intros [H1 H2]. apply dialect_frame; assumption. Qed.
Corollary same_sets_scripts_alike d d' : same_sets d d' -> forall n fuel ts acc, statements_loop n fuel d ts acc = statements_loop n fuel d' ts acc.
Proof.
  intros H. induction n as [|n IH]; intros fuel ts acc; [reflexivity|]. cbn [statements_loop]. destruct (is_finish ts); [reflexivity|].
  rewrite (same_sets_parse_alike d d' H). destruct (run fuel F_statement d' None ts) as [[v t1]|e]; [|reflexivity]. destruct (take_str (S ";") t1). apply IH.
Qed.
