(* Primitives of the parser model: the token cursor seen as "the remaining tokens" (the elements never change and the
   position only moves forward -- Cur/Proofs.v), result monad, string helpers (strip / split / count / replace / int()). *)
From Coq Require Import List NArith ZArith Bool String Ascii.
Require Import Base.Common Gen.LexTable Lex.Model Cur.Model Tree.Value Gen.Static.
Import ListNotations.
Open Scope N_scope.
Open Scope list_scope.

Definition toks := list tok.
Definition PR := res (value * toks).

Notation "'let*' x ':=' e 'in' k" := (match e with Ok x => k | Err err_ => Err err_ end)
  (at level 200, x pattern, e at level 100, k at level 200, right associativity).

(* ---------- peeking ---------- *)
Definition peek_mark (m : N) (ts : toks) : bool := match ts with t :: _ => has_mark t m | [] => false end.
Definition peek_str (s : str) (ts : toks) : bool := match ts with t :: _ => source_equal t s | [] => false end.
Definition peek_up (s : str) (ts : toks) : bool := match ts with t :: _ => source_equal_upper t s | [] => false end.
Definition peek_up2 (a b : str) (ts : toks) : bool :=
  match ts with t0 :: t1 :: _ => source_equal_upper t0 a && source_equal_upper t1 b | _ => false end.
Definition peek_up3 (a b c : str) (ts : toks) : bool :=
  match ts with t0 :: t1 :: t2 :: _ => source_equal_upper t0 a && source_equal_upper t1 b && source_equal_upper t2 c | _ => false end.
Definition peek_set (l : list str) (ts : toks) : bool := match ts with t :: _ => mem_str (source t) l | [] => false end.
Definition peek_set_up (l : list str) (ts : toks) : bool := match ts with t :: _ => mem_str (upper (source t)) l | [] => false end.
Definition peek_pats (ps : list pat) (ts : toks) : bool := search_from ts ps.
Definition hd_src (ts : toks) : option str := match ts with t :: _ => Some (source t) | [] => None end.
Definition is_finish (ts : toks) : bool := match ts with [] => true | _ => false end.

(* ---------- search_and_move*: (answer, remaining tokens) ---------- *)
Definition take (b : bool) (k : nat) (ts : toks) : bool * toks := if b then (true, skipn k ts) else (false, ts).
Definition take_str (s : str) (ts : toks) := take (peek_str s ts) 1 ts.
Definition take_up (s : str) (ts : toks) := take (peek_up s ts) 1 ts.
Definition take_up2 (a b : str) (ts : toks) := take (peek_up2 a b ts) 2 ts.
Definition take_up3 (a b c : str) (ts : toks) := take (peek_up3 a b c ts) 3 ts.
Definition take_set_up (l : list str) (ts : toks) := take (peek_set_up l ts) 1 ts.
Definition take_pats (ps : list pat) (ts : toks) := take (peek_pats ps ts) (List.length ps) ts.
Definition PS (l : list string) : list pat := map (fun x => PStr (S x)) l.

(* ---------- raising primitives ---------- *)
Definition match_pats (ps : list pat) (ts : toks) : res toks :=
  if peek_pats ps ts then Ok (skipn (List.length ps) ts) else Err ParseErr.
Definition pop (ts : toks) : res (tok * toks) := match ts with t :: r => Ok (t, r) | [] => Err ParseErr end.
Definition pop_src (ts : toks) : res (str * toks) := match ts with t :: r => Ok (source t, r) | [] => Err ParseErr end.
Definition pop_children (ts : toks) : res (toks * toks) :=
  match ts with t :: r => if is_group t then Ok (tok_children t, r) else Err ParseErr | [] => Err ParseErr end.
Definition peek_children (ts : toks) : res toks := match ts with t :: _ => Ok (tok_children t) | [] => Err ParseErr end.
Definition pop_split (s : str) (ts : toks) : res (list toks * toks) :=
  match ts with t :: r => if is_group t then Ok (split_by (tok_children t) s [], r) else Err ParseErr | [] => Err ParseErr end.
Definition close (ts : toks) : res unit := match ts with [] => Ok tt | _ => Err ParseErr end.

(* ---------- strings ---------- *)
Fixpoint lstrip (c : N) (s : str) : str := match s with x :: r => if N.eqb x c then lstrip c r else s | [] => [] end.
Definition strip (c : N) (s : str) : str := rev (lstrip c (rev (lstrip c s))).
Definition unify_name (s : str) : str := strip 96 s.          (* text.strip("`") *)
Definition count_ch (c : N) (s : str) : nat := List.length (filter (N.eqb c) s).
Fixpoint split_ch (c : N) (s : str) (cur : str) : list str :=
  match s with
  | [] => [rev cur]
  | x :: r => if N.eqb x c then rev cur :: split_ch c r [] else split_ch c r (x :: cur)
  end.

Fixpoint prefix (p s : str) : option str :=
  match p, s with
  | [], _ => Some s
  | x :: p', y :: s' => if N.eqb x y then prefix p' s' else None
  | _ :: _, [] => None
  end.
(* str.replace(pat, rep): left-to-right, non-overlapping (pat non-empty) *)
Fixpoint replace_all (fuel : nat) (pat rep s : str) : str :=
  match fuel with
  | O => s
  | Datatypes.S f =>
      match s with
      | [] => []
      | x :: r => match prefix pat s with
                  | Some rest => rep ++ replace_all f pat rep rest
                  | None => x :: replace_all f pat rep r
                  end
      end
  end.
Definition replace (pat rep s : str) : str := replace_all (Datatypes.S (List.length s)) pat rep s.

(* common.basic.is_int_literal + int(): optional sign, ASCII digits (non-ASCII decimal digits are not modelled) *)
Definition is_digit_ch (c : N) : bool := (48 <=? c) && (c <=? 57).
Fixpoint digits_val (s : str) (acc : Z) : Z := match s with [] => acc | c :: r => digits_val r (acc * 10 + Z.of_N (c - 48))%Z end.
Definition py_int (s : str) : option Z :=
  let body sgn d := match d with [] => None | _ => if forallb is_digit_ch d then Some (sgn * digits_val d 0)%Z else None end in
  match s with
  | 43 :: d => body 1%Z d
  | 45 :: d => body (-1)%Z d
  | _ => body 1%Z s
  end.

(* ---------- values ---------- *)
Definition vopt_str (o : option str) : value := match o with Some s => VStr s | None => VNone end.
Definition vbool (b : bool) : value := VBool b.
Definition vtuple (l : list value) : value := VTuple l.
Definition node (cls : string) (fs : list (string * value)) : value := VNode cls fs.
Definition venum (cls name : string) : value := VEnum cls name.

Fixpoint assoc_str {B} (k : str) (l : list (str * B)) : option B :=
  match l with [] => None | (k', v) :: l' => if str_eqb k k' then Some v else assoc_str k l' end.

(* separated list: item (sep item)*, as the `while scanner.search_and_move_one_type_str(sep)` loops do *)
Fixpoint sep_more (n : nat) (item : toks -> PR) (sep : str) (ts : toks) (acc : list value) : res (list value * toks) :=
  match n with
  | O => Err OutOfFuel
  | Datatypes.S n' =>
      let '(b, ts1) := take_str sep ts in
      if b then let* (v, ts2) := item ts1 in sep_more n' item sep ts2 (v :: acc)
      else Ok (rev acc, ts)
  end.
Definition sep_list (item : toks -> PR) (sep : str) (ts : toks) : res (list value * toks) :=
  let* (v, ts1) := item ts in sep_more (Datatypes.S (List.length ts1)) item sep ts1 [v].

(* every segment of a split group is parsed by `item` and must be consumed completely *)
Fixpoint each_closed (item : toks -> PR) (segs : list toks) : res (list value) :=
  match segs with
  | [] => Ok []
  | sg :: segs' =>
      let* (v, r) := item sg in
      let* _ := close r in
      let* vs := each_closed item segs' in Ok (v :: vs)
  end.
